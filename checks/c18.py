"""C18 - Files assembled in one invocation do not influence each other.

Specification: spec/Driver.tla (FileBegin/PassBegin = Fresh(carry), AsmFile, Outcome; deviation parameter Leaky =
mode flags that survive AssembleFile_InitPass), step machine spec/Driver_MC.tla.

(M) Driver_MC_Hist.cfg (thorough also Driver_MC_Hist3.cfg: 3 files of 1 line class): every history of 2 files of <= 2
    line classes over
    {ok, err, forward reference, EXPECT, flag f, probe f, 8 constructs left open (IF 0/IF 1/MACRO/REPT/SECTION/
    STRUCT/SAVE/PHASE)} x -maxerrors {0,1}: FreshStart (every file starts from Fresh({})), Independent
    (result(f | history) = AsmFile(f) alone), MachineIsOutcome and the C02 clauses.
    Driver_MC_Leaky.cfg (Leaky = {"dotted"}, the tree as originally pinned) and Driver_MC_LeakyCpu.cfg (Leaky =
    {"switchocc"}, SetCPUCore forgetting SwitchIsOccupied): TLC must find the Independent counterexample.
(G) generated histories: Driver_Gen_Hist.cfg = transition cover with a VIEW that distinguishes what the predecessor
    did (flags set, constructs left open, EXPECT pending, error), predecessor <= 2 line classes, successor 1
    (thorough 2) over 9 mode flags (DOTTEDSTRUCTS, RELAXED, PADDING, SUPMODE, ORG, RADIX, CHARSET, a symbol, CPU)
    and their probes, 2 tables (a macro, a function: defined by the predecessor, used by the successor) and the
    per-target state SetCPUCore clears (SWITCH/PAGE/SHIFT occupied by the OLMS-50 / SX20 / KENBAK targets, the table
    of per-target ON/OFF instructions): the predecessor visits such a target, the successor uses SWITCH..CASE / PAGE /
    SHIFT / an ON/OFF instruction of the visited target.  Rendered in Z80 / 8051 / 68000 / "no CPU statement" dialects (seed-chosen per file), every
    file with the same block of definitions (macro, function, structure, symbol, section) so that surviving tables
    collide.  `asl f1 f2` is compared with TLC's Outcome (status, kept files, summary, channel counts) and,
    verdict-bearing for C18, file by file with `asl f1` / `asl f2`: code file bytes, <name>.log (-E), the
    per-file section of the console output (time masked), and the exit status composed from the solo statuses.
    golden corpus, CHAINS (both tiers): `asl f1 f2 ... fN` in ONE invocation per group of identical asflags (the 191
    sources without asflags in one chain), forward, reversed and 3 (thorough 8) seeded permutations, compared member
    by member (every output below the member's directory: code file, <name>.log, share file) and as a whole (exit
    status, console) with the solo runs.  One chain covers every (earlier, later) pair of its order with the other
    sources in between, so the quick tier covers all ~36 k ordered pairs "through intermediates" in both directions;
    a member that differs is localised (every predecessor alone, then delta debugging over the predecessor list) and
    the responsible pair is what the VIOLATION names.  Direct neighbours: quick = every source once first and once
    second with a seed-chosen partner; thorough = all ordered pairs with identical asflags (36 k) + 1500 triples.  generated failing / polluting predecessors x golden successors (quick 1, thorough 8 successors per
    predecessor class).  Compared: every output file, stdout, stderr, exit status against the solo runs.
(V) Driver_Trace on the multi-file runs: FILE snapshot (ifasm=1, no SAVE stack, no input tag, stale pointers =
    exactly the residue of the previous file), every PASS event shows the state of the first pass of the
    process (segment, PC, IfAsm, CPU).  Rejections there are reported as SPEC-DRIFT (the state may be unfresh
    without changing any output); counter/loop/exit rejections are C02's.

    jump-error family: the two-file runs of Driver_Gen_Jump.cfg (tjmp / pjmp lines, with and without -Y; quick: 1200
    seed-chosen, thorough: all) rendered for 6502 / 68HC11, joint vs. solo as above.  Driver_MC_LeakyJmp.cfg (Leaky =
    {"jmperrors"}) must give the Independent counterexample.

(L) latent state INSIDE the code generators (checks/ext_genlatent.py, spec/GenLatent.tla, GenLatent_MC.tla,
    GenLatent_Gen.tla; added after a seeded change of code166.c InitCode_166 was missed): the dimension "where the
    predecessor stops x where the successor starts".  Model: per-generator latent state (one-shot trackers cur / nxt,
    sticky mode) that the generator's AddInitPassProc procedure must reset; Independent = the successor's code file,
    exit contribution and diagnostics are a function of its own text and the options only; TLC refutes the deviations
    Leak = {nxt} / {mode} and proves OnlyTailHead (a surviving tracker shows ONLY for last machine instruction of the
    predecessor = set h, first machine instruction of the successor = dep h).  TLC enumerates the histories as windows
    of golden sources (cut slot, start slot, trailer none / END / symbol + END / open construct, same / other family,
    a file of another family in between, reverse order, all pairs of single-instruction files); Python instantiates
    them for every golden source: cut / start points from the hook trace (lines that lay down code), windows with the
    smallest header that assembles alone, quick: 2 x 2 slots + trailers for each of the ~195 families with emitters
    (windows of <= 25 lines) and, of the all-kinds x all-kinds single-instruction pairs, those that an in-file probe
    (one source in which every kind follows every kind, in two orders) shows to interact at all (<= 48 per family whose
    generator registers an AddInitPassProc or tracks the previous instruction, <= 12 for the others) + 3 random ones;
    thorough: 6 x 6 slots, whole prefixes / suffixes, up to 4000 pairs per tracked family.  Compared per member with
    the solo run: code file, <name>.log (warnings included), exit status composed.  Findings on the unchanged tree:
    ASSUME registers of SX20 / 78K4 / MN1613 / OLMS-50 never reset (proposed_fixes/C18-assume-regs-reset.diff), ColdFire
    CPxNOP lays down a stale word (proposed_fixes/C18-cpnop-stale-word.diff): KNOWN-FINDING until applied.

Not covered: fatal predecessors end the run (the successor is not assembled: stated by the model, nothing to
compare); statics inside code generators are visible through the golden successors and the windows of (L) (instructions
reached only through macros / includes are never cut or start points; kinds beyond the bounds are sampled by seed); flags
are compared pairwise with identical asflags only (options are per invocation).

Finding on the tree as originally pinned: DOTTEDSTRUCTS ON survives into the next file (and the next pass):
DottedStructs was missing from AssembleFile_InitPass -> known_findings/C18.json,
proposed_fixes/C18-dottedstructs-reset.diff (applied to /repo by the coordinator).  It was the only dependence among
all 36 296 ordered pairs of golden sources with identical asflags.

Mutations of the real code (selftest/b218_mutants.py, scratch copies, all compile; `./check C18 --selftest`), every one
reported as VIOLATION by the quick tier: RELAXED kept from the previous file; IfAsm initialised only for the first
file; RadixBase not reset; ClearMacroList dropped (caught through golden pairs); function list kept (ClearFunctionList
and the list head reset dropped); both clean-ups of the EXPECT list dropped; default CPU taken from the previous file;
GlobErrFlag cleared by a later successful file; symbol table kept; SwitchIsOccupied / PageIsOccupied dropped from the
reset in SetCPUCore (found by the chains: t_olms50 somewhere before a source using SWITCH / PAGE, localised to that
pair; and by the generated visit/probe histories); ClearONOFF dropped from UnsetCPU.  Equivalent mutants met on the way (no behaviour
change, documented in the mutant file): dropping only one of two redundant resets (EXPECT list, FirstFunction/
FirstSymbol + Clear...List), DoPadding default in InitPass (every SwitchTo_xxx sets it again).
"""
import collections
import json
import os
import re

from vlib import aslrun, build, drvrender, drvrun, drvtrace, tlc
from checks import ext_genlatent
from vlib.aslrun import INCLUDE
from vlib.common import CheckError, Phase, log, pmap, rng
from vlib.report import Report

PID = "C18"
QUICK_TWO = 2000
QUICK_JUMP = 1200
THOROUGH_MAX = 200000
CHAIN_MAX = 240          # files per invocation (cmdarg.c: MAXPARAM = 256 arguments)
CHAIN_LOCALISE = 6       # differing members of one chain whose responsible predecessor is searched
COLLECT = (".p", ".log", ".lst", ".h", ".map")
_PROGRESS = re.compile(r"^[^\s()]+\(\d+\)$")        # "file(line)" progress display, appears depending on speed
_TIME = re.compile(r"(?:\d+ (?:hours?|minutes?), )*\d+[.,]\d\d seconds? assembly time")


# ---------------------------------------------------------------------------------------------------------
# generated histories
# ---------------------------------------------------------------------------------------------------------
def opts_argv(o):
    a = []
    if o.get("maxerr"):
        a += ["-maxerrors", str(o["maxerr"])]
    if o.get("werror"):
        a.append("-Werror")
    if o.get("suppw"):
        a.append("-w")
    if o.get("throw"):
        a.append("-Y")
    return a + ["-E"]                 # -E last: <name>.log per file


def sections(stdout):
    """console output split per assembled file (at 'Assembling <name>'), time masked"""
    out, cur = [], None
    for line in stdout.replace("\r", "\n").splitlines():
        if line.startswith("Assembling "):
            cur = [line.strip()]
            out.append(cur)
        elif cur is not None and line.strip() and not _PROGRESS.match(line.strip()):
            cur.append(_TIME.sub("<time>", line.strip()))
    return out


def per_file(name, res, idx):
    """what one file left behind in a run (idx = its position among the files the run assembled)"""
    base = name[:-4]
    secs = sections(res.out)
    return {"p": res.files.get(base + ".p"), "log": res.files.get(base + ".log"),
            "console": secs[idx] if idx < len(secs) else None}


def leakable(files):
    s = set()
    for i in range(len(files)):
        fl = {ln["f"] for ln in files[i] if ln["k"] == "flag"}
        for j in range(i + 1, len(files)):
            s |= fl & {ln["f"] for ln in files[j] if ln["k"] in ("probe", "use")}
    return s


class Hist:
    """one generated history: rendered files, the multi-file job and the solo jobs"""

    def __init__(self, tr, r, drop=None):
        self.tr = tr
        self.o = {"maxerr": tr["o"]["maxerr"], "werror": tr["o"]["werror"], "suppw": tr["o"]["suppw"],
                  "q": False, "gnu": False, "E": "log"}
        self.o["throw"] = bool(tr["o"].get("throw"))
        self.names = ["f%d.asm" % (i + 1) for i in range(len(tr["files"]))]
        self.jump = any(ln["k"] in ("tjmp", "pjmp") for f in tr["files"] for ln in f)
        if self.jump:
            # the jump-error family: targets that size operands themselves, the plain C02 rendering
            self.dialects = [r.choice(drvrender.JUMP_DIALECTS) for f in tr["files"]]
            self.texts = [drvrender.render_file(f, dl, i + 1) for i, (f, dl) in enumerate(zip(tr["files"], self.dialects))]
        else:
            self.dialects = [r.choice(drvrender.hist_dialects(f)) for f in tr["files"]]
            self.texts = []
            for i, (f, dl) in enumerate(zip(tr["files"], self.dialects)):
                lines = [ln for ln in f if not (drop and ln["k"] == "flag" and ln["f"] == drop and i < len(tr["files"]) - 1)]
                self.texts.append(drvrender.render_hist_file(lines, dl, i + 1))
        self.argv_opts = opts_argv(self.o)

    def multi_job(self, events=None):
        return {"files": dict(zip(self.names, self.texts)), "argv": self.names + self.argv_opts, "collect": COLLECT,
                "events": events, "timeout": 30}

    def solo_key(self, i):
        return (self.names[i], self.texts[i], tuple(self.argv_opts))

    def solo_job(self, i):
        return {"files": {self.names[i]: self.texts[i]}, "argv": [self.names[i]] + self.argv_opts,
                "collect": COLLECT, "timeout": 30}


def compare_hist(h, multi, solos):
    """-> list of differences between `asl f1 f2..` and the solo runs (empty = independent)"""
    diffs = []
    if multi.timeout or multi.sig is not None:
        return ["multi-file run ended abnormally (signal=%s timeout=%s)" % (multi.sig, multi.timeout)]
    exp_rc, alive = 0, True
    for i, name in enumerate(h.names):
        s = solos[i]
        if not alive:
            # a fatal error ended the run before this file: nothing of it may exist
            got = per_file(name, multi, i)
            if got["p"] is not None or got["log"] is not None or got["console"] is not None:
                diffs.append("%s was touched although an earlier file ended the run with a fatal error" % name)
            continue
        want = per_file(name, s, 0)
        got = per_file(name, multi, i)
        for k in ("p", "log", "console"):
            if want[k] != got[k]:
                diffs.append("%s: %s differs from the solo run (solo %s, in the joint run %s)"
                             % (name, {"p": "code file", "log": "diagnostics (<name>.log)", "console": "console section"}[k],
                                _short(want[k]), _short(got[k])))
        if s.rc == 3:
            exp_rc, alive = 3, False
        elif s.rc == 2 and exp_rc == 0:
            exp_rc = 2
    if multi.rc != exp_rc:
        diffs.append("exit status %s, composed from the solo runs: %s" % (multi.rc, exp_rc))
    return diffs


def _short(x):
    if x is None:
        return "absent"
    if isinstance(x, (bytes, bytearray)):
        return "%d bytes %s" % (len(x), bytes(x[-24:]).hex())
    return repr(x)[-300:]


def run_histories(rep, bld, trs, tier, execs):
    r = rng("c18/hist")
    hs = [Hist(t, rng("c18/h/%d" % i)) for i, t in enumerate(trs)]
    solo_jobs = {}
    for h in hs:
        for i in range(len(h.names)):
            solo_jobs.setdefault(h.solo_key(i), h.solo_job(i))
    keys = list(solo_jobs)
    with Phase("generated histories: %d joint runs, %d solo runs" % (len(hs), len(keys))):
        every = 3 if tier == "quick" else 5          # hook traces of every n-th joint run
        # (no hook traces under -Y: Driver_Trace replays the counters without the discount of jump errors)
        mres = drvrun.run_many(bld, [h.multi_job(events="file,diag,stmt" if (i % every == 0 and not h.o["throw"]) else None)
                                     for i, h in enumerate(hs)])
        sres = dict(zip(keys, drvrun.run_many(bld, [solo_jobs[k] for k in keys])))
    bad = []
    for h, m in zip(hs, mres):
        rep.evaluated()
        rep.distinct(json.dumps([h.texts, h.argv_opts]), True)
        solos = [sres[h.solo_key(i)] for i in range(len(h.names))]
        diffs = compare_hist(h, m, solos)
        # the joint run against the specification's Outcome (status, kept, summary, channel counts)
        exp = drvrender.expected(h.tr, h.o)
        obs = drvrender.observe(h.o, h.names, m)
        if obs != exp:
            diffs.append("joint run differs from Outcome(opts, files) of Driver.tla: expected %s observed %s"
                         % (json.dumps(exp), json.dumps(obs)))
        if diffs:
            bad.append((h, m, diffs))
        elif m.trace is not None:
            n = drvtrace.count_files(m.trace)
            execs.append((drvtrace.to_events(m.trace, h.o, m.rc, [(nm[:-4] + ".p") in m.files for nm in h.names[:n]]),
                          "generated %s" % json.dumps(h.tr["files"])))
    # attribution: which leaked flag explains a difference (the joint run without the predecessor's flag line)
    att_jobs = []
    for (h, m, diffs) in bad:
        for f in sorted(leakable(h.tr["files"])):
            h2 = Hist(h.tr, rng("x"), drop=f)
            h2.dialects, h2.names = h.dialects, h.names
            h2.texts = []
            for i, (fl, dl) in enumerate(zip(h.tr["files"], h.dialects)):
                lines = [ln for ln in fl if not (ln["k"] == "flag" and ln["f"] == f and i < len(h.tr["files"]) - 1)]
                h2.texts.append(drvrender.render_hist_file(lines, dl, i + 1))
            att_jobs.append((id(h), f, h2))
    ares = drvrun.run_many(bld, [h2.multi_job() for (_, _, h2) in att_jobs])
    culprits = collections.defaultdict(list)
    for (hid, f, h2), m2 in zip(att_jobs, ares):
        last = len(h2.names) - 1
        s = sres.get(h2.solo_key(last))
        if s is not None and per_file(h2.names[last], m2, last) == per_file(h2.names[last], s, 0):
            culprits[hid].append(f)
    for (h, m, diffs) in bad[:40]:
        cul = "+".join(sorted(culprits.get(id(h), []))) or "none"
        files = dict(zip(h.names, h.texts))
        files["argv"] = " ".join(h.names + h.argv_opts)
        files["stdout.txt"] = m.out[-3000:]
        if cul == "none" and h.jump and h.o["throw"] and any(ln["k"] in ("tjmp", "pjmp") for f in h.tr["files"][:-1] for ln in f):
            cul = "jmperrors"           # -Y and a jump error in an earlier file: the class a stale JmpErrors counter affects
        rep.violation("history %s (dialects %s): %s [leaked flag that explains it: %s]"
                      % (" ".join(h.names + h.argv_opts), h.dialects, "; ".join(diffs)[:1500], cul),
                      case=h.tr, files=files, key={"kind": "generated", "culprit": cul})
    return hs


# ---------------------------------------------------------------------------------------------------------
# golden corpus
# ---------------------------------------------------------------------------------------------------------
def _dir(t):
    """directory a golden test is copied to (a 5th element = alias, used to pair a source with itself)"""
    return t[4] if len(t) > 4 else t[0]


def _solo_files(t, res):
    if len(t) <= 4:
        return res.files
    old, new = (t[0] + "/").encode(), (t[4] + "/").encode()
    return {(t[4] + k[len(t[0]):]) if k.startswith(t[0] + "/") else k: (v if k.endswith(".p") else v.replace(old, new))
            for k, v in res.files.items()}


def corpus_job(ts, extra_files=None, events=None, pre=None):
    """ts: golden tests (name, dir, asm, flags) assembled in this order by one invocation; pre: names of generated
    files (in extra_files) assembled before them"""
    flags = ts[0][3] if ts else []
    names = list(pre or []) + ["%s/%s.asm" % (_dir(t), t[0]) for t in ts]
    copies, seen = [], set()
    for t in ts:
        if _dir(t) not in seen:
            seen.add(_dir(t))
            copies.append((t[1], _dir(t)))
    # -E last (no argument): diagnostics of every file go to its own <name>.log, so they can be compared per file
    return {"copy": copies, "files": dict(extra_files or {}), "argv": list(flags) + ["-q", "-i", INCLUDE] + names + ["-E"],
            "collect": COLLECT, "events": events, "timeout": 300}


def compare_corpus(multi, solos, ts=None):
    """multi: joint run; solos: solo results in order (ts: the golden tests they belong to).  -> differences"""
    if multi.timeout or multi.sig is not None or multi.rc not in (0, 2):
        return ["joint run ended abnormally (rc=%s signal=%s timeout=%s)" % (multi.rc, multi.sig, multi.timeout)]
    diffs = []
    want = {}
    for i, s in enumerate(solos):
        want.update(_solo_files(ts[i], s) if ts and ts[i] is not None else s.files)
    for k in sorted(set(want) | set(multi.files)):
        if want.get(k) != multi.files.get(k):
            diffs.append("%s differs (solo %s, joint %s)" % (k, _short(want.get(k)), _short(multi.files.get(k))))
    if multi.err != "".join(s.err for s in solos):
        diffs.append("diagnostics differ: joint %r solo %r" % (multi.err[:400], "".join(s.err for s in solos)[:400]))
    if multi.out != "".join(s.out for s in solos):
        diffs.append("console output differs")
    exp = 2 if any(s.rc == 2 for s in solos) else 0
    if multi.rc != exp:
        diffs.append("exit status %s, composed from the solo runs: %s" % (multi.rc, exp))
    return diffs


_DOTTED = re.compile(rb"^\s*dottedstructs\s+on", re.I | re.M)


def sets_dotted(t):
    try:
        with open(t[2], "rb") as f:
            return bool(_DOTTED.search(f.read()))
    except OSError:
        return False


def member_diffs(t, multi, solo_res):
    """differences of one member of a joint run against its solo run: every output below its directory"""
    want = _solo_files(t, solo_res)
    pre = _dir(t) + "/"
    got = {k: v for k, v in multi.files.items() if k.startswith(pre)}
    return ["%s differs (solo %s, joint %s)" % (k, _short(want.get(k)), _short(got.get(k)))
            for k in sorted(set(want) | set(got)) if want.get(k) != got.get(k)]


def localise(bld, solo, preds, m, budget=80):
    """which predecessors make member m differ: every predecessor alone first, then delta debugging over the list
    (order kept).  -> (minimal predecessor list that still reproduces it, number of runs spent)"""
    def differs(res):
        return bool(member_diffs(m, res, solo[m[0]])) or res.rc not in (0, 2)
    pairs = drvrun.run_many(bld, [corpus_job([p, m]) for p in preds])
    spent = len(preds)
    single = [p for p, res in zip(preds, pairs) if differs(res)]
    if single:
        return [single[-1]], spent, [p[0] for p in single]
    cur, n = list(preds), 2
    while len(cur) >= 2 and spent < budget:
        size = max(1, len(cur) // n)
        chunks = [cur[i:i + size] for i in range(0, len(cur), size)]
        cands = chunks + [[x for x in cur if x not in c] for c in chunks]
        res = drvrun.run_many(bld, [corpus_job(c + [m]) for c in cands])
        spent += len(cands)
        hit = [c for c, rr in zip(cands, res) if c and differs(rr)]
        if hit:
            cur = min(hit, key=len)
            n = max(2, n - 1) if len(cur) > 1 else 2
        elif n >= len(cur):
            break
        else:
            n = min(len(cur), n * 2)
    return cur, spent, []


def run_chains(rep, bld, tier, groups, solo, execs):
    """asl f1 f2 ... fN in ONE invocation per group of identical asflags: forward, reversed and seeded permutations.
    One chain covers every (earlier, later) pair in its direction, with the other sources in between."""
    r = rng("c18/chains")
    chains = []
    for g in groups.values():
        if len(g) < 2:
            continue
        base = sorted(g, key=lambda t: t[0])
        orders = [base, base[::-1]]
        for _ in range(3 if tier == "quick" else 8):
            x = list(base)
            r.shuffle(x)
            orders.append(x)
        for o in orders:
            for i in range(0, len(o), CHAIN_MAX):           # cmdarg.c accepts at most 256 arguments
                if len(o[i:i + CHAIN_MAX]) >= 2:
                    chains.append(o[i:i + CHAIN_MAX])
    with Phase("corpus chains: %d invocations of up to %d files" % (len(chains), max(len(c) for c in chains))):
        res = drvrun.run_many(bld, [corpus_job(c, events="file,diag" if i == 0 else None) for i, c in enumerate(chains)])
    pairs_covered = sum(len(c) * (len(c) - 1) // 2 for c in chains)
    rep.part("corpus_chains", invocations=len(chains), files_per_chain=max(len(c) for c in chains),
             ordered_pairs_covered_through_intermediates=pairs_covered)
    reported = set()
    for c, m in zip(chains, res):
        rep.evaluated()
        rep.distinct("chain:" + ">".join(t[0] for t in c), True)
        if m.timeout or m.sig is not None or m.rc not in (0, 2, 3):
            rep.violation("chain of %d golden sources ended abnormally (rc=%s signal=%s timeout=%s)"
                          % (len(c), m.rc, m.sig, m.timeout), case={"sequence": [t[0] for t in c]},
                          files={"argv": " ".join(corpus_job(c)["argv"]), "stderr.txt": m.err[-3000:]},
                          key={"kind": "corpus-chain", "abnormal": True})
            continue
        bad = [(k, t) for k, t in enumerate(c) if member_diffs(t, m, solo[t[0]])]
        if m.rc == 3:
            # a fatal error ended the invocation: the first member that differs is the one that met it (golden sources
            # have no fatal errors alone); the members after it were never assembled
            bad = bad[:1]
        exp_rc = 2 if any(solo[t[0]].rc == 2 for t in c) else 0
        exp_out = "".join(solo[t[0]].out for t in c)
        if not bad and (m.rc != exp_rc or m.out != exp_out or m.err != "".join(solo[t[0]].err for t in c)):
            rep.violation("chain of %d golden sources: exit status / console output differ from the solo runs "
                          "(status %s, composed %s)" % (len(c), m.rc, exp_rc), case={"sequence": [t[0] for t in c]},
                          files={"argv": " ".join(corpus_job(c)["argv"]), "stdout.txt": m.out[-3000:]},
                          key={"kind": "corpus-chain", "abnormal": False})
        for (k, t) in bad[:CHAIN_LOCALISE]:
            if t[0] in reported:
                continue
            reported.add(t[0])
            culprit, spent, singles = localise(bld, solo, c[:k], t)
            seq = culprit + [t]
            rep.violation("golden source %s assembles differently after %s in the same invocation (found in a chain of %d "
                          "files at position %d, localised with %d runs%s): %s"
                          % (t[0], " ".join(x[0] for x in culprit), len(c), k + 1, spent,
                             ("; each of %s alone reproduces it" % singles) if len(singles) > 1 else "",
                             "; ".join(member_diffs(t, m, solo[t[0]]))[:800]),
                          case={"sequence": [x[0] for x in seq], "flags": t[3], "chain": [x[0] for x in c[:k + 1]]},
                          files={"argv": " ".join(corpus_job(seq)["argv"])},
                          key={"kind": "corpus", "pred_dotted": any(sets_dotted(x) for x in culprit),
                               "pred": "+".join(x[0] for x in culprit)})
        if len(bad) > CHAIN_LOCALISE:
            rep.part("corpus_chains", further_members_differing=[t[0] for (_, t) in bad[CHAIN_LOCALISE:]][:40])
        if not bad and m.trace is not None:
            n = drvtrace.count_files(m.trace)
            o = {"werror": "-Werror" in c[0][3], "suppw": "-w" in c[0][3]}
            execs.append((drvtrace.to_events(m.trace, o, m.rc, [("%s/%s.p" % (_dir(t), t[0])) in m.files for t in c[:n]]),
                          "corpus chain of %d" % len(c)))


def run_corpus(rep, bld, tier, execs):
    tests = aslrun.corpus()
    groups = collections.defaultdict(list)
    for t in tests:
        groups[tuple(t[3])].append(t)
    with Phase("corpus: %d solo runs" % len(tests)):
        solo = dict(zip([t[0] for t in tests], drvrun.run_many(bld, [corpus_job([t]) for t in tests])))
    alone_bad = [t[0] for t in tests if solo[t[0]].rc != 0]
    if alone_bad:       # not this property's business (the comparison joint vs. alone stays meaningful)
        rep.drift("golden sources that do not assemble alone: %s" % alone_bad[:10])
    seqs = []
    r = rng("c18/corpus")
    run_chains(rep, bld, tier, groups, solo, execs)
    if tier == "quick":
        for g in groups.values():
            if len(g) == 1:                   # no partner with the same options: the source after a copy of itself
                seqs.append((g[0] + ("x_" + g[0][0],), g[0]))
                continue
            perm = list(g)
            while True:
                r.shuffle(perm)
                if all(a[0] != b[0] for a, b in zip(g, perm)):
                    break
            seqs += [(a, b) for a, b in zip(g, perm)]     # direct neighbours: every source once first, once second
    else:
        for g in groups.values():
            seqs += [(a, b) for a in g for b in g if a[0] != b[0]]
            if len(g) == 1:
                seqs.append((g[0] + ("x_" + g[0][0],), g[0]))
        big = max(groups.values(), key=len)
        for _ in range(1500):
            seqs.append(tuple(r.sample(big, 3)))
    with Phase("corpus: %d joint runs" % len(seqs)):
        # (no stmt records here: golden sources leave nothing open, so the residue Driver_Trace expects is empty)
        res = drvrun.run_many(bld, [corpus_job(list(s), events="file,diag" if tier == "quick" else None)
                                    for s in seqs])
    for s, m in zip(seqs, res):
        rep.evaluated()
        rep.distinct("corpus:" + ">".join(t[0] for t in s), True)
        diffs = compare_corpus(m, [solo[t[0]] for t in s], list(s))
        if diffs:
            rep.violation("golden sources %s in one invocation: %s" % (" ".join(t[0] for t in s), "; ".join(diffs)[:1500]),
                          case={"sequence": [t[0] for t in s], "flags": s[0][3]},
                          files={"argv": " ".join(corpus_job(list(s))["argv"]), "stderr.txt": m.err[-3000:]},
                          key={"kind": "corpus", "pred_dotted": any(sets_dotted(t) for t in s[:-1])})
        elif m.trace is not None:
            n = drvtrace.count_files(m.trace)
            o = {"werror": "-Werror" in s[0][3], "suppw": "-w" in s[0][3]}
            execs.append((drvtrace.to_events(m.trace, o, m.rc, [("%s/%s.p" % (_dir(t), t[0])) in m.files for t in s[:n]]),
                          "corpus " + " ".join(t[0] for t in s)))
    return tests, groups, solo


def run_gen_corpus(rep, bld, tier, hs, tests, groups, solo):
    """generated failing / polluting predecessors x golden successors (sources without asflags)"""
    plain = groups.get((), [])
    if not plain:
        return
    preds, seen = [], set()
    for h in hs:
        f = h.tr["files"][0]
        k = json.dumps(f, sort_keys=True)
        if k in seen or h.tr["o"]["maxerr"]:
            continue
        if h.tr["exp"]["files"][0]["fatal"]:
            continue
        seen.add(k)
        preds.append((f, h.dialects[0], h.texts[0]))
    r = rng("c18/gc")
    nsucc = 1 if tier == "quick" else 8
    cases = []
    for (f, dl, text) in preds:
        for t in r.sample(plain, nsucc):
            cases.append((f, dl, text, t))
    with Phase("generated predecessor x golden successor: %d joint runs" % len(cases)):
        res = drvrun.run_many(bld, [corpus_job([t], extra_files={"p1.asm": text}, pre=["p1.asm"]) for (f, dl, text, t) in cases])
        psolo_keys = sorted({text for (_, _, text, _) in cases})
        psolo = dict(zip(psolo_keys, drvrun.run_many(bld, [corpus_job([], extra_files={"p1.asm": x}, pre=["p1.asm"])
                                                           for x in psolo_keys])))
    bad = []
    for (f, dl, text, t), m in zip(cases, res):
        rep.evaluated()
        rep.distinct("gc:" + text + t[0], True)
        diffs = compare_corpus(m, [psolo[text], solo[t[0]]])
        if diffs:
            bad.append((f, dl, text, t, m, diffs))
    # attribution by removing one flag line of the predecessor
    att = []
    for (f, dl, text, t, m, diffs) in bad:
        for fl in sorted({ln["f"] for ln in f if ln["k"] == "flag"}):
            t2 = drvrender.render_hist_file([ln for ln in f if not (ln["k"] == "flag" and ln["f"] == fl)], dl, 1)
            att.append(((text, t[0]), fl, t2, t))
    ares = drvrun.run_many(bld, [corpus_job([t], extra_files={"p1.asm": t2}, pre=["p1.asm"]) for (_, _, t2, t) in att])
    culprits = collections.defaultdict(list)
    for (k, fl, t2, t), m2 in zip(att, ares):
        name = t[0]
        if all(m2.files.get(p) == v for p, v in solo[name].files.items()):
            culprits[k].append(fl)
    for (f, dl, text, t, m, diffs) in bad[:40]:
        cul = "+".join(sorted(culprits.get((text, t[0]), []))) or "none"
        rep.violation("generated predecessor then golden %s: %s [leaked flag that explains it: %s]"
                      % (t[0], "; ".join(diffs)[:1200], cul), case={"predecessor": f, "dialect": dl, "successor": t[0]},
                      files={"p1.asm": text, "argv": "-q -i %s p1.asm %s/%s.asm" % (INCLUDE, t[0], t[0]),
                             "stderr.txt": m.err[-3000:]},
                      key={"kind": "generated", "culprit": cul})


def main(tier):
    rep = Report(PID, tier)
    bld = build.get("hook")
    rep.assumptions += ["TLC explores the Driver design only up to the stated bounds",
                        "the oracle for a file's result is the real asl assembling that file alone (differential), "
                        "the joint run is also compared with Outcome() computed by TLC",
                        "renderer and byte / text comparison (Python) are trusted",
                        "hooks: %s" % ("file/diag/stmt events" if bld.hooks else "unavailable (black-box replay only)")]
    # (M) ---------------------------------------------------------------------------------------
    good = ["Driver_MC_Hist.cfg"] if tier == "quick" else ["Driver_MC_Hist.cfg", "Driver_MC_Hist3.cfg"]
    # model variants of the defects (as originally pinned / as seeded): TLC must find the Independent counterexample
    leaky = [("Driver_MC_Leaky.cfg", "Leaky = {dotted}: DOTTEDSTRUCTS survives AssembleFile_InitPass"),
             ("Driver_MC_LeakyCpu.cfg", "Leaky = {switchocc}: SetCPUCore forgetting SwitchIsOccupied"),
             ("Driver_MC_LeakyJmp.cfg", "Leaky = {jmperrors}: JmpErrors not cleared per pass / file")]

    def one(cfg):
        return tlc.must(tlc.run("Driver_MC", cfg, workers=4 if cfg in good else 1, timeout=1700, mem="8g", collect=False),
                        "Driver_MC(%s)" % cfg)
    with Phase("TLC Driver_MC: %s + %d defect variants" % (", ".join(good), len(leaky))):
        rs = pmap(one, good + [c for (c, _) in leaky], workers=4)
    for cfg, mc in zip(good, rs):
        if mc.violation:
            raise CheckError("the design violates FreshStart/Independent (%s): %s" % (cfg, mc.violation[:800]))
        rep.model("Driver_MC(%s)" % cfg, mc)
    for (cfg, note), lk in zip(leaky, rs[len(good):]):
        rep.part("Driver_MC(%s)" % cfg, expected_counterexample=bool(lk.violation), distinct_states=lk.distinct, note=note)
        if not lk.violation or "Independent" not in lk.violation:
            raise CheckError("the defect variant %s does not reproduce the dependence between files: %r"
                             % (cfg, (lk.violation or "")[:300]))
    # (G) ---------------------------------------------------------------------------------------
    with Phase("TLC Driver_Gen history cover + jump cover"):
        cov, covj = pmap(lambda c: tlc.must(tlc.run("Driver_Gen", c, workers=1, timeout=1700, mem="10g"), "Driver_Gen(%s)" % c),
                         ["Driver_Gen_Hist.cfg" if tier == "quick" else "Driver_Gen_Hist2.cfg", "Driver_Gen_Jump.cfg"], workers=2)
    rep.model("Driver_Gen(history cover)", cov)
    trs = [b for (tag, b) in cov.printed if tag == "TR" and len(b["files"]) >= 2]
    if not trs:
        raise CheckError("Driver_Gen printed no histories")
    navail = len(trs)
    if tier == "quick":
        # every history with a one-line predecessor, a seeded sample of those with a two-line predecessor
        one = [t for t in trs if len(t["files"][0]) == 1]
        two = [t for t in trs if len(t["files"][0]) != 1]
        rng("c18/sample").shuffle(two)
        trs = one + two[:QUICK_TWO]
    elif len(trs) > THOROUGH_MAX:
        one = [t for t in trs if len(t["files"][0]) == 1 and len(t["files"][-1]) == 1]
        two = [t for t in trs if not (len(t["files"][0]) == 1 and len(t["files"][-1]) == 1)]
        rng("c18/sample").shuffle(two)
        trs = one + two[:max(0, THOROUGH_MAX - len(one))]
    # histories of the jump-error family (JmpErrors / -Y): from the C02 cover, the two-file runs
    rep.model("Driver_Gen(jump cover)", covj)
    jt = [b for (tag, b) in covj.printed if tag == "TR" and len(b["files"]) >= 2
          and any(ln["k"] in ("tjmp", "pjmp") for f in b["files"] for ln in f)]
    if tier == "quick":
        rng("c18/jump").shuffle(jt)
        jt = jt[:QUICK_JUMP]
    trs = trs + jt
    rep.part("generation", histories_available=navail, histories_run=len(trs), jump_histories=len(jt))
    execs = []
    hs = run_histories(rep, bld, trs, tier, execs)
    tests, groups, solo = run_corpus(rep, bld, tier, execs)
    run_gen_corpus(rep, bld, tier, hs, tests, groups, solo)
    # latent state inside the code generators: where the predecessor stops x where the successor starts (GenLatent.tla)
    ext_genlatent.run(rep, bld, tier)
    for h in hs[:2] + hs[-2:]:
        rep.sample({"files": dict(zip(h.names, h.texts)), "argv": h.names + h.argv_opts,
                    "expected": drvrender.expected(h.tr, h.o)})
    rep.traces(rep.cov["evaluations"])
    # (V) ---------------------------------------------------------------------------------------
    if bld.hooks and execs:
        with Phase("validate %d executions" % len(execs)):
            rej, st = drvtrace.validate_all("Driver_Trace", "Driver_Trace.cfg", [e for (e, _) in execs])
        rep.part("Driver_Trace", events=st["events"], executions=st["executions"], rejected=len(rej),
                 distinct_states=st["states"], wall_s=round(st["wall"], 2))
        rep.cov["states"] += st["states"]
        rep.cov["transitions"] += st["generated"]
        rep.traces(st["executions"])
        for (xi, ev, detail) in rej:
            rep.drift("%s: %s" % (execs[xi][1][:200], detail))
    return rep.finish(
        rule="histories = transition cover of Driver_Gen with a view that keeps what the predecessor did (predecessor "
             "<= 2 line classes, successor 1 (thorough 2)), rendered in seed-chosen dialects, + golden corpus sequences "
             "(quick: every source once first and once second; thorough: all ordered pairs with identical asflags + 1500 "
             "triples) + generated predecessors x golden successors; distinct = distinct rendered sequence",
        exhaustive=False)


def replay(path):
    v = json.load(open(os.path.join(path, "violation.json")))
    bld = build.get("hook")
    log("recorded: %s" % v["what"][:2000])
    argv = open(os.path.join(path, "argv")).read().split()
    files = {}
    for n in os.listdir(path):
        if n.endswith(".asm"):
            files[n] = open(os.path.join(path, n)).read()
    if files and all(a in files or not a.endswith(".asm") for a in argv):
        res = drvrun.run_job(bld, {"files": files, "argv": argv, "collect": COLLECT})
        log("joint run: rc=%s files=%s\n%s%s" % (res.rc, sorted(res.files), res.out[-1500:], res.err[-1500:]))
        for n in sorted(files):
            r1 = drvrun.run_job(bld, {"files": {n: files[n]}, "argv": [n] + [a for a in argv if not a.endswith(".asm")],
                                      "collect": COLLECT})
            log("solo %s: rc=%s files=%s" % (n, r1.rc, sorted(r1.files)))
    else:
        log("corpus sequence: run  asl %s  in a directory holding copies of the named golden tests" % " ".join(argv))
    return 0


def selftest(tier):
    """binding demonstration: (a) corrupted hook traces are rejected by Driver_Trace, (b) stored mutations of the
    anchored code (selftest/b218_mutants.py, applied to scratch copies of the repository) make this check report
    VIOLATION.  quick: 3 mutants, thorough: all of this property."""
    import sys
    bld = build.get("hook")
    ok = drvtrace.selftest_corruptions(bld, log)
    sys.path.insert(0, os.path.join(os.path.dirname(os.path.dirname(os.path.abspath(__file__))), "selftest"))
    import b218_mutants
    mine = [n for n in b218_mutants.MUTANTS if n.startswith("c18_")]
    if tier == "quick":
        mine = mine[:3]
    for n in mine:
        name, check, verdict = b218_mutants.run(n)
        caught = "exit=1" in verdict
        log("selftest: mutant %-28s %s  %s" % (name, "CAUGHT" if caught else "MISSED", verdict))
        ok = ok and caught
    log("selftest %s: %s" % (PID, "passed" if ok else "FAILED"))
    return 0 if ok else 1
