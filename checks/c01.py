"""C01 - Multipass assembly ends at a fixpoint with every reference resolved.

Specification: spec/PassLayout.tla (declarative: what a resolved layout of a program is), spec/PassLoop.tla
(the pass loop of as.c AssembleFile with LookupSymbol / SymbolAdder / ChangeSymbol / LabelHandle / LabelModify /
InsertPadding and operand-dependent instruction sizes), wrappers PassLoop_MC / _Gen / _Obs / _Trace.

(M) TLC, all programs of <= 4 (thorough 5) items over 2 labels, for three target classes (68000: Bcc.S/.W +
    padding; 6809/68HC11/6502: direct/extended; 8086: short/near JMP):
      Termination (liveness, weak fairness, pass number saturated at 3, no state constraint), Fixpoint,
      ExtraPassIsStutter, NoSpuriousError, CleanMeansSolvable on the repaired algorithm (Fixed = TRUE);
      on the algorithm of the pinned tree (Fixed = FALSE) TLC must find the padding livelock (lasso printed in
      the evidence) and must prove LivelockOnlyWhenPatched; with option -Y (ThrowErrors) TLC finds a second
      livelock (unsolvable program, error discarded every other pass) that the real asl reproduces.
    A second alphabet per class (PassLoop_Gen_self*.cfg, <= 3 items) adds reference statements that carry a label on
    their own line and refer to that very label, to the PC symbol or to a difference (la: dc.w la / dc.w * /
    tab: dc.w r0-tab / la: bra la): the statement that triggers the padding is itself the reference.
    A third alphabet (PassLoop_Gen_pageabs.cfg, <= 4 items, origin 254) adds Assume(page) = ASSUME DPR:/B: items:
    the page in force at a statement is that of the last Assume before it in program order, 0 at the start of
    EVERY pass; a direct-form operand byte b stands for page*256+b (PassLayout PageAt / EncVal).  The model with
    PageReset = FALSE (PassLoop_MC_page_leak.cfg) must violate Fixpoint.
    A fourth alphabet (name scopes; PassLoop_Gen_sectabs.cfg: <= 5 items + closing ENDSECTIONs, one name in the two
    spellings la / LA, origin 253; PassLoop_Gen_nestabs.cfg: two nested sections, data words la, la[], la[PARENTn])
    adds SECTION / ENDSECTION / FORWARD statements and names with a section in brackets.  The symbol table is
    keyed by <<name, scope>>; PassLayout Bind states which symbol a use of a name denotes (innermost enclosing
    scope that defines it anywhere in the text, or exactly the bracketed one; spellings that differ in case are
    one name unless -U), PassLoop FindNode / EnterSymbol / the FORWARD list model how asmpars.c gets there
    (FORWARD list of the innermost section, consulted in pass 1 only, names folded before they are compared).
    Why it was added: a program whose ONLY reason for a second pass is a reference that resolves differently once
    a later, section-local definition is known (same name in an outer scope, FORWARD in front of the use) was in
    no alphabet - every forward reference of the older alphabets is an unknown symbol in pass 1 -, so a FindNode
    that misses the FORWARD entry of a name not written in capitals (and therefore silently binds the outer
    symbol, asks for no second pass and ends with the outer value in the operand) passed the check.
    C01 is stated for the programs the manual gives a definite outcome: PassLayout ScopeSafe excludes the accident
    the manual itself describes under FORWARD (reference in front of an unannounced local definition while an
    outer scope has the name: "the second pass will not be started at all"); the model reproduces that accident
    (export field `accident`, thorough: PassLoop_MC_sect_accident.cfg must refute Fixpoint without the premise),
    such programs are replayed with their layout as a diagnostic only.
(G) TLC (PassLoop_Gen) exports every program up to the bound once, plus simulated longer ones (<= 12 items,
    3 labels), each with the model's prediction.  Every program is rendered for the dialects of its class
    (68000 | 6809, 68HC11, 6502 | 8086; MSP430 .byte/.word/nop for the padded self-reference programs; 6809 + 65CE02 for the ASSUME programs; label
    spellings and mnemonics seed-chosen; scope programs: quick = all of <= 5 items and all in which a name is used
    where two scopes define it + a sample, one seed-chosen dialect each, section names / PARENTn / keyword case
    seed-chosen, and once more with option -U when the specification says every name has one spelling (`ufree`);
    thorough adds <= 6 items, 68000 and 8086 alphabets and an alphabet read under -U), assembled by the real asl
    under ASL_VERIF_MAX_PASSES=40, and again with ASL_VERIF_EXTRA_PASSES=1.  The code file is decoded item by
    item (marker byte pair after each label, opcode table per reference kind) into a layout that goes back to
    TLC (PassLoop_Obs), which evaluates the declarative predicate Valid on it.
    Verdict-bearing: (i) ends within the cap, (ii) TLC accepts the decoded layout (every reference = address of
    its label's marker / EQU value, sizes legal), (iii) code file of the extra-pass run byte-identical.
    Diagnostics only (SPEC-DRIFT): pass count, per-pass symbol values, sizes, error/no error vs the model.
(U) kinds of use x instruction shapes (checks/ext_passuses.py, spec/PassUses.tla + _MC + _Obs; added after a seeded
    change was missed: code6809.c DecodeALU told the operand decoder "one opcode byte" for the page-2/3 opcodes LDY STY
    LDS STS CMPD CMPY CMPU CMPS, so `label,PCR` encoded label+1 while the layout converged): the alphabets above have
    ONE reference statement per kind and target (one-byte opcode, operand last) and decode displacements with a fixed
    "address + 2".  PassUses holds the PUBLISHED encodings of 156 shapes (6809 53, 68HC11 27, 6502/65C02 21, 8086 24,
    68000 31: ,PCR / [,PCR] / >,PCR on opcode pages 1-3, Bcc/LBcc, BRSET/BRCLR dir / n,X / n,Y, BBR/BBS, d16(PC) first
    / behind an immediate or mask word, d8(PC,Xn), Bcc.S/.W/auto, DBcc, JMP (auto short/near), CALL, Jcc/LOOP/JCXZ, memory
    operands behind segment prefixes and in front of immediate data, direct/extended and abs.W/abs.L on every page,
    immediates, data words, lo/hi bytes) and the rule that says what a field value denotes (offset from the address
    of the FOLLOWING instruction; 68000: from the extension word); a modelled pass loop with the code generators'
    formulas is checked against it by TLC (4882 programs: use in front of / behind its label, 0..2 and 116..132 bytes
    away, around 256 and 32768 for the absolute forms, a second auto-sized use in between), the same programs go
    through the real asl and TLC reads the emitted bytes back (PassUses_Obs).  Verdict-bearing: every use in code
    emitted without error denotes the address of its label's marker.
(V) TLC (PassLoop_Trace) monitors sym_def / sym_mod / sym_ref / pass_end events of (a) a sample of the generated
    programs, (b) the golden corpus run with one forced extra pass (quick: a seed-chosen third with sym_ref
    events, pass protocol + extra-pass code identity for all 201): loop protocol, repass binding, trace-level
    fixpoint in the last clean pass, no change in the extra pass.

NOT covered: targets other than the five rendered ones except through (V) on the corpus; programs above the
bounds; ORG/PHASE/ALIGN/macros inside the generated programs (corpus only); PUBLIC / GLOBAL (definitions assigned
to another scope) and section names reused in different parents; WHILE / recursive macros /
MOMPASS / READ are outside the property.  Error outcomes (out-of-range branch) are predicted by the model but are
not part of C01's statement: disagreement is SPEC-DRIFT.

Known findings on the pinned tree (known_findings/C01.json, repairs in proposed_fixes/C01-*.diff):
  - label-padding livelock (dc.l lab / dc.b 1 / lab: nop loops forever; every padded label with >= 2 passes),
  - -Y oscillation (genuinely out-of-range short branch + option -Y never ends),
  - ASSUME register values survive into the next pass (65CE02 B, Z8 RP0/RP1, 78K3 RSS): found by the forced extra
    pass on the golden corpus (t_s8forth, t_65ce02, t_78k3).

Mutations of the real code tried on scratch copies (selftest/C01-*.diff, `./check C01 --selftest` re-runs them;
"suite" = result of the repository's own 201 ctest tests on the mutant):
  m1 SymbolAdder no longer sets Repass on a changed constant       suite 11 fail   caught: extra pass changes code
                                                                                   file, trace 'repass'
  m2 LabelModify does not move the label behind the padding        suite  2 fail   caught: PassLoop_Obs 'value'
  m3 pass loop ends after pass 2                                   suite 13 fail   caught: trace 'loop', Obs 'value'
  m4 forward references always Questionable (range errors of the   suite  1 fail   caught: Obs 'value' (truncated
     last pass silently truncated)                                                 displacement emitted)
  m5 Repass on a changed constant only in passes 1 and 2           suite  1 fail   caught: Obs 'value', trace 'repass'
  m6 68000 IsDisp8 accepts +128                                    suite  0 fail   caught: Obs 'value' (bra +128 -> $80)
  m7 68HC11 direct addressing chosen for address $100              suite  0 fail   caught: Obs 'value' (origin 250)
  m8 68000 DC.W/DC.L on an odd address evaluates its operand       suite  0 fail   caught: Obs 'value' on
     before InsertPadding (label of the same line / PC symbol                      fill 1 / la: dc.w la, dc.w *,
     encoded unpadded)                                                             la: dc.w lb-la (self classes)
  m9 6809 DPRValue initialised once at start-up instead of per    suite  0 fail   caught: Obs 'value' on lda la /
     pass (ASSUME DPR of the previous pass sizes operands in                       assume dpr:1 / la: at 254 (stable but
     front of the first ASSUME)                                                    wrong), extra-pass code differs
  m10 FindNode compares the name with the FORWARD list BEFORE it   suite  0 fail   caught: Obs 'value' + extra pass
     is folded to upper case (FORWARD of a name not in capitals                    changes code file (la: / section /
     has no effect, outer symbol bound, no second pass)                            forward la / lda la / LA: sectabs)
  m11 code6809.c DecodeALU: DecodeAdr(1, ArgCnt, 1) - page prefix     suite  0 fail   caught: (U) 6809 ldy/lds/sty/sts/cmpy/
     of LDY CMPD CMPU ... not counted for label,PCR (seeded change)                cmpd/cmpu/cmps la,pcr denote la+1
  fix the three proposed repairs applied                                           check exits 0 without KNOWN-FINDING
A run on the unchanged tree exits 0 with the KNOWN-FINDING lines listed above.
"""
import json
import os
import shutil

from checks import ext_passuses
from vlib import aslrun, build, passloop, tlc, tracecheck
from vlib.common import CheckError, Phase, log, pmap, rng, scratch
from vlib.report import Report

PID = "C01"
CAP = 40
CLASSES = ("68k", "abs", "86")
SELFCLASSES = ("self68k", "selfabs", "self86")   # alphabets with self-referencing (padded) reference statements
# further alphabets judged with the PassLoop_Obs config of their base class; pageabs: ASSUME DPR / ASSUME B items;
# sect*/nest*: SECTION / ENDSECTION / FORWARD / name[section] around one name in two spellings (name scopes)
EXTRA = {"68k": ("self68k",), "abs": ("selfabs", "pageabs", "sectabs", "nestabs"), "86": ("self86",)}
EXTRA_THOROUGH = {"68k": ("sect68k",), "abs": (), "86": ("sect86",)}      # added by the thorough tier
SCOPECLASSES = ("sectabs", "nestabs", "sect68k", "sect86", "sectabsU")


# ------------------------------------------------------------------------------------------------
# (M)
# ------------------------------------------------------------------------------------------------
def _prog_of_counterexample(out):
    """last `prog = << ... >>` of a TLC error trace, as compact text"""
    import re
    m = None
    for m in re.finditer(r"/\\ prog = (<<.*?>>)\n/\\", out, re.S):
        pass
    return " ".join(m.group(1).split()) if m else None


def _liveness(r):
    """vlib.tlc does not know the wording of a violated PROPERTY: recover it from the kept output"""
    if r.error and "Temporal property" in (r.out or "") and "was violated" in (r.out or ""):
        r.violation = r.out[r.out.index("Temporal property") - 10:][:3000]
        r.error = None
    return r


def tlc_jobs(tier):
    """all TLC runs of (M) and (G): name -> kwargs for vlib.tlc.run.
    PassLoop_Gen_<class>.cfg is model check and export in one run (all invariants, Termination, every program
    printed with the model's prediction); thorough adds the 5-item PassLoop_MC runs."""
    jobs = {}
    for c in CLASSES:
        jobs["Gen_" + c] = dict(module="PassLoop_Gen", cfg="PassLoop_Gen_%s.cfg" % c, tags=("OUT",), collect=True,
                                mem="8g")
        jobs["Sim_" + c] = dict(module="PassLoop_Gen", cfg="PassLoop_Sim_%s.cfg" % c, tags=("OUT",), collect=True,
                                simulate=(60 if tier == "quick" else 3000), depth=140)
        jobs["Gen_self" + c] = dict(module="PassLoop_Gen", cfg="PassLoop_Gen_self%s.cfg" % c, tags=("OUT",),
                                    collect=True, mem="8g")
        if tier != "quick":
            jobs["MC_" + c] = dict(module="PassLoop_MC", cfg="PassLoop_MC_%s5.cfg" % c, mem="12g", workers=4)
    jobs["Gen_pageabs"] = dict(module="PassLoop_Gen", cfg="PassLoop_Gen_pageabs.cfg", tags=("OUT",), collect=True)
    for c in ("sectabs", "nestabs") + (("sect68k", "sect86", "sectabsU") if tier != "quick" else ()):
        jobs["Gen_" + c] = dict(module="PassLoop_Gen", tags=("OUT",), collect=True, mem="8g",
                                cfg="PassLoop_Gen_%s%s.cfg" % (c, "6" if tier != "quick" and c in ("sectabs", "nestabs") else ""))
    if tier != "quick":     # quick: the accident is looked for in the export of Gen_sectabs (model_checks)
        jobs["MC_sect_accident"] = dict(module="PassLoop_MC", cfg="PassLoop_MC_sect_accident.cfg")
    jobs["MC_page_leak"] = dict(module="PassLoop_MC", cfg="PassLoop_MC_page_leak.cfg")
    jobs["MC_err"] = dict(module="PassLoop_MC", cfg="PassLoop_MC_err.cfg")
    jobs["MC_pinned"] = dict(module="PassLoop_MC", cfg="PassLoop_MC_68k_pinned.cfg")
    jobs["MC_pinned_char"] = dict(module="PassLoop_MC", cfg="PassLoop_MC_68k_pinned_char.cfg")
    jobs["MC_pinned_self"] = dict(module="PassLoop_MC", cfg="PassLoop_MC_self68k_pinned.cfg")
    jobs["MC_Y"] = dict(module="PassLoop_MC", cfg="PassLoop_MC_Y.cfg")
    jobs["MC_Y_fixed"] = dict(module="PassLoop_MC", cfg="PassLoop_MC_Y_fixed.cfg")
    jobs.update(ext_passuses.tlc_jobs(tier))        # kinds of use x instruction shapes (spec/PassUses.tla)
    return jobs


def run_tlc_jobs(tier):
    jobs = tlc_jobs(tier)
    ncpu = int(os.environ.get("VERIF_JOBS", os.cpu_count() or 4))
    par = max(1, min(len(jobs), ncpu // 2))

    def one(name):
        kw = dict(jobs[name])
        kw.setdefault("workers", 2)
        kw.setdefault("collect", False)
        kw.setdefault("mem", "6g")
        if "simulate" not in kw:
            kw["extra"] = ["-lncheck", "final"]
        r = tlc.run(kw.pop("module"), kw.pop("cfg"), timeout=1700, keep_out=True, **kw)
        return name, _liveness(r)
    # long ones first
    order = sorted(jobs, key=lambda n: (not (n[:3] == "MC_" and n[3:] in CLASSES), not n.startswith("Gen_"), n))
    return dict(pmap(one, order, workers=par))


def model_checks(rep, tier, R):
    names = ["MC_err", "MC_Y_fixed"] + (["MC_" + c for c in CLASSES] if tier != "quick" else [])
    for n in names:
        r = tlc.must(R[n], "PassLoop_MC " + n)
        if r.violation:
            raise CheckError("the repaired pass-loop design violates its own properties (%s): %s"
                             % (n, r.violation[:1500]))
        rep.model("PassLoop_MC(%s, repaired algorithm)" % n[3:], r)
    # the algorithm of the pinned tree: the livelock must be found, and only that one
    r = tlc.must(R["MC_pinned"], "pinned cfg")
    if not r.violation or "Termination" not in r.violation:
        raise CheckError("PassLoop(Fixed=FALSE) no longer shows the padding livelock: the model lost the defect")
    rep.model("PassLoop_MC(68k, pinned algorithm)", r)
    rep.part("PassLoop_MC(68k, pinned algorithm)", termination="violated (expected: livelock of the pinned tree)",
             lasso_program=_prog_of_counterexample(r.out))
    for n in ("MC_pinned_char", "MC_pinned_self"):
        r = tlc.must(R[n], n)
        if r.violation:
            raise CheckError("pinned algorithm: a non-terminating run without a patched label (%s): %s"
                             % (n, r.violation[:1500]))
        rep.model("PassLoop_MC(%s, pinned, LivelockOnlyWhenPatched)" % n[10:], r)
    r = tlc.must(R["MC_page_leak"], "page leak cfg")
    if not r.violation or "Fixpoint" not in r.violation:
        raise CheckError("PassLoop(PageReset=FALSE) must violate Fixpoint (stale direct page sizes an operand)")
    rep.model("PassLoop_MC(abs, page register not reset per pass)", r)
    rep.part("PassLoop_MC(abs, page register not reset per pass)", fixpoint="violated (expected)",
             program=_prog_of_counterexample(r.out))
    # the accident the manual describes under FORWARD must be in the model: some program without a definite outcome
    # ends with an unresolved layout (field `accident` of the export), and TLC refutes Fixpoint without the premise
    acc = [x for (t, x) in tlc.must(R["Gen_sectabs"], "Gen_sectabs").printed if x.get("accident")]
    if not acc:
        raise CheckError("PassLoop no longer reproduces the accident the manual describes under FORWARD (reference "
                         "in front of an unannounced section-local definition, same name in an outer scope)")
    rep.part("PassLoop_Gen(sectabs): documented accident", programs_with_unresolved_outcome=len(acc),
             example=json.dumps(acc[0]["prog"]))
    if "MC_sect_accident" in R:
        r = tlc.must(R["MC_sect_accident"], "section accident cfg")
        if not r.violation or "FixpointAlsoWhenIndefinite" not in r.violation:
            raise CheckError("PassLoop_MC_sect_accident.cfg: Fixpoint without the ScopeSafe premise must be refuted")
        rep.model("PassLoop_MC(abs, sections: Fixpoint without the ScopeSafe premise)", r)
        rep.part("PassLoop_MC(abs, sections: Fixpoint without the ScopeSafe premise)",
                 fixpoint="violated (expected: the documented accident)", program=_prog_of_counterexample(r.out))
    r = tlc.must(R["MC_Y"], "-Y cfg")
    if not r.violation or "Termination" not in r.violation:
        raise CheckError("PassLoop(ThrowErrors=TRUE) no longer shows the -Y oscillation")
    rep.model("PassLoop_MC(86, -Y)", r)
    rep.part("PassLoop_MC(86, -Y)", termination="violated (expected: -Y oscillation)",
             lasso_program=_prog_of_counterexample(r.out))


# ------------------------------------------------------------------------------------------------
# (G)
# ------------------------------------------------------------------------------------------------
def generate(rep, cls, tier, r, R):
    """-> list of TLC exports for class cls"""
    g = tlc.must(R["Gen_" + cls], "PassLoop_Gen %s" % cls)
    if g.violation:
        raise CheckError("the repaired pass-loop design violates its own properties (PassLoop_Gen_%s.cfg): %s"
                         % (cls, g.violation[:1500]))
    rep.model("PassLoop_Gen(%s: invariants + Termination + export)" % cls, g)
    exhaustive = [x for (t, x) in g.printed]
    seen = set()
    sim = []
    s = None
    if ("Sim_" + cls) in R:
        s = tlc.must(R["Sim_" + cls], "PassLoop_Sim %s" % cls)
        if s.violation:
            raise CheckError("PassLoop_Sim_%s.cfg: %s" % (cls, s.violation[:1500]))
    for (t, x) in (s.printed if s else []):
        k = json.dumps([x["prog"], x["org"]], sort_keys=True)
        if k not in seen and len(x["prog"]) > 4:
            seen.add(k)
            sim.append(x)
    rep.part("generation(%s)" % cls, programs_up_to_bound=len(exhaustive), simulated_distinct=len(sim))
    if tier == "quick":
        # every program of <= 3 items, a seed-chosen sample of the 4-item ones (all that involve padding
        # patches are few enough to keep), all simulated ones
        small = [x for x in exhaustive if len(x["prog"]) <= 3]
        big = [x for x in exhaustive if len(x["prog"]) > 3]
        r.shuffle(big)
        quota = {"68k": 1100, "abs": 350, "86": 550, "self68k": 400, "selfabs": 150, "self86": 300,
                 "pageabs": 900, "sectabs": 100, "nestabs": 100}[cls]
        if cls in SCOPECLASSES:     # (lengths include the ENDSECTIONs the builder appends)
            # all short ones and all in which the scope rules decide something (a name used where two scopes of
            # its path define it - the specification marks them), a sample of the others
            small = [x for x in exhaustive if len(x["prog"]) <= 5 or x["shadow"]]
            big = [x for x in exhaustive if not (len(x["prog"]) <= 5 or x["shadow"])]
            r.shuffle(big)
        if cls in SELFCLASSES:      # all of <= 2 items (label + padded self-reference needs two), sampled 3-item ones
            small = [x for x in exhaustive if len(x["prog"]) <= 2]
            big = [x for x in exhaustive if len(x["prog"]) > 2]
            r.shuffle(big)
        exhaustive = small + big[:quota]
    else:
        if len(exhaustive) > 60000:
            r.shuffle(exhaustive)
            exhaustive = exhaustive[:60000]
    return exhaustive + sim


def _jobs_for(case, dia, salt, anycase=True):
    rr = rng("c01/%s/%s" % (dia, salt))
    src, choice = passloop.render(case["prog"], case["org"], dia, rr, anycase=anycase)
    return src, choice


def _run_cases(bld, todo):
    """todo: list of (case, dia, src, choice, opts).  Runs normal + extra-pass; returns list of (res, res_extra)"""
    jobs = []
    for (case, dia, src, choice, opts) in todo:
        jobs.append({"sources": {"a.asm": src}, "opts": ["-q"] + opts, "env": {"ASL_VERIF_MAX_PASSES": str(CAP)},
                     "timeout": 30})
        jobs.append({"sources": {"a.asm": src}, "opts": ["-q"] + opts,
                     "env": {"ASL_VERIF_MAX_PASSES": str(CAP), "ASL_VERIF_EXTRA_PASSES": "1"}, "timeout": 30})
    res = aslrun.assemble_many(bld, jobs)
    return [(res[2 * i], res[2 * i + 1]) for i in range(len(todo))]


def _livelocked(res, bld):
    return res.rc == 97 or res.timeout


def observe_verdicts(cls, obs):
    """obs: list of {id, prog, org, lay}; TLC (PassLoop_Obs) judges each; -> (dict id -> verdict, TLCResult)"""
    if not obs:
        return {}, None
    path = os.path.join(scratch(), "obs-%s-%d.ndjson" % (cls, len(obs)))
    tlc.write_ndjson(obs, path)
    r = tlc.run("PassLoop_Obs", "PassLoop_Obs_%s.cfg" % passloop.BASECLASS.get(cls, cls), workers=1, env={"OBS": path}, timeout=1500, mem="8g",
                tags=("OUT",))
    os.unlink(path)
    if r.error or r.violation:
        raise CheckError("PassLoop_Obs(%s) did not run through: %s" % (cls, (r.error or r.violation)[:800]))
    out = {x["id"]: x for (t, x) in r.printed}
    if len(out) != len(obs):
        raise CheckError("PassLoop_Obs(%s): %d verdicts for %d cases" % (cls, len(out), len(obs)))
    return out, r


def replay_class(rep, bld, cls, cases, tier, more=()):
    """cases of target class cls, plus `more` = (class name, cases) lists judged with the same PassLoop_Obs config"""
    todo = []
    for (c, cs) in ((cls, cases),) + tuple(more):
        for ci, case in enumerate(cs):
            dias = passloop.CLASSES[c]
            if tier == "quick" and c in SCOPECLASSES:
                # which symbol a name denotes does not depend on the target: one seed-chosen dialect per program
                dias = [rng("c01/dia/%s%d" % (c, ci)).choice(dias)]
            for dia in dias:
                if not passloop.supports(dia, case["prog"]):
                    continue
                # the specification says in which mode a program is to be read: csens = written for option -U;
                # ufree = every name has one spelling, the program means the same with and without -U: run both
                if case.get("csens"):
                    src, choice = _jobs_for(case, dia, "%s%d" % (c, ci), anycase=False)
                    todo.append((case, dia, src, choice, ["-U"]))
                    continue
                src, choice = _jobs_for(case, dia, "%s%d" % (c, ci))
                todo.append((case, dia, src, choice, []))
                if c in SCOPECLASSES and case.get("ufree"):
                    src, choice = _jobs_for(case, dia, "%s%dU" % (c, ci), anycase=False)
                    todo.append((case, dia, src, choice, ["-U"]))
    with Phase("replay %s: %d programs x 2 runs" % (cls, len(todo))):
        results = _run_cases(bld, todo)
    obs = []
    pending = []   # (idx, layout)
    for idx, ((case, dia0, src, choice, opts), (res, rex)) in enumerate(zip(todo, results)):
        dia = dia0 + "".join(" " + o for o in opts)          # for the messages
        rep.evaluated()
        rep.distinct(src + " ".join(opts), any(it["k"] in passloop.REFKINDS for it in case["prog"]))
        judge_termination(rep, bld, case, dia, src, opts, res, rex)
        if res.rc == 0 and res.p is not None:
            try:
                lay = passloop.decode(case["prog"], case["org"], dia0, choice, passloop.image_of(res.parsed()))
            except passloop.Undecodable as ex:
                if _confirm(bld, src, opts, lambda r2: r2.p == res.p):
                    rep.violation("%s: the code file is not an encoding of the program's items: %s" % (dia, ex),
                                  case=case["prog"], files={**_optfile(opts), "a.asm": src, "a.p": res.p},
                                  key={"kind": "undecodable", "dialect": dia0})
                continue
            obs.append({"id": idx, "prog": case["prog"], "org": case["org"], "lay": lay})
            pending.append((idx, lay))
            compare_layout(rep, case, dia, lay)
            if not case.get("definite", True):
                # the accident the manual describes under FORWARD: no definite outcome, so neither the forced extra
                # pass nor the layout is a verdict (PassLoop_Obs says the same: definite = FALSE)
                pass
            # extra pass: code file identical
            elif rex.rc == 0 and rex.p is not None and rex.p != res.p:
                if _confirm(bld, src, opts, lambda r2: r2.p != res.p, extra=True):
                    rep.violation("%s: one forced extra pass changed the code file" % dia, case=case["prog"],
                                  files={**_optfile(opts), "a.asm": src, "normal.p": res.p, "extra.p": rex.p},
                                  key={"kind": "extra-pass-differs", "patched": case["patched"]})
            elif rex.rc not in (0, 97) and not rex.timeout:
                rep.violation("%s: run with one forced extra pass ended with status %s, normal run with 0: %s"
                              % (dia, rex.rc, (rex.out + rex.err)[-300:]), case=case["prog"], files={**_optfile(opts), "a.asm": src},
                              key={"kind": "extra-pass-status", "patched": case["patched"]})
        compare_prediction(rep, case, dia, res)
    with Phase("PassLoop_Obs %s: %d layouts" % (cls, len(obs))):
        verdicts, r = observe_verdicts(cls, obs)
    if r is not None:
        rep.cov["states"] += r.distinct
        rep.cov["transitions"] += r.generated
        rep.part("PassLoop_Obs(%s)" % cls, layouts=len(obs), wall_s=r.wall)
    rep.traces(len(obs))
    for idx, lay in pending:
        v = verdicts[idx]
        if not v["valid"] and v.get("definite", True):
            case, dia, src, choice, opts = todo[idx]
            res = results[idx][0]
            if _confirm(bld, src, opts, lambda r2: r2.p == res.p):
                rep.violation("%s: emitted code does not resolve the program: problems (item, what) = %s; "
                              "decoded layout %s" % (dia, v["problems"], lay), case=case["prog"],
                              files={**_optfile(opts), "a.asm": src, "a.p": res.p, "layout.json": json.dumps(lay)},
                              key={"kind": "unresolved", "dialect": dia})
    # samples
    for k in (0, len(todo) // 2, len(todo) - 1):
        case, dia, src, choice, opts = todo[k]
        rep.sample({"class": cls, "dialect": dia, "program": case["prog"], "rendered": src,
                    "model": {"passes": case["passes"], "errs": case["errs"], "layout": case["lay"]},
                    "asl_rc": results[k][0].rc})
    return todo, results


def _optfile(opts):
    """command line options a replay has to repeat (-Y is recorded in the key)"""
    o = [x for x in opts if x != "-Y"]
    return {"opts.txt": " ".join(o)} if o else {}


def _confirm(bld, src, opts, pred, extra=False):
    """DESIGN 2.4 rule 3: a mismatch counts only if a fresh run repeats it"""
    env = {"ASL_VERIF_MAX_PASSES": str(CAP)}
    if extra:
        env["ASL_VERIF_EXTRA_PASSES"] = "1"
    r2 = aslrun.assemble(bld, {"a.asm": src}, opts=["-q"] + opts, env=env, timeout=30)
    return pred(r2)


def judge_termination(rep, bld, case, dia, src, opts, res, rex):
    for (r, extra) in ((res, False), (rex, True)):
        if r.sig is not None:
            rep.violation("%s: asl killed by signal %s" % (dia, r.sig), case=case["prog"], files={**_optfile(opts), "a.asm": src},
                          key={"kind": "crash"})
            return
        if _livelocked(r, bld):
            if not _confirm(bld, src, opts, lambda r2: _livelocked(r2, bld), extra=extra):
                continue
            rep.violation("%s: assembly did not end within %d passes%s (model: ends after %d pass(es))"
                          % (dia, CAP, " when one extra pass is forced after convergence" if extra else "",
                             case["passes"]),
                          case=case["prog"], files={**_optfile(opts), "a.asm": src},
                          key={"kind": "livelock", "patched": bool(case["patched"]), "opt_Y": "-Y" in opts})
            return


_drifts = {}


def compare_prediction(rep, case, dia, res):
    """model's finer predictions: diagnostics only"""
    def drift(kind, text):
        _drifts[kind] = _drifts.get(kind, 0) + 1
        if _drifts[kind] <= 3:
            rep.drift("%s [%s] %s: %s" % (kind, dia, json.dumps(case["prog"]), text))
    if res.rc == 97 or res.timeout:
        return
    if (res.rc != 0) != (case["errs"] > 0):
        drift("error-outcome", "model errs=%d, asl rc=%s %s" % (case["errs"], res.rc, (res.out + res.err)[-200:]))


def compare_layout(rep, case, dia, lay):
    if lay != [{"a": e["a"], "n": e["n"], "p": e["p"], "v": e["v"]} for e in case["lay"]]:
        _drifts["layout"] = _drifts.get("layout", 0) + 1
        if _drifts["layout"] <= 3:
            rep.drift("layout [%s] %s: model %s, asl %s" % (dia, json.dumps(case["prog"]), case["lay"], lay))


# ------------------------------------------------------------------------------------------------
# (V)
# ------------------------------------------------------------------------------------------------
def to_monitor_events(trace, xid):
    """hook events of one asl run -> executions (one per file) of PassLoop_Trace events; reformatting only"""
    keys = {}
    evs = []
    seen_ref = set()
    patched = set()

    def key(e):
        k = "%s#%s" % (e["name"], e["sect"])
        if k not in keys:
            keys[k] = len(keys) + 1
        return keys[k]

    for e in trace:
        t = e["e"]
        if t == "pass_begin":
            seen_ref = set()
            evs.append({"a": "begin", "pass": e["pass"]})
        elif t == "pass_end":
            evs.append({"a": "end", "pass": e["pass"], "repass": e["repass"], "errs": e["errs"]})
        elif t == "extra_pass":
            evs.append({"a": "extra"})
        elif t == "pass_cap":
            evs.append({"a": "cap"})
        elif t == "file_end":
            evs.append({"a": "fend"})
        elif t in ("sym_def", "sym_mod"):
            if e.get("chg"):
                continue
            v = str(e["val"]) if "val" in e else "t%s" % e.get("typ")
            if t == "sym_def":
                evs.append({"a": "def", "k": key(e), "v": v, "out": e["out"]})
            else:
                patched.add(key(e))
                evs.append({"a": "mod", "k": key(e), "v": v})
        elif t == "sym_ref":
            if e.get("chg"):
                continue
            v = str(e["val"]) if "val" in e else "t%s" % e.get("typ")
            if e["out"] == "unknown":
                sig = ("u",)
                if sig in seen_ref:
                    continue
                seen_ref.add(sig)
                evs.append({"a": "ref", "k": 0, "v": v, "out": "unknown"})
            else:
                k = key(e)
                sig = (k, v)
                if sig in seen_ref:
                    continue
                seen_ref.add(sig)
                evs.append({"a": "ref", "k": k, "v": v, "out": e["out"]})
    return [{"a": "RESET", "x": xid, "n": max(1, len(keys))}] + evs, bool(patched)


def monitor(rep, name, runs):
    """runs: list of (label, trace).  -> dict label -> {bad, passes, patched}"""
    flat = []
    info = {}
    for xi, (label, trace) in enumerate(runs, 1):
        evs, patched = to_monitor_events(trace, xi)
        info[xi] = {"label": label, "patched": patched, "events": len(evs)}
        flat += evs
    flat.append({"a": "END"})
    path = os.path.join(scratch(), "trace-%s.ndjson" % name)
    tlc.write_ndjson(flat, path)
    with Phase("PassLoop_Trace %s: %d events" % (name, len(flat))):
        r = tlc.run("PassLoop_Trace", "PassLoop_Trace.cfg", workers=1, env={"TRACE": path}, timeout=1700,
                    mem="10g", tags=("OUT",))
    os.unlink(path)
    if r.error or r.violation:
        raise CheckError("PassLoop_Trace(%s) did not consume the trace: %s" % (name, (r.error or r.violation)[:800]))
    out = {}
    for (t, x) in r.printed:
        i = info[x["x"]]
        out[i["label"]] = {"bad": sorted(x["bad"]), "passes": x["passes"], "patched": i["patched"]}
    if len(out) != len(runs):
        raise CheckError("PassLoop_Trace(%s): %d verdicts for %d executions" % (name, len(out), len(runs)))
    rep.cov["states"] += r.distinct
    rep.cov["transitions"] += r.generated
    rep.part("PassLoop_Trace(%s)" % name, executions=len(runs), events=len(flat), wall_s=r.wall)
    rep.traces(len(runs))
    return out


def trace_generated(rep, bld, cls_todo, tier):
    """sym/pass traces of a sample of generated programs: monitor + per-pass comparison with the model"""
    r = rng("c01/trace")
    sample = []
    for cls, todo in cls_todo.items():
        idx = list(range(len(todo)))
        r.shuffle(idx)
        # (programs without a definite outcome - PassLayout!ScopeSafe - are not monitored: the forced extra pass
        # legitimately changes them)
        idx = [i for i in idx if todo[i][0].get("definite", True)]
        sample += [(cls, todo[i]) for i in idx[:(400 if tier == "quick" else 4000)]]
    jobs = [{"sources": {"a.asm": src}, "opts": ["-q"] + opts, "events": "file,sym,ref",
             "env": {"ASL_VERIF_MAX_PASSES": str(CAP), "ASL_VERIF_EXTRA_PASSES": "1"}, "timeout": 30}
            for (cls, (case, dia, src, choice, opts)) in sample]
    with Phase("traced runs of %d generated programs" % len(jobs)):
        res = aslrun.assemble_many(bld, jobs)
    runs = []
    for n, ((cls, (case, dia, src, choice, opts)), rr) in enumerate(zip(sample, res)):
        if rr.trace:
            runs.append((n, rr.trace))
    verdicts = monitor(rep, "generated", runs)
    for n, v in verdicts.items():
        cls, (case, dia, src, choice, opts) = sample[n]
        report_monitor(rep, v, "%s program %s" % (dia, json.dumps(case["prog"])), {"a.asm": src}, case["prog"])
        if not v["bad"]:
            compare_passes(rep, case, dia, res[n].trace)


def compare_passes(rep, case, dia, trace):
    """per-pass Repass / label values of the real run vs the model's hist (diagnostic)"""
    if case["patched"] and any(k.startswith("C01-label-padding") for k in rep.known_hit):
        return      # the predictions are those of the repaired SymbolAdder; this tree still has the pinned one
    if any(it["k"] == "sect" for it in case["prog"]):
        return      # the export lists the global symbols only; the trace names local ones alike
    labels = {}
    passes = []
    cur = None
    for e in trace:
        if e["e"] == "pass_begin":
            cur = {}
        elif e["e"] in ("sym_def", "sym_mod") and not e.get("chg") and "val" in e and cur is not None:
            labels[e["name"].lower()] = e["val"]
        elif e["e"] == "pass_end":
            passes.append({"repass": bool(e["repass"]), "errs": e["errs"], "vals": dict(labels)})
    model = case["hist"]
    obs = passes[:len(model)] if len(passes) >= len(model) else passes
    ok = len(passes) == len(model)
    if ok:
        for mp, op in zip(model, obs):
            if mp["repass"] != op["repass"] or (mp["errs"] > 0) != (op["errs"] > 0):
                ok = False
            for l, v in mp["vals"].items():
                if v >= 0 and op["vals"].get(l) != v:
                    ok = False
    if not ok:
        _drifts["passes"] = _drifts.get("passes", 0) + 1
        if _drifts["passes"] <= 3:
            rep.drift("passes [%s] %s: model %s, asl %s" % (dia, json.dumps(case["prog"]), model, passes))


def report_monitor(rep, v, what, files, case):
    for b in v["bad"]:
        text = {"loop": "pass loop protocol broken (a pass must follow iff Repass and no errors)",
                "repass": "a constant changed value / an unknown symbol was used, yet the pass ended clean "
                          "without Repass",
                "fixpoint": "in the last pass a reference got a value that differs from the symbol's final value",
                "stutter": "the forced extra pass re-entered a constant with a different value or did not end clean",
                "capped": "assembly did not end within %d passes" % CAP}[b]
        rep.violation("%s: %s" % (what, text), case=case, files=files,
                      key={"kind": "trace-" + b, "patched": v["patched"]})


def _uses_assume(path):
    """classification only (known-finding key): does the source contain an ASSUME statement"""
    import re
    try:
        with open(path, "rb") as f:
            return bool(re.search(rb"^[^;\n]*\bassume\b", f.read(), re.I | re.M))
    except OSError:
        return False


def corpus_part(rep, bld, tier):
    tests = aslrun.corpus()
    r = rng("c01/corpus")
    third = set(t[0] for t in r.sample(tests, len(tests) // 3)) if tier == "quick" else set(t[0] for t in tests)

    def one(t):
        ev = "file,sym,ref" if t[0] in third else "file,sym"
        n = aslrun.assemble_corpus(bld, t, env={"ASL_VERIF_MAX_PASSES": "200"}, timeout=120)
        x = aslrun.assemble_corpus(bld, t, events=ev, env={"ASL_VERIF_MAX_PASSES": "200",
                                                             "ASL_VERIF_EXTRA_PASSES": "1"}, timeout=300)
        for d in (n.dir, x.dir):
            shutil.rmtree(d, ignore_errors=True)
        return t, n, x
    with Phase("corpus: normal + extra-pass run of %d tests" % len(tests)):
        res = pmap(one, tests, workers=min(8, os.cpu_count() or 4))
    runs = []
    for t, n, x in res:
        rep.evaluated()
        if n.rc != 0 or n.p is None:
            continue                    # tests that are expected to fail to assemble have no code to compare
        patched = bool(x.trace) and any(e["e"] == "sym_mod" and not e.get("chg") for e in x.trace)
        assume = _uses_assume(t[2])
        if x.rc == 97 or x.timeout:
            rep.violation("corpus test %s: with one forced extra pass the assembly does not end" % t[0],
                          case=t[0], key={"kind": "livelock", "patched": patched, "opt_Y": False})
            continue
        elif x.rc != 0 or x.p is None:
            rep.violation("corpus test %s: forced extra pass ends with status %s: %s"
                          % (t[0], x.rc, (x.out + x.err)[-300:]), case=t[0],
                          key={"kind": "extra-pass-status", "patched": patched, "uses_assume": assume})
            continue
        elif x.p != n.p:
            rep.violation("corpus test %s: one forced extra pass changed the code file" % t[0], case=t[0],
                          files={"normal.p": n.p, "extra.p": x.p},
                          key={"kind": "extra-pass-differs", "patched": patched, "uses_assume": assume})
            continue
        if x.trace:
            runs.append((t[0], x.trace))
    verdicts = monitor(rep, "corpus", runs)
    for name, v in verdicts.items():
        report_monitor(rep, v, "corpus test %s" % name, {}, name)
    rep.part("corpus", tests=len(tests), with_sym_ref_events=len(third))


# ------------------------------------------------------------------------------------------------
def y_option_part(rep, bld, cases86, tier):
    """option -Y on 8086 programs: the model (PassLoop_MC_Y) predicts an oscillation for unsolvable programs"""
    r = rng("c01/Y")
    pool = [c for c in cases86 if any(it["k"] == "rel" for it in c["prog"])]
    r.shuffle(pool)
    n = 500 if tier == "quick" else 3000
    # programs for which the model predicts a range error are where -Y changes the behaviour
    pool = [c for c in pool if c["errs"] > 0][:n] + [c for c in pool if c["errs"] == 0][:n // 5]
    todo = []
    for ci, case in enumerate(pool):
        src, choice = _jobs_for(case, "8086", "Y%d" % ci)
        todo.append((case, "8086", src, choice, ["-Y"]))
    with Phase("option -Y: %d programs x 2 runs" % len(todo)):
        results = _run_cases(bld, todo)
    obs = []
    for idx, ((case, dia, src, choice, opts), (res, rex)) in enumerate(zip(todo, results)):
        rep.evaluated()
        if _livelocked(res, bld) or _livelocked(rex, bld):
            if _confirm(bld, src, opts, lambda r2: _livelocked(r2, bld)):
                rep.violation("8086, option -Y: assembly did not end within %d passes" % CAP, case=case["prog"],
                              files={"a.asm": src},
                              key={"kind": "livelock", "patched": False, "opt_Y": True,
                                   "solvable": bool(case["solvable"])})
            continue
        if res.rc == 0 and res.p is not None:
            try:
                lay = passloop.decode(case["prog"], case["org"], dia, choice, passloop.image_of(res.parsed()))
            except passloop.Undecodable as ex:
                rep.violation("8086 -Y: undecodable code: %s" % ex, case=case["prog"], files={"a.asm": src},
                              key={"kind": "undecodable", "dialect": dia})
                continue
            obs.append({"id": idx, "prog": case["prog"], "org": case["org"], "lay": lay})
    verdicts, r2 = observe_verdicts("86", obs)
    for o in obs:
        if not verdicts[o["id"]]["valid"]:
            case, dia, src, choice, opts = todo[o["id"]]
            rep.violation("8086 -Y: emitted code does not resolve the program: %s" % verdicts[o["id"]]["problems"],
                          case=case["prog"], files={"a.asm": src}, key={"kind": "unresolved", "dialect": dia})
    rep.part("option -Y", programs=len(todo), layouts=len(obs))
    rep.traces(len(obs))


def evaluate(rep, bld, R, tier, parts=("G", "Y", "VG", "VC")):
    """everything that runs the real binaries, given the TLC results R of run_tlc_jobs"""
    r = rng("c01")
    cls_todo = {}
    cases86 = []
    for cls in CLASSES:
        cases = generate(rep, cls, tier, r, R)
        more = tuple((x, generate(rep, x, tier, r, R))
                     for x in EXTRA[cls] + (EXTRA_THOROUGH[cls] if tier != "quick" else ()))
        if cls == "86":
            cases86 = cases
        if "G" in parts:
            todo, results = replay_class(rep, bld, cls, cases, tier, more=more)
            cls_todo[cls] = todo
    if "G" in parts and "Gen_sectabsU" in R:          # option -U: spellings are different names (own Obs config)
        todo, results = replay_class(rep, bld, "sectabsU", generate(rep, "sectabsU", tier, r, R), tier)
        cls_todo["sectabsU"] = todo
    if "Y" in parts:
        y_option_part(rep, bld, cases86, tier)
    if bld.hooks and "VG" in parts and cls_todo:
        trace_generated(rep, bld, cls_todo, tier)
    if bld.hooks and "VC" in parts:
        corpus_part(rep, bld, tier)
    for k, n in _drifts.items():
        rep.part("drift", **{k: n})


def main(tier):
    rep = Report(PID, tier)
    bld = build.get("hook")
    rep.assumptions += [
        "TLC explores PassLoop only up to the stated bounds (<= 4/5 items exhaustively, <= 12 items sampled)",
        "the per-dialect decoders (vlib/passloop.py: which bytes of an instruction hold the operand) and the "
        "code-file reader are trusted; the judgement of a decoded layout is TLC's (PassLoop_Obs: Valid)",
        "termination is observed under a cap of %d passes (hook ASL_VERIF_MAX_PASSES, exit 97)" % CAP,
        "hooks: %s" % ("sym/ref/pass events, pass cap, forced extra pass" if bld.hooks
                       else "unavailable: black-box replay only, livelock = timeout, no extra-pass / trace parts")]
    reuse = os.environ.get("C01_REUSE_TLC")        # selftest accelerator: TLC results of the parent run
    if reuse and os.path.exists(reuse):
        import pickle
        with open(reuse, "rb") as f:
            R = pickle.load(f)
    else:
        with Phase("TLC: (M) model checking + (G) exports"):
            R = run_tlc_jobs(tier)
        if reuse:
            import pickle
            with open(reuse, "wb") as f:
                pickle.dump(R, f)
    model_checks(rep, tier, R)
    evaluate(rep, bld, R, tier)
    ext_passuses.run(rep, bld, tier, R)
    return rep.finish(
        rule="programs = every PassLoop program up to the bound (TLC breadth-first export, quick: all of <= 3 items "
             "+ seed-chosen 4-item ones) + TLC-simulated programs of 5..12 items, each rendered for every dialect of "
             "its target class; distinct = distinct rendered source, non-trivial = contains a symbol reference; "
             "plus the 201 golden programs with a forced extra pass; plus the PassUses family (one use of every "
             "instruction shape of spec/PassUses.tla in front of / behind its label at the distances listed there, "
             "quick: all single-use programs + a seed-chosen share of the two-use ones)",
        exhaustive=False)


def selftest(tier):
    """binding demonstration: every stored mutation of the anchored code (selftest/C01-*.diff) must make the
    check report a VIOLATION; the unchanged tree must not.  Runs ./check in sub-processes on scratch copies."""
    import glob
    import subprocess
    import sys
    from vlib.common import REPO, VERIF
    work = os.path.join(scratch(), "selftest")
    os.makedirs(work, exist_ok=True)
    pick = os.path.join(work, "tlc.pickle")
    env = dict(os.environ, C01_REUSE_TLC=pick, VERIF_CACHE=os.path.join(work, "cache"))
    failed = 0

    def run(repo):
        e = dict(env, VERIF_REPO=repo)
        p = subprocess.run([sys.executable, os.path.join(VERIF, "check"), PID, "--tier", tier], env=e,
                           stdout=subprocess.PIPE, stderr=subprocess.STDOUT)
        out = p.stdout.decode("utf-8", "replace")
        return p.returncode, [l for l in out.splitlines() if l.startswith(("VIOLATION", "  ", "CHECK-ERROR"))][:6]
    rc, lines = run(REPO)
    log("[selftest] unchanged tree: exit %d" % rc)
    if rc != 0:
        failed += 1
    for d in sorted(glob.glob(os.path.join(VERIF, "selftest", "C01-*.diff"))):
        copy = os.path.join(work, "repo")
        shutil.rmtree(copy, ignore_errors=True)
        shutil.copytree(REPO, copy, symlinks=True, ignore=shutil.ignore_patterns(".git"))
        p = subprocess.run(["patch", "-p1", "-s", "-i", d], cwd=copy, stdout=subprocess.PIPE, stderr=subprocess.STDOUT)
        if p.returncode != 0:
            log("[selftest] %s does not apply (tree changed?): %s" % (os.path.basename(d), p.stdout.decode()[-200:]))
            failed += 1
            continue
        rc, lines = run(copy)
        log("[selftest] %s: exit %d %s" % (os.path.basename(d), rc, "caught" if rc == 1 else "NOT CAUGHT"))
        for l in lines[:4]:
            log("      " + l[:300])
        if rc != 1:
            failed += 1
    return 1 if failed else 0


def replay(path):
    v = json.load(open(os.path.join(path, "violation.json")))
    log("recorded: %s" % v["what"])
    src_path = os.path.join(path, "a.asm")
    if not os.path.exists(src_path):
        log("(corpus case %s: re-run ./check C01)" % v.get("case"))
        return 0
    bld = build.get("hook")
    src = open(src_path).read()
    opts = ["-q"] + (["-Y"] if (v.get("key") or {}).get("opt_Y") else [])
    if os.path.exists(os.path.join(path, "opts.txt")):
        opts += open(os.path.join(path, "opts.txt")).read().split()
    for extra in (False, True):
        env = {"ASL_VERIF_MAX_PASSES": str(CAP)}
        if extra:
            env["ASL_VERIF_EXTRA_PASSES"] = "1"
        res = aslrun.assemble(bld, {"a.asm": src}, opts=opts, env=env, events="file,sym", timeout=30)
        log("replay (%s): rc=%s%s" % ("extra pass" if extra else "normal", res.rc,
                                       " = pass cap hit" if res.rc == 97 else ""))
        if res.trace:
            for e in res.trace:
                if e["e"] in ("pass_end", "sym_mod") or (e["e"] == "sym_def" and not e.get("chg")):
                    log("   %s" % json.dumps(e))
        if res.p:
            log("   code: %s" % [(rec.start, rec.data.hex()) for rec in res.parsed().data_records()])
    return 0
