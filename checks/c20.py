"""C20 - Diagnostics point at the offending source position.

Specification: spec/DiagPos.tla on top of spec/MacroProc.tla.  The position of a message is a function of the
input-tag chain: MacroProc keeps it with every statement, once read from the tag counters the way GetErrorPos /
MACRO_GetPos / IRP_GetPos / REPT_GetPos / WHILE_GetPos / INCLUDE_GetPos do (machine side) and once as the place the
program text puts the statement (declarative side: file and line last read from it, for every construct what it
expands, iteration, body line; physical lines counted across continuations).  DiagPos adds the faulty statements,
the pass in which they complain, and the EXPECT machine of asmerr.c with a counting definition of its meaning.

(M) DiagPos_MC, Fixed = all: for every placement (faulty line unknown mnemonic / wrong operand count / range
    overflow / undefined symbol / a warning, inside every sequence of <= 2 (quick) / 3 (thorough) constructs out of
    REPT IRP IRPN IRPC WHILE MACRO, 0..1 clean body lines before it, after 0..2 continuation lines; in include
    files of depth 1..3; in a file included from inside a construct; AFTER a construct has completed - every kind
    and pair of kinds (thorough: triples), with and without an INCLUDE as innermost body line, directly behind the
    ENDM / the macro call or behind a continued line, in the main file and in an include file with a second faulty
    line behind the INCLUDE in the main file - so that the save / restore of the physical line counter per FILE tag
    (tag.startLine, st.momLine in MacroProc = StartLine, MomLineCounter in as.c) is exercised) and every EXPECT program (all announcements of
    <= 2 / 3 numbers x <= 2 / 3 occurring messages, nested / unclosed / stray / argument-less forms, EXPECT in a
    macro; family `expecthist`: histories message-before-block / block with met or unmet announcements / messages
    between and after blocks / optional second block announcing the same or another number) TLC checks
    PendingEmptyOutside (the pending list is explicit state, empty whenever no block is open), PositionIsPlanted, NoCleanLineNamed, PositionsIdentify, ExpectExact, ExpectProtocol.
    (MacroProc_MC of C11 additionally checks PosAgree for every statement of every program it explores.)
    Family `linelen` (dimension: LENGTH and LINE END of the physical lines, spec/LineReader.tla): the line number of a
    message is the number of physical lines read so far, and the code gets it from strutil.c ReadLnCont(), which does
    not see lines but fgets() chunks of a line buffer (1024 bytes, +128 whenever < 128 are free, never shrunk, shared
    by all files and passes).  LineReader models that loop on byte classes (chunks, growth, LF / CR-LF / ^Z stripping,
    backslash joining, end of file) next to the declarative "line k is the k-th physical line"; LineReader_MC checks
    CountsPhysical / ReadsDeclarative / BufferSane for every file of <= 2 (3) lines of every length in small buffers
    and for the lengths around every boundary of the real buffer.  The programs of the family put a faulty line
    (pass-1 and pass-2 kind) BEHIND a data statement whose physical lines have stated lengths: one line / the long
    first part of a continued statement / the part behind 864, 896, 897, 1016 joined characters (8 continued lines of
    ~110 characters - no line is long), each with the length that just fits, fits with 1 spare, leaves the LF (CR | LF)
    to the next chunk, 2 bytes more, one growth step more, several chunks, twice the buffer; x LF / CR-LF files x
    file ending with a line end / without / with a lone ^Z / with ^Z directly behind the last line x main file / include file / both (the buffer has grown when
    the main file goes on) x the statement once / twice x the faulty line last in the file or not.  The invariant
    ReaderCountsPhysical ties the family to the position model: what MacroProc.FileProc adds to the line counter
    (1 + continuation breaks) is what LineReader's ReadLnCont returns for the job's lengths under every capacity the
    buffer can have.  The renderer (vlib/linelenrender.py) pads with blanks to the stated lengths and writes the stated
    line ends.  Named deviation CrSplitFromLf (CR is stripped only in the chunk that carries the LF: a continued CR-LF
    line whose CR is the last byte that fits is not continued; needs a composed line > 1000 characters, the manual
    allows 256): the specification names the lines of such a statement, messages for them are not judged and reported
    as SPEC-DRIFT, all other messages of the program are judged.
    Why added: a seeded change that counts one line per fgets() call (LineCount++ moved into the chunk loop) passed
    the check and all 201 golden tests - every generated line was short and every file ended with a line end, so a
    physical line was always exactly one chunk.
    Phase `multi` (dimension: the `-E targets` of the quantifier over an invocation with SEVERAL sources; spec/DiagPos.tla
    section "-E targets over ONE invocation with SEVERAL sources", spec/DiagSink_MC.tla, checks/ext_diagsink.py whose
    docstring has the details): `asl [options] s1 s2 s3` keeps ONE lazily opened handle for the error target over all
    sources; Sink* operators transcribe the five places of as.c / asmerr.c / stdhandl.c that touch ErrorPath / ErrorName /
    ErrorFile, TargetOf / HeldDecl say what the manual's sentence on -E means (a source's messages go to ONE place: the
    named file, the handle !0..!2, <source>.log; a place holds the messages of all sources sent there, in command-line
    order).  DiagSink_MC enumerates all command lines of 1..3 sources x source shapes (clean / faulty line in the main
    file / in a shared include file / in a macro body / complaining in pass 2; thorough: + warnings only / nested own
    include / REPT body / continued lines; quick 155, thorough 657 command lines = every subset and order of faulty
    sources) x six forms (no -E, !0, !1, !2, -E name, -E alone); checks SourcesPlanted, SinkMatchesDecl,
    EveryFaultNamedWhereSent, NoForeignInLog; prints per command line x 11 (form, -x, -n, -gnuerrors) combinations the
    expected messages of every place (err.log, a.log, b.log, c.log, !1, !2).  Each combination is ONE invocation of the
    real asl with all sources; every place is tokenised and compared with TLC's list for it (quick 1705 invocations,
    10230 places; thorough 7227 / 43362).
    Why added: a seeded change (AssembleFile(): `if (!*ErrorPath) CloseIfOpen(&ErrorFile)` lost its `!`) passed: with
    `-E name` the handle is closed behind every source and re-opened with "w" (the messages of all earlier sources are
    gone), with `-E` alone it stays open (later sources' messages land in the first faulty source's .log); every run of
    the check assembled one source, where nothing differs.
(G) DiagPos_MC, Fixed = {} with Dump: the same jobs are printed with the messages the specification expects under
    6 reporting configurations (-x 0..2, -n, -gnuerrors, -E file / !1 / stderr); each is run through the real asl
    (CPU 68000), the error channel is tokenised into (file, line, construct chain, class, number, include chain)
    and compared with the expectation; nothing may appear on the other channels.
(V) DiagPos_Trace: the `diag` hook events of the 41 golden tests that use EXPECT (and of the generated EXPECT
    programs), grouped per statement, are validated against the EXPECT machine: a message is consumed iff its
    number is pending, ENDEXPECT reports one 2130 per leftover, nested / stray / open forms raise 2140 / 2160 / 2150.
Verdict-bearing: file, line, construct chain (native), include chain (gnu), class, number (with -n), the list of
messages being exactly the expected one (so no clean line is named, EXPECT hides exactly what is announced).
A mismatch is a KNOWN finding only for programs where the model's as-coded IRP_GetPos differs from the repaired one
AND the real output equals the as-coded prediction.

NOT covered: files that mix LF and CR-LF line ends or carry ^Z / CR elsewhere than at a line end (LineReader_MC has
them, the replay does not), a backslash at the very end of a file, long lines inside macro / loop bodies (they are
read by the same ReadLnCont when the body is stored), growth of the line buffer by macro expansion; column numbers and the -x source echo (presence only, they are skipped by the tokeniser), messages of
the 2000 other error numbers (the position mechanism is common to all), fatal errors, -gnuerrors include chains
deeper than 3, listing / error-file duplication rules (-L), positions inside STRUCT expansions, the `pos` string of
corpus `diag` events (only their EXPECT accounting is validated); several sources: -E !0 (model only, the standard
input handle cannot be observed), the same source / the same base name twice, wildcard source arguments, -E together
with -L, fatal errors, targets that cannot be created.

Mutations of /repo tried (scratch copies): see MUTATIONS at the end of this file.
"""
import os

from vlib import aslrun, build, tlc, tracecheck
from vlib import diagparse as dp
from vlib import linelenrender as llr
from vlib import macrorender as mr
from vlib.common import CheckError, Phase, log, pmap, subdir
from vlib.report import Report
from checks import ext_diagsink

PID = "C20"
ALLDEVS = ["EmptyBodyPop", "IrpcEmptyOnce", "TokenStraddle", "ShiftExcess", "IrpPosNext", "IrpDoubleCleanup",
           "AllArgsLeadingEmpty"]
FIXED_ALL = "{" + ", ".join('"%s"' % d for d in ALLDEVS) + "}"


def repaired_in_repo():
    """named deviations whose repair is recorded as applied (known_findings/*.json, "status": "fixed", field "dev"):
    the "code as it is" instance of the model is the pinned code with exactly these repairs"""
    import glob
    import json
    out = set()
    for path in glob.glob(os.path.join(os.path.dirname(os.path.dirname(os.path.abspath(__file__))), "known_findings", "C*.json")):
        try:
            for f in json.load(open(path)).get("findings", []):
                if f.get("status") == "fixed" and f.get("dev") in ALLDEVS:
                    out.add(f["dev"])
        except (OSError, ValueError):
            pass
    return "{" + ", ".join('"%s"' % d for d in sorted(out)) + "}"
FAMILIES = ["main", "incl", "after", "linelen", "expect", "expecthist"]
DIALECT = "68000"
INVS = "PositionIsPlanted NoCleanLineNamed PositionsIdentify ExpectExact ExpectProtocol PendingEmptyOutside ReaderCountsPhysical"


def _cfg(name, text):
    path = os.path.join(subdir("c20cfg"), name)
    with open(path, "w") as f:
        f.write(text)
    return path


def mc_cfg(family, tier, fixed, dump):
    return ('CONSTANTS Fixed = %s HasAttrs = FALSE MaxNum = 2200 Family = "%s" Tier = "%s"\nINIT Init\nNEXT Next\n'
            'INVARIANTS %s%s\nCHECK_DEADLOCK FALSE\n'
            % (FIXED_ALL if fixed else repaired_in_repo(), family, tier, "Dump " if dump else "", INVS))


def options(op):
    opts = ["-q", "-cpu", DIALECT] + ["-x"] * op["x"] + (["-n"] if op["n"] else []) + (["-gnuerrors"] if op["gnu"] else [])
    want = []
    if op["e"] == "file":
        opts += ["-E", "err.log"]
        want = ["err.log"]
    elif op["e"] == "stdout":
        opts += ["-E", "!1"]
    return opts, want


def channel(op, res):
    if op["e"] == "file":
        return res.files.get("err.log", b"").decode("latin-1"), res.out + res.err
    if op["e"] == "stdout":
        return res.out, res.err
    return res.err, res.out


def norm(ms):
    return [(m["file"].upper(), m["line"], tuple((e["k"], e["n"], e["i"], e["b"]) for e in m["chain"]), m["cls"],
             m["num"], tuple((i["file"].upper(), i["line"]) for i in m["incl"])) for m in ms]


def expect_events(trace):
    """hook events of one run -> executions (one per pass) of DiagPos_Trace events; None if not representable"""
    execs, cur, pend, last_split = [], None, [], None
    for e in trace or []:
        k = e["e"]
        if k == "pass_begin":
            cur, pend = [], []
            execs.append(cur)
        elif cur is None:
            continue
        elif k == "diag":
            pend.append({"num": e["num"], "hid": e["cls"] == "expected"})
        elif k == "split":
            last_split = e
        elif k == "stmt":
            op = e["op"].upper()
            active = e["ifasm"] and not e["rec"] and not e["wasmac"]
            if op == "EXPECT" and active:
                nums = []
                for a in (last_split or {}).get("args", []):
                    t = a["a"].strip()
                    if not t.isdigit():
                        return None
                    nums.append(int(t))
                cur.append({"a": "EXPECT", "nums": nums, "diags": pend})
            elif op == "ENDEXPECT" and active:
                cur.append({"a": "ENDEXPECT", "nargs": e["argc"], "diags": pend})
            elif pend:
                cur.append({"a": "STMT", "diags": pend})
            pend = []
        elif k == "pass_end":
            cur.append({"a": "PASSEND", "diags": pend})
            pend = []
    return execs


def main(tier):
    rep = Report(PID, tier)
    bld = build.get("hook")
    rep.assumptions += ["TLC explores the DiagPos / MacroProc design only up to the stated bounds",
                        "renderer, error-channel tokeniser and list comparison (Python) are trusted; expected messages "
                        "are computed by TLC",
                        "hooks: %s" % ("diag/stmt/split events" if bld.hooks else "unavailable (black-box replay only)")]
    tasks = []
    for f in sorted(FAMILIES, key=lambda x: {"main": 0, "expecthist": 1, "expect": 2}.get(x, 3)):   # longest runs first (6 at a time)
        tasks.append(("mc_" + f, _cfg("mc_%s.cfg" % f, mc_cfg(f, tier, True, False)), False))
        tasks.append(("gen_" + f, _cfg("gen_%s.cfg" % f, mc_cfg(f, tier, False, True)), True))

    tasks.append(("mc_reader", _cfg("mc_reader.cfg", 'CONSTANTS Tier = "%s"\nINIT Init\nNEXT Next\nINVARIANTS InvCountsPhysical '
                                    'InvReadsDeclarative InvBufferSane\nCHECK_DEADLOCK FALSE\n' % tier), False))
    # dimension "-E targets x several sources in one invocation" (checks/ext_diagsink.py): model check + generator in one run
    tasks.append(("multi", _cfg("multi.cfg", ext_diagsink.cfg_text(tier, repaired_in_repo())), True))

    def run(t):
        name, cfg, collect = t
        module = {"mc_reader": "LineReader_MC", "multi": ext_diagsink.MODULE}.get(name, "DiagPos_MC")
        return name, tlc.run(module, cfg, workers=2, timeout=2400, mem="6g", tags=("OUT",), collect=collect)
    with Phase("TLC: %d runs of DiagPos_MC, 1 of LineReader_MC, 1 of DiagSink_MC" % (len(tasks) - 2)):
        results = dict(pmap(run, tasks, workers=6))
    log("[tlc] " + " ".join("%s=%.0fs" % (n, r.wall) for n, r in results.items()))
    r = tlc.must(results["mc_reader"], "LineReader_MC")
    if r.violation:
        raise CheckError("the line reader of LineReader.tla does not count physical lines: %s" % r.violation[:800])
    rep.model("LineReader_MC", r)
    r = tlc.must(results["multi"], "DiagSink_MC")
    if r.violation:
        raise CheckError("the error-target machine of DiagPos.tla (Sink*) does not do what the declarative side says about -E "
                         "over several sources: %s" % r.violation[:800])
    rep.model("DiagSink_MC", r)
    multi_outs = [o for (t, o) in r.printed if t == "OUT"]
    if not multi_outs:
        raise CheckError("DiagSink_MC printed no command line")
    outs = []
    for f in FAMILIES:
        r = tlc.must(results["mc_" + f], "DiagPos_MC(%s, Fixed=all)" % f)
        if r.violation:
            raise CheckError("the DiagPos design violates its invariants on family %s: %s" % (f, r.violation[:800]))
        rep.model("DiagPos_MC(%s,Fixed=all)" % f, r)
        r = tlc.must(results["gen_" + f], "DiagPos_MC(%s, Fixed={})" % f)
        if r.violation:
            raise CheckError("the as-coded DiagPos model violates its invariants on family %s: %s" % (f, r.violation[:800]))
        rep.model("DiagPos_MC(%s,Fixed={})" % f, r)
        outs += [o for (t, o) in r.printed if t == "OUT"]

    # ---- (G) replay ---------------------------------------------------------------------------------------
    jobs, meta = [], []
    for o in outs:
        if o["indef"]:
            continue
        if o["phys"]:          # family linelen: the specification states length and line end of every physical line
            src = {f: llr.render_file(ls, o["phys"][f], DIALECT) for f, ls in o["p"].items()}
        else:
            src = {f: mr.render_file(ls, DIALECT, None, preamble=False) for f, ls in o["p"].items()}
        for run_ in o["runs"]:
            opts, want = options(run_["opt"])
            jobs.append({"sources": src, "opts": opts, "want": want, "events": "file,stmt,split,diag" if o["tag"][0].startswith("expect") and not run_["opt"]["gnu"] and run_["opt"]["x"] == 0 else None})
            meta.append((o, run_, src, opts))
    with Phase("replay %d runs of %d programs" % (len(jobs), len(outs))):
        res = aslrun.assemble_many(bld, jobs)
    texecs = []
    shaped = {"programs": 0, "chunked": 0, "with_unjudged_lines": 0, "runs_with_unjudged_messages": 0}
    for o in outs:
        if o["phys"] and not o["indef"]:
            shaped["programs"] += 1
            shaped["chunked"] += bool(o["chunked"])
            shaped["with_unjudged_lines"] += bool(o["skip"])
    for (o, run_, src, opts), rs in zip(meta, res):
        rep.evaluated()
        rep.distinct((src["a.asm"], " ".join(opts)), nontrivial=True)
        devs = sorted(o["devs"]) + sorted(o["pdevs"])
        key = {"dev_" + d: (d in devs) for d in ALLDEVS}
        files = {"src_" + f: t.encode("latin-1") for f, t in src.items()}
        if rs.timeout or rs.sig is not None or rs.rc not in (0, 2):
            key["kind"] = "crash"
            rep.violation("asl ended abnormally (rc=%s signal=%s) on placement %s" % (rs.rc, rs.sig, o["tag"]),
                          case={"tag": o["tag"], "opts": opts}, files=files, key=key)
            continue
        text, other = channel(run_["opt"], rs)
        got, bad = dp.parse_channel(text, run_["opt"]["gnu"])
        g, w, c = norm(got), norm(run_["want"]), norm(run_["coded"])
        if o["skip"]:          # lines of a statement the as-coded reader breaks (LineReader CrSplitFromLf): said by the spec
            sk = {(x["file"].upper(), x["line"]) for x in o["skip"]}
            g2, w, c = ([m for m in ms if (m[0], m[1]) not in sk] for ms in (g, w, c))
            if len(g2) != len(g):
                shaped["runs_with_unjudged_messages"] += 1
                if shaped["runs_with_unjudged_messages"] == 1:
                    rep.drift("a continued CR-LF line whose CR is the last byte that fits into the line buffer is not continued "
                              "(ReadLnCont strips CR only together with LF; composed line longer than the manual's 256 characters): "
                              "%s reports %s; the messages for these lines are not judged, all others are" % (o["tag"], [m for m in g if m not in g2][:3]))
            g = g2
        files["channel.txt"] = text
        if "> > >" in other or (run_["opt"]["gnu"] and dp.parse_channel(other, True)[0]):
            key["kind"] = "channel"
            rep.violation("messages of %s appear outside the channel selected by %s" % (o["tag"], opts),
                          case={"tag": o["tag"], "opts": opts}, files=files, key=key)
            continue
        if bad:
            key["kind"] = "format"
            rep.violation("position string %r of %s does not have the documented shape" % (bad[0], o["tag"]),
                          case={"tag": o["tag"], "opts": opts}, files=files, key=key)
            continue
        if g != w:
            key["kind"] = "position"
            key["as_model"] = bool(devs) and g == c
            rep.violation("messages of placement %s with %s: expected %s, reported %s" % (o["tag"], " ".join(opts[3:]), w[:4], g[:4]),
                          case={"tag": o["tag"], "opts": opts, "want": run_["want"], "got": got}, files=files, key=key)
        if rs.trace:
            ex = expect_events(rs.trace)
            if ex:
                texecs += ex
    for (o, run_, src, opts) in meta[:2] + meta[-2:]:
        rep.sample({"tag": o["tag"], "opts": opts, "source": src, "expected_by_TLC": run_["want"]})
    rep.traces(len(meta))
    rep.part("linelen", **shaped)
    ext_diagsink.replay(rep, bld, multi_outs, ALLDEVS)
    if shaped["programs"] and not shaped["chunked"]:
        raise CheckError("no program of family linelen has a physical line that arrives in more than one fgets() chunk")

    # ---- (V) EXPECT accounting of recorded runs -----------------------------------------------------------------
    if bld.hooks:
        tests = [t for t in aslrun.corpus() if _uses_expect(t)]
        if tier == "quick":
            tests = tests[::2]

        def one(t):
            r = aslrun.assemble_corpus(bld, t, events="file,stmt,split,diag")
            import shutil
            shutil.rmtree(r.dir, ignore_errors=True)
            return t[0], r
        with Phase("record %d golden tests that use EXPECT" % len(tests)):
            cr = pmap(one, tests)
        skipped = []
        nc = 0
        for name, r in cr:
            ex = expect_events(r.trace)
            if ex is None:
                skipped.append(name)
                continue
            texecs += ex
            nc += len(ex)
        with Phase("validate %d executions" % len(texecs)):
            v = tracecheck.validate("DiagPos_Trace", texecs, timeout=1200, mem="6g")
        rep.part("DiagPos_Trace", events=v.events, executions=v.executions, corpus_executions=nc, accepted=v.accepted,
                 distinct_states=v.states, skipped_non_literal_expect=skipped, wall_s=v.wall)
        rep.cov["states"] += v.states
        rep.cov["transitions"] += v.generated
        rep.traces(v.executions)
        if not v.accepted:
            rep.violation("EXPECT accounting of a recorded run is not what asmerr.c's EXPECT machine allows: %s" % v.detail[:500],
                          case={"event": v.fail_event}, files={}, key={"kind": "expect_trace"})
    return rep.finish(
        rule="jobs = every member of the TLC-enumerated placement and EXPECT families x reporting configurations; "
             "distinct = distinct (rendered main file, options); every job contains a faulty line or an EXPECT block",
        exhaustive=False)


def _uses_expect(t):
    import re
    try:
        with open(t[2], "rb") as f:
            return re.search(rb"(?im)^\s+expect\s", f.read()) is not None
    except OSError:
        return False


def replay(path):
    import json
    v = json.load(open(os.path.join(path, "violation.json")))
    bld = build.get("hook")
    src = {}
    for fn in os.listdir(path):
        if fn.startswith("src_"):
            src[fn[4:]] = open(os.path.join(path, fn), "rb").read().decode("latin-1")      # line ends as recorded
    opts = v.get("case", {}).get("opts") or ["-q", "-cpu", DIALECT]
    main = v.get("case", {}).get("main") or "a.asm"          # phase multi: all sources of the command line
    res = aslrun.assemble(bld, src, main=main, opts=opts, want=["err.log"] + ext_diagsink.FILES)
    log("rc=%s sig=%s\nstdout:\n%s\nstderr:\n%s" % (res.rc, res.sig, res.out, res.err))
    for f in sorted(res.files):
        log("%s:\n%s" % (f, res.files[f].decode("latin-1")))
    log("recorded: %s" % v["what"])
    return 0


MUTATIONS = """
Each mutation was applied to a scratch copy of the unfixed /repo (VERIF_REPO=...), `./check C20 --tier quick` was run
and the mutant's own ctest result recorded (8 of 9 mutants pass all 201 golden tests):
  INCLUDE_Processor counts a continued line as one physical line         -> VIOLATION   (ctest 201/201)
  MACRO_GetPos prints LineZ instead of LineZ-1                           -> VIOLATION   (ctest 201/201)
  REPT_GetPos does not step the iteration back at the body end            -> VIOLATION   (ctest 201/201)
      (first run missed it: the faulty line never was the LAST body line; the families got the `post` dimension)
  FindAndTakeExpectError does not unlink (EXPECT hides every occurrence)  -> VIOLATION   (ctest 160/201)
  CodeENDEXPECT reports only the last leftover                            -> VIOLATION   (ctest 201/201)
  -gnuerrors names the outermost instead of the innermost file            -> VIOLATION   (ctest 201/201)
  INCLUDE_Restorer restores the line counter + 1                          -> VIOLATION   (ctest 201/201)
  nested EXPECT accepted silently                                         -> VIOLATION   (ctest 201/201)
Second round (a seeded change was missed: ExpandINCLUDE_Core no longer saves MomLineCounter in the FILE tag; no
faulty line ever followed a completed construct / a returned INCLUDE in the same file) - family `after` added, then
on a copy of the current /repo:
  `Tag->StartLine = MomLineCounter` deleted (the seed)                    -> VIOLATION (after)   (ctest 201/201)
  INCLUDE_Restorer does not restore MomLineCounter                        -> VIOLATION           (ctest 201/201)
Third round (seed missed: ENDEXPECT no longer emptied the list, an unmet announcement swallowed a later message
outside any block) - invariant PendingEmptyOutside and family `expecthist` added; on a copy of the current /repo:
  CodeENDEXPECT reports but keeps the list, CodeEXPECT clears it          -> VIOLATION (expecthist)  (ctest 201/201)
Fourth round (seed missed: strutil.c ReadLnCont counts one line per fgets() call - LineCount++ moved into the chunk
loop; every generated line was short and every file ended with a line end) - spec/LineReader.tla, LineReader_MC, family
`linelen` and invariant ReaderCountsPhysical added; on copies of the current /repo, quick tier:
  LineCount++ per fgets() chunk (the seed)                                -> VIOLATION (linelen, 450 runs)  (ctest 201/201)
  a line is counted only if it ended in LF (or is empty)                  -> VIOLATION (linelen: last line without line end)
  LineCount-- when a ^Z is stripped                                       -> VIOLATION (linelen: ^Z behind the last line;
      first run missed it: a LONE ^Z line ends the file and nothing is said after it - file end `zonline` added)
  an LF that arrives as a chunk of its own counts as a further line       -> VIOLATION (linelen: lengths Fit+1)
Fifth round (seed missed: as.c AssembleFile() closes the error handle per source iff ErrorPath is NOT empty - the `!`
dropped; only invocations with >= 2 sources and a -E target that is a real file show it) - Sink* machine + declarative
-E meaning in DiagPos.tla, DiagSink_MC, phase `multi` added; on copies of the current /repo, quick tier:
  `if (*ErrorPath) CloseIfOpen(&ErrorFile)` in AssembleFile (the seed)     -> VIOLATION (multi: 640 invocations, forms -E name and -E)  (ctest 201/201)
  `if (0)`: the handle is never closed per source                         -> VIOLATION (multi: form -E, later sources in the first log) (ctest 201/201)
  `if (1)`: the handle is closed behind every source                      -> VIOLATION (multi: form -E name, earlier sources lost)     (ctest 201/201)
  the same three mutations of the MODEL (SinkFileEnd)                     -> TLC refutes SinkMatchesDecl
The proposed fix of IRP_GetPos applied: 0 violations, no known finding hit (the as-coded prediction of the model
equals the real output in all 576 affected runs before the fix, the declarative expectation after it).
"""
