"""C14 extension "isa6809": the Motorola MC6809 instruction set (last phase of checks/c14.py main()).

Specification: spec/Isa6809.tla (+ Isa6809_Gen.tla / .cfg generator, Isa6809_MC.cfg the same checks one by one,
Isa6809_Trace.tla / .cfg).  Written from the MC6809 programming manual (opcode map pages 1 / 2 / 3, indexed postbyte
table, TFR / EXG and PSH / PUL postbytes), NOT from /repo/code6809.c and without the 6309 extensions.  Three layers:
  machine instructions  m = [mnemonic, complete operand incl. the size of an indexed offset]; MEncode (encoder), MDecode
                        (decoder written from the byte side), PubLen (published lengths), Sem (effective address)
  statements            what the source says (`LDA <5,X`); Readings(s, pc, dpr) = EVERY machine instruction denoting it
                        (no offset / 5 / 8 / 16 bit, 8 / 16 bit PCR, direct / extended by the assumed DPR);
                        Choices = the one the Motorola convention takes (shortest; `<` 8 bit / direct, `>` 16 bit /
                        extended, `<<` 5 bit)
  Expect                "units"  the instruction set defines the statement outright: it must be accepted and the bytes
                                 must be those of SOME reading (which one is the assembler's business: a different valid
                                 size is SPEC-DRIFT, never a verdict);
                        "reject" no reading exists ([,R+] [,-R], PSHS S, TFR A,X, STA #n, LEAX addr, offset beyond 16 bit,
                                 short branch out of -128..127 ...): an error and NO bytes;
                        "either" acceptance is assembler convention (forced sizes - the asl manual documents neither
                                 `<` nor `>` for the 6809 -, two's-complement / wrap-around spellings such as #-1 or
                                 65535,X): may be rejected, but if accepted the bytes must be those of a reading.
  Manual: doc/pseudo-instructions.md "ASSUME ... 6809" (the direct page is what ASSUME DPR says, default 0): a direct
  access is a reading only for an address in the assumed page (or under `<`, where the programmer vouches himself).
(M) TLC, once on the table: opcode map injective, one entry per (mnemonic, mode), 221 / 38 / 9 defined opcodes on pages
    1 / 2 ($10) / 3 ($11), postbyte map injective with 205 canonical postbytes, [,R+] / [,-R] on no legal postbyte,
    range edges -17/-16/15/16 (5 bit, never indirect), -129/-128/127/128 (8 bit), 16 bit, short branch -128..127
    counted from the FOLLOWING instruction, LBRA / LBSR 3 bytes, LBcc 4 bytes, PCR bases for page-1 and prefixed
    instructions, register list / pair postbytes incl. the S-vs-U exclusion and 8/16-bit mixing.
    At every leaf, for every reading: MDecode(MEncode(m)) = m (LSL / BHS / BLO: the primary mnemonic), bytes are
    bytes, published length, every reading means what the statement text says (16-bit address arithmetic), two readings
    never share their bytes, the convention's choice is a reading, unique and (unforced) a shortest one.
(G) every leaf printed by TLC (statement text, address, assumed DPR, expectation, bytes of the choice, bytes of EVERY
    reading, context statement) is rendered as `cpu 6809` source (`assume dpr:n`, `org` for PC-relative operands),
    assembled by the real asl, and the emit / diag events per line and the code file are compared with what TLC printed.
    Leaves: every mnemonic x {,R ,R+ ,R++ ,-R ,--R A,R B,R D,R} x {X Y U S} x {plain, [..]}; constant offsets -32769
    -32768 -130..-127 -18..-15 -2..2 14..17 126..129 255 256 32766..32768 65407 65408 65519 65520 65535 65536 65541 + 3
    seed-chosen x register x [..] x {none < > <<}; n,PCR at 4096 / 40000 with the 8-bit distance at -130..-127 -2..2
    125..129 and far / wrapping / out-of-space targets x [..] x {none < >}; [n]; direct / extended: DPR 0 / $12 / $FF x
    page edges -1 0 1 .. 255 256, 0, 65535, 65536, negative spellings x {none < >}; immediates 8 / 16 (limits, +-1,
    two's complement, mask probes); modes an instruction lacks; inherent incl. SWI2 / SWI3; short branches (every
    distance within K of both limits) and long branches at both addresses; all 255 register lists of PSHS PULS PSHU
    PULU in two orders + lists naming the own stack pointer; all 100 register pairs of TFR and EXG.
    quick: the offset / PCR / DPR cross products are complete for LDA LDY CMPS LEAX NEG (8-bit ALU, page-2 and
    page-3 16-bit, LEA, read-modify-write) and rotate 1 in 8 over the other 52 mnemonics (every mnemonic meets every value); thorough: complete.
(H) history dimension: every leaf once more on the line directly behind a CONTEXT statement of another operand shape
    chosen by TLC (21 legal statements: inherent, page-2 inherent, imm8, imm16, page-3 imm16, direct, extended, ,X+,
    5 / 8 / 16-bit offset, [D,X], [n], PSHS list, TFR, BNE, LBEQ, LBSR, n,PCR 8 / 16 bit, page-3 [n,PCR]); same
    expectation (the instruction set is context free), the context's own bytes are checked too.
(V) tests/t_full09 (golden program; assembled for CPU 6809, its 6309 blocks off): every machine statement whose
    mnemonic the table knows must be explained from the byte side by TLC (Isa6809_Trace: decode, same opcode, re-encode,
    published length).  A rejection is reported as SPEC-DRIFT (first of all a slip in the table).
Bounds: quick 27,390 leaves in 4 parallel single-worker TLC runs (thorough 103,878 in 4), every leaf assembled twice.
Not covered: 6309; flag-name operands of ANDCC / ORCC / CWAI, `SWI 2`, `#mask` / ALL / D in register lists, DPR / CCR
spellings, `n,PC`, lower case, symbols and forward references (pass-dependent size choice), `[<n]`, empty PSHS list,
non-canonical PCR postbytes (register bits set); contexts of more than one statement.
Finding (known_findings/C14-isa6809.json, proposed_fixes/C14-6809-indirect-autoinc1.*): `LDA [,X+]` -> A6 90 and
    `LDA [,-X]` -> A6 92 (every indexed instruction, all four registers): postbytes the 6809 does not define (on the 6309
    $90 is [,W]).  Spec drift on the unchanged tree (summarised per class): offset / PCR distance 127 gets the 16-bit
    form and `<127,R` is refused (code6809.c MayShort: `Arg < 127`).
Mutations of code6809.c tried (scratch copies /tmp/g09-m1..4, all build and pass ctest 201/201; the phase run on them, exit 1):
  m1 DecodeTFR_TFM_EXG: size-mixing test only when the destination is 16 bit -> 96 violations (`EXG S,A` -> 1E 48 ...)
  m2 DecodeALU: only the $10 prefix counted into the PCR base -> 1752 violations (page-3 `CMPS n,PCR` / `CMPU` off by one)
  m3 DecodeAdr: high byte of a 16-bit PCR offset only written when non-zero (stale AdrVals[1] of the PREVIOUS statement)
     -> 873 violations, none of them reproducible alone: 138 directly behind their context statement (H), 463 behind the
     statement in front of them in the batch, 272 only inside the batch program
  m4 DecodeRel: short branch limit 127 -> 128 -> 76 violations (`BRA <pc+130>` -> 20 80)
  (5-bit edge 15 -> 16, direct-page test against page 0, stale high byte of every 16-bit offset: killed by the repo's own
  tests/t_full09 already, dropped.)  With proposed_fixes/C14-6809-indirect-autoinc1.diff: ctest 201/201, no finding.
Binding of (V): truncating an indexed LDA, flipping an opcode bit of LBNE, postbyte $91 -> $90 make Isa6809_Trace reject.
Binding of the model: postbyte of D,R 11 -> 10 in Isa6809.tla makes TLC report RoundTrip violated (Isa6809_MC.cfg).
"""
import os
import re

from vlib import aslrun, build, isa, tlc, tracecheck
from vlib.common import REPO, CheckError, Phase, log, pmap, scratch, seed

CFG = isa.IsaCfg("6809", "Isa6809_Gen", [("6809", "6809")])
ACC_CHUNK = 500
REJ_CHUNK = 100


# ------------------------------------------------------------------------------------------------ TLC
def gen_slice(args):
    full, salt, k, parts, part = args
    d = os.path.join(scratch(), "isa6809")
    os.makedirs(d, exist_ok=True)
    path = os.path.join(d, "Isa6809_Gen_%d.cfg" % part)
    with open(path, "w") as f:
        f.write("CONSTANTS Full = %s Salt = %d K = %d Parts = %d Part = %d\nINIT Init\nNEXT Next\nINVARIANTS Dump\n"
                "CHECK_DEADLOCK FALSE\n" % ("TRUE" if full else "FALSE", salt, k, parts, part))
    r = tlc.must(tlc.run("Isa6809_Gen", path, workers=1, timeout=1500, mem="4g", tags=("OUT",)), "Isa6809_Gen(part %d)" % part)
    if r.violation:
        raise CheckError("MC6809 table fails its own invariants (run Isa6809_MC.cfg to name it): %s" % r.violation[:800])
    cases = [c for (t, c) in r.printed if t == "OUT"]
    return r, cases


# ------------------------------------------------------------------------------------------------ rendering
def stmt_text(c):
    return isa.stmt_text(c)


def header(dpr):
    h = ["\tcpu\t6809"]
    if dpr:
        h.append("\tassume\tdpr:%d" % dpr)
    return h


def source(cases, dpr, hist):
    """-> (text, {index: line of the statement}, {index: line of its context statement})"""
    lines = header(dpr)
    where, cwhere = {}, {}
    for i, c in enumerate(cases):
        org = c["corg"] if hist else c["pc"]
        if org >= 0:
            lines.append("\torg\t%d" % org)
        if hist:
            lines.append(stmt_text(c["ctx"]))
            cwhere[i] = len(lines)
        lines.append(stmt_text(c))
        where[i] = len(lines)
    return "\n".join(lines) + "\n", where, cwhere


# ------------------------------------------------------------------------------------------------ judging
def judge(c, em, errs, rc):
    """-> (verdict, kind, text); verdict in ok / drift / violation.  Everything compared here was printed by TLC:
    exp (what instruction set + manual fix), valid (bytes of every reading), pred / units (the convention's choice)."""
    exp, valid = c["exp"], c["valid"]
    if exp == "reject":
        if em:
            return "violation", ("truncated-with-error" if errs else "accepted-illegal"), \
                "no 6809 instruction for this statement, but bytes %s were emitted%s" % (em, " next to the error" if errs else
                                                                                          " and no error reported")
        if not errs and rc == 0:
            return "violation", "accepted-illegal", "no 6809 instruction for this statement, but no error was reported"
        return "ok", "", ""
    if em and errs:
        return "violation", "truncated-with-error", "reported as an error but bytes %s were emitted all the same" % em
    if em:
        if em not in valid:
            return "violation", "wrong-units", "assembled to %s; the instruction set admits %s" % (em, valid)
        if c["pred"] == "reject":
            return "drift", "accepted", "accepted (as %s) where the convention refuses" % em
        if em != c["units"]:
            return "drift", "other-size", "assembled to %s (valid), the convention's choice is %s" % (em, c["units"])
        return "ok", "", ""
    if not errs and rc == 0:
        return "violation", "vanished", "neither bytes nor an error"
    if exp == "units":
        return "violation", "rejected-legal", "legal statement rejected (errors %s); readings %s" % (errs, valid)
    if c["pred"] == "units":
        return "drift", "refused", "refused (errors %s) where the convention accepts (%s)" % (errs, c["units"])
    return "ok", "", ""


def ctx_ok(c, em, errs):
    return not errs and em == c["ctx"]["units"]


def key_of(c, kind, hist):
    return {"isa": "6809", "cpu": "6809", "form": c["id"], "mn": c["mn"], "cls": c["cls"], "kind": kind,
            "ctx": c["ctx"]["id"] if hist else "", "v": c["v"]}


DRIFT = {}


def note_drift(c, kind, text, hist):
    k = (c["cls"], kind, c["v"] if abs(c["v"]) < 1000 else "far")
    d = DRIFT.setdefault(k, [0, "%s %s: %s" % (c["mn"], ",".join(c["args"]), text), set()])
    d[0] += 1
    d[2].add(c["mn"])


def _many(bld, jobs):
    try:
        return aslrun.assemble_many(bld, jobs)
    except FileNotFoundError:
        build.get(bld.flavour)
        return aslrun.assemble_many(bld, jobs)


def _observe(bld, res, ln):
    if bld.hooks and res.trace is not None:
        em, errs = isa.emitted_by_line(res.trace, CFG)
        e1, r1 = em.get(ln, []), errs.get(ln, [])
        if not r1 and res.rc != 0 and not e1:
            r1 = [n for l in errs for n in errs[l]] or ["rc=%s" % res.rc]
        return e1, r1
    cu = isa.code_units(res, CFG)
    return ([u for (_, u) in cu] if cu else []), (["rc=%s" % res.rc] if res.rc != 0 else [])


def _judge_in(bld, c, src, where, cwhere, i, res, hist):
    """case number i of the program src -> (verdict, kind, text) incl. the check of its context statement"""
    if res.timeout or res.sig is not None:
        return "violation", "crash", "assembler crashed / hung"
    if hist and bld.hooks:
        xe, xr = _observe(bld, res, cwhere[i])
        x = c["ctx"]
        if xr or xe != x["units"]:
            return "violation", "context", "its context statement '%s' assembled to %s (errors %s), the instruction set " \
                   "prescribes %s" % (stmt_text(x).strip().replace("\t", " "), xe, xr, x["units"])
    e1, r1 = _observe(bld, res, where[i])
    if not bld.hooks:
        # code file only: the bytes of the statements in front come first
        n = len(c["ctx"]["units"]) if hist else 0
        e1 = e1[n:] if e1[:n] == c["ctx"]["units"][:n] else e1
    return judge(c, e1, r1, res.rc)


def replay(rep, bld, cases, hist):
    """assemble every case (hist: directly behind its context statement) and judge it.  Batches first; a case that does
    not show the expected picture there is a suspect: it is assembled as a program of its own and judged there; if it
    is fine alone, together with the case in front of it in the batch (the instruction set is context free: what the
    previous statement left behind must not matter); if it is fine there too, the batch program itself is the evidence."""
    groups = []
    for dpr in sorted({c["dpr"] for c in cases}):
        mine = [c for c in cases if c["dpr"] == dpr]
        acc = [c for c in mine if c["exp"] != "reject" and c["pred"] == "units"]
        oth = [c for c in mine if not (c["exp"] != "reject" and c["pred"] == "units")]
        groups += [(dpr, True, acc[i:i + ACC_CHUNK]) for i in range(0, len(acc), ACC_CHUNK)]
        groups += [(dpr, False, oth[i:i + REJ_CHUNK]) for i in range(0, len(oth), REJ_CHUNK)]
    suspects = []           # (case, case in front of it in the batch or None, batch source or None, what the batch showed)
    if bld.hooks:
        metas = [source(g, dpr, hist) for (dpr, _, g) in groups]
        results = _many(bld, [{"sources": {"a.asm": m[0]}, "opts": ["-q"], "events": "emit,diag", "timeout": 120} for m in metas])
        for (dpr, isacc, g), (src, where, cwhere), res in zip(groups, metas, results):
            rep.traces(1)
            if res.timeout or res.sig is not None or res.trace is None:
                suspects += [(c, None, None, "") for c in g]
                continue
            em, errs = isa.emitted_by_line(res.trace, CFG)
            clean = True
            for i, c in enumerate(g):
                v, kind, text = judge(c, em.get(where[i], []), errs.get(where[i], []), res.rc)
                if hist and not ctx_ok(c, em.get(cwhere[i], []), errs.get(cwhere[i], [])):
                    v, text = "violation", "context statement assembled to %s" % em.get(cwhere[i], [])
                if v == "violation":
                    suspects.append((c, g[i - 1] if i else None, src, text))
                    clean = False
                elif v == "drift":
                    note_drift(c, kind, text, hist)
            if isacc and clean and res.rc == 0:
                # the code file itself (the property's observation point) holds the bytes reported per line
                lp = isa.last_pass(res.trace)
                want = []
                for e in res.trace:
                    if e["e"] == "emit" and e.get("pass") == lp:
                        b = bytes.fromhex(e["bytes"])
                        want += [(e["addr"] + n, b[n]) for n in range(len(b))]
                got = isa.code_units(res, CFG)
                if got is None or got != want:
                    n = 0
                    while got is not None and n < min(len(got), len(want)) and got[n] == want[n]:
                        n += 1
                    rep.violation("6809: code file differs from the bytes reported per line at byte #%d (file %s, events %s)"
                                  % (n, got[n:n + 3] if got else None, want[n:n + 3]), files={"a.asm": src},
                                  key={"isa": "6809", "cpu": "6809", "kind": "code-file"})
    else:
        suspects = [(c, None, None, "") for c in cases]
    ev = "emit,diag" if bld.hooks else None

    def describe(c):
        return "'%s'%s%s%s" % (stmt_text(c).strip().replace("\t", " "), " at %d" % c["pc"] if c["pc"] >= 0 else "",
                               " (assume dpr:%d)" % c["dpr"] if c["dpr"] else "",
                               " on the line directly after '%s'" % stmt_text(c["ctx"]).strip().replace("\t", " ") if hist else "")
    # 1: a program of its own ----------------------------------------------------------------------------------------
    metas = [source([c], c["dpr"], hist) for (c, _, _, _) in suspects]
    results = _many(bld, [{"sources": {"a.asm": m[0]}, "opts": ["-q"], "events": ev} for m in metas])
    pairs = []
    for (c, prev, bsrc, btext), (src, where, cwhere), res in zip(suspects, metas, results):
        v, kind, text = _judge_in(bld, c, src, where, cwhere, 0, res, hist)
        if v == "violation":
            rep.violation("6809: %s: %s" % (describe(c), text), case=c, files={"a.asm": src, "out.txt": res.out + res.err},
                          key=key_of(c, kind, hist))
        elif bsrc is not None:
            pairs.append((c, prev, bsrc, btext))
    # 2: fine alone, but not in the batch: behind the case that stood in front of it ------------------------------------
    metas = [source([prev, c] if prev is not None else [c], c["dpr"], hist) for (c, prev, _, _) in pairs]
    results = _many(bld, [{"sources": {"a.asm": m[0]}, "opts": ["-q"], "events": ev} for m in metas])
    for (c, prev, bsrc, btext), (src, where, cwhere), res in zip(pairs, metas, results):
        i = 1 if prev is not None else 0
        v, kind, text = _judge_in(bld, c, src, where, cwhere, i, res, hist) if bld.hooks else ("ok", "", "")
        if v == "violation" and prev is not None:
            rep.violation("6809: %s, alone assembled as the instruction set prescribes, but behind the statement '%s': %s"
                          % (describe(c), stmt_text(prev).strip().replace("\t", " "), text), case=c,
                          files={"a.asm": src, "out.txt": res.out + res.err}, key=key_of(c, kind + "-after-statement", hist))
        else:
            rep.violation("6809: %s, alone assembled as the instruction set prescribes, but inside a program of %d "
                          "statements: %s" % (describe(c), bsrc.count("\n"), btext), case=c, files={"a.asm": bsrc},
                          key=key_of(c, "batch-only", hist))
    rep.traces(len(suspects) + len(pairs))
    for c in cases:
        rep.evaluated()
        rep.distinct(("6809", stmt_text(c), c["pc"], c["dpr"], hist), True)
    return len(suspects)


# ------------------------------------------------------------------------------------------------ golden program
def golden_events(bld):
    """machine statements of tests/t_full09 assembled for CPU 6809 (first line `cpu 6309` -> `cpu 6809`, no -D __6309__)"""
    path = os.path.join(REPO, "tests", "t_full09", "t_full09.asm")
    text = open(path, encoding="latin-1").read()
    text2 = re.sub(r"(?im)^(\s*cpu\s+)6309", r"\g<1>6809", text, count=1)
    res = aslrun.assemble(bld, {"a.asm": text2}, opts=["-q"], events="stmt,emit", timeout=120)
    if not res.trace:
        return [], res
    lp = isa.last_pass(res.trace)
    ev, pend, first = [], b"", None
    for e in res.trace:
        if e.get("pass") != lp:
            continue
        if e["e"] == "emit":
            if first is None:
                first = e["addr"]
            pend += bytes.fromhex(e["bytes"])
        elif e["e"] == "stmt":
            if pend and e["seg"] == 1 and not e["rec"]:
                ev.append({"a": "STMT", "op": e["op"].upper(), "units": list(pend), "pc": first, "line": e["line"]})
            pend, first = b"", None
    return ev, res


def golden_validate(bld):
    ev, res = golden_events(bld)
    v = tracecheck.validate("Isa6809_Trace", [ev], cfg="Isa6809_Trace.cfg", timeout=600) if ev else None
    return ev, res, v


# ------------------------------------------------------------------------------------------------ phase
def run(rep, bld, tier):
    full = tier != "quick"
    k = 3 if tier == "quick" else 8
    salt = seed() % 1000
    parts = 4
    vfut = None
    if bld.hooks:
        # (V) runs beside the generator runs: it needs nothing from them
        import concurrent.futures
        vpool = concurrent.futures.ThreadPoolExecutor(max_workers=1)
        vfut = vpool.submit(golden_validate, bld)
    with Phase("isa6809: %d TLC runs over the MC6809 table (Full=%s, K=%d, Salt=%d)" % (parts, full, k, salt)):
        outs = pmap(gen_slice, [(full, salt, k, parts, p) for p in range(parts)], workers=parts)
    cases = []
    for p, (r, cs) in enumerate(outs):
        rep.model("Isa6809_Gen(Full=%s,K=%d,Salt=%d,part %d/%d)" % (full, k, salt, p, parts), r)
        cases += cs
    if not cases:
        raise CheckError("Isa6809_Gen printed no cases")
    with Phase("isa6809: replay of %d statements, alone" % len(cases)):
        n1 = replay(rep, bld, cases, False)
    with Phase("isa6809: replay of %d statements, each behind its context statement" % len(cases)):
        n2 = replay(rep, bld, cases, True)
    exp = {x: sum(1 for c in cases if c["exp"] == x) for x in ("units", "reject", "either")}
    rep.part("isa6809", statements=len(cases), mnemonics=len({c["mn"] for c in cases}), classes=len({c["cls"] for c in cases}),
             expected_units=exp["units"], expected_reject=exp["reject"], convention_zone=exp["either"],
             assembled_twice=True, rerun_alone=n1, rerun_in_context=n2,
             context_forms=len({c["ctx"]["id"] for c in cases}), drift_classes=len(DRIFT))
    for c in [c for c in cases if c["exp"] == "units" and c["cls"].startswith("idx:off")][:1] + \
            [c for c in cases if c["exp"] == "reject" and c["cls"].startswith("idx:")][:1]:
        rep.sample({"isa": "6809", "statement": stmt_text(c).strip(), "pc": c["pc"], "assume_dpr": c["dpr"],
                    "expected": c["exp"], "choice": c["units"], "readings": c["valid"],
                    "context_statement_on_the_line_before": stmt_text(c["ctx"]).strip()})
    for (cls, kind, v), (n, text, mns) in sorted(DRIFT.items(), key=lambda kv: str(kv[0])):
        rep.drift("6809 %s, operand %s: %d statement(s) over %d mnemonic(s) %s - e.g. %s"
                  % (cls, v, n, len(mns), {"other-size": "get another valid size than the convention's",
                                           "refused": "are refused where the convention accepts",
                                           "accepted": "are accepted where the convention refuses"}[kind], text))
    # (V) golden program ------------------------------------------------------------------------------------------
    if vfut is not None:
        with Phase("isa6809: statements of tests/t_full09 (CPU 6809) explained by the table (background run)"):
            ev, res, v = vfut.result()
            vpool.shutdown()
        if not ev:
            rep.drift("6809: t_full09 could not be recorded for CPU 6809 (rc=%s)" % res.rc)
        else:
            mns = {c["mn"] for c in cases}
            rep.part("Isa6809_Trace(t_full09)", statements=len(ev), table_mnemonic_statements=sum(1 for e in ev if e["op"] in mns),
                     mnemonics_met=len({e["op"] for e in ev if e["op"] in mns}), accepted=v.accepted,
                     distinct_states=v.states, wall_s=v.wall)
            rep.cov["states"] += v.states
            rep.cov["transitions"] += v.generated
            rep.traces(v.executions)
            if not v.accepted:
                rep.drift("golden test t_full09 (CPU 6809): %s" % v.detail)
    rep.assumptions += ["isa6809: MC6809 only (no 6309 extensions); operands are decimal numbers, registers upper case; the "
                        "choice among valid encodings of one statement (offset size, forced sizes) is never a verdict"]
