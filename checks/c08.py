"""C08 - Expressions and constants evaluate to their documented mathematical value.

Specification: spec/Expr.tla (operator table of the manual joined with operator.c's, Unparse, Scan/Parse = transcription of
asmpars.c EvalStrExpression, typed evaluation, built-in functions), spec/Limb64.tla (64-bit two's complement on 16/8-bit
limbs, TLC integers are 32-bit), spec/IEEE.tla (exact dyadic floats, IEEE double layout), spec/IntLit.tla (integer
notations x RADIX x INTSYNTAX/RELAXED).

(M) TLC model checks
    Limb64_MC : limb arithmetic = native arithmetic on a small interval; algebraic laws (q*y+r=x, shifts = products,
                De Morgan, ...) on the boundary operands 0, +-1, 2^31, 2^32, 2^63-1, -2^63 and neighbours.
    Expr_MC   : Parse(Unparse(t)) = t for every tree of depth <= 3 over the whole operator table (minimal parentheses,
                with blanks, fully parenthesised); every flat formula with <= 3 (thorough 4) operators parses to the tree
                the manual's rank column + left-to-right grouping prescribes; rank order = Priority order of operator.c;
                the manual's integer/float/string columns = TypeCombinations + TryConvert arithmetic.
    IntLit_MC : the transcription of ConstIntVal/IntFormatList agrees with the declarative reading of the manual's
                notation table on every generated literal except the named deviations.
(G) TLC-generated cases replayed into the real asl (expected bytes are printed by TLC, never computed in Python):
    Expr_Gen  : every operator x every pair of boundary operands, every built-in function over its small domain
                (negative / oversized indices, ill-typed arguments, wrong counts), the documented alias spellings,
                VAL on spelled formulas; Expr_Sim: random type-directed growth of trees up to depth 6.
    IntLit_Gen: every notation of the manual x RADIX 2..36 x native syntax sets of four families x RELAXED x INTSYNTAX.
    IntMode_MC: the notation STATE as a function of the HISTORY of CPU / RELAXED / INTSYNTAX statements (spec/IntMode.tla:
                accepted set = f(native set of the target, relaxed flag, plus / minus sets); the code rebuilds a list in each
                statement, so order matters): every history of <= 3 statements after `cpu z80|68000` (thorough: + AM29000,
                MN1610; quick: third statement from 5 of the 13) followed by a constant in every notation (checks/c08_hist.py).
    Each case is rendered for z80 (Intel notation, `dq`/`db`, little endian) and 68000 (Motorola notation,
    `dc.q`/`dc.d`/`dc.b`, big endian), one `org` slot per case; the 64-bit / IEEE-double / character result is read
    back from the code file.  Cases TLC evaluates to ERR must produce an error message on their line (grouped files,
    attribution by line number; a sample is assembled one per file: exit status 2 and no code).  A sample of integer
    and string results is also observed through  MESSAGE "\\{expr}".  A quarter of the cases have an operand hoisted
    into an EQU symbol.
Verdict-bearing: value equality; ERR <=> an error on that line; never a crash.  Cases the manual leaves open (UNS:
    shift counts outside 0..63, negative integer exponents, INT of a negative fraction, int+string, float results
    needing rounding, TOUPPER of a string, ...) are assembled only to see that the assembler survives.

NOT covered: rounding of float + - * / (only exact dyadic operands/results), decimal->binary conversion of float
    literals (only literals that are exactly representable), transcendental functions except arguments with exact
    results, quotes/escapes inside the splitter (string constants are opaque atoms of the model), SYMTYPE/DEFINED,
    user-defined FUNCTIONs, OUTRADIX formatting beyond hexadecimal integers, locale-dependent TOUPPER > 127.

Known findings of the pinned tree (known_findings/C08.json, one proposed fix each, all 201 golden tests pass with them):
    float ^ with negative base, FIRSTBIT of odd numbers, -2^63 / -1 and # -1 (SIGFPE), `!=` alias missing, SUBSTR with a
    negative start, `>>` arithmetic instead of logical, strings of 0 or > 4 characters used as numbers (garbage / silence),
    `x >< 32`, BITPOS(-2^63), RADIX > 10 turning words like FF or BAD into constants.  Side observation (not C08):
    `strlen(1)`, `upstring(1)` ... end in "internal error" + fatal exit 3 because function.c's (1 << type) masks are handed
    to DeduceExpectTypeErrMsgMask, which expects plain type masks (the same reason `toupper('a')` complains about a float).
    The check counts that as "an error is reported".

Mutations of the real code tried (fresh copy of /repo, VERIF_REPO, ./check C08 --tier quick):
    * operator.c: priority of "&" 5 -> 7 (same as "!")   -> MISSED by the first version (only single operators and random
      deep trees were replayed); after adding the parenthesis-free two-operator formulas (mode "flat"): caught, 18
      violations, e.g. `3&7|5` = 3 instead of 7
    * operator.c SubOp: integer operands swapped                       -> caught (629 violations)
    * asmpars.c EvalStrExpression: ">=" in the priority comparison -> ">" (leftmost instead of rightmost operator)
                                                                      -> caught (4122 violations)
    * function.c FuncSTRSTR returns position + 1                       -> caught (72)
    * intformat.c ChkIntFormatInt: radix guard `<=` -> `<`             -> caught by the literal part (279)
    * operator.c DivOp: integer x/0 yields 0 instead of an error       -> caught (36, "no error is reported")
    With all ten proposed fixes applied to a copy: 0 violations, no KNOWN-FINDING line.
    * (after an independently seeded miss) function.c FuncSUBSTR: start position held in an `int` (cut to 32 bits before the
      clamps) -> invisible while function arguments were only small numbers; now every integer parameter of every built-in
      function and the right operand of >< << >> runs through 0, +-1, len-1, len, len+1, 2^31-1, 2^31, 2^32-1, 2^32, 2^32+1,
      2^32+3, 2^32+97, 2^63-1, -2^31, -2^32, -2^63 (Expr_Gen BoundaryFunCases; SUBSTR is evaluated on Limb64 values):
      caught, 80 violations (substr("abcd",100000001h,3) = "bcd").  FuncTOUPPER comparing (int) casts: caught
      (TOUPPER(100000061h) = 65 instead of an error).
    * (after a second independently seeded miss) intformat.c ModifyIntConstModeByMask rebuilding the list from the native mask
      only (RELAXED ON; INTSYNTAX +x -> all non-native notations lost, C octal silently read as decimal) -> invisible while
      every generated file had ONE setting statement; with the statement histories of IntMode_MC: caught, 918 violations
      (`cpu 68000; relaxed on; intsyntax +0bbin`: 010 = 10 instead of 8, 10h "invalid symbol name").  The same mutation
      applied to the model (CodeList(new, other, FALSE)) violates IntMode_MC's invariant ListIsFunctionOfSettings.

Extension: user-defined functions, SYMTYPE / DEFINED (checks/ext_userfunc.py, spec/UserFunc.tla + UserFunc_MC.tla; last phase).
    Covers the FUNCTION statement and the call of user functions: function table as state across the passes, textual
    parameter substitution as coded (CompressLine / ExpandLine, whole-identifier match on letters+digits, case-insensitive
    unless -U), printing of the argument values and re-evaluation, against the declarative meaning "body tree with the
    parameters standing for the argument values"; built-in functions hidden by user functions; -U; RADIX; forward use;
    second definition; recursion (self, mutual, two calls); wrong argument counts; SYMTYPE / DEFINED over symbols of five
    segments, a register symbol, undefined and forward symbols, function names.  Bounds: programs of <= 3 FUNCTION statements
    with <= 2 parameters, bodies of depth <= 3; quick 63 program x option states / ~3.8 k cases (TLC prints both the
    declarative and the as-coded result of each; 8051 sources, `dq`/`db` at ORG slots), thorough 8088 states / ~414 k cases.
    Four mutations of the MODEL are refuted by TLC in every run (UserFunc_MC_dev_*.cfg); UserFunc_MC_fixed.cfg: with the
    proposed repairs no exemption is needed.  Findings: C08-userfunc-argument-radix, C08-userfunc-string-argument-escape,
    C08-userfunc-recursion-fanout (known_findings/C08.json, proposed_fixes/C08-userfunc-*.diff; with the three diffs applied
    to a copy: 0 violations, 0 known findings, 0 drift, ctest 201/201).
    Mutations of the real code tried against this phase (scratch copies, VERIF_REPO; all caught, none by another phase):
    * asmsub.c IsValidParameterName always true (substring replacement)      -> 48 violations (`f function x,xy+x`: f(-3) an error)
    * asmpars.c call branch: value pasted without "(" ")"                     -> 120 (`g function x,2-x`: g(-3) an error)
    * asmpars.c call branch: surplus arguments not rejected                   -> 148 (g(1,2) = 1 instead of an error)
    * asmallg.c CodeFUNCTION: CompressLine(..., True) (parameter case)        -> 40 (`f function x,X+1`)
    * asmpars.c GetSymbolType: register symbols reported as 8                 -> 44 (symtype(myr) = 8, manual: 128)
    * asmpars.c EnterFunction: "double defined" also in pass 2               -> 404 (every two-pass program rejected)
    * asmpars.c FindFunction: a user function named ABS is not found         -> 53 (`Abs function x,x+10`: abs(-3) = 3)
"""
import os
import re

from vlib import aslrun, build, tlc
from vlib import exprrender as er
from vlib.common import CheckError, Phase, log, rng
from vlib.report import Report

PID = "C08"
STRIDE = 64
CHUNK = 120


# ------------------------------------------------------------------------------------------------
# case generation (TLC)
# ------------------------------------------------------------------------------------------------
def _collect(res, atoms_holder, cases, seen):
    for (tag, obj) in res.printed:
        if tag != "OUT":
            continue
        if "atoms" in obj:
            atoms_holder.update(obj)
            continue
        k = "".join(obj["cs"])
        if k in seen:
            continue
        seen.add(k)
        cases.append(obj)


def generate(rep, tier):
    holder, cases, seen = {}, [], set()
    cfg = "Expr_Gen.cfg" if tier == "quick" else "Expr_Gen_full.cfg"
    g = tlc.must(tlc.run("Expr_Gen", cfg, workers=3, timeout=1200, mem="6g"), "Expr_Gen")
    if g.violation:
        raise CheckError("Expr_Gen: %s" % g.violation[:500])
    rep.model("Expr_Gen(%s)" % cfg, g)
    _collect(g, holder, cases, seen)
    n1 = len(cases)
    nsim = 80 if tier == "quick" else 1500
    s = tlc.must(tlc.run("Expr_Gen", "Expr_Sim.cfg", workers=3, simulate=nsim, depth=8, timeout=1500, mem="6g"),
                 "Expr_Sim")
    if s.violation:
        raise CheckError("Expr_Sim: %s" % s.violation[:500])
    rep.part("Expr_Sim", walks=nsim * 3, states_generated=s.generated, wall_s=s.wall)
    rep.cov["transitions"] += s.generated
    _collect(s, holder, cases, seen)
    rep.part("generation", exhaustive_cases=n1, simulated_distinct=len(cases) - n1)
    if not holder:
        raise CheckError("Expr_Gen printed no atom table")
    return holder["atoms"], holder["valsrc"], cases


# ------------------------------------------------------------------------------------------------
# rendering
# ------------------------------------------------------------------------------------------------
class Item:
    """one case rendered for one dialect: pre = symbol definitions, before/after = lines wrapped around the statement"""
    __slots__ = ("case", "expr", "pre", "stmt", "line", "first", "slot", "idx", "before", "after")

    def __init__(self):
        self.pre, self.before, self.after = [], [], []


def make_item(idx, case, atoms, valsrc, dia, r):
    it = Item()
    it.case = case
    it.idx = idx
    toks = case["csp"] if ("csp" in case and r.random() < 0.4) else case["cs"]
    symbols, pre = {}, []
    cands = [t for t in toks if t in atoms]
    if cands and r.random() < 0.25:
        t = r.choice(cands)
        name = "SY%d" % idx
        symbols[t] = name
        pre.append("%s\tequ\t%s" % (name, er.spell_atom(atoms[t], dia)))
    it.expr = er.render_tokens(toks, atoms, valsrc, dia, r=r, symbols=symbols)
    it.pre = pre
    k = case["o"]["k"]
    it.stmt = dia.stmt_str if k == "str" else dia.stmt_flt if k == "float" else dia.stmt_int
    return it


def render_file(items, dia):
    if hasattr(dia, "render"):
        return dia.render(items)
    lines = dia.header()
    for n, it in enumerate(items):
        it.first = len(lines) + 1
        lines += it.pre
        it.slot = 0x100 + n * STRIDE
        lines.append("\torg\t%d" % it.slot)
        lines += it.before
        lines.append("\t%s\t%s" % (it.stmt, it.expr))
        it.line = len(lines)
        lines += it.after
    return "\n".join(lines) + "\n"


def slot_bytes(img, seg, addr):
    out = []
    a = addr
    while a < addr + STRIDE and (seg, a) in img:
        out.append(img[(seg, a)][0])
        a += 1
    return out


def expected_bytes(o, dia):
    b = list(o["b"])
    if o["k"] in ("int", "float", "overflow") and dia.big:
        b.reverse()
    return b


# ------------------------------------------------------------------------------------------------
# judgement
# ------------------------------------------------------------------------------------------------
def case_key(case, obs):
    devs = case.get("dev") or []
    return [{"dev": d, "obs": obs} for d in devs] or [{"dev": "none", "obs": obs, "op": case.get("op")}]


import threading
_LOCK = threading.Lock()


def report(rep, what, it, dia, src, obs, extra=""):
    with _LOCK:
        _report(rep, what, it, dia, src, obs, extra)


def _report(rep, what, it, dia, src, obs, extra=""):
    case = it.case
    if os.environ.get("VERIF_DEBUG_DUMP"):
        with open(os.environ["VERIF_DEBUG_DUMP"], "a") as f:
            f.write("%s [%s] formula `%s` (%s) %s\n" % (what, dia.name, it.expr, "".join(case["cs"]), extra))
    keys = case_key(case, obs)
    key = keys[0]
    for k in keys:
        if rep._match_known(k) is not None:
            key = k
            break
    rep.violation("%s [%s] formula `%s` (%s) %s" % (what, dia.name, it.expr, "".join(case["cs"]), extra),
                  case={"tokens": case["cs"], "expected": case["o"], "rendered": it.expr, "dialect": dia.name,
                        "src": case.get("src")},
                  files={"a.asm": single_source(it, dia), "batch.asm": src}, key=key)


def single_source(it, dia):
    if hasattr(dia, "render"):
        keep = (it.first, it.line, it.slot)
        src = dia.render([it])
        it.first, it.line, it.slot = keep
        return src
    return "\n".join(dia.header() + it.pre + ["\torg\t256"] + it.before + ["\t%s\t%s" % (it.stmt, it.expr)]) + "\n"


def run_batches(bld, batches):
    jobs = [{"sources": {"a.asm": src}, "opts": ["-q"], "timeout": 30} for (_, src, _) in batches]
    return aslrun.assemble_many(bld, jobs)


def judge_value_batch(rep, bld, dia, items, depth=0):
    """items all expected to yield a value.  Returns nothing; reports violations."""
    if not items:
        return
    src = render_file(items, dia)
    res = aslrun.assemble(bld, {"a.asm": src}, opts=["-q"], timeout=30)
    if er.crashed(res):
        if len(items) == 1:
            report(rep, "assembler crashed (rc=%s sig=%s timeout=%s) evaluating" % (res.rc, res.sig, res.timeout),
                   items[0], dia, src, "crash")
            return
        mid = len(items) // 2
        judge_value_batch(rep, bld, dia, items[:mid], depth + 1)
        judge_value_batch(rep, bld, dia, items[mid:], depth + 1)
        return
    errs = er.error_lines(res)
    bad = [it for it in items if any(l in errs for l in range(it.first, it.line + 1))]
    if bad:
        txt = res.out + res.err
        for it in bad:
            m = re.search(r"a\.asm\(%d\)[^\n]*" % it.line, txt)
            report(rep, "a value is documented but an error is reported", it, dia, src, "error",
                   extra="-> %s" % (m.group(0) if m else "?"))
        rest = [it for it in items if it not in bad]
        if depth < 4:
            judge_value_batch(rep, bld, dia, rest, depth + 1)
        return
    if res.rc != 0 or res.p is None:
        # no error line could be attributed: silent failure of the whole file
        if len(items) == 1:
            report(rep, "no value and no error message (rc=%s, code file %s) for" %
                   (res.rc, "missing" if res.p is None else "present"), items[0], dia, src, "silent")
            return
        mid = len(items) // 2
        judge_value_batch(rep, bld, dia, items[:mid], depth + 1)
        judge_value_batch(rep, bld, dia, items[mid:], depth + 1)
        return
    pr = res.parsed()
    img = pr.image()
    segs = {s for (s, a) in img}
    seg = min(segs) if segs else 0
    for it in items:
        o = it.case["o"]
        exp = expected_bytes(o, dia)
        got = slot_bytes(img, seg, it.slot)
        ok = got == exp
        if not ok and o["k"] == "float" and o.get("zero") and len(got) == 8:
            ok = all(x == 0 for x in (got[1:] if dia.big else got[:-1])) and (got[0] if dia.big else got[-1]) in (0, 0x80)
        if not ok:
            if not got and exp:
                report(rep, "no value and no error message for", it, dia, src, "silent",
                       extra="expected %s bytes %s" % (o["k"], exp))
            else:
                report(rep, "wrong value", it, dia, src, "value",
                       extra="expected %s bytes %s, code file has %s" % (o["k"], exp, got))


def judge_error_batch(rep, bld, dia, items):
    if not items:
        return
    src = render_file(items, dia)
    res = aslrun.assemble(bld, {"a.asm": src}, opts=["-q"], timeout=30)
    if er.crashed(res):
        if len(items) == 1:
            report(rep, "assembler crashed (rc=%s sig=%s timeout=%s) evaluating" % (res.rc, res.sig, res.timeout),
                   items[0], dia, src, "crash")
            return
        mid = len(items) // 2
        judge_error_batch(rep, bld, dia, items[:mid])
        judge_error_batch(rep, bld, dia, items[mid:])
        return
    errs = er.error_lines(res)
    if res.rc == 3 and errs:
        # a fatal error ends the assembly: what follows that line has not been looked at yet
        last = max(errs)
        later = [it for it in items if it.first > last]
        items = [it for it in items if it.first <= last]
        lines = {id(it): it.line for it in items}
        judge_error_batch(rep, bld, dia, later)          # (re-renders: line numbers of `later` change)
        for it in items:
            it.line = lines[id(it)]
    missing = [it for it in items if it.line not in errs]
    if missing and len(missing) < len(items):
        # errors that only the last pass reports (undefined symbols) are not printed when an earlier pass already
        # failed: look at the remaining lines again, among themselves
        judge_error_batch(rep, bld, dia, missing)
        return
    for it in missing:
        # what did it produce instead?  assemble alone
        r1 = aslrun.assemble(bld, {"a.asm": single_source(it, dia)}, opts=["-q"], timeout=20)
        if not er.crashed(r1) and r1.rc in (2, 3) and er.error_lines(r1):
            continue
        got = None
        if r1.p is not None:
            img = r1.parsed().image()
            segs = {s for (s, a) in img}
            got = slot_bytes(img, min(segs) if segs else 0, dia.slot_of(0, it) if hasattr(dia, "slot_of") else 256)
        obs = "crash" if er.crashed(r1) else ("value" if got else "silent")
        report(rep, "the operation is undefined / ill-typed but no error is reported", it, dia, src, obs,
               extra="(alone: rc=%s, bytes %s)" % (r1.rc, got))


def judge_single_error(rep, bld, dia, it):
    src = single_source(it, dia)
    res = aslrun.assemble(bld, {"a.asm": src}, opts=["-q"], timeout=20)
    if er.crashed(res):
        report(rep, "assembler crashed (rc=%s sig=%s) evaluating" % (res.rc, res.sig), it, dia, src, "crash")
    elif res.rc not in (2, 3) or not er.error_lines(res):      # 3 = fatal error with a message (e.g. "internal error")
        report(rep, "error expected: exit status %s, error lines %s for" % (res.rc, sorted(er.error_lines(res))),
               it, dia, src, "value" if res.p else "silent")
    elif res.p is not None:
        report(rep, "an error is reported but a code file with a value is left behind for", it, dia, src, "value")


def judge_survival(rep, bld, dia, items, what):
    """cases without a documented result (or with two acceptable ones): the assembler must end normally"""
    if not items:
        return
    src = render_file(items, dia)
    res = aslrun.assemble(bld, {"a.asm": src}, opts=["-q"], timeout=30)
    if er.crashed(res):
        if len(items) == 1:
            report(rep, "assembler crashed (rc=%s sig=%s timeout=%s) on %s" % (res.rc, res.sig, res.timeout, what),
                   items[0], dia, src, "crash")
            return
        mid = len(items) // 2
        judge_survival(rep, bld, dia, items[:mid], what)
        judge_survival(rep, bld, dia, items[mid:], what)


def judge_messages(rep, bld, dia, items):
    """MESSAGE "\\{expr}" : hexadecimal text of integers (two's complement), characters of strings"""
    if not items:
        return
    lines = dia.header()
    for it in items:
        lines += it.pre
        lines.append('\tmessage\t"M%d=\\{%s}"' % (it.idx, it.expr))
    src = "\n".join(lines) + "\n"
    res = aslrun.assemble(bld, {"a.asm": src}, opts=["-q"], timeout=30)
    if er.crashed(res) or res.rc != 0:
        bad = er.error_lines(res)
        sl = src.split("\n")
        hit = [it for it in items if any(("M%d=" % it.idx) in sl[b - 1] for b in bad if b <= len(sl))]
        if er.crashed(res) or not hit:
            rep.drift("MESSAGE sample not assembled (rc=%s): %s" % (res.rc, (res.out + res.err)[-200:]))
            return
        for it in hit:
            report(rep, "MESSAGE: a value is documented but an error is reported", it, dia, src, "error")
        judge_messages(rep, bld, dia, [it for it in items if it not in hit])
        return
    got = {int(m.group(1)): m.group(2) for m in re.finditer(r"^M(\d+)=(.*)$", res.out, re.M)}
    for it in items:
        o = it.case["o"]
        txt = got.get(it.idx)
        if o["k"] == "int":
            want = int.from_bytes(bytes(o["b"]), "little")
            try:
                ok = txt is not None and int(txt.strip(), 16) == want
            except ValueError:
                ok = False
        else:
            ok = txt is not None and txt == "".join(chr(c) for c in o["b"])
        if not ok:
            report(rep, "MESSAGE shows %r for" % txt, it, dia, src, "value", extra="expected bytes %s" % o["b"])


def chunks(xs, n):
    return [xs[i:i + n] for i in range(0, len(xs), n)]


def replay_cases(rep, bld, atoms, valsrc, cases, tier):
    from vlib.common import pmap
    total = 0
    for dname, dia in er.DIALECTS.items():
        r = rng("c08/" + dname)
        items = [make_item(i, c, atoms, valsrc, dia, r) for i, c in enumerate(cases)]
        by = {"value": [], "error": [], "unspec": [], "overflow": []}
        for it in items:
            k = it.case["o"]["k"]
            by["value" if k in ("int", "float", "str") else k].append(it)
        work = []
        for ch in chunks(by["value"], CHUNK):
            work.append(("value", ch))
        for ch in chunks(by["error"], CHUNK):
            work.append(("error", ch))
        for ch in chunks(by["unspec"], CHUNK):
            work.append(("unspec", ch))
        for it in by["overflow"]:
            work.append(("overflow", [it]))
        singles = by["error"][:: max(1, len(by["error"]) // (25 if tier == "quick" else 150))]
        for it in singles:
            work.append(("single", [it]))
        msg = [it for it in by["value"] if it.case["o"]["k"] in ("int", "str") and '"' not in it.expr and "'" not in it.expr
               and not (it.case["o"]["k"] == "str")]
        msg = [it for it in msg if not it.case.get("dev")][::10]
        for ch in chunks(msg, CHUNK):
            work.append(("message", ch))

        def do(w):
            kind, ch = w
            if kind == "value":
                judge_value_batch(rep, bld, dia, ch)
            elif kind == "error":
                judge_error_batch(rep, bld, dia, ch)
            elif kind == "single":
                judge_single_error(rep, bld, dia, ch[0])
            elif kind == "message":
                judge_messages(rep, bld, dia, ch)
            else:
                judge_survival(rep, bld, dia, ch, kind)
            return len(ch)
        with Phase("replay %d formulas on %s (%d files)" % (len(items), dname, len(work))):
            total += sum(pmap(do, work))
        for it in items:
            rep.distinct((dname, it.expr), it.case["depth"] >= 2)
        rep.part("replay_" + dname, values=len(by["value"]), errors=len(by["error"]), undecided=len(by["unspec"]),
                 singles=len(singles), message_sample=len(msg))
        for it in (by["value"][:1] + by["error"][:1] + by["value"][-1:]):
            rep.sample({"formula": it.expr, "dialect": dname, "tokens": "".join(it.case["cs"]), "expected": it.case["o"]})
    rep.evaluated(total)
    rep.traces(total)


def main(tier):
    rep = Report(PID, tier)
    bld = build.get("hook")
    rep.assumptions += [
        "expected values are those TLC computes from spec/Expr.tla; the renderer (atom spelling, token concatenation) "
        "and the code file reader are trusted",
        "float cases are restricted to exactly representable dyadic operands and results; decimal literals used are "
        "exactly representable",
        "cases without a definite documented result (UNS) carry no verdict except 'no crash'"]
    from vlib.common import pmap

    quick = tier == "quick"
    mcs = [("Limb64_MC", "Limb64_MC.cfg" if quick else "Limb64_MC_full.cfg"),
           ("Expr_MC", "Expr_MC.cfg" if quick else "Expr_MC_deep.cfg")]
    from checks import c08_hist, c08_lit

    def job(j):
        if j == "gen":
            return generate(rep, tier)
        if j == "lit":
            return c08_lit.generate(rep, tier)
        if j == "hist":
            return c08_hist.generate(rep, tier)
        return tlc.run(j[0], j[1], workers=3, timeout=1700, mem="6g", collect=False)
    with Phase("TLC: model checking and case generation (concurrent)"):
        out = pmap(job, mcs + ["gen", "lit", "hist"], workers=4)
    for (m, cfg), r in zip(mcs, out[:len(mcs)]):
        tlc.must(r, m)
        if r.violation:
            raise CheckError("%s(%s): the specification violates its own invariants: %s" % (m, cfg, r.violation[:600]))
        rep.model("%s(%s)" % (m, cfg), r)
    atoms, valsrc, cases = out[len(mcs)]
    litcases = out[len(mcs) + 1]
    histories = out[len(mcs) + 2]
    replay_cases(rep, bld, atoms, valsrc, cases, tier)

    c08_lit.replay_cases(rep, bld, litcases, tier)
    c08_hist.replay_cases(rep, bld, histories, tier)
    # settings across passes (spec/PassModes.tla): a statement never reads a setting made behind it
    from checks import ext_passmodes
    ext_passmodes.run(rep, bld, tier)
    # user-defined functions, SYMTYPE / DEFINED (spec/UserFunc.tla): the value of a documented function call
    from checks import ext_userfunc
    ext_userfunc.run(rep, bld, tier)
    return rep.finish(
        rule="formulas = every operator of the manual's table x every ordered pair of the boundary operand alphabet, "
             "every built-in function over its small domain, alias spellings, plus TLC-simulated trees up to depth 6; "
             "literals = notation x radix x syntax set; each rendered on z80 and 68000; distinct = distinct rendered "
             "formula per dialect; non-trivial = contains at least one operator or function; notation state = every "
             "history of <= 3 CPU/RELAXED/INTSYNTAX statements (quick: third from a subset) x a constant in every "
             "notation",
        exhaustive=False)


def replay(path):
    import json
    v = json.load(open(os.path.join(path, "violation.json")))
    bld = build.get("hook")
    src = open(os.path.join(path, "a.asm")).read()
    res = aslrun.assemble(bld, {"a.asm": src}, opts=["-q"])
    log("replay rc=%s sig=%s\n%s%s" % (res.rc, res.sig, res.out, res.err))
    if res.p:
        log("code: %s" % [(rec.start, list(rec.data)) for rec in res.parsed().data_records()])
    log("recorded: %s" % v["what"])
    log("expected: %s" % (v.get("case") or {}).get("expected"))
    return 0
