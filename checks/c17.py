"""C17 - Code output is deterministic and independent of reporting options.

This is the thinnest use of the specification among the run-driver properties: the substance is differential
execution of the real asl; TLA+/TLC contributes (a) the option partition and a model-level non-interference
check, (b) the configuration vectors (a pairwise covering array built and certified by TLC), (c) the
expectation "same code file" which is a consequence of (a), not a computed value.

(M) Driver_MC_Rep.cfg: for every run of one file of <= 2 line classes, the code projection (status, kept, emitted
    items) of Outcome(o, files) is the same for all option records that agree on CodeAffecting
    (werror, suppw, codeout, maxerr) - 96 records in the quick tier, 384 in the thorough tier
    (ReportOptionsDoNotInterfere).  This only shows that the *model* has no such dependency.
(G) Options_Gen: 25 factors = the report options named by the property (-L/-l/-OLIST, -u, -C, -s, -I, -g MAP|NOICE|
    ATMEL, -t, -x, -n, -q, -A, -r, -E, -gnuerrors, -LISTRADIX, -P, -M, -h, -SPLITBYTE) + option source (argv | ASCMD |
    @keyfile | ASCMD=@keyfile) + working directory (source directory | its parent | an unrelated one, the latter two
    also WITH DECOYS: a file of the same name, other content, for every INCLUDE / BINCLUDE name the source finds through
    the -i path only) + output path (-o) + LANG/LC_ALL in {C, de_DE, en_US}.  TLC builds a
    pairwise covering array greedily from seeded random candidates and re-checks PairwiseCovered from scratch
    (about 37 vectors), and derives three more designs from it, each certified by an invariant: Singles (the plain
    configuration with exactly one factor changed: every option value alone, 46 vectors), AllOn (everything switched
    on at once) and Rotation(r) (a 1-wise cover of all option values - 6-7 vectors of the pairwise sample - starting
    at its r-th vector).
    quick: ALL 201 golden sources + 16 generated programs; source number n runs under Rotation(n mod 37) and AllOn, so
    every (source, option value) pair is exercised and the corpus as a whole uses the entire pairwise sample (for the
    one megabyte source, t_m16, the listing-producing factors are switched off in the quick tier).
    thorough: every source under all vectors of the pairwise sample and AllOn.
    Both tiers: the generated programs additionally run under every one of the Singles.  The generated programs
    concentrate the places where numbers are turned into text and used again or formatted by the private printf:
    68K packed decimal (DC.P, FMOVE.P #imm), IEEE/TI/1750 float data in every size, arguments of user FUNCTIONs,
    string functions (VAL, SUBSTR, STRSTR, UPSTRING ...), SH7000 literal pools, temporary / nameless symbols and
    REPT/IRP counters beyond 255, the predefined flag symbols, structures, macros, warnings and errors.
    Verdict-bearing: the code file of every vector run is byte-identical to the code file of the plain run
    (`asl <asflags> -q -i include src`), or absent in both; a second plain run and a second run of two vectors
    reproduce code file, and listing / MAP / NoICE / share / macro outputs after masking the date/time stamp.
    -h and -SPLITBYTE are dropped for sources containing `\\{` (number stringification), as the property says.

Findings on the tree as originally pinned: -SPLITBYTE shapes integer text that the assembler uses again - arguments of
user-defined FUNCTIONs (proposed_fixes/C17-splitbyte-function-args.diff, applied) and the names of SH7000 literal-pool
symbols (proposed_fixes/C17-splitbyte-sh7000-literal.diff, known finding until applied).  Seen on the way, outside the
property's list: the `-g ATMEL` debug file of non-AVR targets contains indeterminate bytes.

  the -g MAP / -g NOICE writers turn a stale errno into a fatal error that deletes the code file of a source without
  code (proposed_fixes/C17-debuginfo-stale-errno.diff, known finding until applied).
Generated sources make every report option write something: g_report (INCLUDE found only through -i, IFEXIST probes,
{EXPORT} macros for -M, SHARED for -c/-p/-a, nested sections with local / public symbols) and g_nocode (labels, symbols,
a section, an exported macro, but no code; the last file operation is a failed probe).  Factor 25: share file (-c/-p/-a).

Not covered: all 2^k subsets (only pairwise interactions are guaranteed), option values beyond the listed ones,
interactive mode, Windows-style `/` switches, key files referencing key files (an error by design), locales
that are not installed (only the LANG/LC_ALL strings matter to nlmessages.c).  The vectors never contain
code-affecting options; those come from the golden test's asflags and stay in argv.

Mutations of the real code (selftest/b218_mutants.py, scratch copies, all compile; `./check C17 --selftest`), every one
reported as VIOLATION by the quick tier: errno reset dropped before the -M macro header write (ReadMacro: stale ENOENT of a path-searched INCLUDE -> fatal ->
code file deleted; caught on g_report under the single option -M); -h changing the exponent letter searched by the packed-decimal converter (motpseudo.c ConvertMotoFloatDec: caught on
t_dc/t_68kfloat.. and g_packed under the single option -h); -s also setting DefRelaxedMode; debug bookkeeping (-g) advancing the PC of
instructions longer than 2; -u shortening 3-byte instructions; ASCMD=@keyfile implying -relaxed; LC_ALL=de* implying
-relaxed.  (A mutant naming the -E log like the code file loses diagnostics but not code: not C17's business.)

Extension "include search x working directory" (checks/ext_incsearch.py, spec/IncSearch*.tla; runs beside the phases
above, judged before the command-line layer).  Added because a change of bpemu.c FSearch that probed the name as given -
i.e. the working directory - before the -i include path went unnoticed: the working directory was a factor, but no
working directory ever HELD anything, so "the working directory never alters the code file" was only tried with empty
directories.  The missing dimension is the content of the working directory relative to the search: now (a) the cwd
factor of Options_Gen has decoy values (35 golden + 2 generated sources find includes through -i only; each meets both
decoy directories in its rotation), and (b) IncSearch.tla models the search itself - FSearch / AssembleAndCheck /
FExpand over path strings resolved against the working directory, next to the manual's rule (directory of the including
file, then the -i list) which never mentions the working directory - over files of the looked-up name in any subset of
six directories (source directory, its parent, a directory below, two -i directories, an unrelated one; quick <= 2 of
them, thorough all 64 subsets) x name written plain / without suffix / with sub-directory / with `..` / absolute x
statement in the main source / in an include file found through -i x include path empty / one / two directories in
either order x IFEXIST+IFNEXIST and BINCLUDE+INCLUDE programs; TLC checks RepairedIsManual, CwdNeverMatters,
DeviationsAreNamed, DecoyOnlyByDevs and prints every group with the outcome expected per working directory (source
directory, parent, below, unrelated) and spelling (relative / absolute); 6 160 (quick) / 107 520 (thorough) runs of the
real asl.  Verdict: the variants of a group leave byte-identical code files.  Findings on the unchanged tree (KNOWN-
FINDING, known_findings/C17.json): IFEXIST / IFNEXIST search "." before the include path (proposed_fixes/C17-ifexist-
working-directory), an empty include path makes FSearch probe the working directory (proposed_fixes/C17-empty-include-
path); named without verdict: names with a path are still searched along -i (PathNameSearched).  Seen on the way, not
C17: without -o, `asl ../dir/x.asm` writes its code file as `.p` into the working directory.
Mutations caught by the quick tier (exit 1): the seeded FSearch change (passes the 201 golden tests; 387 violations, of
them 18 golden / generated sources under a decoy working directory); FSearch falling back to the name as given AFTER the
include path; FSearch ignoring the directory of the including file (pPos = NULL); BINCLUDE preferring a file of the
working directory (the last three not run against the golden tests).

Extension "command line layer" (checks/ext_cmdline.py, spec/CmdLine*.tla; last phase of main()): the clause "the place an
option is given (command line, ASCMD variable, @key file) never alters the code file" one level down, for ANY option and
not only the report options: cmdarg.c ProcessCMD / ProcessParam / DecodeLine / ProcessFile and a representative part of
the option tables of asl (q quiet L l x U u D i o cpu g), p2bin (q quiet s l r f) and plist (q quiet) are transcribed
into TLA+ (scanner with Unprocessed[] mask, look-ahead argument, whole word before letters, `#`/`~` prefixes, blank /
tab tokeniser, key files spliced in place, ErrProc = exit) next to the manual's grammar (Flatten / Parse / Meaning = fold
of the documented meaning over the ordered occurrences: last wins for scalars, accumulation and removal for -D -i -o
-f, counter for -x).  TLC checks scan = fold and place-independence over all sequences of <= 2 (quick) / <= 3, core
alphabet <= 4 (thorough) occurrence templates (asl: 42, p2bin: 21, plist: 10) in 8 + 2n-1 placements each (argv with the
files first / last, ASCMD, key file from argv / from ASCMD / on one line with blanks, tabs, both, env | argv split, one
occurrence moved into a key file), and prints the cases; about 8 500 (quick) / 70 000 (thorough) of them are replayed
into the real asl (probe source showing -cpu in the header byte, -D / -U as data bytes, -i through the include file
found, -o through file names, -L -l -g -q -x through outputs, status), p2bin and plist (against a plain-argv run of the
configuration TLC expects), plus no parameter at all and 256 / 257 / 300 / 1500 parameters.  Verdicts: exit 4 / 1 and
nothing produced after a parameter error, the manual-stated components of the outcome, byte-identical code files for the
same occurrences in different places, no abnormal end; everything else is drift.  Named deviations of the pinned code:
QuietCounter, DefFirstWins, ToolFilesArgv, BlankBeforeTab (manual silent), and three findings with proposed fixes
(proposed_fixes/C17-remove-include-path, C17-tool-missing-number, C17-too-many-parameters; known_findings/C17-cmdline.json):
`+i dir` empties the include path; p2bin -l / -e and p2hex -R / -e take a missing argument as 0 and drop the next
parameter; more than 256 parameters overflow the Unprocessed[] mask (p2bin SIGSEGV).
Mutations tried on scratch copies (all pass the 201 golden tests, `./check C17 --tier quick` exits 1 for each): argv
scanned before ASCMD; DecodeLine not skipping a consumed argument; ParamError exit(2); look-ahead not blanked for a
following `+switch`; -o names handed out in reverse order.

Extension "physical shape of key files" (checks/ext_keyfile.py, spec/KeyFile*.tla; its cases run inside the command line
layer).  Added because a change of cmdarg.c ProcessFile() that left the read loop as soon as feof() was set - before the line
just read was decoded - went unnoticed (it passes the 201 golden tests): a last line WITHOUT line end was silently dropped, so
`-D SYM=val` / `-cpu` / `-i` on it never took effect and the same options gave another code file from the key file than from
argv / ASCMD.  Both this file (factor `src`) and the command line layer wrote key files in one shape, every line + LF.  The
missing dimension is the shape of the file between its bytes and its lines: KeyFile.tla models the file as characters and
transcribes fgets (end-of-file indicator set when a byte is asked for and there is none) / ReadLn / the `while (!feof)` loop /
DecodeLine's ClrBlanks and cut next to the text reading (lines between line ends, the rest behind the last one is a line
unless empty); KeyFile_MC writes <= 3 occurrences (11 templates, code-affecting ones among them) on 1..3 lines x LF / CR-LF /
alternating x last line terminated or not x 23 decorations (blanks / tabs in front, behind, between; empty, blank, remark
lines; ^Z; 254 / 255 / more characters) x @k in argv / ASCMD=@k and checks ReaderReadsText, ScanIsFoldK, DeviationsAreNamedK,
ShapeNeverMatters (any two shapes and the plain command line with the same occurrences: same scanner result), and refutes the
reader variant LeaveAtEof; quick 2 628 / thorough about 8 700 shaped files are replayed (asl; thorough also p2bin, plist),
judged like the other cases of the command line layer and compared byte for byte within their klass (same occurrences on
the command line, in ASCMD, in the one-shape key files).  ^Z and lines beyond 255 characters: manual silent, drift only.
No finding on the unchanged tree.  Mutations caught by the quick tier (exit 1): the seeded change (1 387 violations);
by the replay of the quick cases: ReadLn() keeping the CR, ClrBlanks() skipping blanks only, fgets(Zeile, 255, ...).

Extension "per-pass state under the report options" (checks/ext_passreports.py, spec/PassReports*.tla; TLC works beside
the phases above, its programs join the option matrix as one more source family).  Added because a change of as.c
AssembleFile() that ran ClearDefineList() only inside `if (MakeCrossList)` - without -C the #defines of the end of pass 1
survive into pass 2, where a repeated #define is silently ignored - went unnoticed (it also passes the 201 golden tests):
no source of the matrix both needed a second pass and gave a #define name a second meaning, i.e. the CODE of no program
could see what the previous pass left behind, so the option-guarded clean-ups between two passes were never tried
against the code file.  The missing dimension is per-pass state x position of reader and writer x number of passes:
PassReports.tla transcribes the clean-up between two passes and the InitPass resets as a table (component -> option
under which it is recorded, guard of its clean-up: ClearUseList / -u, ClearCrossList / -C, ClearLineInfo,
ResetAddressRanges, ClearSectionUsage / -g, ClearCodepages, ClearDefineList, ClearIncludeList unguarded) next to the
declarative side (a probe reads the settings made in front of it; a report holds the entries of one pass); TLC checks
CodeOK / ReportsOK / GuardsOK under the option subsets, refutes two deviating tables (ClearDefineList under -C,
ClearCrossList under -u) and prints 280 (quick) / 4 330 (thorough) programs over Probe / Set of ten settings (radix,
outradix, relaxed, enumconf, listing, charset, codepage, IFUSED, #undef + #define again, a symbol #defined later), Touch
of ten report components (cross reference, usage, line info, address ranges, section usage, include list, -P, -M,
listing page state, share file) and forward references giving 1, 2 and 3 passes.  Program n runs plain, under
Rotation(n) and AllOn (2 460 / 39 000 runs): byte-identical code files - the comparison of the matrix; the bytes TLC expects
vs. the plain run is SPEC-DRIFT (C08's property).  No finding on the unchanged tree.  Mutations caught by the quick tier
(exit 1): the seeded change (150 violations, culprit C), RadixBase reset only without -u (53), `used` flags kept under -C (64).
"""
import json
import os
import re

from checks import ext_cmdline, ext_incsearch, ext_passreports
from vlib import aslrun, build, drvrun, tlc
from vlib.aslrun import INCLUDE
from vlib.common import CheckError, Phase, log, rng
from vlib.report import Report

PID = "C17"
COLLECT = (".p", ".lst", ".map", ".noi", ".obj", ".h", ".i", ".mac", ".log", ".txt")
REPRO = (".lst", ".map", ".h")        # outputs the property calls reproducible (listing, MAP, share)
DEFAULT_VEC = {"L": "none", "u": False, "C": False, "s": False, "I": False, "g": "none", "t": "none", "x": 0,
               "n": False, "q": True, "A": False, "r": False, "E": "stderr", "gnu": False, "radix": "none",
               "P": False, "M": False, "share": "none", "h": False, "split": "none", "src": "argv", "cwd": "parent",
               "out": "default", "lang": "C", "langvar": "LANG"}
DECOY = "\terror\t\"a decoy file in the working directory was read\"\n"      # whatever reads it changes the outcome
GEN_INCLUDES = {"ginc/gi1.inc": "\tifndef\tgival\ngival\tequ\t5\n\tendif\n"}     # found only through -i {ROOT}/ginc
GEN_PROGRAMS = {
    # ---- every report option has something to write: an INCLUDE found only through -i (leaves a stale errno), IFEXIST
    # probes of missing / present files, macros with {EXPORT} (-M), SHARED symbols (-c/-p/-a), nested sections with
    # local / public symbols (-s, -g), symbols in two segments
    "g_report": "\tcpu\tz80\n\tinclude\t\"gi1.inc\"\n\tifexist\t\"nofile1.inc\"\n\tdb\t99\n\tendif\n"
                "expm\tmacro\t{EXPORT},pa\n\tdb\tpa\n\tendm\nexpn\tmacro\t{EXPORT}\n\tnop\n\tendm\nnoexp\tmacro\n\tnop\n\tendm\n"
                "\texpm\t1\n\texpn\n\tnoexp\n\tshared\tgival,lab1\nlab1:\tnop\n\tsection\ts1\nloc1:\tdb\t2\n\tsection\ts2\n"
                "\tpublic\tloc2\nloc2:\tdb\t3\n\tendsection\n\tendsection\n\tsection\ts3\nloc3:\tdb\t4\n\tendsection\n"
                "\tifexist\t\"gi1.inc\"\n\tdb\t5\n\tendif\n\tinclude\t\"gi1.inc\"\n",
    # labels and symbols but NO code, the last file operation is a failed probe (; no code)
    "g_nocode": "\tcpu\tz80\n\tinclude\t\"gi1.inc\"\nlab:\nx\tequ\tgival+1\n\tshared\tx\n\tsection\tsn\nlc:\n\tendsection\n"
                "exq\tmacro\t{EXPORT}\n\tnop\n\tendm\n\tifexist\t\"nofile2.inc\"\n\tendif\t; no code\n",

    # ---- places where numbers are turned into text and parsed again / formatted by the private printf -----------------
    # 68K packed decimal (DC.P, FMOVE.P #imm: sprintf("%0.16e") split at the exponent letter), IEEE data in all sizes
    "g_packed": "\tcpu\t68040\n\tfpu\ton\n\tdc.p\t1.5e10,-2.25e-3,1e100,123456789.0e5,0.0,-1.0,6.02e23,1e-100\n"
                "\tfmove.p\t#1.5e3,fp0\n\tfmove.p\t#-7.25e-12,fp1\n\tdc.s\t1.5,-2.5e10,1e-30\n\tdc.d\t1.5e100,-3.25e-200\n"
                "\tdc.x\t3.14159,1e1000\n\tfmove.x\t#2.5e17,fp2\n\tfmove.d\t#1e10,fp3\n",
    "g_float86": "\tcpu\t8086\n\tdd\t1.5,2.5e10,-1e-30\n\tdq\t1.5e100,-3.25e-200\n\tdt\t3.14159e10,-1e1000\n"
                 "\tdw\t1234h,0abcdh\n\tdd\t12345678h\n",
    "g_floatmisc": "\tcpu\tz80\n\tdd\t1.5e10\n\tdq\t-2.5e-100\n\tcpu\t320C30\n\tsingle\t1.5e10,-2.25e-3\n\textended\t3.25e20\n"
                   "\tcpu\t1750\n\tfloat\t10.0,0.25,-1.0\n\textended 1.5e3\n\tcpu\t80c166\n\tdd\t1.5e10\n",
    # literal pools (names of literal symbols are built from the values)
    "g_literal": "\tcpu\tsh7600\n\tmov\t#$1234,r3\n\tmov.l\t#$12345678,r4\n\tmov\t#$8000,r5\n\tnop\n\tltorg\n"
                 "\tcompliterals on\n\tmov.l\t#$12345678,r6\n\tmov\t#$1234,r7\n\tnop\n\tltorg\n",
    # user functions (arguments substituted as text), string functions converting between numbers and text
    "g_strfun": "\tcpu\tz80\nhi\tfunction x,(x>>8)&255\nlo\tfunction x,x&255\nsq\tfunction x,x*x\nfl\tfunction x,x*1.5\n"
                "\tdb\thi(1234h),lo(1234h),hi(70000),lo(sq(300))\n\tdb\tint(fl(100.0))&255\n"
                "\tdb\tval(\"12h\"),val(\"300\")>>8,val(\"1234h\")&255\n\tdb\tstrlen(\"hello\")+strlen(upstring(\"abc\"))\n"
                "\tdb\tsubstr(\"0123456789\",2,3)\n\tdb\tstrstr(\"hello world\",\"wor\")&255\n"
                "\tdb\tval(substr(\"12345\",1,3))&255\n\tdb\tcharfromstr(\"abc\",1)\nv\tset\t5\n\trept\t300\nv\tset\tv+257\n\tendm\n"
                "\tdb\tv&255,(v>>8)&255\n\tdw\t1000*1000>>4\n",
    # temporary / nameless symbols and loop counters beyond 255 (names and counters are formatted internally)
    "g_tempsym": "\tcpu\tz80\n\trept\t260\n\tjr\t$$skip\n\tnop\n$$skip:\n\tendm\n-\tnop\n\tjr\t-\n\tjr\t+\n\tnop\n+\tnop\n"
                 "cnt\tset\t0\n\tirp\tx,100h,2000h,30000h\n\tdw\tx>>4\ncnt\tset\tcnt+x\n\tendm\n\tdw\tcnt&0ffffh\n",
    # the predefined flag symbols show the invocation defaults (-relaxed, -supmode, -compmode, -U are code-affecting)
    "g_flags": "\tcpu\t68000\n\tdc.b\tRELAXED+1,INSUPMODE+1,COMPMODE+1,CASESENSITIVE+1,PADDING+1,MOMPASS\n\tdc.b\t\"a\">\"A\",0\n",
    "g_func": "\tcpu\tz80\nhi\tfunction x,(x>>8)&255\nlo\tfunction x,x&255\n\tdb\thi(1234h),lo(1234h),hi(70000)\n",
    "g_struct": "\tcpu\tz80\nrec\tstruct\nfa\tds\t1\nfb\tds\t2\n\tendstruct\n\tdb\trec_fb,rec_len\n\tjp\tfwd\n\tds\t3\nfwd:\tnop\n",
    "g_warn": "\tcpu\tz80\n\tnop\n\tds\t0\n\twarning \"w\"\n\tjp\tfwd\nfwd:\tnop\n",
    "g_err": "\tcpu\t8051\n\tnop\n\tbogus\n\tnop\n",
    "g_macro": "\tcpu\t68000\nm\tmacro\tx\n\tdc.b\tx\n\tendm\n\tm\t1\n\tm\t2\n\tsection\ts1\nl1:\tdc.w\tl2-l1\nl2:\n\tendsection\n",
    "g_expr": "\tcpu\tz80\nv\tset\t5\n\trept\t3\n\tdb\tv\nv\tset\tv*2\n\tendm\n\tif\tv>30\n\tdb\t\"big\"\n\telse\n\tdb\t\"small\"\n\tendif\n",
}


def vector_opts(vec, stringify):
    """the report options of a vector as a token list (order matters: switches with optional arguments are
    followed by another switch or stand last)"""
    a = []
    if vec["L"] == "L":
        a += ["-L"]
    elif vec["L"] == "l":
        a += ["-l"]
    elif vec["L"] == "OLIST":
        a += ["-L", "-OLIST", "{ROOT}/lst/other.lst"]
    if vec.get("share", "none") != "none":
        a.append("-" + vec["share"])
    for k in ("u", "C", "s", "I", "A", "P", "M", "n", "q"):
        if vec[k]:
            a.append("-" + k)
    if vec["h"] and not stringify:
        a.append("-h")
    if vec["gnu"]:
        a.append("-gnuerrors")
    if vec["g"] != "none":
        a += ["-g", vec["g"]]
    if vec["t"] != "none":
        a += ["-t", vec["t"]]
    a += ["-x"] * int(vec["x"])
    if vec["radix"] != "none":
        a += ["-LISTRADIX", vec["radix"]]
    if vec["split"] == "colon" and not stringify:
        a += ["-SPLITBYTE", ":"]
    if vec["E"] == "stdout":
        a += ["-E", "!1"]
    elif vec["E"] == "file":
        a += ["-E", "{ROOT}/errs.txt"]
    tailopts = []
    if vec["r"]:
        tailopts.append("-r")
    if vec["split"] == "dot" and not stringify:
        tailopts.append("-SPLITBYTE")
    if vec["E"] == "log":
        tailopts.append("-E")
    # each of the tail switches takes an optional argument: interleave with a harmless switch
    out = list(a)
    for t in tailopts:
        out += [t, "-q" if vec["q"] else "+q"]
    return out


def make_job(src, vec):
    """src: dict(name, copy=(dir, rel) | None, text | None, flags, stringify); vec: vector or None (plain run)"""
    name = src["name"]
    job = {"collect": COLLECT, "timeout": 120}
    if src.get("copy"):
        job["copy"] = [(src["copy"], name)]
    else:
        job["files"] = dict(GEN_INCLUDES)
        job["files"]["%s/%s.asm" % (name, name)] = src["text"]
        for rel, text in src.get("files", {}).items():       # include files lying beside the source
            job["files"]["%s/%s" % (name, rel)] = text
    base = list(src["flags"]) + ["-i", INCLUDE]
    if vec is None:
        job["argv"] = base + ["-q", "%s/%s.asm" % (name, name)]
        job["cwd"] = "."
        job["_p"] = "%s/%s.p" % (name, name)
        return job
    opts = vector_opts(vec, src["stringify"])
    where, _, decoy = vec["cwd"].partition("_")          # "<dir>_decoy": the working directory holds decoy include files
    cwd = {"srcdir": name, "parent": ".", "elsewhere": "work"}[where]
    spath = {"srcdir": "%s.asm" % name, "parent": "%s/%s.asm" % (name, name),
             "elsewhere": "{ROOT}/%s/%s.asm" % (name, name)}[where]
    job["cwd"] = cwd
    env = {}
    argv = list(base)
    files = job.setdefault("files", {})
    if decoy:
        for n in src.get("decoys", ()):
            files[os.path.normpath(os.path.join(cwd, n))] = DECOY
    files["lst/.keep"] = ""
    files["outd/.keep"] = ""
    files["work/.keep"] = ""
    if vec["src"] == "argv":
        argv += [spath] + opts
    elif vec["src"] == "ascmd":
        env["ASCMD"] = " ".join(opts)
        argv += [spath]
    elif vec["src"] == "keyfile":
        files["keys/opts.key"] = "\n".join(_keylines(opts)) + "\n"
        argv += [spath, "@{ROOT}/keys/opts.key"]
    elif vec["src"] == "ascmdkey":
        files["keys/opts.key"] = "\n".join(_keylines(opts)) + "\n"
        env["ASCMD"] = "@{ROOT}/keys/opts.key"
        argv += [spath]
    if vec["out"] == "otherdir":
        argv += ["-o", "{ROOT}/outd/res.p"]
        job["_p"] = "outd/res.p"
    elif vec["out"] == "renamed":
        argv += ["-o", "renamed.p"]
        job["_p"] = os.path.normpath(os.path.join(cwd, "renamed.p"))
    else:
        job["_p"] = "%s/%s.p" % (name, name)
    if vec["langvar"] == "LANG":
        env["LANG"] = vec["lang"]
        env["LC_ALL"] = None
    else:
        env["LC_ALL"] = vec["lang"]
        env["LANG"] = "C"
    job["argv"] = argv
    job["env"] = env
    return job


def _keylines(opts):
    """a switch and its argument stay on one line of a key file"""
    lines, i = [], 0
    while i < len(opts):
        if i + 1 < len(opts) and not opts[i + 1].startswith(("-", "+")):
            lines.append(opts[i] + " " + opts[i + 1])
            i += 2
        else:
            lines.append(opts[i])
            i += 1
    return lines


_STAMP = [re.compile(rb"\d{1,2}[./]\d{1,2}[./]\d{2,4}"), re.compile(rb"\d{1,2}:\d{2}:\d{2}"),
          re.compile(rb"(?:\d+ (?:hours?|minutes?|Stunden?|Minuten?), )*\d+[.,]\d\d (?:seconds?|Sekunden?) (?:assembly time|Assemblierzeit)")]


def mask(data):
    for rx in _STAMP:
        data = rx.sub(b"<stamp>", data)
    return data


_INC = re.compile(rb"^\s*(?:\S+:?\s+)?b?include\s+\"?([^\s\"';,]+)", re.I | re.M)
_FUNC = re.compile(rb"^\S+\s+function\s", re.I | re.M)
_SH7K = re.compile(rb"^\s*cpu\s+sh7", re.I | re.M)


def mechanism(text):
    """source classes for which the pinned tree is known to re-parse / re-use internally formatted integers"""
    if b"; no code" in text:
        return "nocode-debuginfo"    # asmdebug.c wrote the symbol / section part of the MAP file without resetting errno
    if _FUNC.search(text):
        return "userfunc"            # arguments of user-defined functions are substituted as text
    if _SH7K.search(text):
        return "sh7000-literal"      # code7000.c names literal-pool symbols LITERAL_W_<hex>
    return "unknown"



def source_text(path, dirs, seen=None):
    """the text of a source and of everything it includes (searched like asl does: own directory, -i path)"""
    seen = seen if seen is not None else set()
    if path in seen or not os.path.isfile(path):
        return b""
    seen.add(path)
    with open(path, "rb") as f:
        text = f.read()
    out = [text]
    for m in _INC.finditer(text):
        name = m.group(1).decode("latin-1")
        for d in [os.path.dirname(path)] + dirs:
            for cand in (name, name.lower(), name.upper(), name + ".inc", name.lower() + ".inc"):
                p = os.path.join(d, cand)
                if os.path.isfile(p):
                    out.append(source_text(p, dirs, seen))
                    break
    return b"\n".join(out)


def decoy_names(text, srcdir_has, incdirs):
    """the file names (as asl probes them: as written, + .inc when there is no suffix) that this source text looks up
    with INCLUDE / BINCLUDE and that are found through the -i include path only - candidates for a decoy of the same
    name in the working directory.  srcdir_has(name) -> bool; incdirs: real directories or {relative name: text}"""
    out = []
    for m in _INC.finditer(text):
        n = m.group(1).decode("latin-1")
        if "." not in os.path.basename(n):
            n += ".inc"
        if n.startswith("/") or n in out or srcdir_has(n):
            continue
        if any((n in d) if isinstance(d, (dict, set)) else os.path.isfile(os.path.join(d, n)) for d in incdirs):
            out.append(n)
    return out


def sources(tier, r):
    tests = list(aslrun.corpus())
    r.shuffle(tests)            # the seed decides which rotation of the design a source gets
    out = []
    for (name, d, asm, flags) in tests:
        text = source_text(asm, [INCLUDE])
        own = b"\n".join(open(os.path.join(d, f), "rb").read() for f in sorted(os.listdir(d))
                         if f.lower().endswith((".asm", ".inc")) and os.path.isfile(os.path.join(d, f)))
        out.append({"name": name, "copy": d, "flags": flags, "stringify": b"\\{" in text,
                    "mechanism": mechanism(text), "big": len(text) > 400000,
                    "decoys": decoy_names(own, lambda n, d=d: os.path.isfile(os.path.join(d, n)), [INCLUDE])})
    for name, text in GEN_PROGRAMS.items():
        out.append({"name": name, "copy": None, "text": text, "flags": ["-i", "{ROOT}/ginc"], "stringify": "\\{" in text,
                    "mechanism": mechanism(text.encode("latin-1")), "generated": True,
                    "decoys": decoy_names(text.encode("latin-1"), lambda n: False, [{k[len("ginc/"):] for k in GEN_INCLUDES}])})
    return out


def _errnums(text):
    """error numbers printed by -n; under -SPLITBYTE they are printed per byte (1134 = 4.110)"""
    out = set()
    for m in re.findall(r"(?:error|warning|Fehler|Warnung)? #(\d+(?:[.:]\d+)*)", text):
        v = 0
        for part in re.split(r"[.:]", m):
            v = v * 256 + int(part)
        out.add(str(v))
    return out


def attribute(rep, bld, failing, plain):
    """a code difference is reported with its culprit: the factors of the vector that reproduce it alone"""
    if not failing:
        return
    jobs = []
    for (s, tag, vec, job, res) in failing:
        if vec is None:
            continue
        for f, val in vec.items():
            if val != DEFAULT_VEC[f]:
                single = dict(DEFAULT_VEC)
                single[f] = val
                single["n"] = True             # error numbers and the offending text identify the symptom
                single["x"] = 2
                jobs.append(((s["name"], str(tag)), f, make_job(s, single)))
    results = drvrun.run_many(bld, [j for (_, _, j) in jobs])
    culprit, symptom = {}, {}
    for (k, f, job), res in zip(jobs, results):
        pj, pr = plain[k[0]]
        if res.files.get(job["_p"]) != pr.files.get(pj["_p"]) or res.rc != pr.rc:
            culprit.setdefault(k, []).append(f)
            symptom.setdefault(k, set()).update(_errnums(res.err + res.out))

    for (s, tag, vec, job, res) in failing:
        name = s["name"]
        pj, pr = plain[name]
        ref, got = pr.files.get(pj["_p"]), res.files.get(job["_p"])
        k = (name, str(tag))
        cul = "+".join(sorted(culprit.get(k, []))) or ("plain-rerun" if vec is None else "combination")
        sym = "+".join(sorted(symptom.get(k, []))) or "none"
        rep.violation("code file of %s differs from the plain run under configuration %s (plain: rc=%s %s bytes, here: "
                      "rc=%s %s bytes; factors reproducing it alone: %s; error numbers: %s): %s"
                      % (name if "passprog" not in s else "%s [%s, %d pass(es)]" % (name, ext_passreports.brief(s["passprog"]),
                                                                                         s["passprog"]["passes"]),
                         tag, pr.rc, None if ref is None else len(ref), res.rc, None if got is None else len(got),
                         cul, sym, " ".join(job["argv"])),
                      case={"source": name, "vector": vec, "tag": str(tag),
                            "program": ext_passreports.brief(s["passprog"]) if "passprog" in s else None},
                      files=dict([("argv", " ".join(job["argv"])), ("env", json.dumps(job.get("env"))),
                                  ("stdout.txt", res.out[-3000:]), ("stderr.txt", res.err[-3000:])] +
                                 ([(name + ".asm", s["text"])] if s.get("text") else []) +      # generated sources: the text itself
                                 [(os.path.basename(k), v) for k, v in s.get("files", {}).items()]),
                      key={"kind": "codediff", "culprit": cul, "mechanism": s.get("mechanism", "unknown")})


def main(tier):
    rep = Report(PID, tier)
    bld = build.get("hook")
    incsearch = ext_incsearch.start(bld, tier)      # extension: include search x working directory, works beside the phases below
    passrep = ext_passreports.start(tier)           # extension: per-pass state under the report options (TLC beside the phases below)
    rep.assumptions += ["the specification contributes the option partition, the covering array and the model-level "
                        "non-interference check; the verdict is differential execution of the real asl",
                        "byte comparison and date/time masking (Python) are trusted"]
    # (M)
    cfg = "Driver_MC_Rep.cfg" if tier == "quick" else "Driver_MC_RepFull.cfg"
    with Phase("TLC Driver_MC %s" % cfg):
        mc = tlc.must(tlc.run("Driver_MC", cfg, workers=4, timeout=1500, mem="8g", collect=False), "Driver_MC(%s)" % cfg)
    if mc.violation:
        raise CheckError("the model lets a report option reach the code: %s" % mc.violation[:800])
    rep.model("Driver_MC(%s)" % cfg, mc)
    # (G) covering array
    with Phase("TLC Options_Gen"):
        og = tlc.must(tlc.run("Options_Gen", "Options_Gen.cfg", workers=1, timeout=900, mem="4g", tags=("OUT",),
                              extra=["-fp", "7"]), "Options_Gen")
    if og.violation:
        raise CheckError("Options_Gen: the generated sample is not pairwise covering: %s" % og.violation[:500])
    rep.model("Options_Gen", og)
    outs = [v for (tag, v) in og.printed if tag == "OUT"]
    if not outs:
        raise CheckError("Options_Gen printed no covering array")
    design = outs[-1]
    vecs, rots, allon = design["vectors"], design["rotations"], design["allon"]
    singles = sorted(design["singles"], key=lambda v: json.dumps(v, sort_keys=True))
    rep.part("covering_array", vectors=len(vecs), factors=25, singles=len(singles),
             rotation_sizes=sorted({len(x) for x in rots}))
    r = rng("c17")
    srcs = sources(tier, r)
    jobs = []           # (src, tag, job);  tag: "plain" | "plain2" | ("vec", i) | ("single", j) | "allon" | ("again", tag)
    tagvec = {}
    for idx, s in enumerate(srcs):
        items = [("plain", None), ("plain2", None)]
        if tier == "quick":
            # rotating design: a 1-wise cover of all option values that starts at another vector of the pairwise
            # sample for every source, + everything switched on at once
            rot = rots[idx % len(rots)]
            items += [(("vec", k - 1), vecs[k - 1]) for k in rot]
            again = ["allon", ("vec", rot[0] - 1)]
        else:
            items += [(("vec", i), v) for i, v in enumerate(vecs)]
            again = [("vec", i) for i in r.sample(range(len(vecs)), 2)]
        items.append(("allon", allon))
        if s.get("generated"):
            items += [(("single", j), v) for j, v in enumerate(singles)]      # every option alone
        if tier == "quick" and s.get("big"):
            # a listing / cross reference / usage list of a megabyte source costs 10+ s per run: the quick tier keeps
            # the listing-producing factors to the other 200 sources (thorough runs them here too)
            items = [(t, None if v is None else dict(v, L="none", u=False, C=False, s=False, I=False, P=False, M=False,
                                                     g="none" if v["g"] != "MAP" else "MAP"))
                     for (t, v) in items]
        byt = dict(items)
        items += [(("again", t), byt[t]) for t in again]
        for tag, v in items:
            tagvec[(s["name"], tag)] = v
            jobs.append((s, tag, make_job(s, v)))
    # extension "per-pass state": the programs TLC generated from PassReports_MC are one more source family of the matrix;
    # program number n runs plain, under Rotation(n) (every value of every report option) and under AllOn
    psrcs = ext_passreports.sources(rep, passrep)
    for idx, s in enumerate(psrcs):
        rot = rots[(len(srcs) + idx) % len(rots)]
        for tag, v in [("plain", None)] + [(("vec", k - 1), vecs[k - 1]) for k in rot] + [("allon", allon)]:
            tagvec[(s["name"], tag)] = v
            jobs.append((s, tag, make_job(s, v)))
    srcs = srcs + psrcs
    with Phase("run %d configurations of %d sources" % (len(jobs), len(srcs))):
        results = drvrun.run_many(bld, [j for (_, _, j) in jobs])
    plain, first, failing = {}, {}, []
    for (s, tag, job), res in zip(jobs, results):
        if tag == "plain":
            plain[s["name"]] = (job, res)
        elif not (isinstance(tag, tuple) and tag[0] == "again"):
            first[(s["name"], tag)] = (job, res)
    for (s, tag, job), res in zip(jobs, results):
        rep.evaluated()
        name = s["name"]
        pj, pr = plain[name]
        if res.timeout or res.sig is not None or res.rc not in (0, 2, 3):      # 3 (fatal) is judged as a difference
            rep.violation("asl ended abnormally under a report configuration (rc=%s sig=%s timeout=%s): %s"
                          % (res.rc, res.sig, res.timeout, " ".join(job["argv"])), case={"source": name, "vector": str(tag)},
                          files={"argv": " ".join(job["argv"]), "env": json.dumps(job.get("env")),
                                 "stdout.txt": res.out[-3000:], "stderr.txt": res.err[-3000:]},
                          key={"kind": "abnormal", "source": name})
            continue
        if tag == "plain":
            continue
        rep.distinct(json.dumps([name, job["argv"], job.get("env")], sort_keys=True, default=str), True)
        ref = pr.files.get(pj["_p"])
        got = res.files.get(job["_p"])
        if got != ref or res.rc != pr.rc:
            failing.append((s, tag, tagvec[(name, tag)], job, res))
            continue
        if isinstance(tag, tuple) and tag[0] == "again":
            # repeated run of the same vector: listing / MAP / share reproducible apart from the stamp
            j0, r0 = first[(name, tag[1])]
            a = {k: mask(v) for k, v in r0.files.items() if k.lower().endswith(REPRO)}
            b = {k: mask(v) for k, v in res.files.items() if k.lower().endswith(REPRO)}
            v = tagvec[(name, tag)]
            if v["L"] == "l" and v["q"]:
                a["<stdout>"] = mask(r0.out.encode("latin-1"))
                b["<stdout>"] = mask(res.out.encode("latin-1"))
            if a != b:
                diff = sorted(k for k in set(a) | set(b) if a.get(k) != b.get(k))
                rep.violation("outputs of %s are not reproducible under the same configuration (differing: %s)"
                              % (name, diff), case={"source": name, "vector": v},
                              files=dict([("argv", " ".join(job["argv"])), ("env", json.dumps(job.get("env")))] +
                                         [("first." + os.path.basename(k), a.get(k, b"")) for k in diff] +
                                         [("second." + os.path.basename(k), b.get(k, b"")) for k in diff]),
                              key={"kind": "unreproducible", "source": name})
            other = sorted(k for k in set(r0.files) | set(res.files) if not k.lower().endswith(REPRO + (".p", ".obj"))
                           and mask(r0.files.get(k, b"")) != mask(res.files.get(k, b"")))
            if other:
                rep.drift("%s: outputs outside the property's list differ between identical runs: %s" % (name, other))
    attribute(rep, bld, failing, plain)
    ext_passreports.finish(rep, passrep, [(s, tag, None, job, res) for (s, tag, job), res in zip(jobs, results)
                                          if tag == "plain" and "passprog" in s])
    rep.traces(len(jobs))
    for (s, tag, job) in jobs[2:5]:
        rep.sample({"source": s["name"], "argv": job["argv"], "env": job.get("env"), "cwd": job.get("cwd")})
    ext_incsearch.finish(rep, incsearch)   # extension: the working directory and what lies in it (checks/ext_incsearch.py)
    ext_cmdline.run(rep, bld, tier)        # extension: the command-line / option layer (checks/ext_cmdline.py)
    return rep.finish(
        rule="configurations = TLC-built designs over 25 factors (report options, option source, cwd with / without decoy "
             "include files, -o, LANG/LC_ALL): "
             "quick = all 201 golden + 16 generated sources, each under a rotating 1-wise cover of the pairwise sample + "
             "AllOn (every (source, option value) pair); thorough = each under the whole pairwise sample + AllOn; generated "
             "sources also under every single option; plus a repeated plain run and 2 repeated vector runs per source; "
             "per-pass state: every program printed by PassReports_MC (settings x report components x 1 / 2 / 3 passes) "
             "plain, under a rotating 1-wise cover and AllOn; "
             "distinct = distinct (source, argv, env); every evaluation compares a code file with the plain run's; include "
             "search: every TLC-printed group (files in <= 2 / all subsets of 6 directories x name form x nesting x include "
             "path) run from 4 working directories x 2 / 4 spellings, code files compared within the group",
        exhaustive=False)


def replay(path):
    v = json.load(open(os.path.join(path, "violation.json")))
    log("recorded: %s" % v["what"][:1500])
    for n in ("argv", "env", "cwd", "first.cwd", "first.argv", "second.cwd", "second.argv"):     # the latter: include search
        if os.path.exists(os.path.join(path, n)):
            log("%s: %s" % (n, open(os.path.join(path, n)).read()))
    if os.path.exists(os.path.join(path, "tree.json")):
        log("file tree of the group ({ROOT} = any empty directory): %s" % os.path.join(path, "tree.json"))
    log("re-run: ./check C17 --tier %s   (VERIF_SEED=%s reproduces the same vectors)" % (v.get("tier"), v.get("seed")))
    return 0


def selftest(tier):
    """binding demonstration: (a) corrupted hook traces are rejected by Driver_Trace, (b) stored mutations of the
    anchored code (selftest/b218_mutants.py, applied to scratch copies of the repository) make this check report
    VIOLATION.  quick: 3 mutants, thorough: all of this property."""
    import sys
    ok = True
    sys.path.insert(0, os.path.join(os.path.dirname(os.path.dirname(os.path.abspath(__file__))), "selftest"))
    import b218_mutants
    mine = [n for n in b218_mutants.MUTANTS if n.startswith("c17_")]
    if tier == "quick":
        mine = mine[:3]
    for n in mine:
        name, check, verdict = b218_mutants.run(n)
        caught = "exit=1" in verdict
        log("selftest: mutant %-28s %s  %s" % (name, "CAUGHT" if caught else "MISSED", verdict))
        ok = ok and caught
    log("selftest %s: %s" % (PID, "passed" if ok else "FAILED"))
    return 0 if ok else 1
