"""C19, dimension "line origins" (phase "srclines"): WHICH source line the listing, the MAP / NoICE / Atmel file
name for the code at an address.

Why: a seeded change (as.c ExpandINCLUDE_Core: `Tag->StartLine = MomLineCounter` dropped, so that INCLUDE_Restorer
puts GenerateProcessor's CurrLine back into the reader's line counter) passed the check: an INCLUDE met below a
REPT / IRP / IRPC / WHILE body read from a file rewinds the line counter of the including file, every later line
is numbered too low and the line:address entries behind the loop name comments / ENDM / other lines.  The check
judged line numbers only against the hook's emission records, which carry the same CurrLine as the reports; no
part of the case space said from the source TEXT which line a piece of code belongs to, and no generated program
had an INCLUDE inside a repetition.

Specification: spec/SrcLines.tla
  * operators shaped like as.c: GenerateProcessor (StartLine = CurrLine, FromFile), ExpandINCLUDE_Core (saves
    MomLineCounter), INCLUDE_ / MACRO_ / REPT_ / IRP_ / IRPC_ / WHILE_Processor (CurrLine = counter of the reader /
    line of the call / StartLine + LineZ only if FromFile), the body collectors with nesting count, GetNextLine with
    INCLUDE_Restorer / MACRO_Restorer, the extra empty line at EOF and after the last WHILE test;
  * declarative side Expected: a walk over the program text (nested items with their physical places) that yields
    per executed data line its address, its code, its own place, the chain of places that may be named for it
    (own place + the calls / loop statements that brought it to execution since the last file was opened) and the
    member of the chain the code picks; EntryJustified / RowJustified = the property.
(M) SrcLines_MC: machine = text on every program `x, comment, data` with x = loop (4 kinds x counts 1,2 x every
    body of one or two of {data, INCLUDE, call}), loop around data + loop, call of macro 1 / 2, INCLUDE of file 2 / 3,
    x 3 bodies of macro 2 x 4 bodies of file 2 (quick 1776 programs, 61 k states; thorough: counts 0..2 and pairs
    x, y: SrcLines_MC_full.cfg).  SrcLines_MC_curr.cfg (ExpandINCLUDE_Core keeps CurrLine) must be refuted.
    Statements continued over two physical lines (Cont): SrcLines_MC_cont.cfg (the code: a loop body read from a file
    shows StartLine + LineZ, deviation BodyLinesCounted) must be refuted, SrcLines_MC_place.cfg (proposed repair:
    the distance kept when the line was collected; thorough, 2736 programs / 177 k states) holds.
(G) SrcLines_Gen: programs decoded from random seeds: main file of 6 items + comment + data, loops two deep
    (REPT / IRP / IRPC / WHILE x 0..2 iterations x 1..3 body items), two include files (one includes the other),
    two macros (one includes files and calls the other), calls from include files, every 30th data line continued
    over two physical lines; address step 1 or 2.  Programs
    in which an INCLUDE is met while CurrLine # MomLineCounter (`hot`, counted by the model) are preferred.
    Rendered for z80 / 8051 / 320C25 (step 1) and 68000 (dc.w, step 2); assembled with -L -listradix r -g MAP |
    NOICE | ATMEL (round robin); the same runs also go through Listing_Trace (rows / symbols against the hook).
(V) SrcLines_Trace: TLC recomputes Expected from the abstract program and judges IMAGE (parsed code file = code of
    the executed data lines at their addresses), every ENTRY of the debug file, every code-bearing first row of the
    listing (LROW: include depth, line, address).  Verdict-bearing: rejected ENTRY / LROW, with TLC's `why`:
    "as-modelled" (unjustified by the text but exactly what the machine of the code as it is shows = the named
    deviation, key deviation "continued-line-in-loop-body") or "other" ("wrong-source-line").  SPEC-DRIFT: SHOWN (the
    exact member of the chain, as the machine picks it with or without the proposed repair; the manual says nothing
    about lines of expansions) and IMAGE (then the run is not judged).
Finding (known_findings/C19.json C19-loop-body-continuation, proposed_fixes/C19-loop-body-continuation.diff / .md):
a statement continued with `\\` inside a REPT / IRP / IRPC / WHILE body read from a file shifts the line numbers of
the body lines behind it (listing, MAP, NoICE, Atmel name the line above).  On a copy with the diff the phase
accepts every run (no KNOWN-FINDING, no drift); the entry must flip to "fixed" when the diff is applied to /repo.
Not covered: continuation over more than two lines, macro definitions outside the head of the main file, recursion,
loops whose ENDM comes from another input level, sections, line info of segments other than CODE (Listing_Gen has
those), the console's line display.
Mutations of the real code tried (scratch copy, 201 ctest tests stay green each time), dev runs of this phase on
40 programs: the seeded one (ExpandINCLUDE_Core without `StartLine = MomLineCounter`): 23 runs rejected; m2 as.c
REPT_Processor `if (1)` instead of `if (FromFile)` (StartLine + LineZ also below a macro / a loop): 11 runs
rejected (the line named is outside the chain); m3 INCLUDE_Processor `MomLineCounter += 1` (continuation lines not
counted): 24 runs rejected.
"""
import concurrent.futures as cf
import os
import tempfile

from vlib import aslrun, srclines, tlc
from vlib.common import CheckError, log, rng, scratch

GEN_QUICK = 70
GEN_THOROUGH = 900
RUNS_QUICK = 40
RUNS_THOROUGH = 600


def start(tier):
    """TLC runs of the phase, started beside the other model runs of the check -> handle for run()"""
    quick = tier == "quick"
    pool = cf.ThreadPoolExecutor(max_workers=5)
    h = {"pool": pool}
    h["mc"] = pool.submit(tlc.run, "SrcLines_MC", "SrcLines_MC.cfg" if quick else "SrcLines_MC_full.cfg",
                          workers=2 if quick else 4, timeout=1700, mem="4g", collect=False)
    h["curr"] = pool.submit(tlc.run, "SrcLines_MC", "SrcLines_MC_curr.cfg", workers=1, timeout=600, mem="2g", collect=False)
    h["cont"] = pool.submit(tlc.run, "SrcLines_MC", "SrcLines_MC_cont.cfg", workers=1, timeout=600, mem="2g", collect=False)
    h["place"] = None if quick else pool.submit(tlc.run, "SrcLines_MC", "SrcLines_MC_place.cfg", workers=2, timeout=900, mem="3g",
                                                collect=False)
    h["gen"] = pool.submit(tlc.run, "SrcLines_Gen", "SrcLines_Gen.cfg", workers=1, simulate=GEN_QUICK if quick else GEN_THOROUGH,
                           depth=3, timeout=900, mem="3g")
    return h


def models(rep, h, tier):
    """collect the TLC runs; -> behaviours to replay (hot ones first)"""
    mc = tlc.must(h["mc"].result(), "SrcLines_MC")
    curr = tlc.must(h["curr"].result(), "SrcLines_MC(curr)")
    cont = tlc.must(h["cont"].result(), "SrcLines_MC(cont)")
    place = tlc.must(h["place"].result(), "SrcLines_MC(place)") if h["place"] is not None else None
    gen = tlc.must(h["gen"].result(), "SrcLines_Gen")
    h["pool"].shutdown()
    if mc.violation:
        raise CheckError("SrcLines_MC: the input-tag machine and the declarative side disagree: %s" % mc.violation[:900])
    rep.model("SrcLines_MC", mc)
    if not curr.violation:
        rep.drift("SrcLines_MC_curr: an ExpandINCLUDE_Core that keeps CurrLine is not refuted any more (model out of date)")
    rep.model("SrcLines_MC(curr, refuted)", curr)
    if not cont.violation:
        rep.drift("SrcLines_MC_cont: the deviation BodyLinesCounted (loop body line = StartLine + LineZ) is not exhibited any more "
                  "(model out of date)")
    rep.model("SrcLines_MC(cont: BodyLinesCounted, refuted)", cont)
    if place is not None:
        if place.violation:
            raise CheckError("SrcLines_MC(place): the machine with the proposed repair disagrees with the text: %s" % place.violation[:900])
        rep.model("SrcLines_MC(place: proposed repair)", place)
    rep.model("SrcLines_Gen", gen)
    behs = []
    seen = set()
    for (tag, bh) in gen.printed:
        if tag != "BEH":
            continue
        if not bh["agree"]:
            raise CheckError("SrcLines_Gen: machine and declarative side disagree on %r" % (bh["prog"],))
        k = repr(bh["prog"])
        if k not in seen and bh["exp"]:
            seen.add(k)
            behs.append(bh)
    if not behs:
        raise CheckError("SrcLines_Gen exported no program")
    rng("c19/srclines").shuffle(behs)
    n = RUNS_QUICK if tier == "quick" else RUNS_THOROUGH
    hot = [bh for bh in behs if bh["hot"] > 0][:(n * 3) // 5]
    return hot + [bh for bh in behs if bh["hot"] == 0][:n - len(hot)]


def jobs(behs, debugs, radices):
    """-> list of (sources, opts, wants, meta) for the generated programs"""
    out = []
    for bi, bh in enumerate(behs):
        dns = srclines.dialects_for(bh["prog"]["step"])
        dn = dns[bi % len(dns)]
        dbg = debugs[bi % 3] if not (dn != "z80" and debugs[bi % 3][0] == "ATMEL") else debugs[0]
        radix = radices[bi % len(radices)]
        sources = srclines.render(bh, dn)
        opts = ["-q", "-L", "-listradix", str(radix), "-g", dbg[0]]
        out.append((sources, opts, ["a.lst", "a" + dbg[1]],
                    {"kind": "generated", "sub": "srclines", "beh": bh, "dialect": dn, "radix": radix, "share": "",
                     "debug": dbg[0], "sources": sources, "base": "a", "name": "srclines%d/%s" % (bi, dn)}))
    return out


def judge(cases, timeout=900):
    """one TLC run over the events of all runs -> ({case index: [event indices rejected]}, TLCResult)"""
    flat, owner = [], []
    for ci, ev in enumerate(cases):
        flat.append({"a": "RESET"})
        owner.append((ci, -1))
        for k, e in enumerate(ev):
            flat.append(e)
            owner.append((ci, k))
    fd, path = tempfile.mkstemp(prefix="srctrace-", suffix=".ndjson", dir=scratch())
    os.close(fd)
    tlc.write_ndjson(flat, path)
    r = tlc.run("SrcLines_Trace", "SrcLines_Trace.cfg", workers=1, env={"TRACE": path}, mem="4g", timeout=timeout, keep_out=True)
    os.unlink(path)
    if r.error or r.violation:
        raise CheckError("SrcLines_Trace did not run to the end: %s" % (r.error or r.violation or "")[:600])
    outs = [v for (tag, v) in r.printed if tag == "OUT"]
    if not outs or outs[-1].get("n") != len(flat):
        raise CheckError("SrcLines_Trace printed no verdict: %s" % r.out[-600:])
    bad = {}
    for b in outs[-1]["bad"]:
        ci, k = owner[b["l"] - 1]
        bad.setdefault(ci, {})[k] = b["why"]
    return bad, r


def start_judge(infos):
    """infos: [(meta, result)] of the runs of this phase; the TLC run goes on beside Listing_Trace"""
    cases = []
    for (m, res) in infos:
        ev, st = srclines.events(m["beh"], m["dialect"], m["radix"], m["debug"], res["files"], m["base"], res["p"])
        m["srcstats"] = st
        cases.append(ev)
    pool = cf.ThreadPoolExecutor(max_workers=1)
    return {"pool": pool, "cases": cases, "infos": infos, "fut": pool.submit(judge, cases) if cases else None}


def finish(rep, j):
    """classify TLC's rejections"""
    if j["fut"] is None:
        return
    bad, tr = j["fut"].result()
    j["pool"].shutdown()
    rep.cov["states"] += tr.distinct
    rep.cov["transitions"] += tr.generated
    cases, infos = j["cases"], j["infos"]
    nviol = 0
    for ci in sorted(bad):
        m, res = infos[ci]
        evs = cases[ci]
        rej = [evs[k] for k in sorted(bad[ci])]
        why = {id(evs[k]): w for k, w in bad[ci].items()}
        img = [e for e in rej if e["a"] == "IMAGE"]
        if img:
            rep.drift("%s: %s (run not judged)" % (m["name"], srclines.describe(img[0], m["beh"])))
            continue
        reported = {}
        for e in rej:
            if e["a"] == "SHOWN":
                if not any(x["a"] in ("ENTRY", "LROW") for x in rej):
                    rep.drift("%s (-g %s): %s" % (m["name"], m["debug"], srclines.describe(e, m["beh"])))
                continue
            # "as-modelled": unjustified by the text, but exactly what the model of the code as it is shows - the named
            # deviation BodyLinesCounted (a body line behind a continued statement in a loop read from a file)
            dev = "continued-line-in-loop-body" if why[id(e)] == "as-modelled" else "wrong-source-line"
            if reported.get((e["a"], dev), 0) >= 2:
                continue                                  # two examples per kind and run are enough
            reported[(e["a"], dev)] = reported.get((e["a"], dev), 0) + 1
            nviol += 1
            files = {os.path.basename(fn): data for fn, data in res["files"].items()}
            files.update(m["sources"])
            rep.violation("%s (radix %d, -g %s): %s" % (m["name"], m["radix"], m["debug"], srclines.describe(e, m["beh"])),
                          case={"name": m["name"], "kind": "generated", "dialect": m["dialect"], "radix": m["radix"],
                                "debug": m["debug"], "beh": {"prog": m["beh"]["prog"], "files": m["beh"]["files"],
                                                             "exp": m["beh"]["exp"]}, "event": e},
                          files=files, key={"event": e["a"], "deviation": dev, "phase": "srclines"})
    rep.part("line_origins", programs=len(infos), hot_programs=sum(1 for (m, _) in infos if m["beh"]["hot"] > 0),
             programs_exposing_BodyLinesCounted=sum(1 for (m, _) in infos if m["beh"]["dev"] > 0),
             executed_data_lines=sum(len(m["beh"]["exp"]) for (m, _) in infos),
             code_cells=sum(m["srcstats"]["cells"] for (m, _) in infos),
             line_address_entries=sum(m["srcstats"]["entries"] for (m, _) in infos),
             listing_rows=sum(m["srcstats"]["rows"] for (m, _) in infos), rejected_runs=len(bad), events_rejected=nviol)


def replay(path, case):
    """replay of a recorded violation of this phase (called from c19.replay)"""
    from vlib import build
    bld = build.get("hook")
    bh = case["beh"]
    ext = {"MAP": ".map", "NOICE": ".noi", "ATMEL": ".obj"}[case["debug"]]
    r = aslrun.assemble(bld, srclines.render(bh, case["dialect"]),
                        opts=["-q", "-L", "-listradix", str(case["radix"]), "-g", case["debug"]], want=["a.lst", "a" + ext])
    ev, _ = srclines.events(bh, case["dialect"], case["radix"], case["debug"], r.files, "a", r.p)
    bad, _ = judge([ev])
    for k in sorted(bad.get(0, {})):
        if ev[k]["a"] in ("ENTRY", "LROW", "IMAGE"):
            log("replay: TLC rejects (%s): %s" % (bad[0][k], srclines.describe(ev[k], bh)))
    if not any(ev[k]["a"] in ("ENTRY", "LROW", "IMAGE") for k in bad.get(0, [])):
        log("replay: TLC accepts the run")
    return 0


def selftest():
    """binding demonstration: a run TLC accepts is rejected after one token of a report is changed"""
    import copy
    from vlib import build
    bld = build.get("hook")
    g = tlc.must(tlc.run("SrcLines_Gen", "SrcLines_Gen.cfg", workers=1, simulate=12, depth=3, timeout=300, mem="2g"), "SrcLines_Gen")
    bh = max((b for (t, b) in g.printed if t == "BEH" and b["prog"]["step"] == 1 and b["dev"] == 0),   # (no known deviation)
             key=lambda b: (b["hot"] > 0, len(b["exp"])))
    r = aslrun.assemble(bld, srclines.render(bh, "z80"), opts=["-q", "-L", "-g", "MAP"], want=["a.lst", "a.map"])
    ev, _ = srclines.events(bh, "z80", 16, "MAP", r.files, "a", r.p)
    variants = {"unchanged": ev}

    def changed(name, kind, fn):
        v = copy.deepcopy(ev)
        i = next(i for i, e in enumerate(v) if e["a"] == kind)
        fn(v[i])
        variants[name] = v
    changed("MAP line changed", "ENTRY", lambda e: e.update(line=e["line"] + 1))
    changed("MAP file changed", "ENTRY", lambda e: e.update(f=e["f"] % 3 + 1))
    changed("listing line changed", "LROW", lambda e: e.update(line=e["line"] + 1))
    changed("listing depth changed", "LROW", lambda e: e.update(depth=e["depth"] + 1))
    changed("code file cell changed", "IMAGE", lambda e: e["cells"][0].update(v=e["cells"][0]["v"] ^ 1))
    names = list(variants)
    bad, _ = judge([variants[n] for n in names])
    ok = True
    for k, n in enumerate(names):
        rej = any(variants[n][i]["a"] != "SHOWN" for i in bad.get(k, []))
        log("selftest srclines %-28s %s" % (n, "rejected" if rej else "accepted"))
        ok = ok and (rej == (n != "unchanged"))
    log("selftest C19 line origins binding: %s" % ("OK" if ok else "FAILED"))
    return ok
