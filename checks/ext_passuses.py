"""C01 extension: KINDS OF USE x INSTRUCTION SHAPES (spec/PassUses.tla, PassUses_MC.tla, PassUses_Obs.tla).

The clause "every use of a symbol (absolute operand, data word, PC-relative displacement) encodes the value that symbol
finally has" is quantified here over the shapes that decide WHERE the operand field lies and WHERE a displacement is
counted from: opcode page / prefix bytes (6809 $10/$11, 68HC11 $18/$1A, 8086 segment overrides), operands in front of
and behind the field (68HC11 BRSET/BRCLR, 65C02 BBR/BBS, 68000 BTST #n,d(PC) / MOVEM, 8086 memory operand followed by
immediate data), 8- and 16-bit forms of one operand (6809 n,PCR; 68000 Bcc; 8086 JMP; direct/extended; abs.W/abs.L),
lo/hi byte operands and data words - 53 shapes for the 6809, 27 for the 68HC11, 21 for the 6502/65C02, 24 for the 8086,
31 for the 68000.  Why it was added: the item alphabet of PassLoop has ONE reference statement per kind and target
(lda/bra/jmp with a one-byte opcode), and vlib/passloop.py decodes a displacement with a hard-wired "address + 2"; a
6809 operand decoder that forgets the page prefix of LDY/CMPD/CMPU/... when it makes `label,PCR` relative (every such
operand encodes label+1, layout converges, no diagnostic) was in no program of the check.

(M) PassUses_MC.cfg: every program of the family (one label; the use in front of / behind the label, 0..2 and 116..132
    fill bytes away - around the limits of a signed byte for the shapes that have a one-byte displacement form;
    one-byte absolute forms around address 256, sign-extended word forms around 32768; a second, automatically sized
    use between a PC-relative use and its label) is assembled by the modelled pass loop with the formulas of the code
    generators (EProgCounter() + 2 + OpcodeLen ..., RelPos) and TLC checks that the loop converges and that the image
    satisfies the declarative Verdict, which reads it back with the PUBLISHED encodings only (Walk / Denotes: 6809,
    68HC11, 6502, 8086: offset from the address of the following instruction; 68000: from the extension word).
    PassUses_MC_dev_page.cfg (OpcodePageCounted = FALSE) must be refuted.   quick: 4882 programs; thorough
    (PassUses_MC_wide.cfg): every automatically sized shape as the second use, every distance for every shape.
(G) the same TLC run prints every program with its source templates; each is rendered (vlib.passloop dialect tables for
    cpu / org / marker / fill) and assembled by the real asl; the data records of the code file go back to TLC
    (PassUses_Obs), which walks the image with the published encodings and judges.
    Verdict-bearing: the code the real assembler emits without error is an encoding of the program's items in which
    every use denotes the address where its label's marker lies.  Diagnostics (SPEC-DRIFT): error / no error and the
    sizes chosen vs the model.
NOT covered here: two different symbols in one instruction, symbols plus offsets, shapes outside the tables, the
16-bit displacement limits (32767), 6309/68020 additions.

Mutations of the real code tried on scratch copies:
  u1 code6809.c DecodeALU passes OpcodeLen 1 for page-2/3 opcodes (the seeded change)   suite 0 fail   caught: 6809
     ldy/lds/sty/sts/cmpy/cmpd/cmpu/cmps la,pcr / la,pc / [la,pcr] denote la+1 (631 programs)
  u2 code68.c BRSET/BRCLR: PrefCnt not counted (- (EProgCounter() + 3 + AdrCnt))          caught: 68HC11 brset/brclr n,y
  u3 code65.c BBRn/BBSn: - (EProgCounter() + 2) instead of + 3                            caught: 65C02 bbr0/bbr7/bbs3
  u4 code68k.c MOVEM: RelPos = 2 instead of 4 (mask word not counted)                     caught: 68000 movem.l la(pc),..
  (u2-u4 in one scratch copy, this phase alone: 113 programs reported, the three groups above and nothing else)
"""
import json
import os

from vlib import aslrun, passloop, tlc
from vlib.common import CheckError, Phase, rng, scratch

DIALECT = {"6809": "6809", "6811": "68hc11", "6502": "6502", "8086": "8086", "68000": "68000"}


def tlc_jobs(tier):
    """TLC runs of this extension, in the form checks/c01.py tlc_jobs uses (they join its worker pool)"""
    return {
        "Uses_MC": dict(module="PassUses_MC", cfg="PassUses_MC.cfg" if tier == "quick" else "PassUses_MC_wide.cfg",
                        tags=("OUT",), collect=True, mem="6g"),
        "Uses_dev_page": dict(module="PassUses_MC", cfg="PassUses_MC_dev_page.cfg"),
    }


def render(case):
    """abstract program -> source text.  Formatting only: the statement texts come from the specification"""
    D = passloop.DIALECTS[DIALECT[case["tg"]]]
    lines = ["\tcpu\t%s" % (D.cpu if case["cpu"] == case["tg"] else case["cpu"]), "\t" + D.org % case["org"]]
    for j, it in enumerate(case["prog"], 1):
        if it["k"] == "def":
            lines.append("%s:\t%s" % (it["l"], D.lines["defb"] % D.hx(j)))
        elif it["k"] == "fill":
            lines.append("\t" + D.fill % it["n"])
        else:
            lines.append("\t" + (it["asm"] % it["l"]).replace(" ", "\t", 1))
    return "\n".join(lines) + "\n"


def _segments(parsed):
    return [{"s": rec.start, "b": list(rec.data)} for rec in parsed.data_records() if len(rec.data)]


def run(rep, bld, tier, R):
    # (M)
    d = tlc.must(R["Uses_dev_page"], "PassUses_MC_dev_page")
    if not d.violation or "ModelResolvesInv" not in d.violation:
        raise CheckError("PassUses(OpcodePageCounted = FALSE) must violate ModelResolvesInv: the specification no longer "
                         "tells a ,PCR operand counted from behind the page prefix from one counted without it")
    rep.model("PassUses_MC(6809, page prefix not counted)", d)
    rep.part("PassUses_MC(6809, page prefix not counted)", resolves="violated (expected)")
    g = tlc.must(R["Uses_MC"], "PassUses_MC")
    if g.violation:
        raise CheckError("PassUses: the modelled code generators contradict the published encodings: %s" % g.violation[:1500])
    rep.model("PassUses_MC(five targets: convergence + published encoding + export)", g)
    cases = [x for (t, x) in g.printed]
    if len(cases) != g.distinct or not cases:
        raise CheckError("PassUses_MC: %d programs printed for %d states" % (len(cases), g.distinct))
    cases.sort(key=lambda c: json.dumps([c["tg"], c["org"], c["prog"]], sort_keys=True))
    total = len(cases)
    if tier == "quick":         # all single-use programs, a seed-chosen share of the two-use ones (TLC checked them all)
        pairs = [c for c in cases if sum(1 for it in c["prog"] if it["k"] == "use") > 1]
        rng("c01/uses").shuffle(pairs)
        drop = set(id(c) for c in pairs[600:])
        cases = [c for c in cases if id(c) not in drop]
    # (G)
    srcs = [render(c) for c in cases]
    jobs = [{"sources": {"a.asm": s}, "opts": ["-q"], "env": {"ASL_VERIF_MAX_PASSES": "40"}, "timeout": 30} for s in srcs]
    with Phase("replay uses: %d programs" % len(jobs)):
        results = aslrun.assemble_many(bld, jobs)
    obs = []
    drift = {"error-outcome": 0, "layout": 0}
    for i, (c, src, res) in enumerate(zip(cases, srcs, results)):
        rep.evaluated()
        rep.distinct(src, True)
        shapes = [it["s"] for it in c["prog"] if it["k"] == "use"]
        if res.sig is not None or res.rc == 97 or res.timeout:
            r2 = aslrun.assemble(bld, {"a.asm": src}, opts=["-q"], env={"ASL_VERIF_MAX_PASSES": "40"}, timeout=30)
            if r2.sig is not None or r2.rc == 97 or r2.timeout:
                rep.violation("%s: assembly of a program with uses %s %s" % (c["tg"], shapes,
                              "was killed by signal %s" % res.sig if res.sig is not None else "did not end within 40 passes"),
                              case=c["prog"], files={"a.asm": src},
                              key={"kind": "crash" if res.sig is not None else "livelock", "patched": False, "opt_Y": False})
            continue
        if (res.rc != 0) != bool(c["err"]):
            drift["error-outcome"] += 1
            if drift["error-outcome"] <= 3:
                rep.drift("uses error-outcome [%s] %s: model err=%s, asl rc=%s %s"
                          % (c["tg"], shapes, c["err"], res.rc, (res.out + res.err)[-160:].replace("\n", " ")))
        if res.rc == 0 and res.p is not None:
            obs.append({"id": i, "tg": c["tg"], "org": c["org"],
                        "prog": [{"k": it["k"], "s": it["s"], "l": it["l"], "n": it["n"]} for it in c["prog"]],
                        "img": _segments(res.parsed())})
    if not obs:
        raise CheckError("PassUses: no program assembled")
    path = os.path.join(scratch(), "uses-obs.ndjson")
    tlc.write_ndjson(obs, path)
    with Phase("PassUses_Obs: %d images" % len(obs)):
        o = tlc.run("PassUses_Obs", "PassUses_Obs.cfg", workers=1, env={"OBS": path}, timeout=1500, mem="6g", tags=("OUT",))
    os.unlink(path)
    if o.error or o.violation:
        raise CheckError("PassUses_Obs did not run through: %s" % (o.error or o.violation)[:800])
    verdicts = {x["id"]: x for (t, x) in o.printed}
    if len(verdicts) != len(obs):
        raise CheckError("PassUses_Obs: %d verdicts for %d images" % (len(verdicts), len(obs)))
    rep.cov["states"] += o.distinct
    rep.cov["transitions"] += o.generated
    rep.traces(len(obs))
    bad = 0
    confirmed = 0
    for x in obs:
        v = verdicts[x["id"]]
        c, src, res = cases[x["id"]], srcs[x["id"]], results[x["id"]]
        if not v["valid"]:
            if confirmed < 40:      # DESIGN 2.4 rule 3: a mismatch counts only if a fresh run repeats it
                confirmed += 1
                r2 = aslrun.assemble(bld, {"a.asm": src}, opts=["-q"], env={"ASL_VERIF_MAX_PASSES": "40"}, timeout=30)
                if r2.p != res.p:
                    continue
            bad += 1
            uses = ["%d:%s" % (j, it["asm"] % it["l"]) for j, it in enumerate(c["prog"], 1) if it["k"] == "use"]
            rep.violation("%s: emitted code does not resolve the program (uses %s): problems (item, what) = %s; a use must "
                          "denote the address of its label's marker by the published encoding; image read as %s"
                          % (c["tg"], uses, v["problems"], v["lay"]), case=c["prog"],
                          files={"a.asm": src, "a.p": res.p, "layout.json": json.dumps(v["lay"])},
                          key={"kind": "use-unresolved", "target": c["tg"],
                               "shapes": sorted(it["s"] for it in c["prog"] if it["k"] == "use")})
        elif c["lay"] and [(e["a"], e["n"]) for e in v["lay"]] != [(e["a"], e["n"]) for e in c["lay"]]:
            drift["layout"] += 1
            if drift["layout"] <= 3:
                rep.drift("uses layout [%s] %s: model %s, asl %s" % (c["tg"], json.dumps(x["prog"]), c["lay"], v["lay"]))
    per_tg = {}
    for c in cases:
        per_tg[c["tg"]] = per_tg.get(c["tg"], 0) + 1
    rep.part("PassUses replay", family=total, programs=len(cases), per_target=per_tg, images_judged=len(obs), unresolved=bad,
             obs_wall_s=o.wall, **{"drift_" + k.replace("-", "_"): n for k, n in drift.items()})
    k = len(cases) // 2
    rep.sample({"class": "uses", "target": cases[k]["tg"], "program": cases[k]["prog"], "rendered": srcs[k],
                "model": {"passes": cases[k]["passes"], "err": cases[k]["err"], "layout": cases[k]["lay"]},
                "asl_rc": results[k].rc})
