"""C19, dimension "pending label" (phase "pendlabel"): WHEN a report takes a symbol's value, relative to the moment
the automatic padding moves the label.

Why: a seeded change (as.c Produce_Code: the memory about the most recent label is dropped only by statements that
carry a label of their own or produced / reserved something - `&& (*LabPart || CodeLen != 0)`) passed the check.  On
a padding target (68000; MSP430 / TMS9900 with PADDING ON) a label alone on its line at an odd address stays pending
until the next statement with an operation part; with the change a bare declaration leaves it pending, so in
    entry:
            shared  entry
            move.w  d0,d1
CodeSHARED writes the unpadded value into the share file (-c, -p and -a alike) and InsertPadding -> LabelModify moves
the label afterwards: listing table, MAP symbols and every reference in the code show the padded value.  Listing_Trace
does judge share lines against the symbol's final value, but no generated program had a statement BETWEEN a
label-only line and the statement that gets padded (the golden t_padding has `pos3 equ label4` there, which carries a
label field and no SHARED).  The missing dimension is that history.

Specification: spec/PendLabel.tla
  * operators shaped like the code: LabelHandle / LabelModify / LabelReset (asmlabel.c), InsertPadding (asmcode.c:
    one byte laid down or - DS - only reserved, then LabelModify(old pc, new pc)), Snapshot (asmallg.c CodeSHARED:
    the value the symbol has when the statement is executed; EQU / SET copy the same way), Forgets (as.c
    Produce_Code: every statement with an operation part that is no macro call forgets the label; ResetRule =
    "labelled-or-code" is the named deviation = the seeded shape), Line / Statement (a macro call leaves the label
    pending, the lines of its body are statements of their own), Assemble (a second pass after a forward reference
    starts with the values of the first, nothing pending, share file written anew);
  * declarative side, over the TEXT of a block (label line at an even / odd address, intervening statements,
    following statement): ShareFinal / CodeFinal (the property: every share line, every reference in the code = the
    symbol's final value), ExpectFinal / FinalAsText / MovedIff (manual, PADDING: the label points behind the pad byte
    iff its line holds only the label and is still pending when the statement is padded; the manual is silent about
    empty lines and calls of empty macros in between - the code keeps the label pending, named in ManualDecides),
    CopiesFinal, LayoutSane, LineEntries.
(M) PendLabel_MC: one TLC state per source statement, every program [forward SHARED] + one block x target
    {68000, MSP430}: 2 parities x every sequence of <= 2 intervening statements out of 11 kinds (SHARED of the label /
    of another one, PUBLIC, GLOBAL, EQU, SET using the label, one data byte, empty or comment line, LISTING, call of
    an empty macro, call of a macro that expands to SHARED of the label) x following statement {aligned instruction,
    DC.W, DC.B, DS.W, ALIGN, END}: 6384 programs, 131 k states, invariants Final (all of the above) and Sane;
    thorough (PendLabel_MC_full.cfg) adds every pair of blocks with <= 1 intervening statement (75 k programs, 2.0 M states).
    PendLabel_MC_dev.cfg (ResetRule = "labelled-or-code") must be REFUTED by TLC (ShareStatesFinal).
(G) PendLabel_Gen: the blocks are numbered (intervening statements: none, each kind, quick: the pairs in which one of
    the two leaves the label pending, thorough: every pair) and dealt to programs of 14 blocks + one block in front of
    END (quick 40 programs, 1120 distinct (target, parity, intervening, following) blocks; thorough 93 programs),
    every second pair of programs with a forward SHARED of all labels (two passes); behind the blocks a reference
    table (DC.W / WORD of every symbol) and a SHARED of every symbol.  Exported per target with every symbol's final
    value, the share lines in order, the table, the pieces laid down per statement.  Rendered by vlib/pendlabel.py
    for 68000 and MSP430 (PADDING ON); assembled with -L -g MAP and -c / -p / -a (quick: round robin over programs x
    targets, thorough: all three).  Blocks with PUBLIC / GLOBAL are wrapped in SECTION ... ENDSECTION.
(V) PendLabel_Trace: per run the words of the reference table as the parsed CODE FILE holds them (neutral witness of
    the final values), every line of the share file, every symbol of the listing's table and of the MAP symbol
    section, the MAP line:address entries of the following statements.  Verdict-bearing (VIOLATION, key phase
    "pendlabel", deviation "report-not-final-value"): a reported value that differs from the value the code file holds
    for that symbol.  SPEC-DRIFT: anything that differs from the model's finer prediction (which value is final, order
    and number of share lines, table, line entries).  One run per program (quick 40, alternating targets) also goes
    through Listing_Trace in full (rows, MAP entries, symbols against the hook's record: this also judges the symbols
    of the block in front of END, which has no word in the table).
Not covered: STRUCT elements (pLabelElement), IRP / REPT / WHILE between label and statement, labels in macro bodies,
AVR byte mode, TMS9900, padding by DC.L / odd-length DC.B runs; sections other than the wrapping described.
Mutations of the real code tried on a scratch copy: the seeded one (quick tier: exit 1; PendLabel_Trace rejects 50
events in 44 of 80 runs, Listing_Trace 24 SYM events in 22 of the 40 runs it sees); asmcode.c InsertPadding without
LabelModify: 46 of 80 runs reported as SPEC-DRIFT only (all reports agree on the unmoved value: the property holds,
the manual's rule does not).  ./check C19 --selftest: a share / listing / MAP value or a table word changed by one is
rejected each.
"""
import concurrent.futures as cf
import os
import tempfile

from vlib import aslrun, codefile, listing, pendlabel, tlc
from vlib.common import CheckError, log, scratch

SHARES = [("c", "-c", ".h"), ("pas", "-p", ".inc"), ("asm", "-a", ".inc")]


def start(tier):
    """TLC runs of the phase, started beside the other model runs of the check -> handle for models()"""
    quick = tier == "quick"
    pool = cf.ThreadPoolExecutor(max_workers=3)
    h = {"pool": pool}
    h["mc"] = pool.submit(tlc.run, "PendLabel_MC", "PendLabel_MC.cfg" if quick else "PendLabel_MC_full.cfg",
                          workers=2 if quick else 4, timeout=1700, mem="4g", collect=False)
    h["dev"] = pool.submit(tlc.run, "PendLabel_MC", "PendLabel_MC_dev.cfg", workers=1, timeout=600, mem="2g", collect=False)
    h["gen"] = pool.submit(tlc.run, "PendLabel_Gen", "PendLabel_Gen.cfg" if quick else "PendLabel_Gen_full.cfg", workers=1,
                           timeout=900, mem="3g")
    return h


def models(rep, h, tier):
    """collect the TLC runs; -> exported programs"""
    mc = tlc.must(h["mc"].result(), "PendLabel_MC")
    dev = tlc.must(h["dev"].result(), "PendLabel_MC(dev)")
    gen = tlc.must(h["gen"].result(), "PendLabel_Gen")
    h["pool"].shutdown()
    if mc.violation:
        raise CheckError("PendLabel_MC: the label memory and the declarative side disagree: %s" % mc.violation[:900])
    rep.model("PendLabel_MC", mc)
    if not dev.violation:
        rep.drift("PendLabel_MC_dev: a label that stays pending over a bare declaration is not refuted any more (model out of date)")
    rep.model("PendLabel_MC(dev: labelled-or-code, refuted)", dev)
    rep.model("PendLabel_Gen", gen)
    behs = [bh for (tag, bh) in gen.printed if tag == "BEH"]
    if not behs:
        raise CheckError("PendLabel_Gen exported no program")
    for bh in behs:
        if not bh["agree"]:
            raise CheckError("PendLabel_Gen: machine and declarative side disagree on program %d/%s" % (bh["p"], bh["prog"]["tgt"]))
    behs.sort(key=lambda bh: (bh["p"], bh["prog"]["tgt"]))
    return behs


def jobs(behs, tier):
    """-> list of (sources, opts, wants, meta) for the generated programs"""
    out = []
    for bh in behs:
        ti = 0 if bh["prog"]["tgt"] == "68k" else 1
        formats = [SHARES[(bh["p"] + ti) % 3]] if tier == "quick" else SHARES
        src, names, lines = pendlabel.render(bh)
        for fi, sh in enumerate(formats):
            out.append(({"a.asm": src}, ["-q", "-L", "-listradix", "16", "-g", "MAP", sh[1]], ["a.lst", "a.map", "a" + sh[2]],
                        {"kind": "generated", "sub": "pendlabel", "beh": bh, "dialect": bh["prog"]["tgt"], "radix": 16,
                         "share": sh[0], "debug": "MAP", "sources": {"a.asm": src}, "base": "a", "names": names, "lines": lines,
                         "full": fi == 0 and bh["p"] % 2 == ti,         # this run also goes through Listing_Trace
                         "name": "pendlabel%d/%s" % (bh["p"], bh["prog"]["tgt"])}))
    return out


# ---------------------------------------------------------------------------------------------------
def events(m, files, pbytes):
    """PendLabel_Trace events of one run"""
    bh = m["beh"]
    back = {v.upper(): k for k, v in m["names"].items()}           # source name -> model name
    pr = codefile.parse(pbytes) if pbytes is not None else None
    image = {}
    if pr is not None:
        for (seg, a), bs in pr.image().items():
            if seg == 1 and len(bs) == 1:
                image[a] = bs[0]
    table = {n: (v if v is not None else -1) for (n, v) in pendlabel.table_values(bh, image, m["names"])}
    ev = [{"a": "CASE", "prog": bh["prog"], "table": table}]
    st = {"share": 0, "lst": 0, "map": 0, "lines": 0}
    sh = files.get("a.h") or files.get("a.inc")
    k = 0
    if sh is not None:
        for (n, vtxt) in listing.parse_share(sh.decode("latin-1"), m["share"]):
            k += 1
            v, _fmt = listing.parse_intconst(vtxt)
            ev.append({"a": "REP", "src": "share", "name": back.get(n.upper(), n.upper()), "val": v if v is not None else -1, "k": k})
        st["share"] = k
    lst = files.get("a.lst")
    if lst is not None:
        _rows, lsyms = listing.parse_listing(lst.decode("latin-1"), 16)
        for (n, sect, vtxt, seg, used) in lsyms:
            if sect is None and n.upper() in back:
                v = listing.parse_int(vtxt, 16)
                ev.append({"a": "REP", "src": "lst", "name": back[n.upper()], "val": v if v is not None else -1, "k": 0})
                st["lst"] += 1
    mp = files.get("a.map")
    if mp is not None:
        ml, ms = listing.parse_map(mp.decode("latin-1"))
        for (n, sect, typ, vtxt, segn) in ms:
            if sect is None and typ == "Int" and n.upper() in back:
                v = listing.parse_int(vtxt, 16)
                ev.append({"a": "REP", "src": "map", "name": back[n.upper()], "val": v if v is not None else -1, "k": 0})
                st["map"] += 1
        byline = {}
        for (segn, fil, ln, addr) in ml:
            if segn == "CODE":
                byline.setdefault(ln, []).append(addr)
        for i, it in enumerate(bh["items"], 1):
            if it["k"] in ("insn", "word", "resw", "align") or (it["k"] == "byte" and not it["lab"]):
                ev.append({"a": "LINES", "i": i, "addrs": sorted(a for ln in m["lines"].get(i, []) for a in byline.get(ln, []))})
                st["lines"] += 1
    ev.append({"a": "DONE", "nshare": k})
    return ev, st


def describe(e, ev):
    if e["a"] == "REP":
        src = {"share": "share file line %d" % e["k"], "lst": "symbol table of the listing", "map": "MAP symbol section"}[e["src"]]
        return "%s gives %s = %s, the code file holds %s" % (src, e["name"], hex(e["val"]),
                                                            hex(ev[0]["table"][e["name"]]) if e["name"] in ev[0]["table"] else "no word for it")
    return "%s" % {k: v for k, v in e.items()}


def judge(cases, timeout=900):
    """one TLC run over the events of all runs -> (bad, odd: {case index: [event indices]}, TLCResult)"""
    flat, owner = [], []
    for ci, ev in enumerate(cases):
        flat.append({"a": "RESET"})
        owner.append((ci, -1))
        for k, e in enumerate(ev):
            flat.append(e)
            owner.append((ci, k))
    fd, path = tempfile.mkstemp(prefix="pendtrace-", suffix=".ndjson", dir=scratch())
    os.close(fd)
    tlc.write_ndjson(flat, path)
    r = tlc.run("PendLabel_Trace", "PendLabel_Trace.cfg", workers=1, env={"TRACE": path}, mem="4g", timeout=timeout, keep_out=True)
    os.unlink(path)
    if r.error or r.violation:
        raise CheckError("PendLabel_Trace did not run to the end: %s" % (r.error or r.violation or "")[:600])
    outs = [v for (tag, v) in r.printed if tag == "OUT"]
    if not outs or outs[-1].get("n") != len(flat):
        raise CheckError("PendLabel_Trace printed no verdict: %s" % r.out[-600:])
    bad, odd = {}, {}
    for (lst, dst) in ((outs[-1]["bad"], bad), (outs[-1]["odd"], odd)):
        for l in lst:
            ci, k = owner[l - 1]
            dst.setdefault(ci, []).append(k)
    return bad, odd, r


def start_judge(infos):
    """infos: [(meta, result)] of the runs of this phase; the TLC run goes on beside Listing_Trace"""
    cases = []
    for (m, res) in infos:
        ev, st = events(m, res["files"], res["p"])
        m["pendstats"] = st
        cases.append(ev)
    pool = cf.ThreadPoolExecutor(max_workers=1)
    return {"pool": pool, "cases": cases, "infos": infos, "fut": pool.submit(judge, cases) if cases else None}


def finish(rep, j):
    """classify TLC's rejections"""
    if j["fut"] is None:
        return
    bad, odd, tr = j["fut"].result()
    j["pool"].shutdown()
    rep.cov["states"] += tr.distinct
    rep.cov["transitions"] += tr.generated
    cases, infos = j["cases"], j["infos"]
    nviol = 0
    for ci in sorted(bad):
        m, res = infos[ci]
        for k in bad[ci][:2]:                               # two examples per run are enough
            e = cases[ci][k]
            nviol += 1
            files = {os.path.basename(fn): data for fn, data in res["files"].items()}
            files.update(m["sources"])
            rep.violation("%s (share %s): %s" % (m["name"], m["share"], describe(e, cases[ci])),
                          case={"name": m["name"], "kind": "generated", "share": m["share"], "beh": m["beh"], "names": m["names"],
                                "lines": {str(i): v for i, v in m["lines"].items()}, "event": e},
                          files=files, key={"event": e["a"], "deviation": "report-not-final-value", "phase": "pendlabel",
                                            "source": e.get("src", "")})
    ndrift = 0
    for ci in sorted(odd):
        if ci in bad:
            continue
        m, res = infos[ci]
        ndrift += 1
        if ndrift <= 4:
            e = cases[ci][odd[ci][0]]
            rep.drift("%s (share %s): differs from PendLabel.tla's prediction (%d events), first: %s" % (
                m["name"], m["share"], len(odd[ci]), {k: v for k, v in e.items() if k not in ("prog",)}))
    blocks = set()
    for (m, _) in infos:
        for blk in m["beh"]["prog"]["blocks"]:
            blocks.add((m["dialect"], blk["odd"], tuple(blk["mids"]), blk["fol"]))
    rep.part("pending_label", runs=len(infos), programs=len({(m["beh"]["p"], m["dialect"]) for (m, _) in infos}),
             distinct_blocks=len(blocks), two_pass_programs=sum(1 for (m, _) in infos if m["beh"]["passes"] == 2),
             share_lines=sum(m["pendstats"]["share"] for (m, _) in infos),
             listing_symbols=sum(m["pendstats"]["lst"] for (m, _) in infos),
             map_symbols=sum(m["pendstats"]["map"] for (m, _) in infos),
             line_entry_sets=sum(m["pendstats"]["lines"] for (m, _) in infos),
             runs_also_in_Listing_Trace=sum(1 for (m, _) in infos if m["full"]),
             rejected_runs=len(bad), events_rejected=nviol, runs_differing_from_model=ndrift)


def replay(path, case):
    """replay of a recorded violation of this phase (called from c19.replay)"""
    from vlib import build
    bld = build.get("hook")
    sh = {s[0]: s for s in SHARES}[case["share"]]
    src, names, lines = pendlabel.render(case["beh"])
    r = aslrun.assemble(bld, {"a.asm": src}, opts=["-q", "-L", "-g", "MAP", sh[1]], want=["a.lst", "a.map", "a" + sh[2]])
    m = {"beh": case["beh"], "names": names, "lines": lines, "share": case["share"]}
    ev, _ = events(m, r.files, r.p)
    bad, odd, _ = judge([ev])
    for k in bad.get(0, []):
        log("replay: TLC rejects: %s" % describe(ev[k], ev))
    if not bad:
        log("replay: TLC accepts the run (%d events differ from the model's prediction)" % len(odd.get(0, [])))
    return 0


def selftest():
    """binding demonstration: a run TLC accepts is rejected after one token of a report is changed"""
    import copy
    from vlib import build
    bld = build.get("hook")
    g = tlc.must(tlc.run("PendLabel_Gen", "PendLabel_Gen.cfg", workers=1, timeout=300, mem="2g"), "PendLabel_Gen")
    bh = next(b for (t, b) in g.printed if t == "BEH" and b["p"] == 1 and b["prog"]["tgt"] == "68k")
    src, names, lines = pendlabel.render(bh)
    r = aslrun.assemble(bld, {"a.asm": src}, opts=["-q", "-L", "-g", "MAP", "-c"], want=["a.lst", "a.map", "a.h"])
    m = {"beh": bh, "names": names, "lines": lines, "share": "c"}
    ev, _ = events(m, r.files, r.p)
    variants = {"unchanged": ev}
    for src_ in ("share", "lst", "map"):
        v = copy.deepcopy(ev)
        i = next(i for i, e in enumerate(v) if e["a"] == "REP" and e["src"] == src_ and e["name"].startswith("L"))
        v[i]["val"] += 1
        variants["%s value changed" % src_] = v
    v = copy.deepcopy(ev)
    n0 = next(n for n in v[0]["table"] if n.startswith("L"))
    v[0]["table"][n0] += 1
    variants["code file word changed"] = v
    names_ = list(variants)
    bad, odd, _ = judge([variants[n] for n in names_])
    ok = True
    for k, n in enumerate(names_):
        rej = k in bad
        log("selftest pendlabel %-26s %s%s" % (n, "rejected" if rej else "accepted", " (differs from model)" if k in odd else ""))
        ok = ok and (rej == (n != "unchanged")) and (n != "unchanged" or k not in odd)
    log("selftest C19 pending label binding: %s" % ("OK" if ok else "FAILED"))
    return ok
