"""C08, notation-state half: HISTORIES of CPU / RELAXED / INTSYNTAX statements (spec/IntMode.tla, IntMode_MC.tla).

Which notations are accepted is a function of (native set of the target, RELAXED flag, INTSYNTAX plus / minus sets); the
code reaches that function by rebuilding a list in each of the three statements, so the ORDER of the statements is a
dimension of its own.  TLC enumerates every history of up to 3 setting statements after an initial `cpu` (quick: third
statement from a subset), checks on the model that the rebuilt list equals the function, and prints for every history
the verdict of each statement (ok / rejected: 0oct together with 0hex / not decided), the expected RELAXED symbol and
the expected outcome of a constant in every notation of the manual's table (value, "no number" = error, or undecided).

One source file per history:  cpu <f0>; the statements; `SYn equ <constant>` for every notation; then `cpu z80`,
`relaxed off` and one  MESSAGE "SYn=\\{SYn}"  per constant with a documented value (EQU + MESSAGE observe the value on
every target alike and survive error lines elsewhere in the file).  A constant that must not be a number has to draw an
error on its EQU line (re-checked alone, after the same history, when the batch run shows none: asl prints
undefined-symbol errors only in a last pass that other errors suppress).
"""
import re

from checks import c08 as base
from vlib import aslrun, tlc
from vlib import exprrender as er
from vlib.common import CheckError, Phase, pmap, rng

CPU = {"Intel": "z80", "Moto": "68000", "C": "AM29000", "IBM": "MN1610"}


def generate(rep, tier):
    cfg = "IntMode_MC.cfg" if tier == "quick" else "IntMode_MC_full.cfg"
    r = tlc.must(tlc.run("IntMode_MC", cfg, workers=3, timeout=1700, mem="4g"), "IntMode_MC")
    if r.violation:
        raise CheckError("IntMode_MC(%s): the specification violates its own invariants: %s" % (cfg, r.violation[:600]))
    rep.model("IntMode_MC(%s)" % cfg, r)
    return [o for (tag, o) in r.printed if tag == "OUT"]


def stmt_text(s):
    if s["op"] == "cpu":
        return "\tcpu\t%s" % CPU[s["fam"]]
    if s["op"] == "relaxed":
        return "\trelaxed\t%s" % ("on" if s["on"] else "off")
    return "\tintsyntax\t" + ",".join(["-" + i for i in s["minus"]] + ["+" + i for i in s["plus"]])


class History:
    """one TLC-printed history; doubles as the `dialect` of base.report (name, render)"""
    big = False

    def __init__(self, n, h):
        self.n = n
        self.h = h
        self.stmts = [stmt_text(s) for s in h["hist"]]
        self.head = ["\tcpu\t%s" % CPU[h["f0"]]] + self.stmts
        self.text = "; ".join(x.strip().replace("\t", " ") for x in self.head)
        self.name = "after " + self.text

    def render(self, items, messages=True):
        lines = list(self.head)
        lines.append('\tmessage\t"RELAXED=\\{RELAXED}"')
        for it in items:
            if it.stmt == "equ":
                lines.append("SY%d\tequ\t%s" % (it.idx, it.expr))
                it.first = it.line = len(lines)
            else:                                   # the item stands for a setting statement of the history
                it.first = it.line = 2 + it.idx
            it.slot = 0
        lines += ["\tcpu\tz80", "\trelaxed\toff"]
        if messages:
            for it in items:
                if it.stmt == "equ" and it.case["o"]["k"] == "int":
                    lines.append('\tmessage\t"SY%d=\\{SY%d}"' % (it.idx, it.idx))
        return "\n".join(lines) + "\n"


def make_items(hist, r):
    items = []
    for i, l in enumerate(hist.h["lits"]):
        it = base.Item()
        it.idx = i + 1
        it.case = {"cs": l["cs"], "o": l["o"], "depth": 1, "op": "literal-after-history", "dev": [],
                   "src": "history %s" % hist.text}
        txt = "".join(l["cs"])
        it.expr = txt.lower() if r.random() < 0.4 else txt
        it.stmt = "equ"
        items.append(it)
    return items


def stmt_item(hist, n):
    it = base.Item()
    it.idx = n                                        # n-th statement (1-based) -> source line 1 + n
    it.case = {"cs": [hist.stmts[n - 1].strip()], "o": {"k": hist.h["verdicts"][n - 1]}, "depth": 1,
               "op": "setting-statement", "dev": [], "src": "history %s" % hist.text}
    it.expr = hist.stmts[n - 1].strip().replace("\t", " ")
    it.stmt = "setting"
    return it


def judge_history(rep, bld, hist):
    r = rng("c08hist/%d" % hist.n)
    items = make_items(hist, r)
    src = hist.render(items)
    res = aslrun.assemble(bld, {"a.asm": src}, opts=["-q"], timeout=30)
    if er.crashed(res):
        base.report(rep, "assembler crashed (rc=%s sig=%s timeout=%s) after" % (res.rc, res.sig, res.timeout),
                    stmt_item(hist, len(hist.stmts)), hist, src, "crash")
        return len(items)
    errs = er.error_lines(res)
    txt = res.out + "\n" + res.err
    # the setting statements themselves
    for n, v in enumerate(hist.h["verdicts"], 1):
        line = 1 + n
        if v == "ok" and line in errs:
            m = re.search(r"a\.asm\(%d\)[^\n]*" % line, txt)
            base.report(rep, "a valid setting statement is rejected:", stmt_item(hist, n), hist, src, "error",
                        extra="-> %s" % (m.group(0) if m else "?"))
        elif v == "error" and line not in errs:
            base.report(rep, "0oct and 0hex enabled together, but the statement is accepted:", stmt_item(hist, n), hist,
                        src, "silent")
    if any(1 + n in errs for n, v in enumerate(hist.h["verdicts"], 1) if v == "ok"):
        return len(items)                              # the state after a wrongly rejected statement is not the model's
    if not hist.h["open"]:
        m = re.search(r"^RELAXED=(\S*)", res.out, re.M)
        want = "1" if hist.h["relaxed"] else "0"
        if not m or m.group(1) != want:
            base.report(rep, "symbol RELAXED reads %r, expected %s after" % (m.group(1) if m else None, want),
                        stmt_item(hist, len(hist.stmts)), hist, src, "value")
    got = {int(m.group(1)): m.group(2) for m in re.finditer(r"^SY(\d+)=(.*)$", res.out, re.M)}
    for it in items:
        o = it.case["o"]
        if o["k"] == "int":
            if it.line in errs:
                m = re.search(r"a\.asm\(%d\)[^\n]*" % it.line, txt)
                base.report(rep, "a value is documented but an error is reported", it, hist, src, "error",
                            extra="-> %s" % (m.group(0) if m else "?"))
                continue
            want = int.from_bytes(bytes(o["b"]), "little")
            t = got.get(it.idx)
            try:
                ok = t is not None and int(t.strip(), 16) == want
            except ValueError:
                ok = False
            if not ok:
                base.report(rep, "wrong value" if t is not None else "no value and no error message for", it, hist, src,
                            "value" if t is not None else "silent", extra="expected %d, MESSAGE shows %r" % (want, t))
        elif o["k"] == "error" and it.line not in errs:
            keep = (it.first, it.line)
            s1 = hist.render([it], messages=False) + '\tmessage\t"SY%d=\\{SY%d}"\n' % (it.idx, it.idx)
            r1 = aslrun.assemble(bld, {"a.asm": s1}, opts=["-q"], timeout=20)
            alone = er.error_lines(r1)
            line1 = it.line
            it.first, it.line = keep
            if er.crashed(r1):
                base.report(rep, "assembler crashed (rc=%s sig=%s) evaluating" % (r1.rc, r1.sig), it, hist, s1, "crash")
            elif line1 not in alone:
                m = re.search(r"^SY%d=(.*)$" % it.idx, r1.out, re.M)
                base.report(rep, "the notation is not enabled but no error is reported", it, hist, src,
                            "value" if m else "silent", extra="(alone: rc=%s, MESSAGE shows %r)" % (r1.rc, m and m.group(1)))
    return len(items)


def replay_cases(rep, bld, hists, tier):
    work = [History(n, h) for n, h in enumerate(hists)]
    with Phase("replay %d setting histories (%d constants each)" % (len(work), len(hists[0]["lits"]) if hists else 0)):
        total = sum(pmap(lambda w: judge_history(rep, bld, w), work))
    rep.evaluated(total)
    rep.traces(total)
    for w in work:
        for l in w.h["lits"]:
            rep.distinct(("hist", w.text, "".join(l["cs"])), True)
    rep.part("replay_histories", histories=len(work), constants=total,
             rejected_statements=sum(v == "error" for w in work for v in w.h["verdicts"]),
             undecided_constants=sum(l["o"]["k"] == "unspec" for w in work for l in w.h["lits"]))
    for w in work:
        if len(w.stmts) == 2 and w.h["relaxed"] and w.h["hist"][1]["op"] == "intsyntax":
            rep.sample({"history": w.head, "accepted": w.h["accepted"], "undecided": w.h["undecided"],
                        "constants": [["".join(l["cs"]), l["o"]] for l in w.h["lits"][:6]]})
            break
