"""C12 - Conditional assembly selects exactly the documented branch.

(M) CondAsm_MC: every statement sequence up to MaxLen: machine = declarative selection, balance, errors.
(G) CondAsm_Gen: transition cover of the machine's state graph + simulated long grammatical programs,
    rendered (several spellings per condition kind) and replayed into the real asl.
(V) CondAsm_Trace: `stmt` events of corpus runs validated against the same operators.
(V2) AsCore_Trace (checks/ext_ascore.py, see "Composed validation" below): every golden execution validated against ALL
    statement-level machines of the specification at once.
Variants rendered per behaviour: balanced with closers; left open (MissEndif expected); wrapped in a macro body that
ends with EXITM inside the open constructs (RestoreIFs: no error, nothing behind EXITM assembled).
True conditions are rendered with positive, negative and large values ("true = not 0").
Target context (CONTEXTS): a share of the skeletons is assembled once more after an OLMS-50 target had been selected
earlier in the run (CPU switch, SAVE/RESTORE excursion) and FOR the OLMS-50 (keyword SELECT): the construct keyword is a
function of the current target only (added after the independent seed C12-switch-keyword-survives-cpu-change).
Verdict-bearing: marker bytes / symbol definitions of selected branches, error-or-not, no crash.
Mutations of the real code tried: IFB argument loop (found as defect), lone ELSECASE (found as defect), EXITM without
RestoreIFs (caught), ELSECASE in a skipped region / IFB last-argument-only / ELSEIF negative condition (independent
seeds, caught; the last after adding negative true values); corrupted and removed stmt events are rejected.

Composed validation (growth of the specification: spec/AsCore.tla, AsCore_Trace.tla, AsCore_MC.tla, AsCore_Gen.tla;
harness checks/ext_ascore.py).  ONE recorded execution of the assembler (one process, all passes; hook classes file,
stmt, emit, sym, diag, line regrouped per source statement) is one behaviour of the composition of
  CondAsm (IF/SWITCH stack) x AddrBook (counters, phases, segments, SAVE, STRUCT) x Diag (counter protocol; the run /
  file / pass protocol, freshness of every pass, keep/unlink and exit status are Driver_Trace's actions, reused by
  INSTANCE) x CodeWriter_Trace (stream view: Consume/Norm) x MacroProc (PROJECTION: input/output tag chains with kind,
  IsMacro, IfLevel, body = range of recorded statements, LineZ, IsEmpty; macro table; NestAfter / DoRestoreIFs reused;
  parameter substitution is not composed, delivered text is compared only for verbatim bodies: REPT, WHILE).
The composed step is the operator StmtSucc of AsCore.tla; claims checked at every step: SkippedIsInert (now also: no
diagnostic, no definition), RecordedIsInert, IfFamilyIsAddressNeutral, ErrsDeltaIsDiagCount, ErrorLineEmitsNoCode,
FailedHandlerNeedsError, MachineErrorIsReported, ExitmRestoresEntryDepth, RejectedHeaderNeedsError,
DeliveredAsRecorded, TagDepthIsMachineDepth, LabelValueIsExec (incl. STRUCT element offsets), LastPassImageEqualsFile,
PassBoundaryResetsEverything, OpenConstructsAreReported.  Named exceptions read off the code: LabelSetByTarget (XA code
segment), NameOccupied (NS32K SAVE/RESTORE instructions), label-consuming statements (LabelPresent/IsDef).
All 201 golden programs (355 040 statements, 356 901 events) are accepted (quick and thorough; ~20 s alone, several
TLC processes side by side).  Coverage in the evidence part AsCore_Trace(corpus): 85 % of the statements are handled by
a named action of some machine (per machine: MP 55 %, CW 43 %, CA 11 %, LB 6 %, DG 0.5 %, AB 0.3 %), 15 % by the generic
rule "nothing but the active counter moves".
Because the golden programs contain no unexpected error, no EXITM and no construct left open, a bounded forward model
of the composition (AsCore_MC: 21-statement alphabet incl. faulty lines, ERROR/WARNING, IF family, ORG/PHASE/SAVE,
one macro MM, EXITM, REPT) is model checked (ForwardIsAllowed: every forward step is in StmtSucc of the record a hook
would write; ErrCountIsFaultyExecuted; quick: every program of <= 3 lines + macro family of 6 lines, 34 k + 17 k
states; thorough: 4 / 7 lines) and every complete behaviour is exported with the predicted outcome (AsCore_Gen), rendered,
assembled with hooks, compared (status, error/warning totals, code file stream) and validated by AsCore_Trace like the
golden ones (quick: ~3.4 k programs, thorough: ~100 k; plus the Directed programs of AsCore_MC = regression seeds).
Finding (known_findings C12-variable-local-in-expansion, proposed_fixes/C12-variable-local-in-expansion.diff): a second
RESTORE / LISTING / RELAXED / PADDING / CPU inside one macro or REPT expansion is rejected with "symbol double defined"
because asmpars.c Enter*Symbol enter the updates of predefined VARIABLES (LISTON, MACEXP, MOMCPU ...) into the local
symbol space of the expansion as constants (found by the thorough simulation: model 2 errors, asl 4).
Verdicts: a rejected trace is re-validated with one claim switched off at the rejected event (CONSTANTS OffSet/OffAt;
TLC decides which claim is violated); claims the manual states definitely (skipped / recorded lines are inert, label =
program counter, code file = emitted stream, EXITM resets the IF stack, verbatim REPT/WHILE bodies) are violations,
finer predictions (machine steps, tag depth, error counts) SPEC-DRIFT; for generated programs: wrong status or wrong
code file of a clean program = violation, wrong count = SPEC-DRIFT.
Not covered by the composition: parameter substitution of MACRO/IRP bodies (C11), EXPECT bookkeeping (C20), section
scoping of macro names (latest definition wins in the projection), addresses >= 2^30 (execution skipped; none today).
Mutations tried on scratch copies of /repo (VERIF_REPO): label entered with ProgCounter() instead of EProgCounter()
-> VIOLATION LabelValueIsExec (t_phase + generated); errors of lines delivered by a macro not counted (asmerr.c) ->
VIOLATION (status 0 where the model predicts errors) + ErrsDeltaIsDiagCount rejection; IfLevel saved one too deep
(GenerateProcessor) -> VIOLATION ExitmRestoresEntryDepth + c12's own EXITM variant; REPT_Processor drops the last body
line -> DeliveredAsRecorded rejections in t_47c00, t_st9, t_cold, t_32 + stream mismatches of generated programs.
Corrupted records (label value, tag depth, exhausted flag, emitted byte, chunk address, ErrorCount, skipped line that
emits, IF without push, extra byte in the code file) are rejected at the corrupted event with the right claim named.
Mutations of the forward model (EXITM without restore, skipped line emits, label + 1, faulty line emits, silent
RESTORE) violate ForwardIsAllowed.

Symbol table as a machine of the composition (second growth of AsCore; same files + AsCore_GenS*.cfg).  The composed
state has a component sy = a state of Symbols.tla (C13, INSTANCE; Adder, EnterSymbol, DoSection, DoEndSection, DoPP,
FindNode, DoPushV, DoPopV, ExitPass, NextPass are used unchanged): the trees FirstSymbol / FirstLocSymbol as functions
<<name, section or local handle>> -> [val, chg, def], section list and stack with the PUBLIC / GLOBAL / FORWARD lists,
the PUSHV stacks; en = ENUM's counter and increment; the local symbol handles (MomLocHandle, LocHandleCnt,
GLOBALSYMBOLS) are carried by the tags of the projected macro processor.  Every S event carries ALL sym_def / sym_mod /
sym_ref records of the line (hook classes sym, ref; + split for the label field and the arguments of the section /
ENUM / PUSHV statements), the PASS event the definitions AssembleFile_InitPass makes itself.  Claims at every step:
LabelEntersTable (+ LabelValueIsExec: a label field that is not the statement's operand enters exactly one constant
(name, current section - or the local space of the innermost expansion that opened one -, LabelValue), first
definition of the line, present unless the line complained), SymbolTableFollowsAdder (place and outcome new / same /
changed / redef_* / double / mix of EVERY recorded definition are those of EnterSymbol / EnterLocSymbol + SymbolAdder
on the table of the specification: EQU / = / labels may not be redefined within a pass whatever the value, SET / := /
EVAL may, the same value across passes is silent), ConstantIsStable, RedefinitionIsReported (double <=> 1000, mix <=>
2030 / 2035), DefKindMatchesStatement, ErrorDefinesNothing (EQU / SET line with an error: table after = table before),
RefReadsTable (every lookup that found an entry shows the value / kind / defined-mark the table holds: 45 k reads in
the corpus), SectionStackFollowsManual (SECTION / ENDSECTION / PUBLIC / GLOBAL / FORWARD = DoSection / DoEndSection /
DoPP, their errors by number, recorded depth after EVERY statement), EnumAssignsSequentialValues, StackIsLifo,
FinalTableIsListed (generated programs, -L: symbol table of the listing = global tree at the end of the last pass);
SkippedIsInert / RecordedIsInert now include: no definition, no modification, table + section stack + PUSHV stacks +
ENUM counter after = before; pass boundary = Symbols!NextPass (values survive, defined-marks reset; section stack /
PUSHV stacks empty or reported: 1485 / warning 230 in OpenConstructsAreReported).  Named behaviour read off the code
(manual silent): LabelSurvivesError, LabelErrorStillEmits (refined ErrorLineEmitsNoCode: `LX: db 1 / LX: db 2`
emits both bytes), EnumLocalInExpansion, RedefinitionEvenIfEqual, QuietUnknownEqu, OpFieldExpandedAnyway ({sym} in the
opcode field is looked up even on skipped / recorded lines), SetIsInstruction (Z80 / TLCS-90: SET b,r), label fields
consumed by the target (C3x / C6x "||", "[..]"), ResetAt (ResetSymbolDefines sits in front of the first definition of
TRUE; proposed_fixes/HOOK-symbol-tree.diff would record it, the tree of a record and POPV's write).
Performance: the two trees are kept out of TLC's fingerprint (VIEW TView: they are a function of the events consumed);
TLC takes 32 statements per step (CONSTANT Block, SequencesExt!FoldLeft; a rejection is located with Block = 1);
`split` records are only parsed where used.  All 201 golden programs accepted; coverage: 87.4 % of the 355 040
statements handled by a named action (was 85.4 %; per machine MP 55 %, CW 43 %, SY 17 % (label 10.0 k, EQU 8.3 k, SET
2.7 k, other definitions 4.9 k, statements with a reference 45.1 k, section 1.1 k, ENUM 53), CA 11 %, DG 0.5 %, AB 0.3 %),
12.6 % generic.  No golden program uses PUSHV / POPV.
Forward model: SymAlpha (19 statements: LX: label, CX EQU 1|2, VX SET 1|2, CX SET 3, DB VX, SECTION S1, ENDSECTION
[S1|S2], PUBLIC LX, PUSHV / POPV ,VX, ENUM EA,EB=5,EC, NEXTENUM ED,EE, IF 0, ENDIF, data) as family "sym" (quick: every
program <= 3 lines, 18.8 k states; thorough <= 4 lines, 345 k states), 8 more Directed programs (definitions in macro
and REPT bodies, in skipped branches, PUBLIC, section errors, LIFO), simulation over both alphabets; forward semantics
written without Adder / EnterSymbol (FDef, FFind, FPlace); new invariants ConstantsKeepTheirValue,
SkippedDefinesNothing, VariableIsLastSetOrPopped; the byte of DB VX in the predicted code file is the table's value.
Quick: 5.2 k generated programs replayed (outcome + code file + trace + listing), 0 mismatches.
Mutations of the real code (scratch copies, VERIF_REPO): label entered although IfAsm is false (DB lines) -> VIOLATION
SkippedIsInert in generated programs, t_mic51, t_secdrive (+ c12's own definedness markers); EQU redefinition with the
same value not reported (SymbolAdder) -> VIOLATION (model predicts errors, asl status 0) + 25 count drifts;
ENDSECTION <name> does not pop -> VIOLATION (status) + SectionStackFollowsManual rejection.  Corrupted records (label
value / name / section / missing / variable, SET outcome, skipped or recorded line that defines, reference value,
SECTION / ENDSECTION depth, PUBLIC target, ENUM / NEXTENUM value, value after POPV, macro label handle, listing value /
missing entry) are rejected at the corrupted event with the right claim named.  Mutations of the forward model
(skipped label defined, silent / overwriting EQU, ENDSECTION without pop, POPV without restore, macro label global,
NEXTENUM from 0, label error stops the data) violate ForwardIsAllowed / the declarative invariants.
Not covered: expression evaluation (values of definitions are the recorded ones), spelling of temporary / composed
names and the search path of a reference (C13), string / float values (compared by type), which tree a definition
made by a target-specific handler inside an expansion goes to when section handle = local handle (guess: local).
"""
import os

from vlib import aslrun, build, tlc, tracecheck
from vlib.common import CheckError, Phase, log, pmap, rng
from vlib.report import Report

PID = "C12"

TRUE_FORMS = ["if 1", "if 3>2", "if -1", "if 0-5", "if DEFD-3", "if 255", "if 80000000h", "ifdef DEFD", "ifndef UNDEFD", "ifb", "ifb ,", "ifb , ,", "ifnb x", "ifnb ,x",
              "ifnb x,", "ifused USD", "ifnused UNUSD", "ifexist \"incx.inc\"", "ifnexist \"nofile.inc\"",
              "if DEFD=1", "ifnb ,,x"]
FALSE_FORMS = ["if 0", "if 3<2", "ifdef UNDEFD", "ifndef DEFD", "ifb x", "ifb ,x", "ifb x,", "ifnb", "ifnb ,",
               "ifnb , ,", "ifused UNUSD", "ifnused USD", "ifexist \"nofile.inc\"", "ifnexist \"incx.inc\"",
               "if DEFD=2", "ifb ,,x"]
SKIPPED_IF_FORMS = ["if NOSUCHSYM", "if 1+", "ifdef", "if 1,2"]  # must not be evaluated in a skipped region

PREAMBLE = ["\tcpu z80", "DEFD\tequ 1", "USD\tequ 2", "UNUSD\tequ 3", "\tdb USD"]
NPRE_BYTES = 1

# Target context (dimension added after a seeded change that kept SwitchIsOccupied across a CPU switch): the
# keyword that opens a SWITCH construct is a function of the CURRENT target only - SELECT on the OLMS-50 family,
# whose instruction set has a SWITCH of its own (codeol50.c SwitchIsOccupied, asmif.c CodeIFs), SWITCH everywhere
# else - and never of the targets selected earlier in the run.  The same skeleton must select the same branches
#   "plain"        cpu z80
#   "after-olms"   cpu msm5054, then cpu z80 before the skeleton
#   "save-olms"    cpu z80; SAVE, cpu msm5054, RESTORE before the skeleton
#   "olms"         the skeleton assembled FOR the OLMS-50 (keyword SELECT, 16-bit DATA words as markers)
CONTEXTS = {
    "plain": dict(pre=["\tcpu z80"], kw="switch", dop="db", unit=1),
    "after-olms": dict(pre=["\tcpu msm5054", "\tcpu z80"], kw="switch", dop="db", unit=1),
    "save-olms": dict(pre=["\tcpu z80", "\tsave", "\tcpu msm5054", "\trestore"], kw="switch", dop="db", unit=1),
    "olms": dict(pre=["\tcpu msm5054"], kw="select", dop="data", unit=2),
}

VALSETS = {
    "int": {"v1": "1", "v2": "2", "v3": "3"},
    "float": {"v1": "1.5", "v2": "2.5", "v3": "3.5"},
    "str": {"v1": "\"a\"", "v2": "\"b\"", "v3": "\"c\""},
    "expr": {"v1": "DEFD", "v2": "DEFD+1", "v3": "USD+1"},
}


def complete(beh):
    """closers needed to balance a grammatical prefix, read off the IF stack the model predicts"""
    # reconstruct context stack from the statements
    ctx = []
    for st in beh:
        k = st["s"]["k"]
        if k == "IF":
            ctx.append("I")
        elif k == "SWITCH":
            ctx.append("S")
        elif k in ("ENDIF", "ENDCASE") and ctx:
            ctx.pop()
    return ["ENDIF" if c == "I" else "ENDCASE" for c in reversed(ctx)]


def render(beh, r, balance=True, exitm=False, ctx="plain"):
    """beh: list of steps {s:{k,...}, ifasm, d, errs}.  Returns (source text, expected dict).
    exitm=True: the skeleton is the body of a macro (global symbols) invoked once and ends with EXITM instead of
    the balancing closers (as.c ExpandEXITM -> RestoreIFs); only used where TLC says the EXITM is executed."""
    cx = CONTEXTS[ctx]
    dop = cx["dop"]
    lines = cx["pre"] + PREAMBLE[1:-1] + ["\t%s USD" % dop]
    if exitm:
        lines += ["wrap\tmacro {GLOBALSYMBOLS}"]
    ifasm_before = True
    markers = []      # (pos, selected)
    typestack = []
    wellformed = all(st["errs"] == 0 for st in beh)
    for i, st in enumerate(beh, 1):
        s = st["s"]
        k = s["k"]
        if k == "IF":
            if not ifasm_before and r.random() < 0.3:
                lines.append("\t" + r.choice(SKIPPED_IF_FORMS))
            else:
                lines.append("\t" + r.choice(TRUE_FORMS if s["c"] else FALSE_FORMS))
            typestack.append(None)
        elif k == "ELSEIF":
            # "true (i.e. not 0)": negative and large values are true as well
            lines.append("\telseif " + (r.choice(["1", "2>1", "DEFD", "-1", "DEFD-3", "0-7", "1000", "80000000h"])
                                         if s["c"] else r.choice(["0", "2<1", "DEFD-1", "USD-2", "5-5"])))
        elif k == "ELSE":
            lines.append("\t" + r.choice(["else", "elseif", "ELSE"]))
        elif k == "ENDIF":
            lines.append("\t" + r.choice(["endif", "ENDIF", "endc"]))
            if typestack:
                typestack.pop()
        elif k == "SWITCH":
            ty = r.choice(list(VALSETS))
            typestack.append(ty)
            lines.append("\t%s %s" % (cx["kw"], VALSETS[ty][s["v"]]))
        elif k == "CASE":
            ty = None
            for t in reversed(typestack):
                ty = t
                break
            ty = ty or "int"
            vals = [VALSETS[ty][v] for v in s["S"]]
            r.shuffle(vals)
            lines.append("\tcase " + ",".join(vals))
        elif k == "ELSECASE":
            lines.append("\telsecase")
        elif k == "ENDCASE":
            lines.append("\tendcase")
            if typestack:
                typestack.pop()
        elif k == "EMIT":
            sel = st["ifasm"]
            markers.append((i, sel))
            if not sel and wellformed and r.random() < 0.3:
                lines.append("m%d:\tbogus %d" % (i, i))   # must have no effect in a skipped branch
            else:
                lines.append("m%d:\t%s %d" % (i, dop, i))
        ifasm_before = st["ifasm"]
    closers = complete(beh) if (balance and not exitm) else []
    for c in closers:
        lines.append("\t" + c.lower())
    if exitm:
        lines += ["\texitm", "\t%s 99" % dop, "\tendm", "\twrap"]  # the data behind EXITM must never be assembled
    if wellformed and balance:
        for (i, sel) in markers:
            lines.append("\t%s 100+DEFINED(m%d)" % (dop, i))
    exp = {"wellformed": wellformed, "balanced": balance or not complete(beh), "unit": cx["unit"],
           "bytes": [i for (i, sel) in markers if sel] + [100 + (1 if sel else 0) for (i, sel) in markers]}
    return "\n".join(lines) + "\n", exp


def judge(rep, bld, beh, src, exp, res):
    """verdict-bearing comparison for one replayed program"""
    prog = [st["s"] for st in beh]
    if res.timeout or res.sig is not None or res.rc not in (0, 2):
        key = {"kind": "crash", "lone_elsecase": _lone_elsecase(beh)}
        rep.violation("assembler did not end normally (rc=%s, signal=%s, timeout=%s) on a conditional skeleton"
                      % (res.rc, res.sig, res.timeout), case=prog, files={"a.asm": src, "stderr.txt": res.err},
                      key=key)
        return
    if exp["wellformed"] and exp["balanced"]:
        if res.rc != 0:
            rep.violation("well-formed skeleton rejected (rc=%d): %s" % (res.rc, (res.out + res.err)[-300:]),
                          case=prog, files={"a.asm": src}, key=_ifb_key(src, "rejected"))
            return
        pr = res.parsed()
        got = []
        for rec in pr.data_records():
            got += list(rec.data)
        unit = exp.get("unit", 1)
        got = got[NPRE_BYTES * unit:]
        if unit == 2:       # 16-bit marker words, low byte first in the code file
            got = [got[i] if got[i + 1:i + 2] == [0] else ("bad unit", got[i:i + 2]) for i in range(0, len(got), 2)]
        if got != exp["bytes"]:
            rep.violation("selected branches differ: expected markers+definedness %s, code file has %s"
                          % (exp["bytes"], got), case=prog, files={"a.asm": src}, key=_ifb_key(src, "select"))
    else:
        # misplaced / unbalanced statements must be reported as errors
        if res.rc != 2:
            rep.violation("malformed skeleton accepted without error (rc=%s)" % res.rc, case=prog,
                          files={"a.asm": src}, key={"kind": "accepted"})


def _lone_elsecase(beh):
    d = 0
    for st in beh:
        if st["s"]["k"] == "ELSECASE" and d == 0:
            return True
        d = st["d"]
    return False


def _ifb_key(src, kind):
    import re
    odd = bool(re.search(r"ifn?b\s+[^\n]*,", src))
    return {"kind": kind, "ifb_multi_arg": odd}


def corpus_traces(bld, tests):
    """assemble golden tests with stmt events; map to CondAsm_Trace events"""
    def one(t):
        res = aslrun.assemble_corpus(bld, t, events="file,stmt,emit")
        import shutil
        shutil.rmtree(res.dir, ignore_errors=True)
        return t[0], res
    return pmap(one, tests)


IFOPS = {"IF": "IF", "IFDEF": "IF", "IFNDEF": "IF", "IFUSED": "IF", "IFNUSED": "IF", "IFEXIST": "IF",
         "IFNEXIST": "IF", "IFB": "IF", "IFNB": "IF", "ELSE": "ELSEIF", "ELSEIF": "ELSEIF", "ELSEC": "ELSEIF",
         "ENDIF": "ENDIF", "ENDC": "ENDIF", "SWITCH": "SWITCH", "SELECT": "SWITCH", "CASE": "CASE",
         "ELSECASE": "ELSECASE", "ENDCASE": "ENDCASE"}


def to_cond_events(trace):
    """stmt hook events -> executions (one per pass) of CondAsm_Trace events"""
    execs = []
    cur = None
    for e in trace:
        if e["e"] == "pass_begin":
            cur = []
            execs.append(cur)
        elif e["e"] == "stmt" and cur is not None:
            if e["rec"]:
                a = "OTHER"       # line swallowed by a macro/REPT body being recorded
            elif e["wasif"]:
                a = IFOPS.get(e["op"].upper(), "OTHER")
                if e["op"].upper() in ("ELSE", "ELSEIF", "ELSEC") and False:
                    pass
            elif e["wasmac"] and e["op"].upper() == "EXITM":
                a = "EXITM"
            else:
                a = "OTHER"
            cur.append({"a": a, "argc": e["argc"], "ifasm": bool(e["ifasm"]), "stk": e["ifs"], "errs": e["errs"]})
    return execs


AB_CLASS = {"ORG": "ORG", "RORG": "RORG", "SEGMENT": "SEGMENT", "CPU": "CPU", "PHASE": "PHASE", "DEPHASE": "DEPHASE",
            "SAVE": "SAVE", "RESTORE": "RESTORE", "STRUCT": "STRUCT", "STRUC": "STRUCT", "UNION": "UNION",
            "ENDSTRUCT": "ENDSTRUCT", "ENDSTRUC": "ENDSTRUCT", "ENDS": "ENDSTRUCT", "ENDUNION": "ENDSTRUCT"}


def to_core_events(trace):
    """stmt + emit/reserve/retract hook records -> per-statement events for the composed AsCore_Trace
    (regrouping only: the chunk records between two stmt records belong to the later statement)"""
    execs = []
    cur = None
    chunks = []
    for e in trace:
        k = e["e"]
        if k == "pass_begin":
            cur = []
            chunks = []
            execs.append(({"ca": "RESET", "seg": e["seg"], "pc": e["pc"]}, cur))
        elif cur is None:
            continue
        elif k == "emit":
            chunks.append({"k": "E", "seg": e["seg"], "addr": e["addr"], "n": e["n"] // max(e["gran"], 1)})
        elif k == "reserve":
            chunks.append({"k": "R", "seg": e["seg"], "addr": e["addr"], "n": e["n"]})
        elif k == "retract":
            chunks.append({"k": "X", "seg": e["seg"], "addr": e["addr"], "n": e["n"] // max(e["gran"], 1)})
        elif k == "stmt":
            op = e["op"].upper()
            if e["rec"]:
                ca = "OTHER"
            elif e["wasif"]:
                ca = IFOPS.get(op, "OTHER")
            elif e["wasmac"] and op == "EXITM":
                ca = "EXITM"
            else:
                ca = "OTHER"
            skip = (not e["ifasm"]) or e["rec"] or e["wasmac"] or e["wasif"]
            cb = "OTHER" if skip else AB_CLASS.get(op, "OTHER")
            cur.append({"ca": ca, "cb": cb, "rec": bool(e["rec"]), "argc": e["argc"], "ifasm": bool(e["ifasm"]),
                        "stk": e["ifs"], "errs": e["errs"], "chunks": chunks, "seg": e["seg"], "pc": e["pc"],
                        "ph": e["ph"], "phd": e["phd"], "svd": e["svd"], "std": e["std"], "len": e["len"]})
            chunks = []
    return execs


def core_too_big(ex):
    lim = 2 ** 30
    r, evs = ex
    return r["pc"] >= lim or any(e["pc"] >= lim or abs(e["ph"]) >= lim or any(c["addr"] >= lim for c in e["chunks"])
                                 for e in evs)


def main(tier):
    rep = Report(PID, tier)
    r = rng("c12")
    bld = build.get("hook")
    rep.assumptions += ["TLC explores the CondAsm design only up to the stated bounds",
                        "renderer and byte comparison (Python) are trusted; judgement of selection is TLC's",
                        "hooks: %s" % ("stmt events" if bld.hooks else "unavailable (black-box replay only)")]

    # (M) ----------------------------------------------------------------------------------
    cfg = "CondAsm_MC.cfg" if tier == "quick" else "CondAsm_MC6.cfg"
    mc = tlc.must(tlc.run("CondAsm_MC", cfg, timeout=1500, mem="12g", collect=False), "CondAsm_MC")
    if mc.violation:
        raise CheckError("the CondAsm design itself violates its invariants: %s" % mc.violation[:600])
    rep.model("CondAsm_MC(%s)" % cfg, mc)

    # (G) transition cover + simulation --------------------------------------------------------
    cov = tlc.must(tlc.run("CondAsm_Gen", "CondAsm_Cover.cfg" if tier == "quick" else "CondAsm_Cover4.cfg",
                           workers=1, timeout=900, mem="8g"), "CondAsm_Gen cover")
    rep.model("CondAsm_Gen(cover)", cov)
    behs = [b for (tag, b) in cov.printed if tag == "TR"]
    nsim = 1500 if tier == "quick" else 40000
    sim = tlc.must(tlc.run("CondAsm_Gen", "CondAsm_Sim.cfg", workers=4, simulate=nsim // 4, depth=25, timeout=900,
                           mem="8g"), "CondAsm_Gen simulate")
    seen = set()
    for (tag, b) in sim.printed:
        if tag == "BEH":
            k = repr(b)
            if k not in seen:
                seen.add(k)
                behs.append(b)
    rep.part("generation", transition_cover_behaviours=len(cov.printed), simulated_distinct=len(seen))
    jobs = []
    for bi, beh in enumerate(behs):
        rr = rng("c12/%d" % bi)
        src, exp = render(beh, rr, balance=True)
        jobs.append((beh, src, exp))
        if all(st["errs"] == 0 for st in beh) and complete(beh) and rr.random() < 0.2:
            src2, exp2 = render(beh, rr, balance=False)      # left open: MissEndif expected
            jobs.append((beh, src2, exp2))
        if beh and all(st["errs"] == 0 for st in beh) and complete(beh) and beh[-1].get("exitm") == "clean" \
                and rr.random() < 0.5:
            src3, exp3 = render(beh, rr, balance=True, exitm=True)   # EXITM inside open IFs: stack restored
            jobs.append((beh, src3, exp3))
        # target context: a share of the skeletons (more of those with a SWITCH construct) once more in one of
        # the non-plain contexts (own random stream, so that the programs above stay what they were)
        rc = rng("c12ctx/%d" % bi)
        if rc.random() < (0.3 if any(st["s"]["k"] in ("SWITCH", "CASE", "ELSECASE", "ENDCASE") for st in beh) else 0.05):
            cname = rc.choice(["after-olms", "save-olms", "olms"])
            src4, exp4 = render(beh, rc, balance=True, ctx=cname)
            jobs.append((beh, src4, exp4))

    with Phase('replay %d programs' % len(jobs)):
        results = aslrun.assemble_many(bld, [{"sources": {"a.asm": src, "incx.inc": "; empty\n"}, "opts": ["-q"]}
                                             for (beh, src, exp) in jobs])
    for (beh, src, exp), res in zip(jobs, results):
        rep.evaluated()
        nontrivial = any(st["s"]["k"] != "EMIT" for st in beh)
        rep.distinct(src, nontrivial)
        judge(rep, bld, beh, src, exp, res)
    for (beh, src, exp) in jobs[:2] + jobs[-2:]:
        rep.sample({"program": [st["s"] for st in beh], "rendered": src, "expected": exp})
    rep.traces(len(jobs))

    # (V) corpus trace validation -------------------------------------------------------------
    if bld.hooks:
        tests = aslrun.corpus()
        execs = []
        names = []
        nstmt = 0
        with Phase('corpus traces'):
            ctr = corpus_traces(bld, tests)
        for name, res in ctr:
            if res.trace is None:
                continue
            for x in to_cond_events(res.trace):
                execs.append(x)
                names.append(name)
                nstmt += len(x)
        with Phase("validate %d events" % nstmt):
            v = tracecheck.validate("CondAsm_Trace", execs, timeout=1500)
        rep.part("CondAsm_Trace(corpus)", events=v.events, executions=v.executions, accepted=v.accepted,
                 distinct_states=v.states, wall_s=v.wall)
        rep.cov["states"] += v.states
        rep.cov["transitions"] += v.generated
        rep.traces(v.executions)
        if not v.accepted:
            # a finer prediction of the model failed on a real run.  Property-level only if the
            # observable selection is affected; otherwise it is a drift of the specification.
            rep.drift("corpus test %s: %s" % (names[v.fail_exec], v.detail))
        # composed validation: ONE recorded execution (all passes of one process) is validated against ALL
        # statement-level machines at once - CondAsm x AddrBook x Diag/Driver x CodeWriter (stream view) x MacroProc
        # (projected) - plus the cross-machine claims of spec/AsCore.tla (checks/ext_ascore.py); modules used there:
        # "AsCore", "AsCore_Trace", "AsCore_MC", "AsCore_Gen" (AsCore also INSTANCEs "Symbols": the symbol table)
        from checks import ext_ascore
        ext_ascore.run(rep, bld, tier)
    # IFUSED / IFNUSED across passes (spec/PassModes.tla, mode "used"): the ladder tests what the statements IN FRONT of
    # it referenced in THIS pass - added after the seeded change C12-used-flag-survives-pass
    from checks import ext_passmodes
    ext_passmodes.run(rep, bld, tier, only=["used"])
    return rep.finish(
        rule="programs = every transition of the CondAsm machine graph (TLC transition cover, shortest prefix + "
             "balancing closers) + TLC-simulated grammatical programs (depth<=4, <=24 statements) rendered with "
             "seed-chosen spellings; distinct = distinct rendered source; non-trivial = contains a conditional "
             "statement", exhaustive=False)


def replay(path):
    import json
    v = json.load(open(os.path.join(path, "violation.json")))
    bld = build.get("hook")
    src = open(os.path.join(path, "a.asm")).read()
    res = aslrun.assemble(bld, {"a.asm": src, "incx.inc": "; empty\n"}, opts=["-q"])
    log("replay rc=%s sig=%s\n%s%s" % (res.rc, res.sig, res.out, res.err))
    if res.p:
        log("code: %s" % [list(rec.data) for rec in res.parsed().data_records()])
    log("recorded: %s" % v["what"])
    return 0
