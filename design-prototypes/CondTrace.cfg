CONSTANTS MaxDepth = 10 MaxLen = 1000
INIT TInit
NEXT TNext
INVARIANT Inv
POSTCONDITION Accepted
CHECK_DEADLOCK FALSE
