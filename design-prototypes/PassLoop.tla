---- MODULE PassLoop ----
EXTENDS Naturals, Sequences, TLC, FiniteSets
CONSTANTS MaxItems, Fixed   \* Fixed = TRUE models the repaired algorithm
VARIABLES prog, pass, i, pc, sym, defd, repass, lastLab, lastVal, phase, pend, orig

vars == <<prog, pass, i, pc, sym, defd, repass, lastLab, lastVal, phase, pend, orig>>
Items == {"def", "ref", "fill1", "padinstr"}
\* one label "L"; programs = sequences with exactly one def
Progs == UNION { [1..n -> Items] : n \in 1..MaxItems }
OneDef(p) == Cardinality({k \in DOMAIN p : p[k] = "def"}) = 1

Init == /\ prog \in {p \in Progs : OneDef(p)}
        /\ pass = 1 /\ i = 1 /\ pc = 0 /\ sym = 0 /\ defd = FALSE /\ repass = FALSE
        /\ lastLab = FALSE /\ lastVal = 0 /\ phase = "run" /\ pend = FALSE /\ orig = 0

\* enter label value v: SymbolAdder
Enter(v) == /\ pend' = pend
            /\ repass' = (repass \/ (pass > 1 /\ (IF Fixed THEN orig ELSE sym) # v))

Step == /\ phase = "run" /\ i <= Len(prog)
        /\ LET it == prog[i] IN
           CASE it = "def" ->
                  /\ Enter(pc) /\ sym' = pc /\ orig' = pc /\ defd' = TRUE /\ lastLab' = TRUE /\ lastVal' = pc
                  /\ pc' = pc
             [] it = "ref" ->   \* dc.l L : unknown in pass 1 -> repass
                  /\ repass' = (repass \/ (pass = 1 /\ ~defd)) /\ pc' = pc + 4
                  /\ UNCHANGED <<sym, defd, lastLab, lastVal, pend, orig>>
             [] it = "fill1" ->
                  /\ pc' = pc + 1 /\ lastLab' = FALSE
                  /\ UNCHANGED <<sym, defd, lastVal, repass, pend, orig>>
             [] it = "padinstr" ->
                  /\ LET pad == pc % 2 IN
                     /\ pc' = pc + pad + 2
                     /\ sym' = IF lastLab /\ lastVal = pc /\ pad = 1 THEN pc + 1 ELSE sym
                     /\ lastVal' = IF lastLab /\ lastVal = pc /\ pad = 1 THEN pc + 1 ELSE lastVal
                  /\ lastLab' = FALSE
                  /\ UNCHANGED <<defd, repass, pend, orig>>
        /\ i' = i + 1 /\ UNCHANGED <<prog, pass, phase>>

\* In the fixed algorithm the deferred comparison is resolved at end of pass against the final value
EndPass == /\ phase = "run" /\ i > Len(prog)
           /\ LET rp == repass IN
              IF rp
              THEN /\ pass' = (IF pass >= 3 THEN 3 ELSE pass + 1) /\ i' = 1 /\ pc' = 0 /\ repass' = FALSE /\ defd' = FALSE
                   /\ lastLab' = FALSE /\ pend' = FALSE /\ UNCHANGED <<prog, sym, lastVal, phase, orig>>
              ELSE /\ phase' = "done" /\ UNCHANGED <<prog, pass, i, pc, sym, defd, repass, lastLab, lastVal, pend, orig>>
Next == Step \/ EndPass
Spec == Init /\ [][Next]_vars /\ WF_vars(Next)
Term == <>(phase = "done")
====
