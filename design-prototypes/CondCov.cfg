CONSTANTS MaxDepth = 2 MaxLen = 5
INIT SInit
NEXT SNext
VIEW View
INVARIANT Inv
ACTION_CONSTRAINT TCover
