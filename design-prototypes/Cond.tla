---- MODULE Cond ----
EXTENDS Naturals, Sequences, TLC, Json
CONSTANTS MaxDepth, MaxLen
VARIABLES ifasm, stack, emitted, errs, n

vars == <<ifasm, stack, emitted, errs, n>>
States == {"IFIF","IFELSE"}

Init == ifasm = TRUE /\ stack = <<>> /\ emitted = <<>> /\ errs = 0 /\ n = 0

Push(c) == /\ Len(stack) < MaxDepth
           /\ stack' = <<[st |-> "IFIF", found |-> (IF ifasm THEN c ELSE TRUE), save |-> ifasm]>> \o stack
           /\ ifasm' = (ifasm /\ c)
           /\ UNCHANGED <<emitted, errs>>
If(c) == Push(c)
Else == IF stack = <<>> \/ Head(stack).st # "IFIF"
        THEN errs' = errs + 1 /\ UNCHANGED <<ifasm, stack, emitted>>
        ELSE /\ ifasm' = (IF Head(stack).save THEN ~Head(stack).found ELSE ifasm)
             /\ stack' = <<[Head(stack) EXCEPT !.st = "IFELSE"]>> \o Tail(stack)
             /\ UNCHANGED <<emitted, errs>>
ElseIf(c) == IF stack = <<>> \/ Head(stack).st # "IFIF"
        THEN errs' = errs + 1 /\ UNCHANGED <<ifasm, stack, emitted>>
        ELSE LET h == Head(stack)
                 e == IF ~h.save THEN TRUE ELSE IF h.found THEN FALSE ELSE c IN
             /\ ifasm' = (h.save /\ e /\ ~h.found)
             /\ stack' = <<[h EXCEPT !.found = h.found \/ e]>> \o Tail(stack)
             /\ UNCHANGED <<emitted, errs>>
EndIf == IF stack = <<>>
        THEN errs' = errs + 1 /\ UNCHANGED <<ifasm, stack, emitted>>
        ELSE /\ ifasm' = Head(stack).save /\ stack' = Tail(stack) /\ UNCHANGED <<emitted, errs>>
Emit == /\ emitted' = (IF ifasm THEN Append(emitted, n) ELSE emitted)
        /\ UNCHANGED <<ifasm, stack, errs>>

Next == /\ n < MaxLen /\ n' = n + 1
        /\ \/ \E c \in BOOLEAN : If(c)
           \/ Else
           \/ \E c \in BOOLEAN : ElseIf(c)
           \/ EndIf
           \/ Emit
Spec == Init /\ [][Next]_vars
Inv == (stack = <<>>) => ifasm
====
