---- MODULE CondSim ----
EXTENDS Cond
VARIABLES hist
SInit == Init /\ hist = <<>>
Step(a, arg) == hist' = Append(hist, [a |-> a, c |-> arg, ifasm |-> ifasm', depth |-> Len(stack'), errs |-> errs', em |-> Len(emitted')])
SNext == /\ n < MaxLen /\ n' = n + 1
         /\ \/ \E c \in BOOLEAN : If(c) /\ Step("IF", c)
            \/ Else /\ Step("ELSE", FALSE)
            \/ \E c \in BOOLEAN : ElseIf(c) /\ Step("ELSEIF", c)
            \/ EndIf /\ Step("ENDIF", FALSE)
            \/ Emit /\ Step("EMIT", FALSE)
View == vars
Dump == (n = MaxLen) => PrintT(<<"BEH", ToJson(hist)>>)
TCover == PrintT(<<"TR", ToJson(hist')>>)
====
