CONSTANTS MaxItems = 4 Fixed = FALSE
SPECIFICATION Spec
PROPERTY Term
CHECK_DEADLOCK FALSE
