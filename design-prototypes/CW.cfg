CONSTANTS BufSize = 4 MaxRecLen = 7 MaxStmts = 5 Segs = {1,2} MaxN = 5 MaxAddr = 20
SPECIFICATION Spec
INVARIANT Conservation RecLenOK
CHECK_DEADLOCK FALSE
