---- MODULE CW ----
EXTENDS Naturals, Sequences, TLC, FiniteSets
CONSTANTS BufSize, MaxRecLen, MaxStmts, Segs, MaxN, MaxAddr
VARIABLES file, pos, buf, lenSoFar, recPos, lenPos, act, pc, used, emitted, nst, closed

vars == <<file, pos, buf, lenSoFar, recPos, lenPos, act, pc, used, emitted, nst, closed>>

\* file = sequence of cells. cell kinds: "magic", [k:"hdr",seg], [k:"start",v], [k:"len",v], [k:"d",id], "end"
\* write a sequence of cells at position p (1-based), overwriting/appending
WriteAt(f, p, cells) ==
  LET n == Len(cells) IN
  [i \in 1..(IF p + n - 1 > Len(f) THEN p + n - 1 ELSE Len(f)) |->
      IF i >= p /\ i < p + n THEN cells[i - p + 1] ELSE f[i]]

\* FlushBuffer: append buffer at current pos
Flush(f, p, b) == [file |-> WriteAt(f, p, b), pos |-> p + Len(b)]

\* NewRecord(NStart) as in asmcode.c; returns record of updated writer vars
NewRecord(f0, p0, b0, lsf, rp, lp, seg, nstart) ==
  LET fl == Flush(f0, p0, b0) IN
  IF lsf = 0 THEN
     LET f1 == WriteAt(fl.file, rp, << [k |-> "hdr", seg |-> seg], [k |-> "start", v |-> nstart], [k |-> "len", v |-> 0] >>)
     IN [file |-> f1, pos |-> rp + 3, buf |-> <<>>, lenSoFar |-> 0, recPos |-> rp, lenPos |-> rp + 2]
  ELSE
     LET h  == fl.pos
         f1 == WriteAt(fl.file, lp, << [k |-> "len", v |-> lsf] >>)
         f2 == WriteAt(f1, h, << [k |-> "hdr", seg |-> seg], [k |-> "start", v |-> nstart], [k |-> "len", v |-> 0] >>)
     IN [file |-> f2, pos |-> h + 3, buf |-> <<>>, lenSoFar |-> 0, recPos |-> h, lenPos |-> h + 2]

Init == LET w == NewRecord(<<[k |-> "magic"]>>, 2, <<>>, 0, 2, 0, 1, 0) IN
        /\ file = w.file /\ pos = w.pos /\ buf = <<>> /\ lenSoFar = 0 /\ recPos = w.recPos /\ lenPos = w.lenPos
        /\ act = 1 /\ pc = [s \in Segs |-> 0] /\ used = [s \in Segs |-> s = 1]
        /\ emitted = {} /\ nst = 0 /\ closed = FALSE

Cells(k, n, s, a) == [i \in 1..n |-> [k |-> "d", id |-> <<k, i>>, seg |-> s, addr |-> a + i - 1]]

\* WriteBytes of n cells for statement k at current pc
Emit(n) ==
  /\ ~closed /\ nst < MaxStmts /\ n > 0 /\ pc[act] + n <= MaxAddr
  /\ LET k == nst + 1
         cells == Cells(k, n, act, pc[act])
         w0 == IF lenSoFar + n > MaxRecLen
               THEN NewRecord(file, pos, buf, lenSoFar, recPos, lenPos, act, pc[act])
               ELSE [file |-> file, pos |-> pos, buf |-> buf, lenSoFar |-> lenSoFar, recPos |-> recPos, lenPos |-> lenPos]
     IN
     /\ IF Len(w0.buf) + n < BufSize
        THEN /\ buf' = w0.buf \o cells /\ file' = w0.file /\ pos' = w0.pos
        ELSE LET fl == Flush(w0.file, w0.pos, w0.buf) IN
             IF n < BufSize
             THEN /\ buf' = cells /\ file' = fl.file /\ pos' = fl.pos
             ELSE /\ buf' = <<>> /\ file' = WriteAt(fl.file, fl.pos, cells) /\ pos' = fl.pos + n
     /\ lenSoFar' = w0.lenSoFar + n /\ recPos' = w0.recPos /\ lenPos' = w0.lenPos
     /\ emitted' = emitted \cup {[id |-> <<k, i>>, seg |-> act, addr |-> pc[act] + i - 1] : i \in 1..n}
     /\ pc' = [pc EXCEPT ![act] = @ + n] /\ nst' = k /\ UNCHANGED <<act, used, closed>>

DoNewRec(seg, start) ==
  LET w == NewRecord(file, pos, buf, lenSoFar, recPos, lenPos, seg, start) IN
  /\ file' = w.file /\ pos' = w.pos /\ buf' = w.buf /\ lenSoFar' = w.lenSoFar /\ recPos' = w.recPos /\ lenPos' = w.lenPos

Reserve(n) == /\ ~closed /\ nst < MaxStmts /\ n > 0 /\ pc[act] + n <= MaxAddr
              /\ DoNewRec(act, pc[act] + n) /\ pc' = [pc EXCEPT ![act] = @ + n]
              /\ nst' = nst + 1 /\ UNCHANGED <<act, used, emitted, closed>>
Org(a) == /\ ~closed /\ nst < MaxStmts /\ a # pc[act]
          /\ DoNewRec(act, a) /\ pc' = [pc EXCEPT ![act] = a]
          /\ nst' = nst + 1 /\ UNCHANGED <<act, used, emitted, closed>>
Segment(s) == /\ ~closed /\ nst < MaxStmts /\ (s # act \/ ~used[s])
              /\ DoNewRec(s, pc[s]) /\ act' = s /\ used' = [used EXCEPT ![s] = TRUE]
              /\ nst' = nst + 1 /\ UNCHANGED <<pc, emitted, closed>>
Close == /\ ~closed
         /\ LET w == NewRecord(file, pos, buf, lenSoFar, recPos, lenPos, act, pc[act]) IN
            /\ file' = SubSeq(w.file, 1, w.recPos - 1) \o <<[k |-> "end"]>>
            /\ pos' = w.recPos + 1 /\ buf' = <<>> /\ lenSoFar' = 0 /\ recPos' = w.recPos /\ lenPos' = w.lenPos
         /\ closed' = TRUE /\ UNCHANGED <<act, pc, used, emitted, nst>>

Next == \/ \E n \in 1..MaxN : Emit(n)
        \/ \E n \in 1..2 : Reserve(n)
        \/ \E a \in {0, 3, MaxAddr - 2} : Org(a)
        \/ \E s \in Segs : Segment(s)
        \/ Close
Spec == Init /\ [][Next]_vars

\* independent reader
RECURSIVE Parse(_, _, _)
Parse(f, i, acc) ==
  IF i > Len(f) THEN [ok |-> FALSE, img |-> acc]
  ELSE IF f[i].k = "end" THEN [ok |-> i = Len(f), img |-> acc]
  ELSE IF f[i].k # "hdr" THEN [ok |-> FALSE, img |-> acc]
  ELSE IF i + 2 > Len(f) THEN [ok |-> FALSE, img |-> acc]
  ELSE LET s == f[i].seg  st == f[i+1]  ln == f[i+2] IN
       IF st.k # "start" \/ ln.k # "len" \/ i + 2 + ln.v > Len(f) THEN [ok |-> FALSE, img |-> acc]
       ELSE LET data == [j \in 1..ln.v |-> f[i + 2 + j]]
                okd == \A j \in 1..ln.v : data[j].k = "d"
            IN IF ~okd THEN [ok |-> FALSE, img |-> acc]
               ELSE Parse(f, i + 3 + ln.v,
                          acc \cup {[id |-> data[j].id, seg |-> s, addr |-> st.v + j - 1] : j \in 1..ln.v})

Conservation == closed => LET r == Parse(file, 2, {}) IN r.ok /\ r.img = emitted /\ file[1].k = "magic"
RecLenOK == closed => \A i \in 1..Len(file) : (file[i].k = "len") => file[i].v <= MaxRecLen
====
