---- MODULE CondTrace ----
EXTENDS Cond, IOUtils
VARIABLES l
TraceLog == ndJsonDeserialize(IOEnv.TRACE)
TInit == Init /\ l = 1
Match(e) == /\ ifasm' = e.ifasm /\ Len(stack') = e.depth /\ errs' = e.errs /\ Len(emitted') = e.em
TNext == /\ l <= Len(TraceLog) /\ l' = l + 1
         /\ LET e == TraceLog[l] IN
            \/ /\ e.a = "RESET" /\ ifasm' = TRUE /\ stack' = <<>> /\ emitted' = <<>> /\ errs' = 0 /\ n' = 0
            \/ /\ e.a # "RESET" /\ n' = n + 1
               /\ \/ e.a = "IF" /\ If(e.c)
                  \/ e.a = "ELSE" /\ Else
                  \/ e.a = "ELSEIF" /\ ElseIf(e.c)
                  \/ e.a = "ENDIF" /\ EndIf
                  \/ e.a = "EMIT" /\ Emit
               /\ Match(e)
Accepted == TLCGet("stats").diameter - 1 = Len(TraceLog)
====
