---- MODULE SL ----
EXTENDS Naturals, Sequences, TLC, Json, IOUtils
VARIABLES l, acc
Lines == ndJsonDeserialize(IOEnv.TRACE)
IsSpace(c) == c = 32 \/ c = 9
\* position of first ';' outside quotes (34 ", 39 '), 0 if none
RECURSIVE CommPos(_, _, _, _)
CommPos(s, i, inD, inS) ==
  IF i > Len(s) THEN 0
  ELSE IF s[i] = 34 /\ ~inS THEN CommPos(s, i+1, ~inD, inS)
  ELSE IF s[i] = 39 /\ ~inD THEN CommPos(s, i+1, inD, ~inS)
  ELSE IF s[i] = 59 /\ ~inD /\ ~inS THEN i
  ELSE CommPos(s, i+1, inD, inS)
RECURSIVE SkipSp(_, _)
SkipSp(s, i) == IF i <= Len(s) /\ IsSpace(s[i]) THEN SkipSp(s, i+1) ELSE i
RECURSIVE SkipNonSp(_, _)
SkipNonSp(s, i) == IF i <= Len(s) /\ ~IsSpace(s[i]) THEN SkipNonSp(s, i+1) ELSE i
\* split args at commas outside quotes and parens
RECURSIVE Args(_, _, _, _, _, _)
Args(s, i, start, inD, inS, dep) ==
  IF i > Len(s) THEN <<SubSeq(s, start, Len(s))>>
  ELSE IF s[i] = 34 /\ ~inS THEN Args(s, i+1, start, ~inD, inS, dep)
  ELSE IF s[i] = 39 /\ ~inD THEN Args(s, i+1, start, inD, ~inS, dep)
  ELSE IF s[i] = 40 /\ ~inD /\ ~inS THEN Args(s, i+1, start, inD, inS, dep+1)
  ELSE IF s[i] = 41 /\ ~inD /\ ~inS /\ dep > 0 THEN Args(s, i+1, start, inD, inS, dep-1)
  ELSE IF s[i] = 44 /\ ~inD /\ ~inS /\ dep = 0 THEN <<SubSeq(s, start, i-1)>> \o Args(s, i+1, i+1, inD, inS, dep)
  ELSE Args(s, i+1, start, inD, inS, dep)
Split(raw) ==
  LET cp == CommPos(raw, 1, FALSE, FALSE)
      s == IF cp = 0 THEN raw ELSE SubSeq(raw, 1, cp-1)
      hasLab == Len(s) > 0 /\ ~IsSpace(s[1])
      le == IF hasLab THEN SkipNonSp(s, 1) ELSE 1
      lab == IF hasLab THEN SubSeq(s, 1, le-1) ELSE <<>>
      os == SkipSp(s, le)
      oe == SkipNonSp(s, os)
      op == SubSeq(s, os, oe-1)
      as == SkipSp(s, oe)
      rest == SubSeq(s, as, Len(s))
  IN [lab |-> lab, op |-> op, args |-> IF Len(rest) = 0 THEN <<>> ELSE Args(rest, 1, 1, FALSE, FALSE, 0)]
Init == l = 1 /\ acc = 0
Next == /\ l <= Len(Lines) /\ l' = l + 1
        /\ acc' = (acc + Len(Split(Lines[l].c).args)) % 1000
Accepted == TLCGet("stats").diameter - 1 = Len(Lines)
====
