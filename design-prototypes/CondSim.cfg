CONSTANTS MaxDepth = 3 MaxLen = 8
INIT SInit
NEXT SNext
INVARIANT Inv Dump
