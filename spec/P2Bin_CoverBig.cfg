\* replayed exhaustively: one record longer than p2bin's 4096-byte copy buffer x 9 lanes x automatic / clipped window
CONSTANTS
  Dev = {}
  MaxRecs = 1
  Starts = {0, 3}
  UnitLens = {4097, 9000}
  GranSet = {1}
  EntryAddrs = {}
  Offsets = {}
  FillSet = {255}
  SumOpts = {FALSE}
  SegOpts = {1}
  CpuSegs <- CS_One
  Ranges <- R_Big
  LaneSet <- AllLanes
  FiltSet <- F_None
  ESet <- E_None
  HdrSet <- H_None
SPECIFICATION CoverSpec
CHECK_DEADLOCK FALSE
