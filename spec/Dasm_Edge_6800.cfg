\* page-edge images (Dasm_Cover.tla, EInit): PC-dependent instructions at page offsets FC FD FE FF 00: one initial state per image, no steps
CONSTANTS IsaName = "6800" Cpu = "6800" MaxItems = 12 Orgs = {256, 4096, 60000} WithVectors = TRUE MaxEntries = 4
INIT EInit
NEXT CNext
INVARIANT EDump
