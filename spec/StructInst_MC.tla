---------------------------- MODULE StructInst_MC ----------------------------
(* Every program of at most MaxLen statements over a bounded alphabet of structure definitions (STRUCT / UNION,     *)
(* named and nameless, nested MaxDepth deep, options out of OptSets, fields of the sizes in Sizes, unlabelled         *)
(* reservations, ENDSTRUCT with / without label and length name), instantiations (at most MaxInst; plain and the      *)
(* array shapes in DimSets; in the ordinary segment, inside a STRUCT body, inside a UNION), PHASE / DEPHASE / ORG /   *)
(* SEGMENT / data in between, DOTTEDSTRUCTS, and (Errors) the statements that must be refused.                        *)
(* The operators of StructInst.tla (shaped like the code) run next to the syntax tree of the definitions (ghost g);   *)
(* the invariants compare every statement's symbol definitions, reservation and counters with what the manual          *)
(* promises on the tree.  Addresses and sizes are in units of the segment's granularity: the byte- and the word-        *)
(* granular target differ in the rendering of StructInst_Gen only (8051: db ? / dw ? / ds n, 320C25: res n).             *)
EXTENDS StructInst, FiniteSets
CONSTANTS MaxLen, MaxDepth, MaxInst, MaxDefs,
          SubNames, Sizes, OptSets, SubOptSets, DimSets,
          EndForms,     \* "plain": bare ENDSTRUCT only; "all": also with the label repeated / with a name for the length
          Moves,        \* PHASE / DEPHASE / ORG / SEGMENT / data / DOTTEDSTRUCTS between the definitions and instances
          Errors,       \* the statements that must be refused
          Strict        \* TRUE: the promise is demanded of every definition (dev configurations: TLC must refute it)

\* values for the set-valued constants (a .cfg file cannot spell tuples)
Opt_plain == {<<>>}
Opt_dots == {<<>>, <<"DOTS">>}
Opt_noext == {<<>>, <<"NOEXTNAMES">>}
Opt_all == {<<>>, <<"DOTS">>, <<"NOEXTNAMES">>}
Opt_gen == {<<>>, <<"DOTS">>, <<"NOEXTNAMES">>, <<"EXTNAMES", "NODOTS">>, <<"NOEXTNAMES", "DOTS">>}
Dim_none == {<<>>}
Dim_arr == {<<>>, <<2>>}
Dim_arr2 == {<<>>, <<2>>, <<2, 2>>}

VARIABLES st, g, n, last, out, pre, gpre, syms, acc, clean, ninst
vars == <<st, g, n, last, out, pre, gpre, syms, acc, clean, ninst>>

NoStmt == Stmt("INIT", "", FALSE, <<>>, "", 0, "", <<>>)
NoOut == [defs |-> <<>>, errs |-> <<>>, chunk |-> NoChunk]
Init == /\ st = InitS("code") /\ g = InitG /\ n = 0 /\ last = NoStmt /\ out = NoOut /\ pre = InitS("code") /\ gpre = InitG
        /\ syms = {} /\ acc = {} /\ clean = TRUE /\ ninst = 0

Ran(f) == {f[i] : i \in 1..Len(f)}
Names(S) == {d.n : d \in S}
TopList == <<"S", "T", "V">>
FieldNames == <<"A", "B", "C", "D">>
BodyInst == <<"P", "R">>
TopInst == <<"X", "Y", "Z">>
\* the first name of a list that is not taken yet (canonical choice: one program per shape)
Fresh(list, used) == IF \E i \in 1..Len(list) : list[i] \notin used
                     THEN {list[CHOOSE i \in 1..Len(list) : list[i] \notin used /\ \A j \in 1..(i - 1) : list[j] \in used]}
                     ELSE {}
ElemNames == IF NamedIdx(st.fr) = 0 THEN {} ELSE {e.n : e \in Ran(st.fr[NamedIdx(st.fr)].elems)}
TabNames == {st.tab[i].name : i \in 1..Len(st.tab)}
OpenNames == {st.fr[i].name : i \in 1..Len(st.fr)}
Ordinary == st.fr = <<>>

Do(s) ==
  LET r == Step(st, s) IN
  /\ st' = r.st /\ out' = [defs |-> r.defs, errs |-> r.errs, chunk |-> r.chunk] /\ g' = GStep(g, st, s, r)
  /\ n' = n + 1 /\ last' = s /\ pre' = st /\ gpre' = g
  /\ syms' = syms \cup Ran(r.defs)
  /\ acc' = IF s.k = "STRUCT" /\ Ordinary THEN {} ELSE acc \cup Ran(r.defs)
  /\ clean' = IF s.k = "STRUCT" /\ Ordinary THEN r.errs = <<>> ELSE clean /\ r.errs = <<>>
  /\ ninst' = IF s.k = "INST" THEN ninst + 1 ELSE ninst

Next ==
  /\ n < MaxLen
  /\ \/ \E lab \in Fresh(TopList, TabNames), u \in BOOLEAN, o \in OptSets :
          /\ Ordinary /\ Cardinality(TabNames \cap Ran(TopList)) < MaxDefs
          /\ Do(Stmt("STRUCT", lab, u, o, "", 0, "", <<>>))
     \/ \E lab \in SubNames \cup {""}, u \in BOOLEAN, o \in SubOptSets :
          /\ ~Ordinary /\ Len(st.fr) < MaxDepth /\ lab \notin ElemNames
          /\ (lab = "" \/ BuildStructName(st.fr, lab) \notin TabNames)     \* NOEXTNAMES: "the programmer's responsibility"
          /\ Do(Stmt("STRUCT", lab, u, o, "", 0, "", <<>>))
     \/ \E lab \in Fresh(FieldNames, ElemNames), sz \in Sizes :
          /\ ~Ordinary /\ Do(Stmt("FIELD", lab, FALSE, <<>>, "", sz, "", <<>>))
     \/ /\ ~Ordinary /\ Do(Stmt("FIELD", "", FALSE, <<>>, "", 1, "", <<>>))
     \/ /\ ~Ordinary
        /\ \E f \in (IF EndForms = "plain" THEN {<<"", "">>} ELSE {<<"", "">>, <<st.fr[1].base, "">>, <<"", "MYLEN">>}) :
             LET lab == f[1]  arg == f[2] IN
             /\ (arg = "" \/ "MYLEN" \notin Names(syms))
             /\ Do(Stmt("END", lab, st.fr[1].union, <<>>, "", 0, arg, <<>>))
     \/ \E lab \in Fresh(TopInst, Names(syms)), nm \in TabNames, d \in DimSets :
          /\ Ordinary /\ ninst < MaxInst
          /\ Do(Stmt("INST", lab, FALSE, <<>>, nm, 0, "", d))
     \/ \E lab \in Fresh(BodyInst, ElemNames), nm \in TabNames \ OpenNames, d \in DimSets :
          /\ ~Ordinary /\ ninst < MaxInst
          /\ Do(Stmt("INST", lab, FALSE, <<>>, nm, 0, "", d))
     \/ /\ Moves /\ Ordinary /\ st.b.phStk[st.b.act] = <<>> /\ st.tab # <<>> /\ Do(Stmt("PHASE", "", FALSE, <<>>, "", 40, "", <<>>))
     \/ /\ Moves /\ Ordinary /\ st.b.phStk[st.b.act] # <<>> /\ Do(Stmt("DEPHASE", "", FALSE, <<>>, "", 0, "", <<>>))
     \/ /\ Moves /\ Ordinary /\ Load(st.b) = 0 /\ st.tab # <<>> /\ Do(Stmt("ORG", "", FALSE, <<>>, "", 10, "", <<>>))
     \/ /\ Moves /\ Ordinary /\ st.tab # <<>> /\ Do(Stmt("EMIT", "", FALSE, <<>>, "", 1, "", <<>>))
     \/ \E s \in Segs : /\ Moves /\ Ordinary /\ s # st.b.act /\ st.tab # <<>> /\ Do(Stmt("SEGMENT", "", FALSE, <<>>, s, 0, "", <<>>))
     \/ /\ Moves /\ Ordinary /\ st.tab = <<>> /\ ~st.dots /\ Do(Stmt("DOTS", "", ~st.dots, <<>>, "", 0, "", <<>>))
     \* ---- statements that must be refused ------------------------------------------------------------------
     \/ /\ Errors /\ Ordinary /\ Do(Stmt("END", "", FALSE, <<>>, "", 0, "", <<>>))
     \/ /\ Errors /\ Ordinary /\ Do(Stmt("STRUCT", "", FALSE, <<>>, "", 0, "", <<>>))
     \/ \E lab \in Fresh(TopInst, Names(syms)) : /\ Errors /\ Ordinary /\ Do(Stmt("INST", lab, FALSE, <<>>, "NOSUCH", 0, "", <<>>))
     \/ \E nm \in TabNames : /\ Errors /\ Ordinary /\ Do(Stmt("INST", "", FALSE, <<>>, nm, 0, "", <<>>))
     \/ /\ Errors /\ ~Ordinary /\ st.fr[1].named /\ Do(Stmt("END", "WRONG", st.fr[1].union, <<>>, "", 0, "", <<>>))
     \/ /\ Errors /\ ~Ordinary /\ ElemNames # {} /\ "A" \in ElemNames /\ Do(Stmt("FIELD", "A", FALSE, <<>>, "", 1, "", <<>>))
     \/ /\ Errors /\ ~Ordinary /\ Do(Stmt("EMIT", "", FALSE, <<>>, "", 1, "", <<>>))

Spec == Init /\ [][Next]_vars

\* ---- properties ----------------------------------------------------------------------------------------------
Accepted == out.errs = <<>>
Defs == Ran(out.defs)
NoDup == Cardinality(Defs) = Len(out.defs)
AllExt(fr) == \A i \in 1..Len(fr) : fr[i].ext
GAllExt(open) == \A i \in 1..Len(open) : open[i].ext /\ ExtOnly(open[i])
\* may the promise be demanded of this definition?  (Strict: of every one)
Bound(node) == Strict \/ (ExtOnly(node) /\ (FixAnon \/ AnonFree(node)))

\* the code's open definitions and the syntax tree describe the same nesting
Shape ==
  /\ Len(st.fr) = Len(st.b.stStk) /\ Len(g.open) = Len(st.fr)
  /\ \A i \in 1..Len(st.fr) : /\ st.fr[i].union = st.b.stStk[i].union /\ st.fr[i].union = (g.open[i].kind = "union")
                              /\ st.fr[i].base = g.open[i].name /\ st.fr[i].named = (g.open[i].name # "")
  /\ (st.fr # <<>> => st.fr[Len(st.fr)].named /\ InStruct(st.b))
  /\ (st.fr = <<>> => ~InStruct(st.b))
  /\ {st.tab[i].name : i \in 1..Len(st.tab)} = {g.done[i].name : i \in 1..Len(g.done)}

\* C10: "a STRUCT/UNION body ... defining each field as its offset (0 for every union member)", the name composed as the
\* manual says (structure's name, separator, label; nested: the super-structure's name prepended)
FieldIsOffset ==
  (last.k = "FIELD" /\ last.lab # "" /\ pre.fr # <<>> /\ Accepted /\ (Strict \/ GAllExt(gpre.open)))
    => /\ out.defs = <<[n |-> GOwnerName(gpre.open) \o GOwnerCh(gpre.open) \o last.lab, v |-> GPos(gpre)]>>
       /\ (InUnion(pre.b) => Load(st.b) = 0) /\ (~InUnion(pre.b) => Load(st.b) = Load(pre.b) + last.n)
\* a named definition written inside another one is a member at its offset
SubIsOffset ==
  (last.k = "STRUCT" /\ last.lab # "" /\ pre.fr # <<>> /\ Accepted /\ (Strict \/ GAllExt(gpre.open)))
    => out.defs = <<[n |-> GOwnerName(gpre.open) \o GOwnerCh(gpre.open) \o last.lab, v |-> GPos(gpre)]>>
\* NOEXTNAMES as the manual words it ("suppressed the prepending of the structure's name"): refuted, see
\* NoExtNamesKeepsOwnPrefix (StructInst_MC_dev_noext.cfg)
NoExtNamesAsManual ==
  (last.k = "FIELD" /\ last.lab # "" /\ Len(pre.fr) = 1 /\ Accepted /\ ~pre.fr[1].ext) => out.defs = <<[n |-> last.lab, v |-> GPos(gpre)]>>

Closed == last.k = "END" /\ Len(st.fr) < Len(pre.fr)
ClosedNode == [gpre.open[1] EXCEPT !.len = last.arg]
\* C10: "... and the length symbol as the total (maximum) size"; where the definition ends the counters are those of before
\* (outermost) resp. the enclosing body goes on behind the nested one
LenIsSize ==
  Closed =>
    LET node == ClosedNode
        full == GName(Tail(gpre.open), node.name)
    IN /\ (node.name = "" /\ last.arg = "") => out.defs = <<>>
       /\ (node.name # "" /\ last.arg = "" /\ (Strict \/ GAllExt(Tail(gpre.open)))) => out.defs = <<[n |-> full \o node.ch \o "LEN", v |-> DSize(node)]>>
       /\ (last.arg # "") => out.defs = <<[n |-> last.arg, v |-> DSize(node)]>>
       /\ (Len(pre.fr) = 1 => /\ st.b.act = pre.b.stSaveSeg /\ \A s \in Segs : st.b.pc[s] = pre.b.pc[s] /\ st.b.ph[s] = pre.b.ph[s]
                              /\ st.b.phStk = pre.b.phStk)
       /\ (Len(pre.fr) > 1 => Load(st.b) = IF st.fr[1].union THEN 0 ELSE pre.b.stStk[1].savePC + DSize(node))
\* the code's TotLen bookkeeping and the existing C10 operators agree
TotIsStructLen ==
  Closed => /\ Max(pre.fr[1].tot, Load(pre.b)) = StructLen(pre.b)
            /\ st.b = EndStruct(pre.b)
\* all symbols made while a top-level definition was written = the promise on its tree
DefinitionIsPromise ==
  (Closed /\ Len(pre.fr) = 1 /\ clean /\ Bound(ClosedNode)) => acc = DefinitionPromise(ClosedNode)

InstOK == last.k = "INST" /\ Accepted /\ last.lab # "" /\ GHas(gpre, last.nm)
\* manual, Usage: "defines a symbol for every element of the structure with its address"
InstanceIsPromise ==
  (InstOK /\ pre.fr = <<>> /\ Bound(GGet(gpre, last.nm)))
    => /\ Defs = InstancePromise(GGet(gpre, last.nm), last.lab, last.dims, Exec(pre.b)) /\ NoDup
\* "reserves as much memory as needed to hold an instance": exactly LEN units are reserved at the load address, the
\* counter of the active segment advances by them, nothing is emitted, nothing else changes
InstanceOccupiesLen ==
  (InstOK /\ pre.fr = <<>>)
    => LET sz == InstanceSize(GGet(gpre, last.nm), last.dims) IN
       /\ out.chunk = [k |-> "R", seg |-> pre.b.act, addr |-> Load(pre.b), n |-> sz]
       /\ st.b = [pre.b EXCEPT !.pc[pre.b.act] = @ + sz, !.used[pre.b.act] = TRUE]
       /\ st.tab = pre.tab /\ st.fr = pre.fr /\ st.dots = pre.dots /\ g = gpre
\* an instantiation inside a definition is a member like any other: its symbols are the promise for the enlarged tree
InstanceInBody ==
  (InstOK /\ pre.fr # <<>> /\ Bound(GGet(gpre, last.nm)) /\ (Strict \/ GAllExt(gpre.open)))
    => /\ Defs = DSyms([NullNode EXCEPT !.kind = "struct", !.items = <<Item("inst", last.lab, 0, GGet(gpre, last.nm), last.dims)>>],
                      GOwnerName(gpre.open), GOwnerCh(gpre.open), GPos(gpre))
       /\ out.chunk = NoChunk
       /\ (InUnion(pre.b) => Load(st.b) = 0)
       /\ (~InUnion(pre.b) => Load(st.b) = Load(pre.b) + InstanceSize(GGet(gpre, last.nm), last.dims))
\* C10: "a STRUCT/UNION body emits no code": nothing reaches the code file between STRUCT and the outermost ENDSTRUCT,
\* and the counters of the ordinary segments stand still
BodyEmitsNothing ==
  (pre.fr # <<>> \/ last.k = "STRUCT") => /\ out.chunk = NoChunk
                                          /\ \A s \in Segs : st.b.pc[s] = pre.b.pc[s] /\ st.b.ph[s] = pre.b.ph[s]
\* refused statements change nothing (an unknown operation still enters the label of its line)
RefusedChangesNothing ==
  /\ (Ran(out.errs) \cap {"nostruct", "wrongstruct", "freestanding", "nolabel"} # {}) => st = pre /\ out.defs = <<>> /\ out.chunk = NoChunk
  /\ ("unknown" \in Ran(out.errs)) => st = pre /\ out.chunk = NoChunk /\ out.defs = <<[n |-> last.lab, v |-> Exec(pre.b)]>>
  /\ (last.k = "INST" /\ ~Has(pre.tab, last.nm)) => "unknown" \in Ran(out.errs)
  /\ (last.k = "END" /\ pre.fr = <<>>) => out.errs = <<"nostruct">>
  /\ (last.k = "EMIT" /\ pre.fr # <<>>) => "code" \in Ran(out.errs)
\* no symbol gets two values
SymbolsSingleValued == \A d1 \in syms, d2 \in syms : d1.n = d2.n => d1.v = d2.v
=============================================================================
