SPECIFICATION TSpec
POSTCONDITION AllJudged
CHECK_DEADLOCK FALSE
