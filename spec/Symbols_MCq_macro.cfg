CONSTANTS LOCSYMSIGHT = 3
          MaxLen = 4 MaxDepth = 2 Focus = "macro" CaseModes = {FALSE}
          DevSets = {{}, {"popv_const", "dd_same_name", "empty_macro_nested"}} CheckConst = FALSE
SPECIFICATION Spec
INVARIANTS LookupAgreesWithManual ExtraPassAgrees ConvergesInTwo StackMirrorsText StacksNonEmpty
PROPERTIES ConstNeverChanges RedefIsError
CHECK_DEADLOCK FALSE
