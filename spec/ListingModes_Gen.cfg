CONSTANTS Stale = FALSE MaxTop = 14 Radices = {2, 8, 10, 16, 36}
  ModLists <- GModLists CtlLists <- GCtlLists MacroIds <- GIds MacroBodies <- AllMacroBodies
INIT GInit
NEXT GNext
INVARIANT Dump
CHECK_DEADLOCK FALSE
