------------------------------ MODULE P2Bin_Gen ------------------------------
(* (G) Case generation for replay into the real p2bin.  Every printed line carries the case AND what   *)
(* the specification says about it: exp = Run({}, c) (the repaired operational model), def = the manual*)
(* gives the case a definite outcome, allowed = exp satisfies the declarative property.                *)
(*   cover : one line per case of the bounded CaseSpace of P2Bin_MC (BFS, exhaustive for its constants)*)
(*   sim   : random wide cases built item by item (tlc -simulate); SimDump prints finished ones        *)
EXTENDS P2Bin_MC, Json

\* mix = the selected records differ in granularity and the weaker statement of P2Bin.tla Part 2b decides the case
CaseOut(cc) == LET r == Run({}, cc)
                   d == Definite(cc)
                   dm == DefiniteMixed(cc)
               IN [c |-> cc, exp |-> r, def |-> d, mix |-> dm,
                   allowed |-> (d => Allowed(cc, r)) /\ (dm => AllowedMixed(cc, r))]

\* ---- cover ----------------------------------------------------------------------------------------
CoverInit == c \in CaseSpace /\ pc = "gen" /\ idx = 1 /\ m = M0(c.o) /\ s = Blank /\ out = NoOut
CoverNext == pc = "gen" /\ PrintT(<<"TR", ToJson(CaseOut(c))>>) /\ pc' = "done" /\ UNCHANGED <<c, idx, m, s, out>>
CoverSpec == CoverInit /\ [][CoverNext]_vars

\* ---- header forms x families (FormCases of P2Bin_MC): every case, replayed
FormCoverInit == c \in FormCases(FormFams) /\ pc = "gen" /\ idx = 1 /\ m = M0(c.o) /\ s = Blank /\ out = NoOut
FormCoverSpec == FormCoverInit /\ [][CoverNext]_vars

SimDefault == [rs |-> -1, re |-> -1, fill |-> 255, lane |-> "ALL", hdr |-> 0, e |-> -1, sum |-> FALSE,
               fops |-> <<>>, seg |-> 1]
\* ---- filter operations (FilterList.tla): one fixed file with a record of each of the families a b c d and an
\* unlisted one, every operation sequence of FPatterns / BigPatterns, explicit and automatic window
FiltItems(fams) == [k \in 1..Len(fams) |-> [k |-> "D", cpu |-> fams[k], seg |-> 1, gran |-> 1, start |-> 4 * (k - 1),
                                             data |-> Pat(k, 2)]]
FiltCase(fams, fo, rg) == [files |-> <<[off |-> 0, items |-> FiltItems(fams)]>>,
                           o |-> [SimDefault EXCEPT !.fops = fo, !.rs = rg[1], !.re = rg[2]]]
FiltCases == {FiltCase(<<81, 97, 112, 17, 200>>, fo, rg) : fo \in FPatterns(81, 97, 112, 17, 200), rg \in {<<-1, -1>>, <<0, 19>>}}
             \cup {FiltCase(<<1, 50, 100, 7, 93, 200>>, fo, <<0, 23>>) : fo \in BigPatterns}
FiltInit == c \in FiltCases /\ pc = "gen" /\ idx = 1 /\ m = M0(c.o) /\ s = Blank /\ out = NoOut
FiltSpec == FiltInit /\ [][CoverNext]_vars

\* ---- sim ------------------------------------------------------------------------------------------
\* Step 0 fixes the granularity G of the CODE segment (records of other segments take any granularity, so
\* `-segment data` still meets mixed granularities), the filter and the segment; steps 1..SimRecs add an item
\* or open another input file with an (offset); then -r, -m/-l, -S/-e/-s; the last step only marks the case
\* finished so that exactly one successor is printed per simulated behaviour.
SimRecs == 4
SimFOps == {<<FA(<<81>>)>>, <<FA(<<97>>)>>, <<FA(<<81, 112>>)>>, <<FA(<<1>>)>>, <<FA(<<129>>)>>,
            <<FA(<<81, 97, 112>>), FC(<<81>>)>>, <<FA(<<81, 97, 112>>), FC(<<97>>)>>, <<FEA(<<81, 97, 112>>), FC(<<112>>)>>,
            <<FEA(<<97, 81>>), FEC(<<97>>), FA(<<112>>)>>, <<FA(<<81, 97>>), FC(<<81, 97>>)>>, <<FA(<<97, 112, 81>>), FC(<<97>>), FA(<<97>>)>>}
SimStarts == 0..9 \cup {12, 15, 16, 17, 20, 24, 31, 32, 33, 40}
SimCS == {<<81, 1>>, <<97, 1>>, <<81, 2>>, <<112, 1>>}
\* HEADER FORMS: short-header records (<<cpu, 1, TRUE>>) of the families whose implied CODE granularity is G -- 81, 97
\* (default 1), 112 (2), 59 AVR and 26, 29 PDK (2 in CODE, 1 elsewhere), 118 (4) -- and long-header DATA records of the
\* AVR / PDK families, mixed in any order with the long-header shapes above, in any of the input files
SimShortCpus == {81, 97, 112, 59, 26, 29, 118}
\* MIXED MODE (G = 0): the CODE segment holds records of ANY granularity -- long headers of 1, 2, 4 and short headers of
\* every family above -- so that the selected records of a case differ in granularity (DefiniteMixed) with every option
\* the simulation draws: windows inside / at the edge of records of either unit, lanes, -S, -e, -s, -l, -f, (offset) files.
SimForms(G) == {sh \in [k : {"D"}, start : {0, 2, 5, 8, 16, 17}, units : {1, 2, 4}, gran : IF G = 0 THEN {1, 2, 4} ELSE {G},
                         cs : {<<f, 1, TRUE>> : f \in SimShortCpus}] : CFB!ImplicitGran(sh.cs[1], SegCode) = sh.gran}
               \cup [k : {"D"}, start : {0, 2, 5, 8, 16, 17}, units : {1, 2, 4}, gran : {1}, cs : {<<59, 2>>, <<29, 2>>}]
SimShapes(G) == {sh \in [k : {"D"}, start : SimStarts, units : {0, 1, 2, 4, 8}, gran : {1, 2, 4}, cs : SimCS] :
                    (sh.cs[2] = 1 /\ G # 0) => sh.gran = G}
                \cup [k : {"E"}, addr : {4660, 74565}]
                \cup SimForms(G)
\* lower bounds of every phase of the lane period (1, 2, 3 mod 4) with upper bounds that make whole periods
SimLo == {-1, 0, 4, 8, 12, 16, 20, 24, 32, 1, 2, 6, 3, 5, 9, 13, 17, 18}
SimHi == {-1, 3, 7, 11, 15, 19, 23, 31, 39, 47, 5, 12, 8, 10, 14, 16, 20, 21, 22, 33}
NItems(cc) == Sum([i \in 1..Len(cc.files) |-> Len(cc.files[i].items)])
SimInit == /\ c = [files |-> <<[off |-> 0, items |-> <<>>]>>, o |-> SimDefault]
           /\ pc = "sim" /\ idx = 0 /\ m = M0(SimDefault) /\ s = Blank /\ out = NoOut
SimNext ==
  /\ pc = "sim" /\ idx' = idx + 1 /\ UNCHANGED <<s, out>>
  /\ LET nf == Len(c.files) IN
     CASE idx = 0 ->
            /\ UNCHANGED pc
            /\ \E G \in {1, 2, 4}, f \in SimFOps, sg \in {1, 2}, w \in 1..3, mx \in 1..3 :
                  \* w only weights the choice: no filter / CODE twice as likely; mx = 3: mixed mode (a third of the cases)
                  /\ m' = [m EXCEPT !.maxgran = IF mx = 3 THEN 0 ELSE G]   \* m.maxgran carries G during generation
                  /\ c' = [c EXCEPT !.o.fops = IF w = 1 THEN f ELSE <<>>, !.o.seg = IF w = 3 THEN sg ELSE 1]
       [] idx \in 1..SimRecs ->
            /\ UNCHANGED <<pc, m>>
            /\ \/ \E sh \in SimShapes(m.maxgran) :
                    c' = [c EXCEPT !.files[nf].items = Append(@, MkItem(sh, NItems(c) + 1))]
               \/ \E d \in {0, 1, 5, 16} : nf < 3 /\ c' = [c EXCEPT !.files = Append(@, [off |-> d, items |-> <<>>])]
       [] idx = SimRecs + 1 ->
            /\ UNCHANGED <<pc, m>>
            /\ \E a \in SimLo, b \in SimHi : (a < 0 \/ b < 0 \/ a <= b) /\ c' = [c EXCEPT !.o.rs = a, !.o.re = b]
       [] idx = SimRecs + 2 ->
            /\ UNCHANGED <<pc, m>>
            /\ \E l \in Lanes, f \in {255, 0, 90} : c' = [c EXCEPT !.o.lane = l, !.o.fill = f]
       [] idx = SimRecs + 3 ->
            /\ UNCHANGED <<pc, m>>
            /\ \E h \in -4..4, e \in {-1, 66051, 127}, sm \in BOOLEAN, w \in 1..2 :
                  c' = [c EXCEPT !.o.hdr = IF w = 1 THEN h ELSE 0, !.o.e = e, !.o.sum = sm]
       [] OTHER -> pc' = "emit" /\ UNCHANGED <<c, m>>
SimSpec == SimInit /\ [][SimNext]_vars
SimDump == pc = "emit" => PrintT(<<"BEH", ToJson(CaseOut(c))>>)
=============================================================================
