\* default constants of the case generator with the history dimension (checks/c14.py writes per-run copies, see
\* IsaZ80_Gen.cfg).  HDump prints every leaf with its context statement after checking CtxSaneWith / ContextFreeWith.
CONSTANTS Cpu = "Z80" K = 3 Salt = 1 Step = 1
INIT Init
NEXT Next
INVARIANTS UnitsTyped DecodeInverts OutOfRangeIsError HDump
CHECK_DEADLOCK FALSE
