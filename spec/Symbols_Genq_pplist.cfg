CONSTANTS LOCSYMSIGHT = 3
          MaxLen = 0 FreeLen = 0 MaxDepth = 4 Mode = "pplistq" CaseModes = {TRUE, FALSE} EveryState = FALSE
INIT Init
NEXT PLNext
INVARIANT Dump
CHECK_DEADLOCK FALSE
