\* replayed exhaustively: the lane-phase space of P2Bin_MC_phase3.cfg (unaligned image starts x <= 2 records of 1 or 4 units at every
\* residue of the distance to the image start x 8 thinning lanes x automatic range / -r 1-8 / 2-9 / 3-10)
CONSTANTS
  Dev = {}
  MaxRecs = 2
  Starts = {1, 2, 3, 4, 5, 6, 8}
  UnitLens = {1, 4}
  GranSet = {1}
  EntryAddrs = {}
  Offsets = {}
  FillSet = {255}
  SumOpts = {FALSE}
  SegOpts = {1}
  CpuSegs <- CS_One
  Ranges <- R_Phase
  LaneSet <- L_Thin
  FiltSet <- F_None
  ESet <- E_None
  HdrSet <- H_None
SPECIFICATION CoverSpec
CHECK_DEADLOCK FALSE
