\* (G) the hand-made source-level families of ALink_Gen!Families; real record limit
CONSTANTS MaxRecLenW = 65535
SPECIFICATION FamSpec
INVARIANTS FamSelf
CHECK_DEADLOCK FALSE
