------------------------------ MODULE IEEE_MC ------------------------------
(* TLC enumerates every odd mantissa below 2^MantBits (= every MantBits-bit significand after          *)
(* normalisation) x every exponent ExpLo..ExpHi and checks the half precision encoder against the      *)
(* declarative characterisation; the single precision encoder on mantissas around all its rounding     *)
(* boundaries; Double/Extended layout against decoding; and characterises where the transcription of   *)
(* the pinned ieeefloat.c Double_2_ieee2 (HalfCodeBits(x, FALSE)) deviates from IEEE.                   *)
EXTENDS IEEE, TLC, FiniteSets
CONSTANTS MantBits, ExpLoNeg, ExpHi, WithSingle   \* (TLC cfg files have no negative numbers: ExpLo = -ExpLoNeg)
ExpLo == 0 - ExpLoNeg
SingleExps == IF WithSingle THEN {0 - 160, 0 - 155, 0 - 152, 0 - 150, 0 - 149, 0 - 140, 0 - 130, 0 - 127, 0 - 30, 0 - 24, 0, 1, 97, 98, 99, 100}
              ELSE {}

VARIABLES e, m, fmt
vars == <<e, m, fmt>>

\* single precision: 25..30-bit significands next to every kind of rounding boundary
SingleMants == {16777216 + j : j \in 0..5} \cup {33554432 + j : j \in 0..9} \cup {1073741823 - j : j \in 0..9}
               \cup {536870912 + 32 * j + 16 : j \in 0..3} \cup {536870912 + 32 * j + 15 : j \in 0..3}
               \cup {536870912 + 32 * j + 17 : j \in 0..3} \cup {1, 3, 8388607, 16777215, 12582913}

Init == \/ fmt = "half" /\ e \in ExpLo..ExpHi /\ m = 0
        \/ fmt = "single" /\ e \in SingleExps /\ m = 0
Next == /\ m = 0 /\ UNCHANGED <<e, fmt>>
        /\ \/ fmt = "half" /\ m' \in {k \in 1..(Pow2(MantBits) - 1) : k % 2 = 1}
           \/ fmt = "single" /\ m' \in SingleMants
Spec == Init /\ [][Next]_vars

X == Dy(0, m, e)
F == IF fmt = "half" THEN FmtHalf ELSE FmtSingle

\* --- the property of the encoder: nearest representable value, ties to even, overflow to infinity
EncoderIsNearestEven ==
  m # 0 =>
    LET c == MagCode(F, X)
    IN IF OverflowsToInf(F, X) THEN c = InfCode(F)
       ELSE c < InfCode(F) /\ NearestEven(F, X, c)

\* --- exact inputs are reproduced exactly
ExactStaysExact ==
  (m # 0 /\ fmt = "half" /\ BitLen(X.m) <= 11 /\ TopExp(X) >= 0 - 14 /\ TopExp(X) <= 15) =>
     DecodeMag(FmtHalf, MagCode(FmtHalf, X)) = X

\* --- sign is a separate bit
SignBit == m # 0 /\ fmt = "half" => HalfBits(Dy(1, m, e)) = HalfBits(X) + 32768

\* --- double / extended: layout only, decoded back by hand
DoubleLayout ==
  m # 0 /\ fmt = "half" =>
    LET b == DoubleBytesBE(X)
        bexp == (b[1] % 128) * 16 + (b[2] \div 16)
        k == BitLen(X.m) - 1
        \* top 28 fraction bits (our significands have at most 30 bits; the rest is zero)
        f28 == (b[2] % 16) * 16777216 + b[3] * 65536 + b[4] * 256 + b[5]
        f24 == b[6] * 65536 + b[7] * 256 + b[8]
    IN /\ b[1] \div 128 = 0
       /\ bexp = TopExp(X) + 1023
       /\ (k <= 28 => f24 = 0 /\ f28 = (X.m - Pow2(k)) * Pow2(28 - k))
       /\ LET xb == ExtBytesBE(X) IN /\ xb[1] * 256 + xb[2] = TopExp(X) + 16383
                                      /\ xb[3] \div 128 = 1       \* explicit integer bit
                                      /\ Len(xb) = 10

\* --- the pinned Double_2_ieee2 deviates from IEEE only below the normal range (and refuses > emax)
CodeDeviatesOnlyInSubnormalRange ==
  m # 0 /\ fmt = "half" =>
    LET c == HalfCodeBits(X, FALSE)
    IN c # HalfBits(X) => (c = 0 - 1 /\ MagCode(FmtHalf, X) = InfCode(FmtHalf)) \/ TopExp(X) < 0 - 14

\* this one is *expected to be violated*: TLC exhibits a witness of the defect (used by IEEE_Dev.cfg)
CodeIsIEEE == m # 0 /\ fmt = "half" /\ HalfCodeBits(X, FALSE) # 0 - 1 => HalfCodeBits(X, FALSE) = HalfBits(X)
\* with the proposed repair the C algorithm is IEEE everywhere (overflow is refused instead of turned into infinity)
FixedCodeIsIEEE == m # 0 /\ fmt = "half" =>
  \/ HalfCodeBits(X, TRUE) = HalfBits(X)
  \/ HalfCodeBits(X, TRUE) = 0 - 1 /\ MagCode(FmtHalf, X) = InfCode(FmtHalf)
=============================================================================
