------------------------------ MODULE Limb64 ------------------------------
(* 64-bit two's-complement integer arithmetic for TLC, whose own integers are 32-bit.                 *)
(*                                                                                                    *)
(* A value is a tuple <<l1,l2,l3,l4>> of 16-bit limbs, l1 least significant ("LargeInt" of the        *)
(* assembler, datatypes.h).  + - ~ & | ! << >> and the comparisons work on 16-bit limbs; the product  *)
(* is formed on 8-bit limbs (255*255*8 + carry stays far below 2^31); the quotient is a restoring     *)
(* shift/subtract division on magnitudes.  Everything is div/mod arithmetic on naturals < 2^31, so    *)
(* TLC evaluates it exactly.  Limb64_MC checks these operators against TLC's native arithmetic on a   *)
(* small interval and against algebraic laws at the boundary operands.                                *)
EXTENDS Naturals, Integers, Sequences

B16 == 65536
B15 == 32768

Zero   == <<0, 0, 0, 0>>
One    == <<1, 0, 0, 0>>
MinusOne == <<65535, 65535, 65535, 65535>>
MaxInt == <<65535, 65535, 65535, 32767>>       \* 2^63-1
MinInt == <<0, 0, 0, 32768>>                   \* -2^63
Pow31  == <<0, 32768, 0, 0>>
Pow32  == <<0, 0, 1, 0>>

IsLimbs(a) == /\ Len(a) = 4 /\ \A i \in 1..4 : a[i] \in 0..(B16 - 1)

IsNeg(a) == a[4] >= B15
IsZero(a) == a = Zero

(* ---- addition family ---------------------------------------------------------------------------- *)
Add(a, b) ==
  LET s1 == a[1] + b[1]
      s2 == a[2] + b[2] + (s1 \div B16)
      s3 == a[3] + b[3] + (s2 \div B16)
      s4 == a[4] + b[4] + (s3 \div B16)
  IN <<s1 % B16, s2 % B16, s3 % B16, s4 % B16>>

Not(a) == <<65535 - a[1], 65535 - a[2], 65535 - a[3], 65535 - a[4]>>
Neg(a) == Add(Not(a), One)
Sub(a, b) == Add(a, Neg(b))
Abs(a) == IF IsNeg(a) THEN Neg(a) ELSE a          \* Abs(MinInt) = MinInt (wraps)

(* small native integer -> limbs, |n| < 2^31 *)
FromNat(n) == <<n % B16, n \div B16, 0, 0>>
FromInt(n) == IF n >= 0 THEN FromNat(n) ELSE Neg(FromNat(0 - n))

(* limbs -> native integer; only meaningful when the value fits in 31 bits *)
FitsSmall(a) == \/ (a[3] = 0 /\ a[4] = 0 /\ a[2] < B15)
                \/ (a[3] = 65535 /\ a[4] = 65535 /\ a[2] >= B15 /\ ~(a[2] = B15 /\ a[1] = 0))   \* -2^31 itself does not fit TLC's negation
ToInt(a) == IF IsNeg(a) THEN 0 - (Neg(a)[1] + B16 * Neg(a)[2]) ELSE a[1] + B16 * a[2]

(* ---- comparisons -------------------------------------------------------------------------------- *)
\* unsigned a < b
LtU(a, b) ==
  IF a[4] # b[4] THEN a[4] < b[4]
  ELSE IF a[3] # b[3] THEN a[3] < b[3]
  ELSE IF a[2] # b[2] THEN a[2] < b[2]
  ELSE a[1] < b[1]
\* signed a < b
LtS(a, b) == IF IsNeg(a) # IsNeg(b) THEN IsNeg(a) ELSE LtU(a, b)
LeS(a, b) == a = b \/ LtS(a, b)

(* ---- bitwise ------------------------------------------------------------------------------------ *)
RECURSIVE BitOp16(_, _, _, _)
\* op: 1 = and, 2 = or, 3 = xor;  n = remaining bits
BitOp16(op, x, y, n) ==
  IF n = 0 THEN 0
  ELSE LET bx == x % 2
           by == y % 2
           b  == CASE op = 1 -> IF bx = 1 /\ by = 1 THEN 1 ELSE 0
                   [] op = 2 -> IF bx = 1 \/ by = 1 THEN 1 ELSE 0
                   [] OTHER  -> IF bx # by THEN 1 ELSE 0
       IN b + 2 * BitOp16(op, x \div 2, y \div 2, n - 1)

LimbWise(op, a, b) == <<BitOp16(op, a[1], b[1], 16), BitOp16(op, a[2], b[2], 16),
                        BitOp16(op, a[3], b[3], 16), BitOp16(op, a[4], b[4], 16)>>
And(a, b) == LimbWise(1, a, b)
Or(a, b)  == LimbWise(2, a, b)
Xor(a, b) == LimbWise(3, a, b)

P2Table == <<1, 2, 4, 8, 16, 32, 64, 128, 256, 512, 1024, 2048, 4096, 8192, 16384, 32768, 65536, 131072, 262144,
             524288, 1048576, 2097152, 4194304, 8388608, 16777216, 33554432, 67108864, 134217728, 268435456,
             536870912, 1073741824>>
Pow2(k) == P2Table[k + 1]                              \* 0 <= k <= 30

RECURSIVE PopCnt16(_, _)
PopCnt16(x, n) == IF n = 0 THEN 0 ELSE (x % 2) + PopCnt16(x \div 2, n - 1)
PopCnt(a) == PopCnt16(a[1], 16) + PopCnt16(a[2], 16) + PopCnt16(a[3], 16) + PopCnt16(a[4], 16)

\* bit i (0..63) of a
Bit(a, i) == (a[(i \div 16) + 1] \div Pow2(i % 16)) % 2

(* ---- shifts, n \in 0..63 ------------------------------------------------------------------------ *)
\* limb j (1..4) of a, 0 outside; fill = limb value used above the top (0 or 65535)
LimbOr(a, j, fill) == IF j < 1 THEN 0 ELSE IF j > 4 THEN fill ELSE a[j]

Shl(a, n) ==
  LET q == n \div 16
      r == n % 16
      p == Pow2(r)
      lim(j) == ((LimbOr(a, j - q, 0) * p) % B16) + (LimbOr(a, j - q - 1, 0) \div Pow2(16 - r))
  IN IF r = 0 THEN <<LimbOr(a, 1 - q, 0), LimbOr(a, 2 - q, 0), LimbOr(a, 3 - q, 0), LimbOr(a, 4 - q, 0)>>
     ELSE <<lim(1), lim(2), lim(3), lim(4)>>

ShrFill(a, n, fill) ==
  LET q == n \div 16
      r == n % 16
      p == Pow2(r)
      lim(j) == (LimbOr(a, j + q, fill) \div p) + ((LimbOr(a, j + q + 1, fill) % p) * Pow2(16 - r))
  IN IF r = 0 THEN <<LimbOr(a, 1 + q, fill), LimbOr(a, 2 + q, fill), LimbOr(a, 3 + q, fill), LimbOr(a, 4 + q, fill)>>
     ELSE <<lim(1), lim(2), lim(3), lim(4)>>

ShrL(a, n) == ShrFill(a, n, 0)                                   \* logical: zero fill
ShrA(a, n) == ShrFill(a, n, IF IsNeg(a) THEN 65535 ELSE 0)       \* arithmetic: sign fill

(* ---- product on 8-bit limbs (result mod 2^64) ---------------------------------------------------- *)
Bytes8(a) == <<a[1] % 256, a[1] \div 256, a[2] % 256, a[2] \div 256,
               a[3] % 256, a[3] \div 256, a[4] % 256, a[4] \div 256>>
FromBytes8(b) == <<b[1] + 256 * b[2], b[3] + 256 * b[4], b[5] + 256 * b[6], b[7] + 256 * b[8]>>

RECURSIVE ColSum(_, _, _, _)
\* sum of x[i] * y[k + 1 - i] for i = i .. k   (column k of the schoolbook product, 1-based)
ColSum(x, y, k, i) == IF i > k THEN 0 ELSE x[i] * y[k + 1 - i] + ColSum(x, y, k, i + 1)

RECURSIVE MulCols(_, _, _, _)
MulCols(x, y, k, carry) ==
  IF k > 8 THEN <<>>
  ELSE LET s == ColSum(x, y, k, 1) + carry
       IN <<s % 256>> \o MulCols(x, y, k + 1, s \div 256)

Mul(a, b) == FromBytes8(MulCols(Bytes8(a), Bytes8(b), 1, 0))

(* ---- truncating division (C semantics), b # 0 ----------------------------------------------------- *)
RECURSIVE UDivStep(_, _, _, _, _)
\* restoring division of unsigned a by unsigned b # 0: i = next bit of a (63 downto 0)
UDivStep(a, b, i, q, r) ==
  IF i < 0 THEN <<q, r>>
  ELSE LET r2 == Add(r, r)                                  \* r << 1 (r < b <= 2^63, no bit is lost)
           r1 == <<r2[1] + Bit(a, i), r2[2], r2[3], r2[4]>>   \* r2 is even: no carry
           ge == ~LtU(r1, b)
           q2 == Add(q, q)
       IN UDivStep(a, b, i - 1,
                   IF ge THEN <<q2[1] + 1, q2[2], q2[3], q2[4]>> ELSE q2,
                   IF ge THEN Sub(r1, b) ELSE r1)

UDivMod(a, b) == UDivStep(a, b, 63, Zero, Zero)

\* quotient rounded towards zero, remainder with the sign of the dividend (C99 / and %)
DivT(a, b) ==
  LET qr == UDivMod(Abs(a), Abs(b))
  IN IF IsNeg(a) # IsNeg(b) THEN Neg(qr[1]) ELSE qr[1]
ModT(a, b) ==
  LET qr == UDivMod(Abs(a), Abs(b))
  IN IF IsNeg(a) THEN Neg(qr[2]) ELSE qr[2]
\* the one quotient that does not exist in 64-bit two's complement
DivOverflows(a, b) == a = MinInt /\ b = MinusOne

(* ---- power by squaring, exponent >= 0 (operator.c PotOp integer branch) --------------------------- *)
RECURSIVE PowStep(_, _, _)
PowStep(l, r, h) ==
  IF IsZero(r) THEN h
  ELSE PowStep(IF IsZero(ShrL(r, 1)) THEN l ELSE Mul(l, l), ShrL(r, 1),
               IF r[1] % 2 = 1 THEN Mul(h, l) ELSE h)
Pow(a, n) == PowStep(a, n, One)

(* ---- byte images ---------------------------------------------------------------------------------- *)
BytesLE(a) == Bytes8(a)
Reverse(s) == [i \in 1..Len(s) |-> s[Len(s) + 1 - i]]
BytesBE(a) == Reverse(Bytes8(a))

\* value of a digit string in base b (2..36), wrapping mod 2^64 (asmpars.c ConstIntVal loop)
RECURSIVE DigitsVal(_, _, _)
DigitsVal(ds, b, acc) ==
  IF ds = <<>> THEN acc
  ELSE DigitsVal(Tail(ds), b, Add(Mul(acc, FromNat(b)), FromNat(Head(ds))))
=============================================================================
