---------------------------- MODULE NegHist_Gen ----------------------------
(* (M)+(G) for NegHist: TLC explores every history of <= MaxLen statements of each family, checks the structural  *)
(* invariants of the models on every reached state, and prints histories for replay:                               *)
(*   Cover = TRUE   transition cover: one history per (model state, statement) -- VIEW hides the history            *)
(*   Cover = FALSE  every sequence of <= MaxLen statements                                                          *)
(* A printed case carries the statements, the closers of the optimistic outcome and the exit statuses the model    *)
(* allows over ALL nondeterministic outcomes of the history.                                                        *)
EXTENDS NegHist, Json

CONSTANTS Fams, MaxLen, Cover

VARIABLES f, h, hist
vars == <<f, h, hist>>

RECURSIVE RunSeq(_, _, _)
RunSeq(fam, S, q) == IF q = <<>> THEN S ELSE RunSeq(fam, UNION {Outcomes(fam, x, Head(q)) : x \in S}, Tail(q))

Rank(x) == (1 - x.errs) * 100 + Len(x.st) + Len(x.sec) + x.svd
Optimistic(S) == CHOOSE o \in S : \A p \in S : Rank(o) >= Rank(p)
Closed(x) == [x EXCEPT !.st = <<>>, !.sec = <<>>, !.svd = 0]
\* closers are rendered for the optimistic outcome; in the other outcomes fewer constructs are open and the
\* surplus closers are errors
AfterClosers(x, opt) == IF Len(x.st) = Len(opt.st) /\ Len(x.sec) = Len(opt.sec) /\ x.svd = opt.svd THEN Closed(x) ELSE Err(Closed(x))

\* shape of the structure BEFORE the last statement (stratum for the quick tier): the list of symbol stacks,
\* the set of code pages, or the nesting depths
Shape(fam, x) == CASE fam = "stk" -> ListSeq(x)
                   [] fam = "chr" -> <<IF 1 \in x.cps THEN 1 ELSE 0, IF 2 \in x.cps THEN 1 ELSE 0, IF 4 \in x.cps THEN 1 ELSE 0, x.cur>>
                   [] OTHER -> <<Len(x.st), Len(x.sec), x.svd>>
CaseOf(fam, x, q) ==
  LET S == RunSeq(fam, {InitH}, q)  opt == Optimistic(S) IN
  [fam |-> fam, stmts |-> q, shape |-> Shape(fam, x), closers |-> Closers(opt),
   allowed |-> {Exit(AfterClosers(y, opt)) : y \in S}]

Init == \E fam \in Fams : f = fam /\ h = InitH /\ hist = <<>>
Next == /\ Len(hist) < MaxLen
        /\ \E s \in Alphabet(f) : h' \in Outcomes(f, h, s) /\ hist' = Append(hist, s)
        /\ f' = f
View == IF Cover THEN <<f, h>> ELSE <<f, h, hist>>
TCover == (h' = (CHOOSE o \in Outcomes(f, h, hist'[Len(hist')]) : TRUE)) => PrintT(<<"TR", ToJson(CaseOf(f, h, hist'))>>)

\* ---- what TLC checks on every reached state ------------------------------------------------------------------
StackListOK == ListOK(h)                                   \* sorted, acyclic, exactly the non-empty symbol stacks
StandardPresent == 3 \in h.cps /\ h.cur \in h.cps          \* the STANDARD code page is never lost
ExitDocumented == Exit(Closed(h)) \in DocumentedExit
DepthsSane == h.svd <= MaxLen /\ Len(h.st) <= MaxLen /\ Len(h.sec) <= MaxLen
ASSUME PrintT(<<"OUT", ToJson([documented |-> DocumentedExit])>>)
=============================================================================
