#!/usr/bin/env python3
"""Writes the PassLoop_*.cfg files next to this script (kept in the tree: it documents how the TLC configurations
of C01 are derived from three target classes x algorithm variants; run it after changing a bound)."""
import os
SPEC = os.path.dirname(os.path.abspath(__file__))
CLS = {
    "68k": dict(VarMode='"rel8"', VarShort=2, VarLong=4, Padding="TRUE", RelFpuOK="TRUE"),
    "abs": dict(VarMode='"abs8"', VarShort=2, VarLong=3, Padding="FALSE", RelFpuOK="FALSE"),
    "86": dict(VarMode='"rel8"', VarShort=2, VarLong=3, Padding="FALSE", RelFpuOK="FALSE"),
}
SAFE = "INVARIANTS TypeOK Fixpoint ExtraPassIsStutter NoSpuriousError CleanMeansSolvable IllFormedRejected\nPROPERTY Termination\n"
PIN = "INVARIANTS TypeOK Fixpoint\nPROPERTIES Termination\n"
PIN2 = "INVARIANTS TypeOK Fixpoint\nPROPERTIES LivelockOnlyWhenPatched\n"


def cfg(name, cls, items, fills, absw, orgs, labels='{"la", "lb"}', fixed="TRUE", tail=SAFE, throw="FALSE",
        extra="TRUE", ill="FALSE", offs="{1}", head="", spec=None, complete="FALSE", tmax=3, selfk="{}", pages="{}", preset="TRUE",
        sects="{}", quals="{8}", alias="{}", csens="FALSE", kinds='{"abs", "var", "rel"}'):
    c = dict(CLS[cls])
    c.update(RefKinds=kinds, Sects=sects, Quals=quals, Alias=alias, CaseSens=csens, Pages=pages, PageReset=preset, SelfKinds=selfk, Labels=labels, MaxItems=items, Fills=fills, AbsWidths=absw, EquOffs=offs, Orgs=orgs, Fixed=fixed,
             ThrowErrors=throw, ThrowMaxPass=tmax, WithExtra=extra, AllowIllFormed=ill, Complete=complete)
    with open(os.path.join(SPEC, name), "w") as f:
        f.write("\\* %s\n" % head if head else "")
        f.write("CONSTANTS\n" + "".join("  %s = %s\n" % kv for kv in c.items()))
        f.write(("SPECIFICATION Spec\n" if spec is None else spec) + "CHECK_DEADLOCK FALSE\n" + tail)


for tier, n in (("", 4), ("5", 5)):
    cfg("PassLoop_MC_68k%s.cfg" % tier, "68k", n, "{1, 2, 126}", "{4}", "{0}",
        head="68000 class, repaired algorithm, all programs <= %d items" % n)
    cfg("PassLoop_MC_abs%s.cfg" % tier, "abs", n, "{1, 2, 126}", "{2}", "{0, 250}",
        head="6809/68HC11/6502 class, all programs <= %d items" % n)
    cfg("PassLoop_MC_86%s.cfg" % tier, "86", n, "{1, 2, 125, 126}", "{2}", "{0}",
        head="8086 class, all programs <= %d items" % n)
cfg("PassLoop_MC_68k_pinned.cfg", "68k", 3, "{1, 2, 126}", "{4}", "{0}", fixed="FALSE", tail=PIN, extra="FALSE",
    head="68000 class, algorithm of the pinned tree: TLC must report the livelock")
cfg("PassLoop_MC_68k_pinned_char.cfg", "68k", 4, "{1}", "{4}", "{0}", fixed="FALSE", tail=PIN2,
    head="pinned algorithm: every non-terminating run has moved a label after padding")
cfg("PassLoop_MC_err.cfg", "68k", 3, "{1}", "{4}", "{0}", ill="TRUE", head="error paths: undefined / doubly defined symbols")
cfg("PassLoop_MC_Y_fixed.cfg", "86", 4, "{1, 126}", "{2}", "{0}", throw="TRUE", tmax=2,
    head="option -Y with the repair (discard only in early passes): all properties hold")
cfg("PassLoop_MC_Y.cfg", "86", 4, "{126}", "{2}", "{0}", labels='{"la"}', throw="TRUE", head="option -Y (ThrowErrors): TLC must report the oscillation")

GEN = "SPECIFICATION GSpec\n"
GTAIL = SAFE + "ACTION_CONSTRAINT OnDone\n"
# quick tier: one run per class is (M) and (G) at once: all invariants + Termination + export of every program
cfg("PassLoop_Gen_68k.cfg", "68k", 4, "{1, 126}", "{4}", "{0}", tail=GTAIL, spec=GEN,
    head="(M)+(G) 68000 class, repaired algorithm, every program <= 4 items: check and export")
cfg("PassLoop_Gen_abs.cfg", "abs", 4, "{1, 126}", "{2}", "{0, 250}", tail=GTAIL, spec=GEN,
    head="(M)+(G) 6809/68HC11/6502 class, every program <= 4 items: check and export")
cfg("PassLoop_Gen_86.cfg", "86", 4, "{1, 125, 126}", "{2}", "{0}", tail=GTAIL, spec=GEN,
    head="(M)+(G) 8086 class, every program <= 4 items: check and export")
ALLSELF = '{"labs", "lvar", "lrel"}'
# statements that are label, padding trigger and reference at once (lab: dc.w lab / dc.w * / tab: dc.w r0-tab /
# lab: bra lab): every program <= 3 items over a small base alphabet, checked and exported like the others
cfg("PassLoop_Gen_self68k.cfg", "68k", 3, "{1}", "{2}", "{0}", offs="{}", selfk=ALLSELF, tail=GTAIL, spec=GEN,
    head="(M)+(G) 68000/MSP430 class with self-referencing padded statements, every program <= 3 items")
cfg("PassLoop_Gen_selfabs.cfg", "abs", 3, "{1}", "{2}", "{250}", offs="{}", selfk=ALLSELF, tail=GTAIL, spec=GEN,
    head="(M)+(G) 6809/68HC11/6502 class with self-referencing statements, every program <= 3 items")
cfg("PassLoop_Gen_self86.cfg", "86", 3, "{1}", "{2}", "{0}", offs="{}", selfk=ALLSELF, tail=GTAIL, spec=GEN,
    head="(M)+(G) 8086 class with self-referencing statements, every program <= 3 items")
cfg("PassLoop_MC_self68k_pinned.cfg", "68k", 3, "{1}", "{2}", "{0}", offs="{}", selfk=ALLSELF, fixed="FALSE", tail=PIN2,
    head="pinned SymbolAdder with self-referencing statements: livelock only with a patched label")
# ASSUME of the direct/base page: 0..2 Assume items around references; origin 254 puts a label on either side
# of the page boundary with 2..3 items
cfg("PassLoop_Gen_pageabs.cfg", "abs", 4, "{1}", "{2}", "{254}", offs="{}", pages="{0, 1}", tail=GTAIL, spec=GEN,
    head="(M)+(G) 6809/65CE02 with ASSUME DPR/B: every program <= 4 items")
cfg("PassLoop_MC_page_leak.cfg", "abs", 4, "{1}", "{2}", "{254}", offs="{}", pages="{1}", preset="FALSE",
    tail="INVARIANTS TypeOK Fixpoint\n",
    head="a generator that resets the assumed page only at start-up: TLC must report Fixpoint violated")
# name scopes: SECTION / ENDSECTION / FORWARD around definitions and references of ONE name in two spellings
# ("la", "LA": the same symbol without -U), so that a section-local definition can stand behind its use while an
# outer scope has a symbol of the same name; origin 253: the outer symbol lies below, the local one above $100
ALIAS = '{{"la", "LA"}}'
cfg("PassLoop_Gen_sectabs.cfg", "abs", 5, "{}", "{2}", "{253}", labels='{"la", "LA"}', offs="{}", sects='{"s"}', alias=ALIAS, kinds='{"var"}',
    tail=GTAIL, spec=GEN,
    head="(M)+(G) 6809/68HC11/6502 class with SECTION/ENDSECTION/FORWARD, one name in two spellings, every program <= 5 items")
# nested sections and names with a section in brackets (la[], la[PARENT0], la[PARENT], la[s]); one spelling
cfg("PassLoop_Gen_nestabs.cfg", "abs", 5, "{}", "{2}", "{253}", labels='{"la"}', offs="{}", sects='{"s", "t"}', kinds='{"abs"}',
    quals="{8, 9, 0, 1}", tail=GTAIL, spec=GEN,
    head="(M)+(G) nested SECTIONs, data words with name[section] operands, every program <= 5 items")
# thorough tier: one item more, all reference kinds / the other two target classes / option -U
cfg("PassLoop_Gen_sectabs6.cfg", "abs", 6, "{}", "{2}", "{253}", labels='{"la", "LA"}', offs="{}", sects='{"s"}', alias=ALIAS, kinds='{"var", "abs"}',
    tail=GTAIL, spec=GEN, head="(M)+(G) thorough: sections + FORWARD, abs class, every program <= 6 items")
cfg("PassLoop_Gen_nestabs6.cfg", "abs", 6, "{}", "{2}", "{253}", labels='{"la"}', offs="{}", sects='{"s", "t"}', kinds='{"abs"}',
    quals="{8, 9, 0, 1, 2}", tail=GTAIL, spec=GEN, head="(M)+(G) thorough: nested sections, every program <= 6 items")
cfg("PassLoop_Gen_sect68k.cfg", "68k", 5, "{1}", "{2}", "{0}", labels='{"la", "LA"}', offs="{}", sects='{"s"}', alias=ALIAS, kinds='{"var", "rel"}',
    tail=GTAIL, spec=GEN, head="(M)+(G) thorough: sections + FORWARD, 68000 class (padding moves the local label)")
cfg("PassLoop_Gen_sect86.cfg", "86", 5, "{126}", "{2}", "{0}", labels='{"la", "LA"}', offs="{}", sects='{"s"}', alias=ALIAS, kinds='{"var"}',
    tail=GTAIL, spec=GEN, head="(M)+(G) thorough: sections + FORWARD, 8086 class")
cfg("PassLoop_Gen_sectabsU.cfg", "abs", 5, "{}", "{2}", "{253}", labels='{"la", "LA"}', offs="{}", sects='{"s"}', alias=ALIAS, kinds='{"var"}', csens="TRUE",
    tail=GTAIL, spec=GEN, head="(M)+(G) thorough: option -U, la and LA are different names")
cfg("PassLoop_MC_sect_accident.cfg", "abs", 4, "{}", "{2}", "{253}", labels='{"la"}', offs="{}", sects='{"s"}', extra="FALSE",
    tail="INVARIANTS TypeOK FixpointAlsoWhenIndefinite\n",
    head="the accident the manual describes under FORWARD: TLC must refute Fixpoint without the ScopeSafe premise")
for c, fills, absw, orgs in (("68k", "{1, 2, 3, 4, 118}", "{2, 4}", "{0, 1}"), ("abs", "{1, 2, 3, 4, 120}", "{2}", "{0, 250}"),
                             ("86", "{1, 2, 3, 4, 119}", "{2}", "{0}")):
    cfg("PassLoop_Sim_%s.cfg" % c, c, 12, fills, absw, orgs, labels='{"la", "lb", "lc"}', offs="{2}", complete="TRUE", selfk='{"labs", "lvar", "lrel"}',
        tail="INVARIANTS TypeOK Fixpoint ExtraPassIsStutter\nACTION_CONSTRAINT OnDone\n", spec="INIT GInit\nNEXT GNext\n",
        head="simulation: %s class, programs <= 12 items (+ closing definitions), 3 labels" % c)
for c in CLS:
    d = dict(CLS[c]); d.pop("RelFpuOK")
    # the labels / sections of the scope alphabets (PassLoop_Gen_sect*.cfg) are known here too: their layouts are
    # judged in the same TLC run as the other programs of the class
    d.update(Labels='{"la", "lb", "lc", "LA", "La"}', Fills="{}", AbsWidths="{2, 4}", EquOffs="{}", SelfKinds="{}", Pages="{}",
             RefKinds="{}", Sects='{"s", "t"}', Quals="{8}", Alias='{{"la", "LA", "La"}}', CaseSens="FALSE")
    with open(os.path.join(SPEC, "PassLoop_Obs_%s.cfg" % c), "w") as f:
        f.write("\\* verdict on decoded layouts, %s class\nCONSTANTS\n" % c + "".join("  %s = %s\n" % kv for kv in d.items()))
        f.write("INIT OInit\nNEXT ONext\nPOSTCONDITION Accepted\nCHECK_DEADLOCK FALSE\n")
    if c == "abs":      # option -U
        d.update(CaseSens="TRUE")
        with open(os.path.join(SPEC, "PassLoop_Obs_sectabsU.cfg"), "w") as f:
            f.write("\\* verdict on decoded layouts, abs class, option -U\nCONSTANTS\n" + "".join("  %s = %s\n" % kv for kv in d.items()))
            f.write("INIT OInit\nNEXT ONext\nPOSTCONDITION Accepted\nCHECK_DEADLOCK FALSE\n")
