CONSTANTS MaxLen = 5 MaxAddr = 24 MaxDepth = 2 Segs = {"code", "data"} StructSeg = "struct"
SPECIFICATION Spec
INVARIANTS SegIsolation SwitchKeepsCounters LabelIsExec DephaseRestores GhostAgrees PhaseSetsExec AlignIsNextMultiple AdvanceBySize SaveRestoreLIFO CpuEntersCode StructEmitsNothing StructOffsets
CHECK_DEADLOCK FALSE
