\* page layout as coded with PAGE 0,w: TLC must report LinesFit violated (WidthNeedsLength): every physical line fits the width, every page that was not ended by a
\* chapter break holds exactly the page length
CONSTANTS Modes = {"page"} StepsUsage = 1 StepsXref = 1 StepsSect = 1 StepsPage = 3 MaxAddr = 1 MaxLen = 1 Gran = 1 RetractMode = "none"
  Keys = {"a"} MainFile = "m" IncFiles = {} MaxLineNo = 1 SectNames = {"X"} MaxDepth = 1
  PageLens = {0, 2} PageWidths = {0, 3, 4} LineLens = {0, 3, 4, 5, 9} HeaderLen = 7 Fixed = FALSE
SPECIFICATION Spec
INVARIANTS LinesFit PagesFull
CHECK_DEADLOCK FALSE
