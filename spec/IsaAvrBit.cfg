\* default constants (checks/ext_isavar.py writes per-run copies: Cpu = each AVR device of the run, Mode = "rotate" in the
\* quick tier, "all" in the thorough tier).  The whole finite case graph is explored.
CONSTANTS Cpu = "ATMEGA128" Salt = 1 Mode = "all"
INIT BInit
NEXT BNext
INVARIANTS PlanRuns SymMeaning BitTransparent FarIsError BDump
CHECK_DEADLOCK FALSE
