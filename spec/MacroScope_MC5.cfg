CONSTANTS Families = {"free5", "full4", "focus7", "nop4", "db4", "incl4"}
 Family <- FullFamily
 MaxSects = 2
 MaxDepth = 2
 Fixed = {}
INIT Init
NEXT Next
INVARIANTS InvAllDump
CHECK_DEADLOCK FALSE
