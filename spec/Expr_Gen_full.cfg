\* thorough: the full operand alphabet
CONSTANTS Level = 2 MaxDepth = 0
SPECIFICATION Spec
INVARIANT Emit
CHECK_DEADLOCK FALSE
