CONSTANTS IncSave = "reader" LoopLineBy = "count" Kinds = {"rept", "irp"} Counts = {2} Deep = FALSE Pairs = FALSE Cont = TRUE
SPECIFICATION Spec
INVARIANTS Final
CHECK_DEADLOCK FALSE
