\* thorough: usage list = occupied addresses = image of the code file; warning 90 <=> intersection (word granularity)
CONSTANTS Mode = "usage" MaxSteps = 6 MaxAddr = 6 MaxLen = 3 Gran = 2 RetractMode = "normal"
  Keys = {"a"} MainFile = "m" IncFiles = {} MaxLineNo = 1 SectNames = {"X"} MaxDepth = 1
  PageLens = {0} PageWidths = {0} MaxLine = 0 HeaderLen = 1 Fixed = FALSE
SPECIFICATION Spec
INVARIANTS UsageSaysOccupied WarnIffIntersect NoStaleIndex ChunksApart UsageEqualsImage
CHECK_DEADLOCK FALSE
