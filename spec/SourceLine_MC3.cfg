CONSTANTS MaxArgs = 2 Rich = TRUE Product = FALSE
SPECIFICATION Spec
INVARIANTS Immaterial CanonSplitsExactly CommentCut
CHECK_DEADLOCK FALSE
