\* quick: the curated programs (<= 3 FUNCTION statements) under default / -U / RADIX 16 where it matters; every case is printed for the replay
CONSTANTS ArgPrint = "decimal" StrEscape = "dec3" RecursionGuard = TRUE ArgParen = TRUE WholeIdent = TRUE
          Level = 1 MaxDefs = 3 EmitCases = TRUE ExcludeKnown = TRUE
SPECIFICATION Spec
INVARIANTS Agreement DefAgreement TokenRoundTrip
CHECK_DEADLOCK FALSE
