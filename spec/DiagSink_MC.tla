---------------------------- MODULE DiagSink_MC ----------------------------
(* C20, dimension "-E targets x SEVERAL sources in one invocation": model check and generator.            *)
(* A job = the sources of one command line (1..3 of them, each of a shape of DiagPos!SrcShapes: clean,    *)
(* faulty line in the main file / in a shared include file / in a nested own include file / in a macro or *)
(* REPT body / behind continuation lines / complaining in the second pass / warnings only).  Every source *)
(* is run through the machine of MacroProc (positions read from the tag chain) and through the declarative *)
(* expansion (the place the text puts every statement) - as DiagPos_MC does for one source - and the       *)
(* messages of all sources are fed, in command-line order, to the error-target machine of DiagPos (Sink*,  *)
(* shaped like as.c main() / AssembleFile() and asmerr.c WrErrorString()) under every form of -E:          *)
(*   none  no -E (default !2)      "!0" "!1" "!2"  a standard handle                                       *)
(*   named -E err.log              per            -E without a name: <source>.log per source               *)
(* Invariants:                                                                                             *)
(*   SourcesPlanted      per source: the machine's messages carry exactly the planted positions            *)
(*   SinkMatchesDecl     per form: every place (file / handle) holds what the manual's sentence says - the *)
(*                       messages of the sources sent there, in order - and nothing else exists            *)
(*   EveryFaultNamedWhereSent   C20 itself: every statement that raises a message is named (file, line,    *)
(*                       chain) in the place the option set sends its source's messages to                 *)
(*   NoForeignInLog      with -E alone the log of a source names only statements reached from that source  *)
(* With Dump every job is printed with, per form x reporting options and per place, the expected messages.  *)
EXTENDS DiagPos, Json
CONSTANTS Tier

VARIABLES job, r
vars == <<job, r>>
Q == Tier = "quick"

Forms == {"none", "!0", "!1", "!2", "named", "per"}
NamedFile == "err.log"
PathOf(e) == CASE e = "none" -> DefaultErrorPath [] e = "named" -> NamedFile [] e = "per" -> "" [] OTHER -> e
\* reporting options tried with a form (native and -gnuerrors for every form; -n, -x spread over them)
RunOpts == {[x |-> 0, n |-> TRUE, gnu |-> FALSE, e |-> "none"], [x |-> 1, n |-> FALSE, gnu |-> TRUE, e |-> "none"],
            [x |-> 2, n |-> FALSE, gnu |-> FALSE, e |-> "!2"], [x |-> 0, n |-> TRUE, gnu |-> TRUE, e |-> "!2"],
            [x |-> 1, n |-> TRUE, gnu |-> FALSE, e |-> "!1"], [x |-> 2, n |-> TRUE, gnu |-> TRUE, e |-> "!1"],
            [x |-> 0, n |-> TRUE, gnu |-> FALSE, e |-> "named"], [x |-> 2, n |-> FALSE, gnu |-> TRUE, e |-> "named"],
            [x |-> 1, n |-> TRUE, gnu |-> FALSE, e |-> "per"], [x |-> 0, n |-> FALSE, gnu |-> TRUE, e |-> "per"],
            [x |-> 2, n |-> TRUE, gnu |-> FALSE, e |-> "per"]}

QShapes == {"clean", "main", "incl", "macro", "late"}
ShapeSeqs == IF Q THEN UNION {[1..n -> QShapes] : n \in 1..3}
             ELSE UNION {[1..n -> SrcShapes] : n \in 1..2} \cup {s \in [1..3 -> SrcShapes] : s[2] \in QShapes \cup {"nest", "warn"}}
Jobs == {[tag |-> <<"multi", sh>>, srcs |-> [i \in DOMAIN sh |-> SrcName(i)], files |-> MultiFiles(sh)] : sh \in ShapeSeqs}

\* every source is run on its own (AssembleFile() starts from scratch: symbols, macros, line counters)
One(files, main) ==
  LET m == RunMachine(files, <<>>, main)
      d == ExpandDecl(files, <<>>, main)
  IN [errs |-> m.errs, devs |-> m.devs, pdevs |-> m.pdevs, raw |-> d.raw, indef |-> d.indef,
      mout |-> AllDiags(m.delivered), dout |-> AllDiags(d.raw)]
Compute(j) == [k \in DOMAIN j.srcs |-> One(j.files, j.srcs[k])]

K == DOMAIN job.srcs
Definite == \A k \in K : ~r[k].indef /\ r[k].errs = 0 /\ (Fixed = DevNames \/ (r[k].devs = {} /\ r[k].pdevs = {}))
Places == {NamedFile, "!1", "!2", "!0"} \cup {LogOf(job.srcs[k]) : k \in K}
MsgsM == [k \in K |-> r[k].mout]
MsgsD == [k \in K |-> r[k].dout]
FaultPositions(flat, pass) == LET s == SelectSeq(flat, LAMBDA e : Raises(e, pass)) IN [k \in DOMAIN s |-> s[k].pos]
\* the positions the statements of a source are planted at, in the order they complain (pass 2 only without pass-1 errors)
Planted(raw) ==
  LET p1 == FaultPositions(raw, 1)
      two == ~(\E i \in DOMAIN raw : Raises(raw[i], 1) /\ FaultNum(OpOf(raw[i].l)) >= 1000) /\ NeedsPass2(raw)
  IN IF two THEN p1 \o FaultPositions(raw, 2) ELSE p1

SourcesPlanted ==
  (r # <<>> /\ Definite) => \A k \in K : [i \in DOMAIN r[k].mout |-> r[k].mout[i].pos] = Planted(r[k].raw)
SinkMatchesDecl ==
  (r # <<>> /\ Definite) => /\ DistinctLogs(job.srcs)
                            /\ \A e \in Forms : SinkAgreesWithDecl(PathOf(e), job.srcs, MsgsM, Places)
EveryFaultNamedWhereSent ==
  (r # <<>> /\ Definite) =>
     \A e \in Forms : LET s == SinkRun(PathOf(e), job.srcs, MsgsM)
                     IN \A k \in K : \A p \in Range(Planted(r[k].raw)) :
                          \E i \in DOMAIN SinkHolds(s, TargetOf(PathOf(e), job.srcs[k])) :
                             SinkHolds(s, TargetOf(PathOf(e), job.srcs[k]))[i].pos = p
NoForeignInLog ==
  (r # <<>> /\ Definite) =>
     LET s == SinkRun("", job.srcs, MsgsM)
     IN \A k \in K : \A i \in DOMAIN SinkHolds(s, LogOf(job.srcs[k])) :
          LET p == SinkHolds(s, LogOf(job.srcs[k]))[i].pos
          IN p = Internal \/ p.gnu[Len(p.gnu)].n = <<job.srcs[k]>>          \* the outermost file of the chain is that source

\* --- what is printed for the replay ---------------------------------------------------------------------------
Str(ts) == Glue(ts)
El(e) == [k |-> e.k, n |-> Str(e.n), i |-> e.i, b |-> e.b]
Shown(d, opt) ==
  [num |-> IF opt.n THEN d.num ELSE 0, cls |-> d.cls,
   file |-> IF d.pos = Internal THEN "INTERNAL" ELSE IF opt.gnu THEN Str(d.pos.gnu[1].n) ELSE Str(d.pos.native[1].n),
   line |-> IF d.pos = Internal THEN 0 ELSE IF opt.gnu THEN d.pos.gnu[1].b ELSE d.pos.native[1].b,
   chain |-> IF opt.gnu \/ d.pos = Internal THEN <<>> ELSE [i \in 1..(Len(d.pos.native) - 1) |-> El(d.pos.native[i + 1])],
   incl |-> IF ~opt.gnu \/ d.pos = Internal THEN <<>> ELSE [i \in 1..(Len(d.pos.gnu) - 1) |-> [file |-> Str(d.pos.gnu[i + 1].n), line |-> d.pos.gnu[i + 1].b]]]
Expected(ds, opt) == [k \in DOMAIN ds |-> Shown(ds[k], opt)]
RECURSIVE EnumSet(_)
EnumSet(T) == IF T = {} THEN <<>> ELSE LET o == CHOOSE o \in T : TRUE IN <<o>> \o EnumSet(T \ {o})
OptSeq == EnumSet(RunOpts)
\* per place: the messages the declarative side expects there (want) and what the as-coded machines put there (coded)
Out == [tag |-> job.tag, p |-> job.files, srcs |-> job.srcs,
        indef |-> \E k \in K : r[k].indef \/ r[k].errs # 0,
        devs |-> UNION {r[k].devs : k \in K}, pdevs |-> UNION {r[k].pdevs : k \in K},
        runs |-> [i \in DOMAIN OptSeq |->
                    LET o == OptSeq[i]
                        s == SinkRun(PathOf(o.e), job.srcs, MsgsM)
                    IN [opt |-> o, target |-> [k \in K |-> TargetOf(PathOf(o.e), job.srcs[k])],
                        want |-> [T \in Places |-> Expected(HeldDecl(PathOf(o.e), job.srcs, MsgsD, T), o)],
                        coded |-> [T \in Places |-> Expected(SinkHolds(s, T), o)]]]]

Init == job \in Jobs /\ r = <<>>
Next == r = <<>> /\ r' = Compute(job) /\ UNCHANGED job
Dump == r # <<>> => PrintT(<<"OUT", ToJson(Out)>>)
=============================================================================
