------------------------------ MODULE MacroScope ------------------------------
(***************************************************************************)
(* The MACRO NAME TABLE of AS: how macro names are stored and found.       *)
(*                                                                         *)
(* Part 1  statements and programs of the bounded model                    *)
(* Part 2  the machine, one operator per critical section of the C code    *)
(*           asmmac.c  MacroAdder / AddMacro       -> AddMacro             *)
(*                     FoundMacro_FNode            -> FNode                *)
(*                     FoundMacroByName            -> FoundKey             *)
(*                     ResetMacroDefines           -> NextPass             *)
(*           as.c      ReadMacro + the end of MACRO_OutProcessor (PubSect, *)
(*                     GName loop, GMacro copy)    -> ReadMacro / GName    *)
(*                     Produce_Code ('!' prefix, FoundMacro BEFORE the     *)
(*                     built-in lookup, the macro processor's own          *)
(*                     statements tested first)    -> Call                 *)
(*                     ExpandMacro (UseCounter)    -> Expand               *)
(*                     AssembleFile pass loop      -> Machine              *)
(*           asmif.c   CodeIFDEF                   -> IfDef                *)
(*         Sections (asmallg.c CodeSECTION/CodeENDSECTION, asmpars.c       *)
(*         IdentifySection, GetSectionName) are NOT modelled again: the    *)
(*         operators of spec/Symbols.tla are used on the same state record *)
(*         (INSTANCE Symbols: DoSection, DoEndSection, IdentifySection,    *)
(*         SectName; handles -1 = global, 0.. = index into the list).      *)
(* Part 3  the declarative meaning (doc/pseudo-instructions.md "MACRO",    *)
(*         doc/error-messages.md 1200 / 1815): position arithmetic on the  *)
(*         definition / section history - no handles, no stack, no tree:   *)
(*           - a definition made inside a section is known in that section *)
(*             and its subsections only ("Similar to symbols, macros are   *)
(*             local"); PUBLIC[:PARENT] assigns it to the global level /   *)
(*             the parent instead; GLOBAL[:PARENT] makes an ADDITIONAL     *)
(*             macro there whose name is the section path + '_' + name     *)
(*           - of several known definitions the innermost one is meant     *)
(*             (as for symbols: "the local one will be preferred")         *)
(*           - a second definition of a name for the same section is error *)
(*             1815 "macro double defined", the first one stays            *)
(*           - "the assembler first checks the macro list afterwards looks *)
(*             for processor instructions": a known macro hides a machine  *)
(*             or pseudo instruction of its name; '!' in front of the name *)
(*             suppresses the macro search; a name that is neither is      *)
(*             error 1200 "unknown instruction"                            *)
(*           - in the first pass only definitions made BEFORE the call are *)
(*             known; in every later pass all definitions of the first     *)
(*             pass are known from the first line on (the manual's BSR     *)
(*             example: "the macro definition is immediately available     *)
(*             (from the first pass)"); definitions are made in pass 1 only*)
(*           - a macro defined in a macro body is defined when the outer   *)
(*             macro is expanded, for the section the CALL stands in       *)
(*                                                                         *)
(* Named deviations of the pinned tree (kept, not idealised; Fixed = the   *)
(* set of repaired ones):                                                  *)
(*   GlobCopyUninit    the additional macro of {GLOBAL} is malloc()ed and  *)
(*                     its UseCounter (also LocIntLabel, GlobalSymbols,    *)
(*                     LstMacroExpMod) never initialised: a call of it is  *)
(*                     refused with "too deeply nested/recursive macro     *)
(*                     call" whenever the garbage exceeds NESTMAX          *)
(*   GlobCopyReplaces  the additional macro is entered with Protest=False: *)
(*                     a macro of that name already assigned to the target *)
(*                     section is silently REPLACED (no error 1815) and    *)
(*                     its record freed - also while it is being expanded  *)
(*                     (use after free, crash)                             *)
(*   CoreNotHidden     the macro processor's own statements (IRP IRPN IRPC *)
(*                     REPT WHILE, IF.., MACRO EXITM SHIFT INCLUDE) are    *)
(*                     tested before IsMacro is honoured: a macro of such  *)
(*                     a name can be defined but never called (the manual  *)
(*                     says a "machine or pseudo instruction becomes       *)
(*                     hidden"; reported as drift only)                    *)
(* Both {GLOBAL} deviations are repaired by proposed_fixes/C11-global-     *)
(* macro-copy.diff.                                                        *)
(***************************************************************************)
EXTENDS Integers, Sequences, FiniteSets, TLC

CONSTANTS Families,    \* names of the program families explored in one run
          Family(_),   \* family name -> [alphabet (set of statements, Part 1), maxlen (statements per program),
                       \*                 printlen (programs up to this length are exported for replay)]; MacroScope_MC
          MaxSects,    \* SECTION statements per program
          MaxDepth,    \* nesting depth of sections
          Fixed        \* repaired deviations

Sym == INSTANCE Symbols WITH LOCSYMSIGHT <- 3

ALLDEVS == {"GlobCopyUninit", "GlobCopyReplaces", "CoreNotHidden"}
Repaired(d) == d \in Fixed

(***************************************************************************)
(* Part 1: statements.                                                     *)
(*   [k "sect"]                      SECTION S<j>, j = number of this       *)
(*                                   SECTION statement in the program      *)
(*   [k "ends"]                      ENDSECTION                            *)
(*   [k "def", n, mode]              n MACRO {mode} / body / ENDM; the body *)
(*                                   lays down a byte that names the       *)
(*                                   position i of the statement           *)
(*   [k "defin", o, n, mode]         o MACRO / n MACRO {mode} / byte i /   *)
(*                                   ENDM / byte "tail i" / ENDM           *)
(*   [k "call", n, bang]             [!]n                                  *)
(*   [k "ifdef", n]                  IFDEF n / byte "yes" / ELSEIF / "no"  *)
(* mode: plain | pub {PUBLIC} | pubpar {PUBLIC:PARENT} | glob {GLOBAL} |   *)
(*       globpar {GLOBAL:PARENT}                                           *)
(* Names are strings as the table stores them (upper case).  The class of  *)
(* a name says what the line means when no macro is found.                 *)
(***************************************************************************)
Class(n) == CASE n = "NOP" -> "mach"          \* a machine instruction of the target
              [] n = "DB" -> "pseudo"         \* a pseudo instruction decoded after the macro search
              [] n = "INCLUDE" -> "core"      \* a statement of the macro processor itself
              [] OTHER -> "free"              \* nothing: error 1200

SName(j) == "S" \o ToString(j)
RECURSIVE JoinQ(_, _)
JoinQ(path, n) == IF path = <<>> THEN n ELSE SName(Head(path)) \o "_" \o JoinQ(Tail(path), n)

Depths(p) ==      \* section depth after each statement
  [i \in 0..Len(p) |-> Cardinality({j \in 1..i : p[j].k = "sect"}) - Cardinality({j \in 1..i : p[j].k = "ends"})]
WF(p) == /\ \A i \in 0..Len(p) : Depths(p)[i] \in 0..MaxDepth
         /\ Cardinality({j \in 1..Len(p) : p[j].k = "sect"}) <= MaxSects
Closed(p) == p \o [i \in 1..Depths(p)[Len(p)] |-> [k |-> "ends"]]      \* the renderer closes what is left open

Rec(k, b, n, mode) == [k |-> k, b |-> b, n |-> n, mode |-> mode, uninit |-> FALSE]
NoRec == Rec("none", 0, "", "")
BodyOf(st, i) == IF st.k = "def" THEN Rec("emit", i, "", "") ELSE Rec("def", i, st.n, st.mode)
Ent(w, b, n) == [w |-> w, b |-> b, n |-> n]       \* an entry of the output: body i | tail i | builtin n | yes n | no n

EmptyF == [x \in {} |-> 0]

(***************************************************************************)
(* Part 2: the machine.                                                    *)
(***************************************************************************)
InitM == [cs |-> FALSE, pass |-> 1, errs |-> 0, ekinds |-> {},
          sects |-> <<>>, mom |-> -1, stk |-> <<>>,      \* FirstSection list, MomSectionHandle, SectionStack (Symbols)
          nsec |-> 0,                                    \* SECTION statements met in this pass (their names)
          tab |-> EmptyF,                                \* MacroRoot: <<name, section handle>> -> [rec, defined]
          out |-> <<>>, devs |-> {}, crash |-> FALSE,
          first |-> 0]                                   \* bookkeeping of the model: statement that raised the first error

Emit(s, e) == [s EXCEPT !.out = Append(@, e)]
Dev(s, d) == [s EXCEPT !.devs = @ \cup {d}]

\* FoundMacro_FNode: SearchTree(MacroRoot, name, handle)
FNode(s, h, n) == IF <<n, h>> \in DOMAIN s.tab THEN <<n, h>> ELSE <<>>

\* FoundMacroByName: the current section first, then the saved handles of the section stack (the last one is -1)
RECURSIVE WalkStack(_, _, _)
WalkStack(s, k, n) ==
  IF k > Len(s.stk) THEN <<>>
  ELSE LET r == FNode(s, s.stk[k].h, n) IN IF r # <<>> THEN r ELSE WalkStack(s, k + 1, n)
FoundKey(s, n) == LET r == FNode(s, s.mom, n) IN IF r # <<>> THEN r ELSE WalkStack(s, 1, n)

\* AddMacro + MacroAdder; running = key of the macro being expanded (<<>> = none)
AddMacro(s, n, h, protest, rec, running) ==
  LET key == <<n, h>> IN
  IF key \notin DOMAIN s.tab THEN [s EXCEPT !.tab = @ @@ (key :> [rec |-> rec, defined |-> TRUE])]
  ELSE IF s.tab[key].defined
       THEN IF protest THEN Sym!Err(s, "DoubleMacro")
            ELSE \* ClearMacroRec(old, TRUE); Contents = new - no message
                 LET s1 == Dev([s EXCEPT !.tab[key].rec = rec], "GlobCopyReplaces")
                 IN IF key = running THEN [s1 EXCEPT !.crash = TRUE] ELSE s1
       ELSE [s EXCEPT !.tab[key] = [rec |-> rec, defined |-> TRUE]]      \* first definition of a later pass

\* the GName loop of ReadMacro: prepend section names from the current section up to (excluding) the target
RECURSIVE GNameLoop(_, _, _, _, _)
GNameLoop(s, acc, hsect, k, target) ==
  IF hsect = target \/ k > Len(s.stk) THEN acc
  ELSE GNameLoop(s, Sym!SectName(s, hsect) \o "_" \o acc, s.stk[k].h, k + 1, target)
GName(s, n, target) == GNameLoop(s, n, s.mom, 1, target)

\* ReadMacro ... ENDM (nothing is executed in between: the body is recorded)
ReadMacro(s, n, mode, rec, running) ==
  IF s.pass # 1 THEN s                         \* "Definition nur im ersten Pass": the body is skipped (WaitENDM)
  ELSE LET q  == IF mode \in {"pub", "glob"} THEN Sym!QGlob ELSE IF mode \in {"pubpar", "globpar"} THEN Sym!QParent(1) ELSE Sym!NoQ
           id == IF mode = "plain" THEN [ok |-> TRUE, h |-> s.mom] ELSE Sym!IdentifySection(s, q)
       IN IF ~id.ok THEN Sym!Err(Sym!Err(s, "InvSection"), "UnknownMacArg")     \* ErrFlag: not defined, body skipped
          ELSE LET pubsect == IF mode \in {"pub", "pubpar"} THEN id.h ELSE s.mom
                   s1 == AddMacro(s, n, pubsect, TRUE, rec, running)
               IN IF mode \in {"glob", "globpar"} /\ s.stk # <<>>
                  THEN AddMacro(s1, GName(s, n, id.h), id.h, Repaired("GlobCopyReplaces"),
                                [rec EXCEPT !.uninit = ~Repaired("GlobCopyUninit")], running)
                  ELSE s1

\* ExpandMacro + the lines of the body going through Produce_Code again
Expand(s, key) ==
  LET rec == s.tab[key].rec IN
  IF rec.uninit THEN Sym!Err(Dev(s, "GlobCopyUninit"), "RekMacro")       \* garbage UseCounter > NestMax (as observed)
  ELSE IF rec.k = "emit" THEN Emit(s, Ent("body", rec.b, ""))
  ELSE LET s1 == ReadMacro(s, rec.n, rec.mode, Rec("emit", rec.b, "", ""), key)
       IN IF s1.crash THEN s1 ELSE Emit(s1, Ent("tail", rec.b, ""))

\* Produce_Code for a line whose operation field is [!]n
Call(s, n, bang) ==
  LET key == IF bang THEN <<>> ELSE FoundKey(s, n)           \* SearchMacros && FoundMacro()
  IN IF Class(n) = "core" /\ ~(key # <<>> /\ Repaired("CoreNotHidden"))
     THEN Emit(IF key # <<>> THEN Dev(s, "CoreNotHidden") ELSE s, Ent("builtin", 0, n))     \* Found before IsMacro
     ELSE IF key # <<>> THEN Expand(s, key)
     ELSE IF Class(n) = "free" THEN Sym!Err(s, "UnknownInstruction")
     ELSE Emit(s, Ent("builtin", 0, n))

\* CodeIFDEF: IsSymbolDefined || FindFunction || FoundMacroByName (the names of the model are never symbols)
IfDef(s, n) == Emit(s, Ent(IF FoundKey(s, n) # <<>> THEN "yes" ELSE "no", 0, n))

Step(s, st, i) ==
  CASE st.k = "sect"  -> Sym!DoSection([s EXCEPT !.nsec = @ + 1], SName(s.nsec + 1))
    [] st.k = "ends"  -> Sym!DoEndSection(s, "")
    [] st.k = "def"   -> ReadMacro(s, st.n, st.mode, BodyOf(st, i), <<>>)
    [] st.k = "defin" -> ReadMacro(s, st.o, "plain", BodyOf(st, i), <<>>)
    [] st.k = "call"  -> Call(s, st.n, st.bang)
    [] OTHER          -> IfDef(s, st.n)

RECURSIVE RunPass(_, _, _)
RunPass(p, i, s) ==
  IF i > Len(p) \/ s.crash THEN s
  ELSE LET t == Step(s, p[i], i)
       IN RunPass(p, i + 1, IF s.first = 0 /\ (t.errs > 0 \/ t.crash) THEN [t EXCEPT !.first = i] ELSE t)

\* AssembleFile_InitPass: sections closed, ResetMacroDefines(); the section list and the macro tree stay
NextPass(s) == [s EXCEPT !.pass = @ + 1, !.mom = -1, !.stk = <<>>, !.nsec = 0, !.out = <<>>,
                         !.tab = [k \in DOMAIN @ |-> [@[k] EXCEPT !.defined = FALSE]]]

\* the pass loop: `while (ErrorCount == 0 && Repass)`; more = the program holds a forward reference
Pass1(p) == RunPass(p, 1, InitM)
Machine(p, more) == LET s1 == Pass1(p) IN IF s1.crash \/ s1.errs > 0 \/ ~more THEN s1 ELSE RunPass(p, 1, NextPass(s1))

Documented == {"UnknownInstruction", "DoubleMacro"}        \* errors the manual names for these situations
Outcome(crash, ek, out) ==
  [crash |-> crash, rej |-> ek # {}, ek |-> ek \cap Documented, out |-> IF crash \/ ek # {} THEN <<>> ELSE out]
MOutcome(s) == Outcome(s.crash, s.ekinds, s.out)

(***************************************************************************)
(* Part 3: the declarative meaning.  A section is the path of SECTION      *)
(* ordinals that leads to it (<<>> = global); "known in a section and its  *)
(* subsections" = the definition's section is a prefix of the caller's.    *)
(***************************************************************************)
DInit == [defs |-> <<>>, path |-> <<>>, nsec |-> 0, ek |-> {}, out |-> <<>>, first |-> 0]
IsPrefix(a, b) == Len(a) <= Len(b) /\ SubSeq(b, 1, Len(a)) = a
Front(q) == SubSeq(q, 1, Len(q) - 1)
Known(defs, path, n) == {j \in 1..Len(defs) : defs[j].n = n /\ IsPrefix(defs[j].sec, path)}
\* the innermost known definition (0 = none); two definitions for one section: the first stays
Resolve(defs, path, n) ==
  LET K == Known(defs, path, n) IN
  IF K = {} THEN 0
  ELSE LET deep == CHOOSE d \in {Len(defs[j].sec) : j \in K} : \A j \in K : Len(defs[j].sec) <= d
       IN CHOOSE j \in K : Len(defs[j].sec) = deep /\ \A j2 \in K : Len(defs[j2].sec) = deep => j <= j2

DErr(D, kind) == [D EXCEPT !.ek = @ \cup {kind}]
DEmit(D, e) == [D EXCEPT !.out = Append(@, e)]
DDefine(D, n, sec, rec) ==
  IF \E j \in 1..Len(D.defs) : D.defs[j].n = n /\ D.defs[j].sec = sec THEN DErr(D, "DoubleMacro")
  ELSE [D EXCEPT !.defs = Append(@, [n |-> n, sec |-> sec, rec |-> rec])]

DReadMacro(D, n, mode, rec) ==
  LET p == D.path IN
  IF mode \in {"pubpar", "globpar"} /\ p = <<>> THEN DErr(D, "InvSection")    \* "only parent sections ... are valid"
  ELSE LET sec == IF mode = "pub" THEN <<>> ELSE IF mode = "pubpar" THEN Front(p) ELSE p
           D1  == DDefine(D, n, sec, rec)
       IN IF mode \in {"glob", "globpar"} /\ p # <<>>       \* "only has an effect when it is used from within a section"
          THEN LET tgt == IF mode = "glob" THEN <<>> ELSE Front(p)
               IN DDefine(D1, JoinQ(SubSeq(p, Len(tgt) + 1, Len(p)), n), tgt, rec)
          ELSE D1

\* later = a pass after the first: all definitions known, none made
DCall(D, n, bang, later) ==
  LET j == IF bang THEN 0 ELSE Resolve(D.defs, D.path, n) IN
  IF j = 0 THEN (IF Class(n) = "free" THEN DErr(D, "UnknownInstruction") ELSE DEmit(D, Ent("builtin", 0, n)))
  ELSE LET rec == D.defs[j].rec IN
       IF rec.k = "emit" THEN DEmit(D, Ent("body", rec.b, ""))
       ELSE DEmit(IF later THEN D ELSE DReadMacro(D, rec.n, rec.mode, Rec("emit", rec.b, "", "")), Ent("tail", rec.b, ""))

DStep(D, st, i, later) ==
  CASE st.k = "sect"  -> [D EXCEPT !.nsec = @ + 1, !.path = Append(@, D.nsec + 1)]
    [] st.k = "ends"  -> [D EXCEPT !.path = Front(@)]
    [] st.k = "def"   -> IF later THEN D ELSE DReadMacro(D, st.n, st.mode, BodyOf(st, i))
    [] st.k = "defin" -> IF later THEN D ELSE DReadMacro(D, st.o, "plain", BodyOf(st, i))
    [] st.k = "call"  -> DCall(D, st.n, st.bang, later)
    [] OTHER          -> DEmit(D, Ent(IF Resolve(D.defs, D.path, st.n) # 0 THEN "yes" ELSE "no", 0, st.n))

RECURSIVE DRun(_, _, _, _)
DRun(p, i, D, later) ==
  IF i > Len(p) THEN D
  ELSE LET E == DStep(D, p[i], i, later)
       IN DRun(p, i + 1, IF D.first = 0 /\ E.ek # {} THEN [E EXCEPT !.first = i] ELSE E, later)
DPass1(p) == DRun(p, 1, DInit, FALSE)
Decl(p, more) ==
  LET D1 == DPass1(p) IN
  IF D1.ek # {} \/ ~more THEN D1 ELSE DRun(p, 1, [DInit EXCEPT !.defs = D1.defs], TRUE)
\* no error before statement k, on either side (a program rejected before its last statement says nothing new)
CleanBefore(r, k) == r.m1.first \in {0} \cup k..1000 /\ r.d1.first \in {0} \cup k..1000
DOutcome(D) == Outcome(FALSE, D.ek, D.out)

\* the manual says nothing about IFDEF of a macro name (IFDEF <symbol>): programs with it are observed, not judged
Indef(p) == \E i \in 1..Len(p) : p[i].k = "ifdef"

(***************************************************************************)
(* Claims.                                                                 *)
(***************************************************************************)
\* The claims are stated on the runs of one program: m1 / m2 / m3 = the machine after one, two, three passes (m2 = m3 =
\* m1 when the pass loop ends after pass 1), d1 / d2 = the declarative side for one pass / with a forward reference.
Runs(p) ==
  LET m1 == Pass1(p)
      stop == m1.crash \/ m1.errs > 0
      m2 == IF stop THEN m1 ELSE RunPass(p, 1, NextPass(m1))
      m3 == IF stop \/ m2.crash THEN m2 ELSE RunPass(p, 1, NextPass(m2))
      d1 == DPass1(p)
      d2 == IF d1.ek # {} THEN d1 ELSE DRun(p, 1, [DInit EXCEPT !.defs = d1.defs], TRUE)
  IN [m1 |-> m1, m2 |-> m2, m3 |-> m3, d1 |-> d1, d2 |-> d2]

\* lookup as coded = the declarative rule, unless a named deviation fired
Agrees(r) == /\ r.m1.devs = {} => MOutcome(r.m1) = DOutcome(r.d1)
             /\ r.m2.devs = {} => MOutcome(r.m2) = DOutcome(r.d2)
NoDevWhenFixed(r) == Fixed = ALLDEVS => r.m1.devs = {} /\ r.m2.devs = {}
DevsNamed(r) == r.m2.devs \subseteq ALLDEVS \ Fixed /\ r.m1.devs \subseteq r.m2.devs
\* every pass after the first one reads the same table: pass 3 lays down what pass 2 did
LaterPassesAlike(r) == (r.m2.pass = 2 /\ ~r.m2.crash) => r.m3.out = r.m2.out /\ r.m3.tab = NextPass(r.m2).tab

\* the table as a whole: for EVERY name and EVERY section of the program - not only for the calls the program
\* happens to make - FoundMacroByName() finds the innermost known definition
RECURSIVE PathOf(_, _)
PathOf(s, h) == IF h = -1 THEN <<>> ELSE Append(PathOf(s, s.sects[h + 1].parent), h + 1)
RECURSIVE StkOf(_, _)
StkOf(s, h) == IF h = -1 THEN <<>> ELSE <<[h |-> s.sects[h + 1].parent]>> \o StkOf(s, s.sects[h + 1].parent)
AllNames(p) == UNION {({p[i].n} \cup (IF p[i].k = "defin" THEN {p[i].o} ELSE {})) : i \in {j \in 1..Len(p) : p[j].k \notin {"sect", "ends"}}}
QNames(p) == AllNames(p) \cup {JoinQ(q, n) : q \in {<<1>>, <<2>>, <<1, 2>>}, n \in AllNames(p)}
TableIsInnermostKnown(p, r) ==
  LET s == r.m1   D == r.d1 IN
  (s.devs = {} /\ ~s.crash) =>
    \A h \in -1..(Len(s.sects) - 1) : \A n \in QNames(p) :
      LET key == FoundKey([s EXCEPT !.mom = h, !.stk = StkOf(s, h)], n)
          j   == Resolve(D.defs, PathOf(s, h), n)
      IN (key = <<>>) = (j = 0) /\ (key # <<>> => [s.tab[key].rec EXCEPT !.uninit = FALSE] = D.defs[j].rec)

(***************************************************************************)
(* Exploration: the state is the program text (and the family it belongs   *)
(* to); every program over the family's alphabet up to its length bound is *)
(* a state.                                                                *)
(***************************************************************************)
VARIABLES prog, fam
Init == prog = <<>> /\ fam \in Families
Next == \E st \in Family(fam).alphabet :
          Len(prog) < Family(fam).maxlen /\ WF(Append(prog, st)) /\ prog' = Append(prog, st) /\ UNCHANGED fam
Spec == Init /\ [][Next]_<<prog, fam>>

P == Closed(prog)
R == Runs(P)
InvAgrees == Agrees(R)
InvNoDevWhenFixed == NoDevWhenFixed(R)
InvDevsNamed == DevsNamed(R)
InvLaterPassesAlike == LaterPassesAlike(R)
InvTable == TableIsInnermostKnown(P, R)
\* all of them on ONE evaluation of the runs (what the configurations use)
InvAll == LET r == Runs(P) IN Agrees(r) /\ NoDevWhenFixed(r) /\ DevsNamed(r) /\ LaterPassesAlike(r) /\ TableIsInnermostKnown(P, r)
=============================================================================
