------------------------------ MODULE DiagDest ------------------------------
(***************************************************************************)
(* WHERE a diagnostic is written (C02, extension "diagdest").              *)
(*                                                                         *)
(* Diag.tla / Driver.tla say WHETHER a message passes the filters and is   *)
(* counted (emE / emW / emF: "really written").  This module adds the      *)
(* dimension they do not have: the DESTINATIONS the option set selects and *)
(* the listing-control state of the source at the moment of the message.   *)
(*                                                                         *)
(*   o.lm   listing destination  "none"            no listing (default)    *)
(*                               "con"   -l        listing on the console  *)
(*                                                 (LstName = "!1"), every *)
(*                                                 pass                    *)
(*                               "file"  -L        <source>.lst, rewritten *)
(*                                                 in every pass           *)
(*                               "olist" -L -olist <name>   the same under *)
(*                                                 a name of its own       *)
(*   lon    ListOn (asmdef.c)    0 OFF  1 ON  2 NOSKIPPED  3 PURECODE      *)
(*          set by the LISTING statement, saved / restored by SAVE /       *)
(*          RESTORE, back to 1 at the start of every pass of every file    *)
(*          (as.c AssembleFile_InitPass)                                   *)
(*                                                                         *)
(* asmerr.c WrErrorString(), behind the counting:                          *)
(*     if (strcmp(LstName, "/dev/null") && !Fatal) {                       *)
(*         WrLstLine(...);  ErrorsWrittenToListing = True;  }              *)
(*     if (strcmp(LstName, "!1") || !ListOn || !ErrorsWrittenToListing)    *)
(*         ... the error channel (-E) ...                                  *)
(* asmsub.c WrLstLine():  if ((ListOn == 0) || ListToNull) return;         *)
(*                                                                         *)
(* Named deviations (modelled as coded):                                   *)
(*  ConsoleListingReplacesChannel   with -l a non-fatal message inside a   *)
(*        listed region goes to the console listing ONLY - not to the      *)
(*        error channel, whatever -E says (the manual's "-E: error         *)
(*        messages and warnings will be redirected" has this exception).   *)
(*  CalledIsNotPrinted   ErrorsWrittenToListing records that WrLstLine was *)
(*        CALLED, not that it printed: inside LISTING OFF it prints        *)
(*        nothing.  The `!ListOn` term of the second test is what keeps    *)
(*        such a message from vanishing.  DestRule = "calledonly" is the   *)
(*        code without that term (the deviation TLC must refute,           *)
(*        DiagDest_MC_dev.cfg).                                            *)
(*  LastPassListing   a listing FILE holds the messages of the last pass   *)
(*        only, the console listing those of all passes.                   *)
(*                                                                         *)
(* Layering: ListOn changes only BETWEEN statements, and WrErrorString is  *)
(* the one place where Diag.tla advances emE / emW / emF.  So every        *)
(* message of one statement (an EXPECT block closing, a REPT burst, the    *)
(* reports at the end of a pass) has the same destinations, and the        *)
(* increments of the tallies over one LineStep / EndPassStep of Driver.tla *)
(* are split by WrDest (Account).  Nothing of Diag / Driver is restated.   *)
(***************************************************************************)
EXTENDS Driver

CONSTANT DestRule      \* "coded" | "calledonly"

NumNoSaveFrame == 1450          \* RESTORE without SAVE

ListModes == {"none", "con", "file", "olist"}
ListingSelected(o) == o.lm # "none"                     \* strcmp(LstName, "/dev/null")
ListToStdout(o)    == o.lm = "con"                      \* !strcmp(LstName, "!1")
WrLstLinePrints(o, lon) == ListingSelected(o) /\ lon # 0

\* the destinations of one message that passed the filters and was counted
WrDest(o, lon, fatal) ==
  LET called == ListingSelected(o) /\ ~fatal            \* ErrorsWrittenToListing
      chan   == CASE DestRule = "coded"      -> ~ListToStdout(o) \/ lon = 0 \/ ~called
                  [] DestRule = "calledonly" -> ~ListToStdout(o) \/ ~called
  IN [lst |-> called /\ WrLstLinePrints(o, lon), chan |-> chan]

ListOnValue(t) == CASE t = "off" -> 0 [] t = "on" -> 1 [] t = "noskipped" -> 2 [] t = "purecode" -> 3

---------------------------------------------------------------------------
\* tallies of one pass, per class:  ch* error channel, ls* listing, any* at least one of them, lost = counted in
\* ErrorCount / WarnCount but written nowhere.  chF = the "assembly terminated" line (always on the error channel).
ZeroT == [chE |-> 0, chW |-> 0, chF |-> 0, lsE |-> 0, lsW |-> 0, anyE |-> 0, anyW |-> 0, lostE |-> 0, lostW |-> 0]
AddT(a, b) == [chE |-> a.chE + b.chE, chW |-> a.chW + b.chW, chF |-> a.chF + b.chF, lsE |-> a.lsE + b.lsE,
               lsW |-> a.lsW + b.lsW, anyE |-> a.anyE + b.anyE, anyW |-> a.anyW + b.anyW,
               lostE |-> a.lostE + b.lostE, lostW |-> a.lostW + b.lostW]

\* layered state: the pass state of Driver.tla (d, c) + ListOn + the SAVE stack of ListOn values + the tallies
LFresh(carry, prevErr) == LET b == FreshP(carry, prevErr)
                          IN [d |-> b.d, c |-> b.c, lon |-> 1, lsv |-> <<>>, t |-> ZeroT]
Base(s) == [d |-> s.d, c |-> s.c]

\* b1 = what Driver.tla makes of the statement; its messages went where ListOn stood BEFORE the statement
Account(o, s, b1, fatalMsg) ==
  LET nE  == b1.d.emE - s.d.emE
      nW  == b1.d.emW - s.d.emW
      nF  == b1.d.emF - s.d.emF
      dst == WrDest(o, s.lon, fatalMsg)
      ToChan(n) == IF dst.chan THEN n ELSE 0
      ToLst(n)  == IF dst.lst THEN n ELSE 0
      ToAny(n)  == IF dst.chan \/ dst.lst THEN n ELSE 0
      ToNone(n) == IF dst.chan \/ dst.lst THEN 0 ELSE n
  IN [s EXCEPT !.d = b1.d, !.c = b1.c,
               !.t = AddT(@, [chE |-> ToChan(nE), chW |-> ToChan(nW), chF |-> nF, lsE |-> ToLst(nE), lsW |-> ToLst(nW),
                              anyE |-> ToAny(nE), anyW |-> ToAny(nW), lostE |-> ToNone(nE), lostW |-> ToNone(nW)])]

Skipped(s) == s.d.fatal \/ s.c.rec # "none" \/ ~s.c.ifasm
ListKinds == {"listing", "lsave", "lrestore"}

\* one source line.  listing t : LISTING OFF | ON | NOSKIPPED | PURECODE      (asmallg.c CodeLISTING)
\*                   lsave / lrestore : SAVE / RESTORE (asmallg.c CodeSAVE / CodeRESTORE: ListOn is part of the frame);
\*                   a SAVE that is never restored is reported at the end of the pass (Driver.tla, c.svd)
LLineStep(o, s, ln, pass) ==
  IF ln.k \in ListKinds
  THEN LET s0 == [s EXCEPT !.c.pos = @ + 1]
       IN IF Skipped(s) THEN s0
          ELSE CASE ln.k = "listing"  -> [s0 EXCEPT !.lon = ListOnValue(ln.t)]
                 [] ln.k = "lsave"    -> [s0 EXCEPT !.lsv = <<s.lon>> \o @, !.c.svd = @ + 1]
                 [] ln.k = "lrestore" ->
                      IF s.lsv = <<>> THEN Account(o, s0, [d |-> WrXErrorPos(o, s0.d, NumNoSaveFrame), c |-> s0.c], FALSE)
                      ELSE [s0 EXCEPT !.lon = Head(s.lsv), !.lsv = Tail(@), !.c.svd = @ - 1]
  ELSE Account(o, s, LineStep(o, Base(s), ln, pass), IsFatalLine(ln))

LEndPass(o, s) == Account(o, s, EndPassStep(o, Base(s)), FALSE)

RECURSIVE LFold(_, _, _, _, _)
LFold(o, s, lines, i, pass) == IF i > Len(lines) THEN s ELSE LFold(o, LLineStep(o, s, lines[i], pass), lines, i + 1, pass)
LRunPass(o, lines, pass, carry, prevErr) == LEndPass(o, LFold(o, LFresh(carry, prevErr), lines, 1, pass))

\* the pass loop of Driver.tla (Passes) over the layered state.  Result of a file:
\*   res    FileResult of Driver.tla (status ingredients, kept, summary counters sumE / sumW; chanE / chanW there =
\*          messages written ANYWHERE OR NOWHERE, i.e. counted, in all passes)
\*   all    tallies of all passes,  last  tallies of the last pass
\*   lst    what the listing holds: console = all passes, file = last pass (LastPassListing)
RECURSIVE LPasses(_, _, _, _, _, _)
LPasses(o, lines, pass, carry, prevErr, acc) ==
  LET p == LRunPass(o, lines, pass, carry, prevErr)
  IN IF Again(Base(p), pass)
     THEN LPasses(o, lines, pass + 1, Handover(carry, Base(p)), p.c.nowErr, AddT(acc, p.t))
     ELSE LET all == AddT(acc, p.t)
              inl == IF ListToStdout(o) THEN all ELSE p.t
          IN [res  |-> FileResult(o, Base(p), pass, all.anyE + all.lostE, all.anyW + all.lostW, all.chF, 0),
              all  |-> all, last |-> p.t, lst |-> [E |-> inl.lsE, W |-> inl.lsW], lonEnd |-> p.lon]
LAsmFile(o, lines, carry) == LPasses(o, lines, 1, carry, {}, ZeroT)

LNotAssembled == [res |-> NotAssembled, all |-> ZeroT, last |-> ZeroT, lst |-> [E |-> 0, W |-> 0], lonEnd |-> 1]

RECURSIVE LFiles(_, _, _, _)
LFiles(o, fs, i, carry) ==
  IF i > Len(fs) THEN <<>>
  ELSE LET r == LAsmFile(o, fs[i], carry)
       IN IF r.res.fatal THEN <<r>> \o [j \in 1..(Len(fs) - i) |-> LNotAssembled]
          ELSE <<r>> \o LFiles(o, fs, i + 1, (carry \ JmpTokens) \cup r.res.left)

LOutcome(o, fs) == LET rs == LFiles(o, fs, 1, {})
                   IN [status |-> StatusOf([i \in 1..Len(rs) |-> rs[i].res]), files |-> rs]

---------------------------------------------------------------------------
\* Property C02 judged on what is emitted on EVERY channel the option set selects (rs = results of a finished run).
\* "reported" / "emitted" = written to the error channel or to the listing.
\* (an error line that -Y discounted again does not count: Driver.tla Reported)
EmittedErr(r) == r.all.anyE > r.res.discAll \/ r.all.chF > 0
DD_StatusZeroIffNoneEmitted(status, rs) == (status = 0) <=> (\A i \in 1..Len(rs) : ~EmittedErr(rs[i]))
DD_ZeroKeepsAll(o, status, rs) == (status = 0 /\ o.codeout) => \A i \in 1..Len(rs) : rs[i].res.kept
DD_EmittedDropsCode(rs) == \A i \in 1..Len(rs) : EmittedErr(rs[i]) => ~rs[i].res.kept
DD_KeptIffNoneEmitted(o, rs) == \A i \in 1..Len(rs) :
                                  (rs[i].res.assembled /\ o.codeout) => (rs[i].res.kept <=> ~EmittedErr(rs[i]))
DD_ErrorStatus(status, rs) == /\ (\E i \in 1..Len(rs) : rs[i].all.chF > 0) <=> status = 3
                              /\ ((\E i \in 1..Len(rs) : EmittedErr(rs[i])) /\ status # 3) => status = 2
\* the totals of the summary = the diagnostics emitted (in the pass the summary speaks of)
DD_SummaryAgrees(rs) == \A i \in 1..Len(rs) : (rs[i].res.assembled /\ ~rs[i].res.fatal) =>
                           rs[i].res.sumE + rs[i].res.disc = rs[i].last.anyE /\ rs[i].res.sumW = rs[i].last.anyW
\* nothing that was counted is written nowhere
DD_NothingLost(rs) == \A i \in 1..Len(rs) : rs[i].all.lostE = 0 /\ rs[i].all.lostW = 0
\* the manual's -E: without a console listing every diagnostic is on the error channel
DD_ChannelComplete(o, rs) == ~ListToStdout(o) => \A i \in 1..Len(rs) : rs[i].all.chE = rs[i].all.anyE /\ rs[i].all.chW = rs[i].all.anyW
\* with a console listing a diagnostic is never shown twice
DD_ConsoleOnce(o, rs) == ListToStdout(o) => \A i \in 1..Len(rs) :
                           rs[i].all.chE + rs[i].all.lsE = rs[i].all.anyE /\ rs[i].all.chW + rs[i].all.lsW = rs[i].all.anyW
DD_NoListingNoLines(o, rs) == ~ListingSelected(o) => \A i \in 1..Len(rs) : rs[i].lst.E = 0 /\ rs[i].lst.W = 0
\* warnings alone are harmless without -Werror
DD_WarningsHarmless(o, status, rs) == (~o.werror /\ \A i \in 1..Len(rs) : ~EmittedErr(rs[i]))
                                         => status = 0 /\ \A i \in 1..Len(rs) : rs[i].res.kept

\* Declarative reading of the text (position arithmetic, none of the operators above): the LISTING statement in
\* force at line i of a one-pass program without SAVE / RESTORE, fatal lines and -maxerrors; "after LISTING OFF nothing
\* at all will be written to the listing" (manual), and a diagnostic the listing on the console does not show is on
\* the error channel.
InForce(lines, i) ==
  LET js == {j \in 1..(i - 1) : lines[j].k = "listing"}
  IN IF js = {} THEN "on" ELSE lines[CHOOSE j \in js : \A k \in js : k <= j].t
PlainL(lines) == \A i \in 1..Len(lines) : lines[i].k \in {"ok", "warn", "err", "uwarn", "uerr", "listing"}
DeclDest(o, lines) ==
  LET n    == Len(lines)
      inL(i) == ListingSelected(o) /\ InForce(lines, i) # "off"
      inC(i) == ~(ListToStdout(o) /\ inL(i))
  IN [lsE |-> SumTo([i \in 1..n |-> IF inL(i) THEN DeclErr(o, lines[i]) ELSE 0], lines, n),
      lsW |-> SumTo([i \in 1..n |-> IF inL(i) THEN DeclWarn(o, lines[i]) ELSE 0], lines, n),
      chE |-> SumTo([i \in 1..n |-> IF inC(i) THEN DeclErr(o, lines[i]) ELSE 0], lines, n),
      chW |-> SumTo([i \in 1..n |-> IF inC(i) THEN DeclWarn(o, lines[i]) ELSE 0], lines, n),
      E   |-> SumTo([i \in 1..n |-> DeclErr(o, lines[i])], lines, n),
      W   |-> SumTo([i \in 1..n |-> DeclWarn(o, lines[i])], lines, n)]
DD_AgreesWithText(o, fs, rs) ==
  \A i \in 1..Len(rs) : (PlainL(fs[i]) /\ o.maxerr = 0 /\ rs[i].res.assembled) =>
     LET dd == DeclDest(o, fs[i]) t == rs[i].all
     IN /\ t.lsE = dd.lsE /\ t.lsW = dd.lsW /\ t.chE = dd.chE /\ t.chW = dd.chW
        /\ rs[i].res.sumE = dd.E /\ rs[i].res.sumW = dd.W /\ rs[i].res.kept = (dd.E = 0)
=============================================================================
