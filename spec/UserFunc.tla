------------------------------ MODULE UserFunc ------------------------------
(* User-defined functions (doc/pseudo-instructions.md "FUNCTION") and the part of the built-in function table that   *)
(* spec/Expr.tla leaves out (SYMTYPE, DEFINED).                                                                       *)
(*                                                                                                                    *)
(*  A. THE MACHINE AS CODED.  The assembler keeps a list of functions (asmpars.c FirstFunction: name, number of       *)
(*     parameters, definition TEXT).  CodeFUNCTION (asmallg.c) turns every parameter name in the body text into a      *)
(*     token (asmsub.c CompressLine -> ReplaceLine: whole "identifier" match where identifier characters are letters   *)
(*     and digits only, case-insensitive unless -U, quotes are not looked at) and EnterFunction files the text.  A     *)
(*     call (asmpars.c EvalStrExpression, branch "selbstdefinierte Funktion") looks the name up in that list BEFORE    *)
(*     the built-in table, evaluates the arguments one by one, PRINTS every value as text between parentheses          *)
(*     (tempresult.c as_tempres_append_dynstr), pastes the texts over the tokens (ExpandLine) and evaluates the        *)
(*     resulting text as a formula again.  All of that is transcribed below on sequences of characters; the formula    *)
(*     evaluation itself is Expr!Parse / ApplyBin / ApplyUn / ApplyFun on the re-lexed text.                           *)
(*  B. THE DECLARATIVE MEANING (Doc...).  f(e1..en) = the value of the body TREE with every parameter standing for the *)
(*     value of its argument ("all parameters are calculated once and are then inserted"), functions visible = the    *)
(*     definitions in front of the call, looked up case-insensitively unless -U, user functions hide built-in ones,    *)
(*     built-in names are never case-sensitive.  Where the manual is silent the result is UNS (no verdict).            *)
(*  C. NAMED DEVIATIONS of the pinned code from B (each reproduced by the replay, each with a proposed fix):           *)
(*     userfunc_arg_radix    - an integer argument is printed in DECIMAL and re-read in the CURRENT radix              *)
(*     userfunc_arg_nonprint - a string argument with a character < 32 or > 126 is printed as \ddd (zero padded:       *)
(*                             re-read as OCTAL; negative for codes >= 128: "invalid escape")                          *)
(*     (repaired in /repo, a74068d: a function that calls itself overflowed the stack; now the body evaluation depth   *)
(*      is limited by NESTMAX and error 1850 is reported: recursion = ERR on both sides, RecursionGuard = FALSE is the  *)
(*      old behaviour.  userfunc_recursion_fanout: with TWO recursive calls in the body the repaired code still does    *)
(*      not end - both operands of an operator are evaluated even after the first failed, 2^NESTMAX evaluations.)       *)
(* The constants select the pinned behaviour or the proposed repair, and two mutations of the model that the           *)
(* invariants of UserFunc_MC must refute.                                                                              *)
EXTENDS Expr, TLC

CONSTANTS ArgPrint,       \* "decimal" (pinned tree) | "radix" (proposed_fixes/C08-userfunc-argument-radix)
          StrEscape,      \* "dec3" (pinned: \%03d of a signed char) | "hex2" (proposed_fixes/C08-userfunc-string-argument-escape)
          RecursionGuard, \* TRUE: nesting limit NESTMAX, error 1850 (/repo a74068d) | FALSE: unbounded recursion (before)
          ArgParen,       \* TRUE as coded: "(" value ")";  FALSE: mutation of the model
          WholeIdent      \* TRUE as coded: IsValidParameterName;  FALSE: mutation (plain substring replacement)

(* ================================================================================================================== *)
(* characters                                                                                                         *)
(* ================================================================================================================== *)
LowerS == <<"a","b","c","d","e","f","g","h","i","j","k","l","m","n","o","p","q","r","s","t","u","v","w","x","y","z">>
UpperS == <<"A","B","C","D","E","F","G","H","I","J","K","L","M","N","O","P","Q","R","S","T","U","V","W","X","Y","Z">>
DigitS == <<"0","1","2","3","4","5","6","7","8","9">>
LowerSet == {LowerS[i] : i \in 1..26}
UpperSet == {UpperS[i] : i \in 1..26}
DigitSet == {DigitS[i] : i \in 1..10}
UpOf == [c \in LowerSet |-> UpperS[CHOOSE i \in 1..26 : LowerS[i] = c]]
UpC(c) == IF c \in LowerSet THEN UpOf[c] ELSE c
UpSeq(s) == [i \in 1..Len(s) |-> UpC(s[i])]
DigOf == [c \in DigitSet \cup UpperSet |->
            IF c \in DigitSet THEN (CHOOSE i \in 1..10 : DigitS[i] = c) - 1 ELSE 9 + (CHOOSE i \in 1..26 : UpperS[i] = c)]
IsLetter(c) == c \in LowerSet \cup UpperSet
IsAlNum(c) == c \in LowerSet \cup UpperSet \cup DigitSet          \* asmsub.c CompressLine_NErl
DigitChar(d) == IF d < 10 THEN DigitS[d + 1] ELSE UpperS[d - 9]

\* printable ASCII 32..126 (character <-> code)
Printable == <<" ","!","\"","#","$","%","&","'","(",")","*","+",",","-",".","/","0","1","2","3","4","5","6","7","8","9",":",";","<","=",">","?",
               "@","A","B","C","D","E","F","G","H","I","J","K","L","M","N","O","P","Q","R","S","T","U","V","W","X","Y","Z","[","\\","]","^","_",
               "`","a","b","c","d","e","f","g","h","i","j","k","l","m","n","o","p","q","r","s","t","u","v","w","x","y","z","{","|","}","~">>
PrintSet == {Printable[i] : i \in 1..95}
CodeOfF == [c \in PrintSet |-> 31 + CHOOSE i \in 1..95 : Printable[i] = c]
CharOf(n) == Printable[n - 31]                                     \* 32 <= n <= 126

RECURSIVE JoinS(_)
JoinS(s) == IF s = <<>> THEN "" ELSE s[1] \o JoinS(Tail(s))        \* TLC concatenates strings

\* the two-byte parameter token of asmsub.c SetToken, one element here
TokS == <<"$1", "$2", "$3", "$4">>
Tok(z) == TokS[z]

(* ================================================================================================================== *)
(* A1. asmsub.c ReplaceLine / CompressLine / ExpandLine                                                               *)
(* ================================================================================================================== *)
MatchText(text, i, name, cs) ==
  /\ i >= 1 /\ i + Len(name) - 1 <= Len(text)
  /\ \A j \in 1..Len(name) : IF cs THEN text[i + j - 1] = name[j] ELSE UpC(text[i + j - 1]) = UpC(name[j])

\* IsValidParameterName: pos = first replaced element, end = one behind the last
ValidParamPos(text, pos, end) ==
  /\ (pos = 1 \/ ~IsAlNum(text[pos - 1]))
  /\ (end > Len(text) \/ ~IsAlNum(text[end]))

RECURSIVE ReplaceFrom(_, _, _, _, _)
ReplaceFrom(text, pos, name, repl, cs) ==
  LET n == Len(name)
      L == Len(text)
  IN IF pos > L - n + 1 THEN text                                \* while (Pos <= StrLen - SearchLen)
     ELSE LET bs == text[pos] = "\\" /\ pos + n + 1 <= L /\ text[pos + n + 1] = "\\"     \* \name\ "replaced as one"
              start == IF bs THEN pos + 1 ELSE pos
              end == IF bs THEN pos + n + 2 ELSE pos + n
              hit == MatchText(text, start, name, cs) /\ (bs \/ ~WholeIdent \/ ValidParamPos(text, pos, end))
          IN IF hit THEN ReplaceFrom(SubSeq(text, 1, pos - 1) \o repl \o SubSeq(text, end, L), pos + Len(repl), name, repl, cs)
             ELSE ReplaceFrom(text, pos + 1, name, repl, cs)

CompressLine(name, z, text, cs) == ReplaceFrom(text, 1, name, <<Tok(z)>>, cs)

RECURSIVE ExpandLine(_, _, _)      \* ReplaceLineUnchecked(token -> text), the pasted text is not scanned again
ExpandLine(val, z, text) ==
  IF text = <<>> THEN <<>> ELSE (IF Head(text) = Tok(z) THEN val ELSE <<Head(text)>>) \o ExpandLine(val, z, Tail(text))

(* ================================================================================================================== *)
(* A2. asmallg.c CodeFUNCTION, asmpars.c EnterFunction / FindFunction                                                 *)
(* ================================================================================================================== *)
ChkMacSymbName(n) == n # <<>> /\ IsLetter(n[1]) /\ \A i \in 2..Len(n) : IsAlNum(n[i])
ChkSymbName(n) == n # <<>> /\ (IsLetter(n[1]) \/ n[1] \in {"_", "."}) /\ \A i \in 2..Len(n) : IsAlNum(n[i]) \/ n[i] \in {"_", "."}

RECURSIVE CompressAll(_, _, _, _)
CompressAll(params, z, text, cs) ==
  IF z > Len(params) THEN text ELSE CompressAll(params, z + 1, CompressLine(params[z], z, text, cs), cs)

FindFunction(ft, name, cs) ==
  LET key == IF cs THEN name ELSE UpSeq(name)
      hits == {i \in 1..Len(ft) : ft[i].name = key}
  IN IF hits = {} THEN 0 ELSE CHOOSE i \in hits : \A j \in hits : i <= j

\* one FUNCTION statement: label, params (ArgStr[1..n-1]), body text (ArgStr[n]); result: <<new table, status>>
\* status: "ok" | "argcnt" | "parname" | "funname" | "double" (an error message each; "double" only in pass 1)
CodeFUNCTION(ft, label, params, body, cs, pass) ==
  IF Len(params) < 1 THEN <<ft, "argcnt">>                                   \* ChkArgCnt(2, ArgCntMax)
  ELSE IF \E z \in 1..Len(params) : ~ChkMacSymbName(params[z]) THEN <<ft, "parname">>
  ELSE LET def == CompressAll(params, 1, body, cs)
           key == IF cs THEN label ELSE UpSeq(label)
       IN IF ~ChkSymbName(key) THEN <<ft, "funname">>
          ELSE IF FindFunction(ft, key, cs) # 0 THEN <<ft, IF pass = 1 THEN "double" ELSE "ok">>     \* the first definition stays
          ELSE << <<[name |-> key, argc |-> Len(params), def |-> def]>> \o ft, "ok">>

(* ================================================================================================================== *)
(* A3. values as text: tempresult.c as_tempres_append_dynstr                                                          *)
(* ================================================================================================================== *)
RECURSIVE NatDigits(_, _)
NatDigits(n, b) == IF n < b THEN <<DigitChar(n)>> ELSE NatDigits(n \div b, b) \o <<DigitChar(n % b)>>
RECURSIVE LimbDigits(_, _)       \* unsigned magnitude > 0
LimbDigits(a, b) == IF IsZero(a) THEN <<>> ELSE LET qr == UDivMod(a, FromNat(b)) IN LimbDigits(qr[1], b) \o <<DigitChar(qr[2][1])>>
MagDigits(a, b) ==               \* a: limbs read as unsigned
  IF IsZero(a) THEN <<"0">> ELSE IF a[3] = 0 /\ a[4] = 0 /\ a[2] < B15 THEN NatDigits(a[1] + B16 * a[2], b) ELSE LimbDigits(a, b)

PrintInt(v, radix) ==
  LET neg == IsNeg(v)
      mag == IF neg THEN Neg(v) ELSE v                       \* -2^63: the magnitude 2^63 read as unsigned
      sign == IF neg THEN <<"-">> ELSE <<>>
  IN IF ArgPrint = "decimal" THEN sign \o MagDigits(mag, 10)                          \* "%" PRId64
     ELSE LET ds == MagDigits(mag, radix)                                             \* the fix: digits of the radix in force,
          IN sign \o (IF ds[1] \in DigitSet THEN ds ELSE <<"0">> \o ds)               \* never beginning with a letter

Pad3(n) == IF n < 10 THEN <<"0", "0">> \o NatDigits(n, 10) ELSE IF n < 100 THEN <<"0">> \o NatDigits(n, 10) ELSE NatDigits(n, 10)
PrintChar(c) ==        \* c: 0..255
  IF c = 92 \/ c = 34 THEN <<"\\", CharOf(c)>>
  ELSE IF c \in 32..126 THEN <<CharOf(c)>>
  ELSE IF StrEscape = "hex2" THEN <<"\\", "x", DigitChar(c \div 16), DigitChar(c % 16)>>
  ELSE IF c < 128 THEN <<"\\">> \o Pad3(c)                                            \* "\%03d"
  ELSE LET m == 256 - c IN <<"\\", "-">> \o (IF m < 10 THEN <<"0">> \o NatDigits(m, 10) ELSE NatDigits(m, 10))   \* char is signed
RECURSIVE PrintChars(_)
PrintChars(cs) == IF cs = <<>> THEN <<>> ELSE PrintChar(Head(cs)) \o PrintChars(Tail(cs))

\* floats: "%0.16e" and back is the identity on doubles; the text is an opaque element looked up in FloatTab
FloatTab == << [v |-> Dy(0, 1, 0 - 1), src |-> "0.5", out |-> "5.0000000000000000e-01"],
               [v |-> Dy(0, 1, 0),     src |-> "1.0", out |-> "1.0000000000000000e+00"],
               [v |-> Dy(0, 3, 0 - 1), src |-> "1.5", out |-> "1.5000000000000000e+00"],
               [v |-> Dy(0, 1, 1),     src |-> "2.0", out |-> "2.0000000000000000e+00"],
               [v |-> Dy(0, 3, 0),     src |-> "3.0", out |-> "3.0000000000000000e+00"],
               [v |-> Dy(1, 1, 0 - 1), src |-> "?",   out |-> "-5.0000000000000000e-01"],
               [v |-> Dy(0, 5, 0 - 1), src |-> "2.5", out |-> "2.5000000000000000e+00"] >>
FloatIdx(v) == IF \E i \in 1..Len(FloatTab) : FloatTab[i].v = v THEN CHOOSE i \in 1..Len(FloatTab) : FloatTab[i].v = v ELSE 0
FloatOfText(e) == IF \E i \in 1..Len(FloatTab) : e \in {FloatTab[i].src, FloatTab[i].out}
                  THEN CHOOSE i \in 1..Len(FloatTab) : e \in {FloatTab[i].src, FloatTab[i].out} ELSE 0

NoText == <<"?">>
PrintVal(v, radix) ==      \* <<>> is never a result: NoText = "cannot be written" (the model's table is too small)
  CASE v.t = "I" -> PrintInt(v.v, radix)
    [] v.t = "F" -> IF FloatIdx(v.v) = 0 THEN NoText ELSE <<FloatTab[FloatIdx(v.v)].out>>
    [] v.t = "S" -> <<"\"">> \o PrintChars(v.v) \o <<"\"">>
    [] OTHER -> NoText

(* ================================================================================================================== *)
(* A4. leaves: asmpars.c ConstIntVal (default-radix notation only), ConstFloatVal, ConstStringVal + ProcessBk          *)
(* ================================================================================================================== *)
IsDigitRun(cs) == cs # <<>> /\ \A i \in 1..Len(cs) : cs[i] \in DigitSet
IsRadixRun(cs, radix) == cs # <<>> /\ cs[1] \in DigitSet /\ \A i \in 1..Len(cs) : UpC(cs[i]) \in DOMAIN DigOf /\ DigOf[UpC(cs[i])] < radix

\* escapes inside a string constant: <<ok, codes>>
RECURSIVE EscDigits(_, _, _, _, _)
\* reads digits of `sys` while cnt < 3: returns <<ok, acc, rest>>
EscDigits(cs, sys, cnt, acc, any) ==
  IF cs # <<>> /\ cnt < 3 /\ UpC(Head(cs)) \in DOMAIN DigOf /\ (DigOf[UpC(Head(cs))] < 10 \/ (sys = 16 /\ DigOf[UpC(Head(cs))] < 16))
  THEN IF DigOf[UpC(Head(cs))] >= sys THEN <<FALSE, 0, cs>>                       \* "range overflow"
       ELSE EscDigits(Tail(cs), sys, cnt + 1, acc * sys + DigOf[UpC(Head(cs))], TRUE)
  ELSE <<acc <= 255, acc, cs>>
RECURSIVE DecodeStr(_)
DecodeStr(cs) ==           \* characters between the quotes -> <<ok, codes>>
  IF cs = <<>> THEN <<TRUE, <<>>>>
  ELSE IF Head(cs) = "\"" THEN <<FALSE, <<>>>>                                    \* a quote in front of a backslash
  ELSE IF Head(cs) # "\\" THEN
       (IF Head(cs) \in PrintSet THEN LET r == DecodeStr(Tail(cs)) IN <<r[1], <<CodeOfF[Head(cs)]>> \o r[2]>> ELSE <<FALSE, <<>>>>)
  ELSE LET rest == Tail(cs) IN
       IF rest = <<>> THEN <<FALSE, <<>>>>
       ELSE IF Head(rest) \in {"\\", "\"", "'"} THEN LET r == DecodeStr(Tail(rest)) IN <<r[1], <<CodeOfF[Head(rest)]>> \o r[2]>>
       ELSE IF UpC(Head(rest)) = "X" THEN
            LET d == EscDigits(Tail(rest), 16, 1, 0, FALSE) r == DecodeStr(d[3]) IN <<d[1] /\ r[1], <<d[2]>> \o r[2]>>
       ELSE IF Head(rest) \in DigitSet THEN
            LET sys == IF Head(rest) = "0" THEN 8 ELSE 10                          \* a leading zero means OCTAL
                d == EscDigits(rest, sys, IF sys = 10 THEN 0 ELSE 0 - 1, 0, FALSE)
                r == DecodeStr(d[3])
            IN <<d[1] /\ r[1], <<d[2]>> \o r[2]>>
       ELSE <<FALSE, <<>>>>                                                        \* "invalid escape sequence" (e.g. \-56)

(* ================================================================================================================== *)
(* A5. the re-lexer: maximal runs of non-operator characters and quoted strings become the atoms of Expr!Parse        *)
(* (EvalStrExpression has no lexer: it looks for operators outside parentheses and quotes and tries the constant       *)
(* readers on what is left; the two views agree as long as no atom contains an operator character - the printed        *)
(* floats, whose exponent carries a sign, are single opaque elements for that reason)                                  *)
(* ================================================================================================================== *)
IsAtomCh(c) == c \notin OpChars /\ c \notin {"(", ")", ",", " ", "\""}

RECURSIVE StrEnd(_, _)     \* index of the closing quote of a string that begins at i-1; Len+1 if none
StrEnd(text, i) ==
  IF i > Len(text) THEN Len(text) + 1
  ELSE IF text[i] = "\\" THEN StrEnd(text, i + 2)
  ELSE IF text[i] = "\"" THEN i
  ELSE StrEnd(text, i + 1)
RECURSIVE AtomEnd(_, _)
AtomEnd(text, i) == IF i <= Len(text) /\ IsAtomCh(text[i]) THEN AtomEnd(text, i + 1) ELSE i - 1

RECURSIVE Pieces(_, _)     \* sequence of pieces; a piece is a sequence of characters (an atom) or one character
Pieces(text, i) ==
  IF i > Len(text) THEN <<>>
  ELSE IF text[i] = "\"" THEN LET e == StrEnd(text, i + 1) j == IF e > Len(text) THEN Len(text) ELSE e
                             IN <<SubSeq(text, i, j)>> \o Pieces(text, j + 1)
  ELSE IF IsAtomCh(text[i]) THEN LET j == AtomEnd(text, i) IN <<SubSeq(text, i, j)>> \o Pieces(text, j + 1)
  ELSE <<<<text[i]>>>> \o Pieces(text, i + 1)
IsAtomPiece(p) == p[1] = "\"" \/ IsAtomCh(p[1])

Lex(text) ==
  LET ps == Pieces(text, 1)
      ats == {ps[i] : i \in {j \in 1..Len(ps) : IsAtomPiece(ps[j])}}
  IN [toks |-> [i \in 1..Len(ps) |-> IF IsAtomPiece(ps[i]) THEN JoinS(ps[i]) ELSE ps[i][1]],
      pool |-> [k \in {JoinS(a) : a \in ats} |-> CHOOSE a \in ats : JoinS(a) = k]]

(* ================================================================================================================== *)
(* symbols, results                                                                                                   *)
(* ================================================================================================================== *)
\* a symbol of the program: [n |-> characters, v |-> value, seg |-> segment name, reg |-> register symbol, pos |-> statement index
\* of its definition (0 = in front of everything, 99 = behind everything)]
\* as_addrspace_t of the code in enum order; the manual's table of SYMTYPE results
SegEnum == <<"none", "code", "data", "idata", "xdata", "ydata", "bitdata", "io", "reg", "romdata", "eedata">>
ManualSymType == [none |-> 0, code |-> 1, data |-> 2, idata |-> 3, xdata |-> 4, ydata |-> 5, bitdata |-> 6, io |-> 7, reg |-> 8,
                  romdata |-> 9, eedata |-> 10]
SegNoCode(seg) == (CHOOSE i \in 1..Len(SegEnum) : SegEnum[i] = seg) - 1
ASSUME SymTypeTableIsTheEnum == \A i \in 1..Len(SegEnum) : ManualSymType[SegEnum[i]] = i - 1

DIVV == [t |-> "D"]          \* the evaluation does not end (stack overflow of the real program)
IsDiv(x) == x.t = "D"

SymIdx(syms, name, cs) ==
  LET key == IF cs THEN name ELSE UpSeq(name)
      hits == {i \in 1..Len(syms) : (IF cs THEN syms[i].n ELSE UpSeq(syms[i].n)) = key}
  IN IF hits = {} THEN 0 ELSE CHOOSE i \in hits : TRUE

(* ================================================================================================================== *)
(* A6. evaluation of a text (EvalStrExpression with the user function branch)                                         *)
(* c = [ft, syms, cs, radix, pass, here, fuel]                                                                        *)
(* ================================================================================================================== *)
LeafM(cs, c) ==
  IF cs[1] = "\"" THEN
       (IF \E i \in 1..Len(cs) : FloatOfText(cs[i]) # 0 THEN UNS          \* a printed float inside quotes: its characters are not modelled
        ELSE IF Len(cs) >= 2 /\ cs[Len(cs)] = "\"" THEN LET d == DecodeStr(SubSeq(cs, 2, Len(cs) - 1)) IN IF d[1] THEN SV(d[2]) ELSE ERR
        ELSE ERR)
  ELSE IF IsRadixRun(cs, c.radix) THEN IV(DigitsVal([i \in 1..Len(cs) |-> DigOf[UpC(cs[i])]], c.radix, Zero))
  ELSE IF IsDigitRun(cs) THEN             \* not a constant of the radix in force: ConstFloatVal takes the decimal digits
       (IF Len(cs) <= 9 THEN IntToDy(DigitsVal([i \in 1..Len(cs) |-> DigOf[cs[i]]], 10, Zero)) ELSE UNS)
  ELSE IF Len(cs) = 1 /\ FloatOfText(cs[1]) # 0 THEN FV(FloatTab[FloatOfText(cs[1])].v)
  ELSE IF ~ChkSymbName(cs) THEN ERR                                              \* "invalid symbol name"
  ELSE LET k == SymIdx(c.syms, cs, c.cs) IN
       IF k = 0 THEN ERR                                                         \* undefined (reported in the last pass)
       ELSE IF c.syms[k].pos < c.here THEN c.syms[k].v
       ELSE IF c.pass = 1 THEN IV(Zero)                                          \* unknown in the first pass: 0, Repass
       ELSE c.syms[k].v

UnM(o, x) == IF IsDiv(x) THEN DIVV ELSE ApplyUn(o, x)
BinM(o, a, b) == IF IsDiv(a) \/ IsDiv(b) THEN DIVV ELSE ApplyBin(o, a, b)

SymFunM(up, args, pool, c) ==      \* SYMTYPE / DEFINED take the argument TEXT
  IF Len(args) # 1 \/ args[1].k # "A" THEN UNS
  ELSE LET cs == pool[args[1].a]
           k == SymIdx(c.syms, cs, c.cs)
           intable == k # 0 /\ (c.pass > 1 \/ c.syms[k].pos < c.here)           \* the table survives the passes
           defd == k # 0 /\ c.syms[k].pos < c.here                              \* the Defined flags do not
       IN IF ~ChkSymbName(cs) THEN UNS
          ELSE IF up = "SYMTYPE" THEN IntV(IF ~intable THEN 0 - 1 ELSE IF c.syms[k].reg THEN 128 ELSE SegNoCode(c.syms[k].seg))
          ELSE IntV(IF defd THEN 1 ELSE 0)

RECURSIVE EvalM(_, _, _), EvalTextM(_, _), PasteArgs(_, _, _, _)

PasteArgs(def, vals, z, radix) ==
  IF z > Len(vals) THEN def
  ELSE LET txt == PrintVal(vals[z], radix)
       IN PasteArgs(ExpandLine(IF ArgParen THEN <<"(">> \o txt \o <<")">> ELSE txt, z, def), vals, z + 1, radix)

EvalTextM(text, c) ==
  LET lx == Lex(text)
      tree == Parse(lx.toks)
  IN IF IsPErr(tree) THEN ERR ELSE EvalM(tree, lx.pool, c)

EvalM(t, pool, c) ==
  CASE t.k = "A" -> LeafM(pool[t.a], c)
    [] t.k = "U" -> UnM(t.o, EvalM(t.x, pool, c))
    [] t.k = "B" -> BinM(t.o, EvalM(t.l, pool, c), EvalM(t.r, pool, c))
    [] t.k = "F" ->
         LET name == pool[t.f]
             fi == FindFunction(c.ft, name, c.cs)
             n == Len(t.args)
             vals == [i \in 1..n |-> EvalM(t.args[i], pool, c)]
         IN IF fi # 0 THEN
              \* user function: arguments one by one; the first that is missing or has no value ends the call
              LET fn == c.ft[fi]
                  bad == {i \in 1..fn.argc : i > n \/ ~IsVal(vals[i])}
                  b1 == IF bad = {} THEN 0 ELSE CHOOSE i \in bad : \A j \in bad : i <= j
              IN IF b1 # 0 THEN (IF b1 > n THEN ERR ELSE IF vals[b1].t = "E" THEN ERR ELSE vals[b1])
                 ELSE IF n > fn.argc THEN ERR                                     \* "wrong numbers of function arguments"
                 ELSE IF \E i \in 1..n : PrintVal(vals[i], c.radix) = NoText THEN UNS
                 ELSE IF c.fuel = 0 THEN (IF RecursionGuard THEN ERR ELSE DIVV)
                 ELSE EvalTextM(PasteArgs(fn.def, vals, 1, c.radix), [c EXCEPT !.fuel = c.fuel - 1])
            ELSE LET up == JoinS(UpSeq(name)) IN
              IF up \in {"SYMTYPE", "DEFINED"} THEN SymFunM(up, t.args, pool, c)
              ELSE IF \E i \in 1..n : IsDiv(vals[i]) THEN DIVV
              ELSE IF n > 3 THEN ERR
              ELSE ApplyFun(up, vals, <<>>)                                        \* unknown name: ERR
    [] OTHER -> ERR

(* ================================================================================================================== *)
(* B. the declarative meaning                                                                                         *)
(* A source tree has atoms that are keys of a table info: [ty |-> "id" | "int" | "str" | "flt", src |-> characters,    *)
(* ...]; function names are keys as well.  d = [defs (the function definitions in front of the call, in order),        *)
(* later (those behind it), syms, cs, radix, here, fuel, info]                                                         *)
(* ================================================================================================================== *)
SameName(a, b, cs) == IF cs THEN a = b ELSE UpSeq(a) = UpSeq(b)

\* --- what the manual leaves open about a definition -----------------------------------------------------------------
RECURSIVE TreeAtoms(_), TreeCalls(_)
TreeAtoms(t) == CASE t.k = "A" -> {t.a} [] t.k = "U" -> TreeAtoms(t.x) [] t.k = "B" -> TreeAtoms(t.l) \cup TreeAtoms(t.r)
                  [] t.k = "F" -> UNION {TreeAtoms(t.args[i]) : i \in 1..Len(t.args)} [] OTHER -> {}
TreeCalls(t) == CASE t.k = "U" -> TreeCalls(t.x) [] t.k = "B" -> TreeCalls(t.l) \cup TreeCalls(t.r)
                  [] t.k = "F" -> {t.f} \cup UNION {TreeCalls(t.args[i]) : i \in 1..Len(t.args)} [] OTHER -> {}

\* the parameter name stands between characters that are no letters/digits somewhere inside the longer text cs
Embedded(p, cs, cse) == \E i \in 1..Len(cs) : MatchText(cs, i, p, cse) /\ ValidParamPos(cs, i, i + Len(p)) /\ Len(cs) > Len(p)

DefDoubt(def, info, cs) ==      \* set of reasons why the manual gives the calls of this definition no definite meaning
  LET ps == [i \in 1..Len(def.params) |-> info[def.params[i]].src]
      ats == TreeAtoms(def.body)
  IN (IF \E i, j \in 1..Len(ps) : i < j /\ SameName(ps[i], ps[j], cs) THEN {"duplicate parameter"} ELSE {})
     \cup (IF \E a \in ats : info[a].ty = "str" /\ \E i \in 1..Len(ps) : Embedded(ps[i], <<"\"">> \o info[a].src \o <<"\"">>, cs)
           THEN {"parameter name inside a string"} ELSE {})
     \cup (IF \E a \in ats : info[a].ty = "id" /\ \E i \in 1..Len(ps) : Embedded(ps[i], info[a].src, cs)
           THEN {"parameter name glued into a symbol name with _ or ."} ELSE {})
     \cup (IF \E f \in TreeCalls(def.body) : \E i \in 1..Len(ps) : SameName(ps[i], info[f].src, cs)
           THEN {"parameter named like a called function"} ELSE {})

DocDefStatus(def, info, cs) ==
  IF Len(def.params) < 1 THEN "error"                                      \* <name> FUNCTION <arg>,...,<arg>,<expression>
  ELSE IF \E i \in 1..Len(def.params) : ~ChkMacSymbName(info[def.params[i]].src) THEN "error"   \* "must conform to the stricter rules"
  ELSE IF DefDoubt(def, info, cs) # {} THEN "open"
  ELSE "ok"

ParamIdx(def, a, info, cs) ==
  LET hits == {i \in 1..Len(def.params) : info[a].ty = "id" /\ SameName(info[def.params[i]].src, info[a].src, cs)}
  IN IF hits = {} THEN 0 ELSE CHOOSE i \in hits : TRUE

DR(v, ds) == [r |-> v, d |-> ds]
RECURSIVE DocEval(_, _, _, _)

DocLeaf(a, def, env, d) ==
  LET i == d.info[a] IN
  CASE i.ty = "int" -> IF \A k \in 1..Len(i.src) : DigOf[i.src[k]] < d.radix
                       THEN IV(DigitsVal([k \in 1..Len(i.src) |-> DigOf[i.src[k]]], d.radix, Zero)) ELSE UNS
    [] i.ty = "flt" -> FV(i.v)
    [] i.ty = "str" -> SV(i.codes)
    [] OTHER -> LET p == IF def = <<>> THEN 0 ELSE ParamIdx(def[1], a, d.info, d.cs) IN
                IF p # 0 THEN env[p]
                ELSE LET k == SymIdx(d.syms, i.src, d.cs) IN IF k = 0 THEN ERR ELSE d.syms[k].v     \* forward references are legal

DocSymFun(up, args, d) ==
  IF Len(args) # 1 \/ args[1].k # "A" \/ d.info[args[1].a].ty # "id" THEN UNS
  ELSE LET k == SymIdx(d.syms, d.info[args[1].a].src, d.cs) IN
       IF k # 0 /\ d.syms[k].pos >= d.here THEN UNS                         \* defined, but behind the call
       ELSE IF up = "SYMTYPE" THEN IntV(IF k = 0 THEN 0 - 1 ELSE IF d.syms[k].reg THEN 128 ELSE ManualSymType[d.syms[k].seg])
       ELSE IntV(IF k = 0 THEN 0 ELSE 1)

\* known deviations of the pinned code that an argument value runs into when it is handed to a user function
ReadBack(ds, radix) ==      \* decimal digit characters read in another radix: a value, or none
  IF \A k \in 1..Len(ds) : DigOf[ds[k]] < radix THEN DigitsVal([k \in 1..Len(ds) |-> DigOf[ds[k]]], radix, Zero) ELSE <<>>
ArgDevs(v, radix) ==
  (IF v.t = "I" /\ radix # 10 /\ LET mag == IF IsNeg(v.v) THEN Neg(v.v) ELSE v.v IN ReadBack(MagDigits(mag, 10), radix) # mag
   THEN {"userfunc_arg_radix"} ELSE {})
  \cup (IF v.t = "S" /\ \E i \in 1..Len(v.v) : v.v[i] \notin 32..126 /\ v.v[i] \notin 0..7 /\ v.v[i] \notin 100..127
        THEN {"userfunc_arg_nonprint"} ELSE {})

\* def = <<>> outside a function body, <<definition>> inside; env = values of its parameters
DocEval(t, def, env, d) ==
  CASE t.k = "A" -> DR(DocLeaf(t.a, def, env, d), {})
    [] t.k = "U" -> LET x == DocEval(t.x, def, env, d) IN DR(ApplyUn(t.o, x.r), x.d)
    [] t.k = "B" -> LET l == DocEval(t.l, def, env, d) r == DocEval(t.r, def, env, d) IN DR(ApplyBin(t.o, l.r, r.r), l.d \cup r.d)
    [] t.k = "F" ->
         LET name == d.info[t.f].src
             n == Len(t.args)
             as == [i \in 1..n |-> DocEval(t.args[i], def, env, d)]
             vals == [i \in 1..n |-> as[i].r]
             ads == UNION {as[i].d : i \in 1..n}
             vis == {i \in 1..Len(d.defs) : SameName(d.defs[i].name, name, d.cs)}
             lat == {i \in 1..Len(d.later) : SameName(d.later[i].name, name, d.cs)}
             up == JoinS(UpSeq(name))
         IN IF lat # {} \/ Cardinality(vis) > 1 THEN DR(UNS, ads)            \* used before / defined twice: the manual is silent
            ELSE IF vis # {} THEN
              LET f == d.defs[CHOOSE i \in vis : TRUE]
                  st == f.st                        \* DocDefStatus of the definition
                  devs == ads \cup UNION {ArgDevs(vals[i], d.radix) : i \in {j \in 1..n : IsVal(vals[j])}}
              IN IF st # "ok" THEN DR(UNS, ads)
                 ELSE IF \E i \in 1..n : vals[i].t = "E" THEN DR(ERR, ads)
                 ELSE IF n # Len(f.params) THEN DR(ERR, ads)                  \* wrong number of arguments
                 ELSE IF \E i \in 1..n : ~IsVal(vals[i]) THEN DR(UNS, ads)
                 ELSE IF d.fuel = 0 THEN DR(ERR, devs)                        \* a definition in terms of itself has no value
                 ELSE LET b == DocEval(f.body, <<f>>, vals, [d EXCEPT !.fuel = d.fuel - 1]) IN DR(b.r, devs \cup b.d)
            ELSE IF up \in {"SYMTYPE", "DEFINED"} THEN DR(DocSymFun(up, t.args, d), {})
            ELSE DR(ApplyFun(up, vals, <<>>), ads)                            \* built-in, any spelling; unknown name: ERR
    [] OTHER -> DR(ERR, {})
=============================================================================
