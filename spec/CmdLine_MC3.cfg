\* thorough: every template of asl, <= 3 occurrences
CONSTANTS Fixed = {} Prog = "asl" MaxOcc = 3 Alphabet = "all"
SPECIFICATION SpecMC
INVARIANTS ScanIsFold DeviationsAreNamed PlaceNeverMatters EnvBeforeArgv ErrorIsFinal
CHECK_DEADLOCK FALSE
