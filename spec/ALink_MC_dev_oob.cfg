\* the code as it is (no bounds check of a patch entry against its record): TLC must find the access outside the buffer
CONSTANTS MaxFiles = 2 MaxRecs = 1 Starts = {256} Rels <- R_Abs POffs = {5} PNames <- N_a PTypes <- T_1 MaxP = 1
  XNames <- N_a XFlags = {0} XVals = {4660} MaxX = 1 Dev <- D_Oob
SPECIFICATION Spec
INVARIANTS NoCrash
CHECK_DEADLOCK FALSE
