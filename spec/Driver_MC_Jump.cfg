\* C02, the jump-error discard protocol: one file, every sequence of <= 3 line classes out of {ok, err, user
\* warning / error, forward reference, undefined symbol, tjmp (TransientJumpErr), pjmp} x -Y x -maxerrors {0,2} x -Werror
CONSTANTS MaxLines = 3 MaxFiles = 1 Wrap = 0 Leaky = {}
CONSTANTS Kinds <- KindsJump OptSpace <- OptsJump
SPECIFICATION Spec
INVARIANTS StatusZeroIffNoError ZeroKeepsAll ErrorsDropCode ErrorStatus SummaryAgrees WerrorLeavesNoWarnings
           WarningsHarmless NoDiscardWithoutY MachineIsOutcome FreshStart Independent
CHECK_DEADLOCK FALSE
