\* generator (thorough): simulated histories of 6 statements over OpsFullGen
CONSTANTS Codes <- MCCodes
 FileTabs <- MCFileTabs
 Ops <- OpsFullGen
 MaxLen = 6
 CheckBackward = FALSE
 CaseModes = {FALSE, TRUE}
 Dev = {}
 DevSourceChecked = TRUE
INIT Init
NEXT NextSim
CHECK_DEADLOCK FALSE
INVARIANTS Dump MachineIsFold
