-------------------------------- MODULE Listing --------------------------------
(* C19 - what the listing, the debug map and the share file say about the code file.                    *)
(*                                                                                                     *)
(* The reports are functions of the per-line emission of the assembler (one record per source line that *)
(* emits or reserves code: line, segment, granularity, load address, phase, bytes as written):          *)
(*   MakeListRows   asmlist.c MakeList(): first row + continuation rows, units grouped by the listing   *)
(*                  granularity, falling back to bytes for the tail, row capacity LISTLINESPACE = 20,   *)
(*                  address of the first unit = EProgCounter() - CodeLen (execution address)            *)
(*   LineInfo       asmsub.c BookKeeping() -> asmdebug.c AddLineInfo(): (segment, line, ProgCounter())  *)
(*   the symbol reports carry each symbol's final value (PrintSymbolList, PrintDebSymbols,              *)
(*   PrintNoISymbols, CodeSHARED)                                                                      *)
(* and the declarative side says what a reader may conclude from them:                                  *)
(*   RowFaithful / GroupFaithful   every unit shown in a row is the line's code at the shown address,    *)
(*                                 the rows of a line together show all of its code                      *)
(*   LineShown                     the row of a line that produced code holds units (no extra text in     *)
(*                                 place of the code)                                                    *)
(*   InFile                        the line's code is in a record of its segment at its load address     *)
(*   MapEntryJustified             a line:address entry names a line whose code starts there             *)
(*   ShareFormats                  the number syntax of a share line                                     *)
(* Numbers that may exceed TLC's 32-bit integers (addresses, phase) are pairs <<hi, lo>>,               *)
(* value = hi * 2^24 + lo, 0 <= lo < 2^24 (hi may be negative: phase).                                  *)
EXTENDS Integers, Sequences, FiniteSets

------------------------------------------------------------------------------------------------------
(* split numbers                                                                                       *)
B24 == 16777216
Norm2(hi, lo) == <<hi + (lo \div B24), lo % B24>>             \* \div, % are floor division / modulus in TLA+
AddN(a, b)  == Norm2(a[1] + b[1], a[2] + b[2])
AddI(a, n)  == Norm2(a[1], a[2] + n)                           \* n a small integer (may be negative)
SubN(a, b)  == Norm2(a[1] - b[1], a[2] - b[2])
\* a - b as a small integer if it is one (|a-b| < 2^30), else -1
SmallDiff(a, b) == LET d == SubN(a, b) IN
                   IF d[1] = 0 THEN d[2] ELSE IF d[1] < 64 /\ d[1] > 0 THEN d[1] * B24 + d[2] ELSE -1
N0 == <<0, 0>>

------------------------------------------------------------------------------------------------------
(* widths of the unit columns: SysString(0xff / 0xffff / 0xffffffff, ListRadixBase) = digits needed     *)
\* (asmlist_init).  The harness computes the widths with its own digit count; WidthsOf is the table for the
\* radices the check uses, so that TLC can confirm them.
WidthsOf(radix) == CASE radix = 2  -> [w1 |-> 8, w2 |-> 16, w4 |-> 32]
                     [] radix = 8  -> [w1 |-> 3, w2 |-> 6,  w4 |-> 11]
                     [] radix = 10 -> [w1 |-> 3, w2 |-> 5,  w4 |-> 10]
                     [] radix = 16 -> [w1 |-> 2, w2 |-> 4,  w4 |-> 8]
                     [] radix = 36 -> [w1 |-> 2, w2 |-> 4,  w4 |-> 7]
                     [] OTHER      -> [w1 |-> 0, w2 |-> 0,  w4 |-> 0]

UnitWidth(W, size) == CASE size = 4 -> W.w4 [] size = 2 -> W.w2 [] OTHER -> W.w1
LISTLINESPACE == 20

------------------------------------------------------------------------------------------------------
(* asmlist.c MakeList(): the rows of one source line.                                                   *)
(*   bytes   the line's code as written to the file (after the endian turn)                             *)
(*   gran    Granularity() of the segment, lgran = ActListGran, big = words are stored high byte first  *)
(*   pc      execution address of the first unit (EProgCounter() - CodeLen)                             *)
(* A row is [addr, units] with units = sequence of [size, bytes] (bytes = the unit's file bytes in file  *)
(* order; the printed number is Compose(bytes, big)).                                                   *)
\* the inner do-while: take units while they fit
RECURSIVE RowUnits(_, _, _, _, _, _, _, _)
RowUnits(bytes, idx, cur, gran, W, sum, pc, acc) ==
  \* idx = bytes consumed, cur = CurrListGran, sum = SumLen so far; returns [units, idx, cur, pc]
  LET w     == UnitWidth(W, cur)
      have  == idx < Len(bytes)
      u     == IF have THEN <<[size |-> cur, bytes |-> SubSeq(bytes, idx + 1, idx + cur)]>> ELSE <<>>
      idx2  == idx + cur
      pc2   == AddI(pc, IF gran = cur THEN 1 ELSE cur)                      \* ListPC += (Gran == CurrListGran) ? 1 : CurrListGran
      cur2  == IF idx2 + cur > Len(bytes) THEN 1 ELSE cur                   \* less than a full word left: bytes
      sum2  == sum + w + 1
      w2    == UnitWidth(W, cur2)
  IN  IF sum2 + w2 + 1 < LISTLINESPACE
      THEN RowUnits(bytes, idx2, cur2, gran, W, sum2, pc2, acc \o u)
      ELSE [units |-> acc \o u, idx |-> idx2, cur |-> cur2, pc |-> pc2]

RECURSIVE RowsFrom(_, _, _, _, _, _, _)
RowsFrom(bytes, idx, cur, gran, W, pc, acc) ==
  LET r == RowUnits(bytes, idx, cur, gran, W, 0, pc, <<>>)
      rows == Append(acc, [addr |-> pc, units |-> r.units])
  IN  IF r.idx < Len(bytes) THEN RowsFrom(bytes, r.idx, r.cur, gran, W, r.pc, rows) ELSE rows

MakeListRows(bytes, gran, lgran, W, pc, dontprint) ==
  IF dontprint \/ bytes = <<>> THEN << [addr |-> pc, units |-> <<>>] >>
  ELSE RowsFrom(bytes, 0, IF Len(bytes) < lgran THEN 1 ELSE lgran, gran, W, pc, <<>>)

------------------------------------------------------------------------------------------------------
(* what the reader concludes from a row (declarative side)                                              *)
\* byte offset (within the line's code) of unit k of a sequence of units
RECURSIVE UnitOffset(_, _)
UnitOffset(units, k) == IF k <= 1 THEN 0 ELSE UnitOffset(units, k - 1) + units[k - 1].size

\* a line's emission e = [line, seg, gran, addr, ph, bytes]; the execution address of the unit that starts at
\* byte offset off of the line (defined only on address boundaries)
ExecAddr(e, off) == AddI(AddN(e.addr, e.ph), off \div e.gran)
OnBoundary(e, off) == off % e.gran = 0

\* Row r lists the line's code from byte offset off on: address and every unit are the facts of the emission
RowFaithful(r, e, off) ==
  /\ r.units # <<>> => (OnBoundary(e, off) /\ r.addr = ExecAddr(e, off))
  /\ \A k \in 1..Len(r.units) :
       LET o == off + UnitOffset(r.units, k) IN
       /\ o + r.units[k].size <= Len(e.bytes)
       /\ r.units[k].bytes = SubSeq(e.bytes, o + 1, o + r.units[k].size)
RowLen(r) == UnitOffset(r.units, Len(r.units) + 1)

\* A listed line that produced code shows it: the first row of the line of emission e (it carries the execution
\* address of e's first unit) holds units - an extra text ('=>TRUE', '[n]', '(MACRO)', '=value', ...) may take the
\* place of the code dump only on lines that produced no code.  (Which statement leaves which text, and which lines
\* are kept out of the listing altogether: ListingModes.tla.)
LineShown(r, e) == (e.bytes # <<>> /\ r.addr = ExecAddr(e, 0)) => r.units # <<>>

\* a whole group of rows (first row + continuation rows) is faithful and complete for emission e
RECURSIVE GroupFaithful(_, _, _, _)
GroupFaithful(rows, k, e, off) ==
  IF k > Len(rows) THEN off = Len(e.bytes)
  ELSE RowFaithful(rows[k], e, off) /\ GroupFaithful(rows, k + 1, e, off + RowLen(rows[k]))

------------------------------------------------------------------------------------------------------
(* code file: records [seg, gran, start, data]; the emission is in the file if some record of its       *)
(* segment holds its bytes at its load address                                                          *)
InRecord(rec, e) ==
  /\ rec.seg = e.seg
  /\ LET d == SmallDiff(e.addr, rec.start) IN
       /\ d >= 0
       /\ d * e.gran + Len(e.bytes) <= Len(rec.data)
       /\ SubSeq(rec.data, d * e.gran + 1, d * e.gran + Len(e.bytes)) = e.bytes
InFile(recs, e) == \E i \in 1..Len(recs) : InRecord(recs[i], e)

\* printed number <-> file bytes: the digits of a unit name its bytes most significant first ("shown"); the
\* file holds them in that order (big endian) or reversed (little endian) - one order for all units of a line
\* (Listing_Trace: Order / Agree)
Reverse(bs) == [i \in 1..Len(bs) |-> bs[Len(bs) + 1 - i]]
ShownMatches(shown, filebytes, big) == IF big THEN shown = filebytes ELSE shown = Reverse(filebytes)

------------------------------------------------------------------------------------------------------
(* debug map: one entry per code-emitting line: (segment, line, load address of its first unit)        *)
MapEntryJustified(m, emits) ==
  \E i \in 1..Len(emits) : emits[i].seg = m.seg /\ emits[i].line = m.line /\ emits[i].addr = m.addr

------------------------------------------------------------------------------------------------------
(* share file (asmallg.c CodeSHARED + IntLine): one definition per shared symbol, in the syntax of the   *)
(* consumer.  A share line is judged as (kind, name, number format, value):                             *)
(*    C          #define NAME 0x<hex>          (eIntConstModeC)                                          *)
(*    Pascal     NAME = $<hex>;                (eIntConstModeMoto)                                       *)
(*    assembler  NAME equ|set <number in the target's own integer syntax>                                *)
ShareFormats(src) == CASE src = "share-c"   -> {"0x"}
                       [] src = "share-pas" -> {"$"}
                       [] src = "share-asm" -> {"0x", "$", "h", "x'"}
                       [] OTHER             -> {""}

===============================================================================
