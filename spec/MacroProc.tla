----------------------------- MODULE MacroProc -----------------------------
(***************************************************************************)
(* The macro processor of AS (as.c): the input-tag / output-tag machine    *)
(* that feeds source lines to the assembler core, and the declarative      *)
(* meaning of the constructs it implements (C11).                          *)
(*                                                                         *)
(* TEXT MODEL.  A line is a sequence of tokens (strings).  A token is a    *)
(* maximal run of letters/digits (a "word"), one punctuation character,    *)
(* SP (any amount of white space), or one byte of a 2-byte parameter token *)
(* CtrlTok(k) as CompressLine() stores it.  Fields of a line:              *)
(*     <label tokens> SP <op> [ "." <attr> ] SP <arg tokens with ","s>     *)
(* The renderer concatenates tokens; nothing else is text.  "A whole       *)
(* parameter name" = a word token equal to the name; identifiers that only *)
(* contain the name (XP1, P12) are different tokens.                       *)
(*                                                                         *)
(* MACHINE SIDE (shaped like the C code, one operator per function):       *)
(*   GetNextLine      pop exhausted tags (Cleanup + Restorer), run the     *)
(*                    processor of the top tag                             *)
(*   FileProc/MacroProcessor/IrpProcessor/IrpcProcessor/ReptProcessor/     *)
(*   WhileProcessor   = INCLUDE_/MACRO_/IRP_/IRPC_/REPT_/WHILE_Processor   *)
(*   OutProcess       = MACRO_/IRP_/REPT_/WHILE_OutProcessor, WaitENDM     *)
(*   ReadMacro, ExpandMacro, ExpandIRP/IRPN/IRPC/REPT/WHILE, ExpandEXITM,  *)
(*   ExpandSHIFT, ExpandINCLUDE, CodeBINCLUDE (asmallg.c)                  *)
(*   CompressLine/ExpandLine (asmsub.c) on 2-byte tokens, KillCtrl         *)
(*   Push/PopLocHandle, FindLocNode chain (asmpars.c)                      *)
(* Deviations of the pinned code from the manual are NAMED (DevNames) and  *)
(* switchable: Fix(d) selects the repaired behaviour, ~Fix(d) the code as  *)
(* it is.  The machine records in st.devs which deviation actually fired:  *)
(*   EmptyBodyPop      MACRO_Restorer pops a symbol space never pushed     *)
(*   IrpcEmptyOnce     IRP_OutProcessor queues IRPC over ""                *)
(*   TokenStraddle     ExpandLine matches across two stored tokens         *)
(*   ShiftExcess       ExpandSHIFT unbinds the last formal parameter       *)
(*   IrpDoubleCleanup  IRP_Cleanup called twice after EXITM: NULL deref    *)
(*   IrpPosNext        IRP_GetPos names the next argument (st.pdevs, C20)  *)
(*   AllArgsLeadingEmpty  ComputeMacroStrings (after SHIFT) writes the     *)
(*                     separator only once ALLARGS is non-empty: leading   *)
(*                     empty arguments vanish from ALLARGS                 *)
(* Every delivered statement also carries its POSITION (section 3, C20).   *)
(*                                                                         *)
(* DECLARATIVE SIDE: ExpandDecl(files) = the manual's textual substitution *)
(* semantics as a recursive big-step evaluator over the program text       *)
(* (matching ENDM found on the text, bodies substituted by NAME, loops     *)
(* unrolled, one fresh label scope per expansion instance unless           *)
(* GLOBALSYMBOLS).  It yields the flat list of ordinary statements, i.e.   *)
(* the program "carried out by hand", plus `indef` when the manual leaves  *)
(* the outcome open.                                                       *)
(***************************************************************************)
EXTENDS Integers, Sequences, FiniteSets, TLC

CONSTANTS Fixed,      \* set of deviation names that are repaired in this instance of the model
          HasAttrs,   \* target has instruction attributes (68000: TRUE, Z80: FALSE)
          MaxNum      \* largest number literal that occurs as a token

C == INSTANCE CondAsm

DevNames == {"EmptyBodyPop", "IrpcEmptyOnce", "TokenStraddle", "ShiftExcess", "IrpPosNext", "IrpDoubleCleanup",
             "AllArgsLeadingEmpty"}
Fix(d) == d \in Fixed

(***************************************************************************)
(* 1. Tokens and text helpers                                              *)
(***************************************************************************)
SP    == " "
COMMA == ","
BS    == "\\"
CONT  == "\\n"          \* backslash-newline inside a logical line (continuation)
QUOTE == "\""
LABELTOK == "__LABEL__"
Punct == {SP, COMMA, BS, CONT, QUOTE, LABELTOK, "+", "-", "_", "'", ":", "(", ")", "<", ">", "=", "{", "}",
          "!", ".", "*", "#", "$", "%", "&", "/", ";", "?", "@", "[", "]", "^", "`", "|", "~"}        \* every ASCII punctuation character
CtrlTok(k) == "^" \o ToString(k)
CtrlToks == {CtrlTok(k) : k \in 1..32}
IsCtrl(t) == t \in CtrlToks
IsWord(t) == t \notin Punct /\ t \notin CtrlToks

UNDEF == -99999

Range(s) == {s[i] : i \in DOMAIN s}
Min(a, b) == IF a < b THEN a ELSE b
Max(a, b) == IF a > b THEN a ELSE b

RECURSIVE Flatten(_)
Flatten(ss) == IF ss = <<>> THEN <<>> ELSE Head(ss) \o Flatten(Tail(ss))

RECURSIVE JoinWith(_, _)
JoinWith(ss, sep) ==
  IF ss = <<>> THEN <<>> ELSE IF Len(ss) = 1 THEN ss[1] ELSE ss[1] \o <<sep>> \o JoinWith(Tail(ss), sep)

FirstIdx(s, x) == IF x \in Range(s) THEN CHOOSE i \in DOMAIN s : s[i] = x /\ \A j \in 1..(i-1) : s[j] # x ELSE 0

\* QuotPos(): first occurrence of x outside '...' and "..."
RECURSIVE QuotScan(_, _, _, _)
QuotScan(s, x, i, q) ==
  IF i > Len(s) THEN 0
  ELSE IF q = "" /\ s[i] = x THEN i
  ELSE IF q = "" /\ s[i] \in {"'", "\""} THEN QuotScan(s, x, i + 1, s[i])
  ELSE IF q # "" /\ s[i] = q THEN QuotScan(s, x, i + 1, "")
  ELSE QuotScan(s, x, i + 1, q)
QuotIdx(s, x) == QuotScan(s, x, 1, "")

RECURSIVE SplitOn(_, _)
SplitOn(s, sep) ==            \* n separators -> n+1 pieces
  LET i == FirstIdx(s, sep)
  IN IF i = 0 THEN <<s>> ELSE <<SubSeq(s, 1, i - 1)>> \o SplitOn(SubSeq(s, i + 1, Len(s)), sep)

Without(s, x) == SelectSeq(s, LAMBDA t : t # x)
Count(s, x) == Len(SelectSeq(s, LAMBDA t : t = x))

\* adjacent words are one word in the text (outside double quotes, where the model keeps characters apart)
RECURSIVE NormQ(_, _)
NormQ(s, inq) ==
  IF Len(s) < 2 THEN s
  ELSE IF s[1] = QUOTE THEN <<s[1]>> \o NormQ(Tail(s), ~inq)
  ELSE IF ~inq /\ IsWord(s[1]) /\ IsWord(s[2]) THEN NormQ(<<s[1] \o s[2]>> \o SubSeq(s, 3, Len(s)), inq)
  ELSE <<s[1]>> \o NormQ(Tail(s), inq)
Norm(s) == NormQ(s, FALSE)

Trim(s) ==      \* KillPrefBlanks / KillPostBlanks on an argument
  LET a == IF s # <<>> /\ s[1] = SP THEN Tail(s) ELSE s
  IN IF a # <<>> /\ a[Len(a)] = SP THEN SubSeq(a, 1, Len(a) - 1) ELSE a

\* --- SplitLine (as.c), at token level ------------------------------------------------------------
LabOf(l)  == IF l = <<>> THEN <<>> ELSE IF FirstIdx(l, SP) = 0 THEN l ELSE SubSeq(l, 1, FirstIdx(l, SP) - 1)
RestOf(l) == IF FirstIdx(l, SP) = 0 THEN <<>> ELSE SubSeq(l, FirstIdx(l, SP) + 1, Len(l))
OpField(l) == LET r == RestOf(l) IN IF FirstIdx(r, SP) = 0 THEN r ELSE SubSeq(r, 1, FirstIdx(r, SP) - 1)
OpOf(l)   == IF OpField(l) = <<>> THEN "" ELSE OpField(l)[1]
AttrOf(l) == LET f == OpField(l) IN IF HasAttrs /\ Len(f) >= 2 /\ f[2] = "." THEN SubSeq(f, 3, Len(f)) ELSE <<>>
ArgToks(l) == LET r == RestOf(l) IN IF FirstIdx(r, SP) = 0 THEN <<>> ELSE SubSeq(r, FirstIdx(r, SP) + 1, Len(r))
ArgsOf(l) == LET a == ArgToks(l) IN IF a = <<>> THEN <<>> ELSE LET p == SplitOn(a, COMMA) IN [i \in DOMAIN p |-> Trim(p[i])]
RECURSIVE Glue(_)
Glue(ts) == IF ts = <<>> THEN "" ELSE ts[1] \o Glue(Tail(ts))
LabName(l) == Glue(LabOf(l))

IsCtrlArg(a) == Len(a) >= 2 /\ a[1] = "{" /\ a[Len(a)] = "}"
CtrlName(a) == IF Len(a) >= 3 THEN a[2] ELSE ""          \* {NAME} or {NAME:section}

\* --- integer expressions the macro processor itself evaluates (REPT count, WHILE/IF condition, SET) --
NumSeq == [i \in 1..(MaxNum + 1) |-> ToString(i - 1)]        \* constant: evaluated once
NumSet == {NumSeq[i] : i \in DOMAIN NumSeq}
IsNumTok(t) == t \in NumSet
NumVal(t) == (CHOOSE i \in DOMAIN NumSeq : NumSeq[i] = t) - 1
Atom(t, env) == IF IsNumTok(t) THEN NumVal(t) ELSE IF t \in DOMAIN env THEN env[t] ELSE UNDEF
Eval(ts, env) ==
  CASE Len(ts) = 1 -> Atom(ts[1], env)
    [] Len(ts) = 2 /\ ts[1] = "-" -> IF Atom(ts[2], env) = UNDEF THEN UNDEF ELSE 0 - Atom(ts[2], env)
    [] Len(ts) = 3 /\ ts[2] \in {"+", "-", ">", "<"} ->
         LET a == Atom(ts[1], env)  b == Atom(ts[3], env)
         IN IF a = UNDEF \/ b = UNDEF THEN UNDEF
            ELSE CASE ts[2] = "+" -> a + b [] ts[2] = "-" -> a - b
                   [] ts[2] = ">" -> (IF a > b THEN 1 ELSE 0) [] OTHER -> (IF a < b THEN 1 ELSE 0)
    [] OTHER -> UNDEF
SetEnv(env, x, v) == [y \in DOMAIN env \cup {x} |-> IF y = x THEN v ELSE env[y]]

IFOps == {"IF", "IFB", "IFNB", "ELSE", "ENDIF"}
LoopOps == {"IRP", "IRPN", "IRPC", "REPT", "WHILE"}
MacroStart(op) == op \in LoopOps \cup {"MACRO"}
MacroEnd(op) == op \in {"ENDM", "ENDR"}
NoLabelOps == {"MACRO", "SET"}          \* the label field is the operand of the statement (LabelPresent())
AllBlank(args) == \A i \in DOMAIN args : args[i] = <<>>

\* BINCLUDE window (asmallg.c CodeBINCLUDE): bytes ofs+1 .. ofs+len of the file, len = -1: rest
BinWindow(bytes, ofs, len) ==
  LET n == IF len = -1 THEN Len(bytes) - ofs ELSE len
  IN IF ofs < 0 \/ n < 0 \/ ofs + n > Len(bytes) THEN <<>> ELSE SubSeq(bytes, ofs + 1, ofs + n)
BinOK(bytes, ofs, len) == ofs >= 0 /\ (IF len = -1 THEN ofs <= Len(bytes) ELSE len >= 0 /\ ofs + len <= Len(bytes))
DataLine(op, vals) ==      \* the statement that lays down the given numbers
  <<SP, op, SP>> \o JoinWith([i \in DOMAIN vals |-> <<ToString(vals[i])>>], COMMA)

(***************************************************************************)
(* 2. asmsub.c: CompressLine / ExpandLine on 2-byte tokens, KillCtrl       *)
(***************************************************************************)
ArgCntMax == 476
TokHi(z) == (z \div 16) + 1
TokLo(z) == (z % 16) + 1
TokenOf(z) == <<CtrlTok(TokHi(z)), CtrlTok(TokLo(z))>>
TokATTR == ArgCntMax + 1   TokNUM == ArgCntMax + 2   TokALL == ArgCntMax + 3   TokLAB == ArgCntMax + 4

\* ReplaceLine(): whole names only; \name\ is replaced together with its backslashes
RECURSIVE CompressLine(_, _, _)
CompressLine(name, z, s) ==
  IF s = <<>> THEN <<>>
  ELSE IF Len(s) >= 3 /\ s[1] = BS /\ s[2] = name /\ s[3] = BS
       THEN TokenOf(z) \o CompressLine(name, z, SubSeq(s, 4, Len(s)))
  ELSE IF s[1] = name THEN TokenOf(z) \o CompressLine(name, z, Tail(s))
  ELSE <<s[1]>> \o CompressLine(name, z, Tail(s))

\* ReplaceLineUnchecked(): byte-wise scan, a match may straddle two stored tokens
RECURSIVE ExpandAsCoded(_, _, _)
ExpandAsCoded(val, z, s) ==
  IF Len(s) < 2 THEN s
  ELSE IF s[1] = TokenOf(z)[1] /\ s[2] = TokenOf(z)[2] THEN val \o ExpandAsCoded(val, z, SubSeq(s, 3, Len(s)))
  ELSE <<s[1]>> \o ExpandAsCoded(val, z, Tail(s))
\* repaired: stored tokens are stepped over as units
RECURSIVE ExpandAligned(_, _, _)
ExpandAligned(val, z, s) ==
  IF Len(s) < 2 THEN s
  ELSE IF IsCtrl(s[1])
       THEN (IF s[1] = TokenOf(z)[1] /\ s[2] = TokenOf(z)[2] THEN val ELSE <<s[1], s[2]>>)
            \o ExpandAligned(val, z, SubSeq(s, 3, Len(s)))
  ELSE <<s[1]>> \o ExpandAligned(val, z, Tail(s))
ExpandLine(val, z, s) == IF Fix("TokenStraddle") THEN ExpandAligned(val, z, s) ELSE ExpandAsCoded(val, z, s)

KillCtrl(s) == [i \in DOMAIN s |-> IF IsCtrl(s[i]) THEN SP ELSE s[i]]

RECURSIVE CompressAll(_, _, _)     \* for z = from .. Len(names)
CompressAll(names, z, s) == IF z > Len(names) THEN s ELSE CompressAll(names, z + 1, CompressLine(names[z], z, s))

RECURSIVE ExpandAll(_, _, _, _)    \* for z = from .. upto : ExpandLine(vals[ofs + z], z)
ExpandAll(vals, z, upto, s) ==
  IF z > upto THEN s ELSE ExpandAll(vals, z + 1, upto, ExpandLine(IF z <= Len(vals) THEN vals[z] ELSE <<>>, z, s))
\* a straddling match needs two stored tokens side by side
HasAdjacentTokens(s) == \E i \in 1..(Len(s) - 3) : IsCtrl(s[i]) /\ IsCtrl(s[i + 1]) /\ IsCtrl(s[i + 2]) /\ IsCtrl(s[i + 3])
RECURSIVE StraddleIn(_, _, _, _)
StraddleIn(vals, z, upto, s) ==
  IF z > upto THEN FALSE
  ELSE LET v == IF z <= Len(vals) THEN vals[z] ELSE <<>>
       IN ExpandAsCoded(v, z, s) # ExpandAligned(v, z, s) \/ StraddleIn(vals, z + 1, upto, ExpandAsCoded(v, z, s))

(***************************************************************************)
(* 3. State of the machine                                                 *)
(***************************************************************************)
NoLoc == [h |-> -1, birth |-> 0, depth |-> 0]

BaseTag(st) ==     \* GenerateProcessor()
  [kind |-> "", name |-> <<>>, lines |-> <<>>, lineCnt |-> 0, lineZ |-> 1, parZ |-> 0, parCnt |-> 0, parIter |-> 0,
   params |-> <<>>, isEmpty |-> FALSE, first |-> TRUE, pushed |-> FALSE, glob |-> FALSE, isMacro |-> FALSE,
   ifLevel |-> Len(st.cm.stk), usesNum |-> FALSE, usesAll |-> FALSE, numArgs |-> <<>>, allArgs |-> <<>>,
   saveAttr |-> <<>>, saveLabel |-> <<>>, intLabel |-> FALSE, macro |-> "",
   startLine |-> st.currLine, fromFile |-> (st.tags = <<>> \/ Head(st.tags).kind = "FILE"), idx |-> 0,
   saveFile |-> ""]

BaseOut == [kind |-> "WAIT", nest |-> 0, tag |-> <<>>, mac |-> <<>>, pnames |-> <<>>, usesNum |-> FALSE, usesAll |-> FALSE]

InitSt(files, bins) ==
  [tags |-> <<>>, outs |-> <<>>, macros |-> <<>>, cm |-> C!InitM, env |-> <<>>,
   loc |-> [mom |-> NoLoc, stack |-> <<>>, cnt |-> 0],
   delivered |-> <<>>, errs |-> 0, devs |-> {}, pdevs |-> {}, crashed |-> FALSE, currLine |-> 0, momLine |-> 0, currFile |-> "", pass |-> 1,
   files |-> files, bins |-> bins]

Err(st) == [st EXCEPT !.errs = @ + 1]
Dev(st, d) == [st EXCEPT !.devs = @ \cup {d}]

\* --- asmpars.c local symbol handles ----------------------------------------------------------------
PushLoc(st) ==      \* PushLocHandle(GetLocHandle())
  LET new == [h |-> st.loc.cnt, birth |-> Len(st.delivered) + 1, depth |-> Len(st.loc.stack) + 1]
  IN [st EXCEPT !.loc = [mom |-> new, stack |-> <<st.loc.mom>> \o st.loc.stack, cnt |-> st.loc.cnt + 1]]
PopLoc(st) ==
  IF st.loc.stack = <<>> THEN st
  ELSE [st EXCEPT !.loc = [mom |-> Head(st.loc.stack), stack |-> Tail(st.loc.stack), cnt |-> st.loc.cnt]]
\* FindLocNode(): MomLocHandle, then the saved handles down to the first -1
RECURSIVE UpToNone(_)
UpToNone(stk) == IF stk = <<>> \/ Head(stk) = NoLoc THEN <<>> ELSE <<Head(stk)>> \o UpToNone(Tail(stk))
ScopeChain(loc) == IF loc.mom = NoLoc THEN <<>> ELSE <<loc.mom>> \o UpToNone(loc.stack)
ScopeId(x) == <<x.birth, x.depth>>

\* --- positions (GetErrorPos and the *_GetPos functions), kept with every delivered statement ----------
IrpPosF(t, fixed) ==
  LET pit == IF fixed THEN (IF t.parIter = 0 THEN 1 ELSE t.parIter)
             ELSE (IF t.parIter = 0 THEN 0 ELSE 1)           \* as coded: the two branches are swapped
      wrap == t.lineZ - 1 <= 0
      lz == IF wrap THEN t.lineCnt ELSE t.lineZ - 1
      pz == IF wrap THEN t.parZ - pit ELSE t.parZ
      grp == [i \in 1..Min(Max(pit, 1), Max(Len(t.params) - pz + 1, 0)) |-> t.params[pz + i - 1]]
      val == IF t.kind = "IRPC"
             THEN (IF pz >= 1 /\ pz <= Len(t.name) THEN <<"'", t.name[pz], "'">> ELSE <<"'">>)
             ELSE IF t.saveAttr # <<>> THEN t.saveAttr
             ELSE IF pz < 1 \/ pz > Len(t.params) THEN <<>> ELSE JoinWith(grp, COMMA)
  IN [k |-> IF t.kind = "IRPC" THEN "IRPC" ELSE IF t.parIter = 0 THEN "IRP" ELSE "IRPN",
      n |-> val, i |-> 0, b |-> lz]
IrpPos(t) == IrpPosF(t, Fix("IrpPosNext"))
LoopPos(t) ==
  LET wrap == t.lineZ - 1 <= 0
  IN [k |-> t.kind, n |-> <<>>, i |-> IF wrap THEN t.parZ - 1 ELSE t.parZ, b |-> IF wrap THEN t.lineCnt ELSE t.lineZ - 1]
TagPos(t) ==
  CASE t.kind = "FILE"  -> [k |-> "FILE", n |-> <<t.name[1]>>, i |-> 0, b |-> t.lineZ]
    [] t.kind = "MACRO" -> [k |-> "MACRO", n |-> t.name, i |-> 0, b |-> t.lineZ - 1]
    [] t.kind \in {"IRP", "IRPC"} -> IrpPos(t)
    [] OTHER -> LoopPos(t)
\* native: tags from the top down to and including the first FILE tag, printed outermost first;
\* gnu: the innermost FILE tag, preceded by the FILE tags below it ("In file included from")
RECURSIVE NativeChain(_)
NativeChain(tags) ==
  IF tags = <<>> THEN <<>>
  ELSE IF Head(tags).kind = "FILE" THEN <<TagPos(Head(tags))>> ELSE NativeChain(Tail(tags)) \o <<TagPos(Head(tags))>>
FileTags(tags) == SelectSeq(tags, LAMBDA t : t.kind = "FILE")
PosOf(tags) ==
  LET ft == FileTags(tags)
  IN [native |-> NativeChain(tags), gnu |-> [i \in DOMAIN ft |-> TagPos(ft[i])]]      \* [1] = innermost

Deliver(st, l) ==
  LET ch == ScopeChain(st.loc)
      wrongIrp == ~Fix("IrpPosNext") /\ \E i \in DOMAIN st.tags : st.tags[i].kind \in {"IRP", "IRPC"}
                                                               /\ IrpPosF(st.tags[i], TRUE) # IrpPosF(st.tags[i], FALSE)
  IN [st EXCEPT !.delivered = Append(@, [l |-> l, sc |-> [i \in DOMAIN ch |-> ScopeId(ch[i])], pos |-> PosOf(st.tags)]),
                !.pdevs = IF wrongIrp THEN @ \cup {"IrpPosNext"} ELSE @]

(***************************************************************************)
(* 4. GetNextLine and the processors                                       *)
(***************************************************************************)
SetTop(st, t) == [st EXCEPT !.tags = <<t>> \o Tail(st.tags)]

\* Cleanup + Restorer of the top tag, then unlink it.  IRP_Cleanup walks to the last parameter without checking
\* for an empty list: after EXITM (which already called Cleanup) the second call dereferences NULL.
PopTag(st) ==
  LET t == Head(st.tags)
      s0 == [st EXCEPT !.tags = Tail(st.tags)]
  IN IF t.kind = "IRP" /\ t.params = <<>> /\ ~Fix("IrpDoubleCleanup")
     THEN [Dev(st, "IrpDoubleCleanup") EXCEPT !.crashed = TRUE, !.tags = <<>>]
     ELSE IF t.kind = "FILE"
     THEN [s0 EXCEPT !.momLine = t.startLine, !.currFile = t.saveFile]           \* INCLUDE_Restorer
     ELSE LET unpushed == ~t.glob /\ ~t.pushed                                   \* MACRO_Restorer
              s1 == IF t.glob THEN s0
                    ELSE IF unpushed /\ Fix("EmptyBodyPop") THEN s0
                    ELSE IF unpushed /\ s0.loc.stack # <<>> THEN Dev(PopLoc(s0), "EmptyBodyPop")
                    ELSE PopLoc(s0)
          IN IF t.kind = "MACRO" /\ t.macro \in DOMAIN s1.macros /\ s1.macros[t.macro].useCnt > 0
             THEN [s1 EXCEPT !.macros[t.macro].useCnt = @ - 1] ELSE s1

RECURSIVE PopEmpty(_)
PopEmpty(st) == IF st.tags # <<>> /\ Head(st.tags).isEmpty THEN PopEmpty(PopTag(st)) ELSE st

\* INCLUDE_Processor: one logical line; the line counter advances by the physical lines consumed
FileProc(st) ==
  LET t == Head(st.tags)
      eof == t.idx >= Len(t.lines)
      raw == IF eof THEN <<>> ELSE t.lines[t.idx + 1]
      ml == st.momLine + (IF eof THEN 1 ELSE 1 + Count(raw, CONT))
      t2 == [t EXCEPT !.idx = @ + 1, !.lineZ = ml, !.isEmpty = eof]
  IN [st |-> [SetTop(st, t2) EXCEPT !.momLine = ml, !.currLine = ml], line |-> Without(raw, CONT)]

\* first body line of an iteration: drop the previous iteration's symbol space, open a new one
IterScope(st, t) ==
  IF t.lineZ # 1 THEN [st |-> st, t |-> t]
  ELSE LET s1 == IF t.glob THEN st ELSE PushLoc(IF t.first THEN st ELSE PopLoc(st))
       IN [st |-> s1, t |-> [t EXCEPT !.first = FALSE, !.pushed = ~t.glob]]

MacroProcessor(st) ==
  LET t == Head(st.tags)
      l0 == t.lines[t.lineZ]
      l1 == ExpandAll(t.params, 1, t.parCnt, l0)
      l2 == IF HasAttrs THEN ExpandLine(t.saveAttr, TokATTR, l1) ELSE l1
      l3 == IF t.usesNum THEN ExpandLine(t.numArgs, TokNUM, l2) ELSE l2
      l4 == IF t.usesAll THEN ExpandLine(t.allArgs, TokALL, l3) ELSE l3
      l5 == IF t.intLabel THEN ExpandLine(t.saveLabel, TokLAB, l4) ELSE l4
      sd == IF ~Fix("TokenStraddle") /\ HasAdjacentTokens(l0) /\ StraddleIn(t.params, 1, t.parCnt, l0) THEN Dev(st, "TokenStraddle") ELSE st
      s1 == IF t.lineZ = 1 /\ ~t.glob THEN PushLoc(sd) ELSE sd
      t2 == [t EXCEPT !.lineZ = @ + 1, !.isEmpty = (t.lineZ + 1 > t.lineCnt),
                      !.pushed = @ \/ (t.lineZ = 1 /\ ~t.glob)]
  IN [st |-> [SetTop(s1, t2) EXCEPT !.currLine = t.startLine], line |-> Norm(l5)]

\* common tail of IRP/IRPC/REPT: step LineZ, at the end of the body step ParZ by `step`
StepIter(t, step) ==
  IF t.lineZ + 1 > t.lineCnt
  THEN [t EXCEPT !.lineZ = 1, !.parZ = @ + step, !.isEmpty = (t.parZ + step > t.parCnt)]
  ELSE [t EXCEPT !.lineZ = @ + 1]

IrpProcessor(st) ==
  LET t0 == Head(st.tags)
      cl == t0.startLine + (IF t0.fromFile THEN t0.lineZ ELSE 0)
      is == IterScope(st, t0)
      t == is.t
      pit == IF t.parIter = 0 THEN 1 ELSE t.parIter
      l == ExpandAll(SubSeq(t.params, t.parZ, Len(t.params)), 1, pit, t.lines[t.lineZ])
  IN [st |-> [SetTop(is.st, StepIter(t, pit)) EXCEPT !.currLine = cl], line |-> Norm(l)]

IrpcProcessor(st) ==
  LET t0 == Head(st.tags)
      cl == t0.startLine + (IF t0.fromFile THEN t0.lineZ ELSE 0)
      is == IterScope(st, t0)
      t == is.t
      ch == IF t.parZ <= Len(t.name) THEN <<t.name[t.parZ]>> ELSE <<>>       \* "" for the NUL behind the string
      l == ExpandLine(ch, 1, t.lines[t.lineZ])
  IN [st |-> [SetTop(is.st, StepIter(t, 1)) EXCEPT !.currLine = cl], line |-> Norm(l)]

ReptProcessor(st) ==
  LET t0 == Head(st.tags)
      cl == t0.startLine + (IF t0.fromFile THEN t0.lineZ ELSE 0)
      is == IterScope(st, t0)
  IN [st |-> [SetTop(is.st, StepIter(is.t, 1)) EXCEPT !.currLine = cl], line |-> is.t.lines[is.t.lineZ]]

WhileProcessor(st) ==
  LET t0 == Head(st.tags)
      cl == t0.startLine + (IF t0.fromFile THEN t0.lineZ ELSE 0)
      is == IterScope(st, t0)
      t == is.t
      v == Eval(t.name, st.env)
      go == t.lineZ # 1 \/ (v # UNDEF /\ v # 0)
      t2 == IF go THEN (IF t.lineZ + 1 > t.lineCnt THEN [t EXCEPT !.lineZ = 1, !.parZ = @ + 1] ELSE [t EXCEPT !.lineZ = @ + 1])
            ELSE [t EXCEPT !.isEmpty = TRUE]
  IN [st |-> [SetTop(is.st, t2) EXCEPT !.currLine = cl], line |-> IF go THEN t.lines[t.lineZ] ELSE <<>>]

\* GetNextLine(): the line handed to SplitLine/Produce_Code ("" when the chain is empty)
GetNextLine(st) ==
  LET s == PopEmpty(st)
  IN IF s.tags = <<>> THEN [st |-> s, line |-> <<>>]
     ELSE CASE Head(s.tags).kind = "FILE"  -> FileProc(s)
            [] Head(s.tags).kind = "MACRO" -> MacroProcessor(s)
            [] Head(s.tags).kind = "IRP"   -> IrpProcessor(s)
            [] Head(s.tags).kind = "IRPC"  -> IrpcProcessor(s)
            [] Head(s.tags).kind = "REPT"  -> ReptProcessor(s)
            [] OTHER                       -> WhileProcessor(s)

InputEnd(st) == \A i \in DOMAIN st.tags : st.tags[i].isEmpty

(***************************************************************************)
(* 5. Produce_Code: definitions being recorded (output tags)               *)
(***************************************************************************)
PushTag(st, t) == [st EXCEPT !.tags = <<t>> \o @]
PushOut(st, o) == [st EXCEPT !.outs = <<o>> \o @]
AddWait(st) == PushOut(st, BaseOut)

NestAfter(o, op) == IF MacroStart(op) THEN o.nest + 1 ELSE IF MacroEnd(op) THEN o.nest - 1 ELSE o.nest

\* l decides (its op field), raw is what gets stored; in the closed model they are the same line
OutProcessR(st, l, raw) ==
  LET o == Head(st.outs)
      n == NestAfter(o, OpOf(l))
      rest == Tail(st.outs)
  IN CASE o.kind = "WAIT" ->                                                   \* WaitENDM_/WaitENDR_Processor
            IF n <= -1 THEN [st EXCEPT !.outs = rest] ELSE [st EXCEPT !.outs = <<[o EXCEPT !.nest = n]>> \o rest]
       [] o.kind = "MACRO" ->                                                  \* MACRO_OutProcessor
            IF n # -1
            THEN LET s0 == KillCtrl(raw)
                     s1 == CompressAll(o.mac.pnames, 1, s0)
                     s2 == IF HasAttrs THEN CompressLine("ATTRIBUTE", TokATTR, s1) ELSE s1
                     s3 == CompressLine("ARGCOUNT", TokNUM, s2)
                     s4 == CompressLine("ALLARGS", TokALL, s3)
                     s5 == IF o.mac.intLabel THEN CompressLine(LABELTOK, TokLAB, s4) ELSE s4
                     o2 == [o EXCEPT !.nest = n, !.mac.lines = Append(@, s5),
                                     !.usesNum = @ \/ s3 # s2, !.usesAll = @ \/ s4 # s3]
                 IN [st EXCEPT !.outs = <<o2>> \o rest]
            ELSE LET m == [o.mac EXCEPT !.usesNum = o.usesNum, !.usesAll = o.usesAll]
                 IN IF st.cm.ifasm
                    THEN [st EXCEPT !.outs = rest,
                                    !.macros = [x \in DOMAIN st.macros \cup {m.name} |-> IF x = m.name THEN m ELSE st.macros[x]],
                                    !.errs = IF m.name \in DOMAIN st.macros THEN @ + 1 ELSE @]      \* AddMacro: double definition
                    ELSE [st EXCEPT !.outs = rest]
       [] o.kind = "IRP" ->                                                    \* IRP_OutProcessor (IRP, IRPN, IRPC)
            IF n > -1
            THEN LET s0 == KillCtrl(raw)
                     pit == IF o.tag.parIter = 0 THEN 1 ELSE o.tag.parIter
                     s1 == CompressAll(SubSeq(o.pnames, 1, Min(pit, Len(o.pnames))), 1, s0)
                 IN [st EXCEPT !.outs = <<[o EXCEPT !.nest = n, !.tag.lines = Append(@, s1), !.tag.lineCnt = @ + 1]>> \o rest]
            ELSE LET t == [o.tag EXCEPT !.isEmpty = (o.tag.lines = <<>>)]
                     s1 == [st EXCEPT !.outs = rest]
                 IN IF ~st.cm.ifasm THEN s1
                    ELSE IF t.kind = "IRPC" /\ t.parCnt = 0
                         THEN (IF Fix("IrpcEmptyOnce") THEN s1 ELSE Dev(PushTag(s1, t), "IrpcEmptyOnce"))
                    ELSE PushTag(s1, t)
       [] o.kind = "REPT" ->                                                   \* REPT_OutProcessor: raw lines
            IF n > -1
            THEN [st EXCEPT !.outs = <<[o EXCEPT !.nest = n, !.tag.lines = Append(@, raw), !.tag.lineCnt = @ + 1]>> \o rest]
            ELSE LET t == [o.tag EXCEPT !.isEmpty = (o.tag.lines = <<>>)]
                     s1 == [st EXCEPT !.outs = rest]
                 IN IF st.cm.ifasm /\ t.parCnt > 0 THEN PushTag(s1, t) ELSE s1
       [] OTHER ->                                                             \* WHILE_OutProcessor
            IF n > -1
            THEN [st EXCEPT !.outs = <<[o EXCEPT !.nest = n, !.tag.lines = Append(@, raw), !.tag.lineCnt = @ + 1]>> \o rest]
            ELSE LET t == [o.tag EXCEPT !.isEmpty = (o.tag.lines = <<>>)]
                     s1 == [st EXCEPT !.outs = rest]
                     v == Eval(t.name, st.env)
                 IN IF v = UNDEF THEN Err(s1)
                    ELSE IF st.cm.ifasm /\ v # 0 THEN PushTag(s1, t) ELSE s1
OutProcess(st, l) == OutProcessR(st, l, l)

(***************************************************************************)
(* 6. Produce_Code: the statements of the macro processor                  *)
(***************************************************************************)
PlainArgs(args) == SelectSeq(args, LAMBDA a : ~IsCtrlArg(a))
CtrlArgs(args) == SelectSeq(args, LAMBDA a : IsCtrlArg(a))
GlobOf(args) ==       \* the last {GLOBALSYMBOLS}/{NOGLOBALSYMBOLS} wins
  LET c == SelectSeq(CtrlArgs(args), LAMBDA a : CtrlName(a) \in {"GLOBALSYMBOLS", "NOGLOBALSYMBOLS"})
  IN c # <<>> /\ CtrlName(c[Len(c)]) = "GLOBALSYMBOLS"
LoopCtrlOK(args) == \A i \in DOMAIN CtrlArgs(args) : CtrlName(CtrlArgs(args)[i]) \in {"GLOBALSYMBOLS", "NOGLOBALSYMBOLS"}
MacroCtrlNames == {"GLOBALSYMBOLS", "NOGLOBALSYMBOLS", "INTLABEL", "NOINTLABEL", "EXPAND", "NOEXPAND", "EXPIF", "NOEXPIF",
                   "EXPMACRO", "NOEXPMACRO", "EXPREST", "NOEXPREST", "EXPORT", "NOEXPORT", "PUBLIC", "GLOBAL"}
IsName(a) == Len(a) = 1 /\ IsWord(a[1]) /\ ~IsNumTok(a[1])

ExpandIRP(st, l) ==
  IF ~st.cm.ifasm THEN AddWait(st)
  ELSE LET a == ArgsOf(l)  p == PlainArgs(a)
       IN IF ~LoopCtrlOK(a) \/ Len(p) < 2 \/ ~IsName(p[1]) THEN AddWait(Err(st))
          ELSE LET t == [BaseTag(st) EXCEPT !.kind = "IRP", !.parCnt = Len(p) - 1, !.params = Tail(p), !.parZ = 1,
                                            !.parIter = 0, !.isMacro = TRUE, !.glob = GlobOf(a)]
               IN PushOut(st, [BaseOut EXCEPT !.kind = "IRP", !.tag = t, !.pnames = <<p[1][1]>>])

ExpandIRPN(st, l) ==
  IF ~st.cm.ifasm THEN AddWait(st)
  ELSE LET a == ArgsOf(l)  p == PlainArgs(a)
           n == IF p = <<>> THEN UNDEF ELSE Eval(p[1], st.env)
       IN IF ~LoopCtrlOK(a) \/ n = UNDEF \/ n <= 0 \/ Len(p) < 1 + 2 * n
             \/ \E i \in 2..(n + 1) : ~IsName(p[i]) THEN AddWait(Err(st))
          ELSE LET given == SubSeq(p, n + 2, Len(p))
                   pad == (n - (Len(given) % n)) % n
                   vals == given \o [i \in 1..pad |-> <<>>]
                   t == [BaseTag(st) EXCEPT !.kind = "IRP", !.parCnt = Len(vals), !.params = vals, !.parZ = 1,
                                            !.parIter = n, !.isMacro = TRUE, !.glob = GlobOf(a)]
               IN PushOut(st, [BaseOut EXCEPT !.kind = "IRP", !.tag = t, !.pnames = [i \in 1..n |-> p[i + 1][1]]])

\* the characters of a string literal argument: tokens between the double quotes
StrChars(a) == IF Len(a) >= 2 /\ a[1] = QUOTE /\ a[Len(a)] = QUOTE THEN SubSeq(a, 2, Len(a) - 1) ELSE a

ExpandIRPC(st, l) ==
  IF ~st.cm.ifasm THEN AddWait(st)
  ELSE LET a == ArgsOf(l)  p == PlainArgs(a)
       IN IF ~LoopCtrlOK(a) \/ Len(p) < 2 \/ ~IsName(p[1]) THEN AddWait(Err(st))
          ELSE LET t == [BaseTag(st) EXCEPT !.kind = "IRPC", !.parCnt = Len(StrChars(p[2])), !.name = StrChars(p[2]),
                                            !.parZ = 1, !.parIter = 0, !.isMacro = TRUE, !.glob = GlobOf(a)]
               IN PushOut(st, [BaseOut EXCEPT !.kind = "IRP", !.tag = t, !.pnames = <<p[1][1]>>])

ExpandREPT(st, l) ==
  IF ~st.cm.ifasm THEN AddWait(st)
  ELSE LET a == ArgsOf(l)  p == PlainArgs(a)
           n == IF Len(p) = 1 THEN Eval(p[1], st.env) ELSE UNDEF
       IN IF ~LoopCtrlOK(a) \/ n = UNDEF THEN AddWait(Err(st))
          ELSE PushOut(st, [BaseOut EXCEPT !.kind = "REPT",
                 !.tag = [BaseTag(st) EXCEPT !.kind = "REPT", !.parCnt = n, !.parZ = 1, !.isMacro = TRUE, !.glob = GlobOf(a)]])

ExpandWHILE(st, l) ==
  IF ~st.cm.ifasm THEN AddWait(st)
  ELSE LET a == ArgsOf(l)  p == PlainArgs(a)
       IN IF ~LoopCtrlOK(a) \/ Len(p) # 1 THEN AddWait(Err(st))
          ELSE PushOut(st, [BaseOut EXCEPT !.kind = "WHILE",
                 !.tag = [BaseTag(st) EXCEPT !.kind = "WHILE", !.name = p[1], !.parZ = 1, !.isMacro = TRUE, !.glob = GlobOf(a)]])

\* ReadMacro: "name MACRO p1,p2=default,{ctrl}"; definitions are only taken in pass 1
ParamName(a) == LET i == QuotIdx(a, "=") IN Trim(IF i = 0 THEN a ELSE SubSeq(a, 1, i - 1))
ParamDef(a)  == LET i == QuotIdx(a, "=") IN IF i = 0 THEN <<>> ELSE SubSeq(a, i + 1, Len(a))
ReadMacro(st, l) ==
  LET a == ArgsOf(l)  p == PlainArgs(a)  c == CtrlArgs(a)
      bad == st.pass # 1 \/ LabOf(l) = <<>> \/ (\E i \in DOMAIN c : CtrlName(c[i]) \notin MacroCtrlNames)
             \/ (\E i \in DOMAIN p : ~IsName(ParamName(p[i])))
      flag(on, off) == LET s == SelectSeq(c, LAMBDA x : CtrlName(x) \in {on, off}) IN s # <<>> /\ CtrlName(s[Len(s)]) = on
  IN IF bad THEN AddWait(IF st.pass = 1 THEN Err(st) ELSE st)
     ELSE PushOut(st, [BaseOut EXCEPT !.kind = "MACRO",
            !.mac = [name |-> LabName(l), pnames |-> [i \in DOMAIN p |-> ParamName(p[i])[1]],
                     defs |-> [i \in DOMAIN p |-> ParamDef(p[i])], lines |-> <<>>,
                     glob |-> flag("GLOBALSYMBOLS", "NOGLOBALSYMBOLS"), intLabel |-> flag("INTLABEL", "NOINTLABEL"),
                     usesNum |-> FALSE, usesAll |-> FALSE, useCnt |-> 0]])

\* ExpandMacro: 3a empty slots, 3b walk over the arguments, 3c defaults
NestMax == 256
RECURSIVE BindArgs(_, _, _, _)
\* b = [vals, set, excess, named, errs]
BindArgs(m, args, z, b) ==
  IF z > Len(args) THEN b
  ELSE LET a == args[z]
           eq == QuotIdx(a, "=")
           n == Len(m.pnames)
       IN IF eq # 0
          THEN LET key == Trim(SubSeq(a, 1, eq - 1))
                   val == Trim(SubSeq(a, eq + 1, Len(a)))
                   hit == {i \in 1..n : <<m.pnames[i]>> = key}
               IN IF hit = {} THEN BindArgs(m, args, z + 1, [b EXCEPT !.named = TRUE, !.errs = @ + 1])
                  ELSE LET i == CHOOSE i \in hit : \A j \in hit : i <= j
                       IN BindArgs(m, args, z + 1, [b EXCEPT !.named = TRUE, !.vals[i] = val, !.set[i] = TRUE,
                                                              !.errs = IF b.set[i] THEN @ + 1 ELSE @])
          ELSE IF b.named THEN BindArgs(m, args, z + 1, [b EXCEPT !.errs = @ + 1])
          ELSE IF z <= n /\ a # <<>> THEN BindArgs(m, args, z + 1, [b EXCEPT !.vals[z] = a, !.set[z] = TRUE])
          ELSE IF z > n THEN BindArgs(m, args, z + 1, [b EXCEPT !.excess = Append(@, a)])
          ELSE BindArgs(m, args, z + 1, b)

ExpandMacro(st, l, m) ==
  IF m.useCnt > NestMax THEN Err(st)
  ELSE LET args == ArgsOf(l)
           n == Len(m.pnames)
           b == BindArgs(m, args, 1, [vals |-> [i \in 1..n |-> <<>>], set |-> [i \in 1..n |-> FALSE],
                                      excess |-> <<>>, named |-> FALSE, errs |-> 0])
           vals == [i \in 1..n |-> IF b.set[i] THEN b.vals[i] ELSE m.defs[i]]
           t == [BaseTag(st) EXCEPT !.kind = "MACRO", !.macro = m.name, !.name = <<m.name>>, !.glob = m.glob,
                   !.usesNum = m.usesNum, !.usesAll = m.usesAll, !.isMacro = TRUE, !.intLabel = m.intLabel,
                   !.saveAttr = AttrOf(l), !.saveLabel = IF m.intLabel THEN LabOf(l) ELSE <<>>,
                   !.numArgs = IF m.usesNum THEN <<ToString(Len(args))>> ELSE <<>>,
                   !.allArgs = IF m.usesAll THEN JoinWith(args, COMMA) ELSE <<>>,
                   !.parCnt = n, !.params = vals \o b.excess, !.lines = m.lines, !.lineCnt = Len(m.lines),
                   !.isEmpty = (m.lines = <<>>)]
           s1 == [st EXCEPT !.macros[m.name].useCnt = @ + 1, !.errs = @ + b.errs]
       IN PushTag(s1, t)

\* Cleanup called by EXITM before the tag is popped
CleanupTag(t) ==
  CASE t.kind = "MACRO" -> [t EXCEPT !.params = <<>>]
    [] t.kind = "IRP" -> [t EXCEPT !.saveAttr = IF t.params = <<>> THEN <<>> ELSE t.params[Len(t.params)], !.lines = <<>>, !.params = <<>>]
    [] OTHER -> [t EXCEPT !.lines = <<>>]

ExpandEXITM(st, l) ==
  IF ArgsOf(l) # <<>> \/ st.tags = <<>> \/ ~Head(st.tags).isMacro THEN Err(st)
  ELSE IF ~st.cm.ifasm THEN st
  ELSE LET t == Head(st.tags)
       IN [SetTop(st, [CleanupTag(t) EXCEPT !.isEmpty = TRUE]) EXCEPT !.cm = C!DoRestoreIFs(st.cm, t.ifLevel)]

\* ComputeMacroStrings(): "if (AllArgs[0] != 0) strcat(",")" - no separator while nothing has been written yet
RECURSIVE JoinAsCoded(_, _)
JoinAsCoded(ps, acc) == IF ps = <<>> THEN acc
                        ELSE JoinAsCoded(Tail(ps), (IF acc # <<>> THEN acc \o <<COMMA>> ELSE acc) \o Head(ps))
AllArgsOf(ps) == IF Fix("AllArgsLeadingEmpty") THEN JoinWith(ps, COMMA) ELSE JoinAsCoded(ps, <<>>)

FirstMacroTag(tags) == IF \E i \in DOMAIN tags : tags[i].kind = "MACRO"
                       THEN CHOOSE i \in DOMAIN tags : tags[i].kind = "MACRO" /\ \A j \in 1..(i-1) : tags[j].kind # "MACRO" ELSE 0
ExpandSHIFT(st, l) ==
  IF ArgsOf(l) # <<>> \/ st.tags = <<>> \/ ~Head(st.tags).isMacro THEN Err(st)
  ELSE IF ~st.cm.ifasm THEN st
  ELSE LET i == FirstMacroTag(st.tags)
       IN IF i = 0 \/ st.tags[i].params = <<>> THEN st
          ELSE LET t == st.tags[i]
                   ps == Tail(t.params)
                   excess == Len(t.params) > t.parCnt
                   pc == IF Fix("ShiftExcess") THEN Min(t.parCnt, Len(ps)) ELSE t.parCnt - 1
                   na == IF Fix("ShiftExcess") THEN Len(ps) ELSE pc
                   t2 == [t EXCEPT !.params = ps, !.parCnt = pc,
                                   !.numArgs = IF t.usesNum THEN <<ToString(na)>> ELSE @,           \* ComputeMacroStrings
                                   !.allArgs = IF t.usesAll THEN AllArgsOf(ps) ELSE @]
                   s1 == [st EXCEPT !.tags[i] = t2]
                   s2 == IF t.usesAll /\ JoinAsCoded(ps, <<>>) # JoinWith(ps, COMMA) /\ ~Fix("AllArgsLeadingEmpty")
                         THEN Dev(s1, "AllArgsLeadingEmpty") ELSE s1
               IN IF excess /\ ~Fix("ShiftExcess") THEN Dev(s2, "ShiftExcess") ELSE s2

FileNameOf(a) == Glue(Without(a, QUOTE))
ExpandINCLUDE(st, l) ==
  IF ~st.cm.ifasm THEN st
  ELSE LET a == ArgsOf(l)
       IN IF Len(a) # 1 \/ FileNameOf(a[1]) \notin DOMAIN st.files THEN Err(st)
          ELSE LET f == FileNameOf(a[1])                                         \* ExpandINCLUDE_Core
                   t == [BaseTag(st) EXCEPT !.kind = "FILE", !.name = <<f>>, !.lines = st.files[f], !.lineZ = 0,
                                            !.startLine = st.momLine, !.saveFile = st.currFile]
               IN [PushTag(st, t) EXCEPT !.momLine = 0, !.currFile = f]

\* an ordinary statement reaches the assembler core (CodeGlobalPseudo / MakeCode); SET and BINCLUDE are
\* the two whose effect the model needs
Ordinary(st, l) ==
  LET op == OpOf(l)  a == ArgsOf(l)
  IN IF op = "" /\ LabOf(l) = <<>> THEN st
     ELSE IF op = "SET"
          THEN LET v == IF Len(a) = 1 THEN Eval(a[1], st.env) ELSE UNDEF
               IN IF v = UNDEF \/ LabOf(l) = <<>> THEN Err(Deliver(st, l))
                  ELSE [Deliver(st, l) EXCEPT !.env = SetEnv(st.env, LabName(l), v)]
     ELSE IF op = "BINCLUDE"
          THEN LET f == IF a = <<>> THEN "" ELSE FileNameOf(a[1])
                   ofs == IF Len(a) >= 2 THEN Eval(a[2], st.env) ELSE 0
                   len == IF Len(a) >= 3 THEN Eval(a[3], st.env) ELSE -1
               IN IF Len(a) \notin 1..3 \/ f \notin DOMAIN st.bins \/ ofs = UNDEF \/ len = UNDEF
                     \/ ~BinOK(st.bins[f], ofs, len) THEN Err(st)
                  ELSE LET w == BinWindow(st.bins[f], ofs, len)
                           s1 == IF LabOf(l) # <<>> THEN Deliver(st, LabOf(l) \o <<SP>>) ELSE st
                       IN IF w = <<>> THEN s1 ELSE Deliver(s1, DataLine("DB", w))
     ELSE Deliver(st, l)

LabelOnly(st, l) ==      \* LabelHandle() for a labelled line that is not an ordinary statement
  IF st.cm.ifasm /\ LabOf(l) # <<>> THEN Deliver(st, LabOf(l) \o <<SP>>) ELSE st

CodeIFs(st, l) ==
  LET op == OpOf(l)  a == ArgsOf(l)  m == st.cm
      v == IF Len(a) = 1 THEN Eval(a[1], st.env) ELSE UNDEF
  IN CASE op = "IF"   -> IF m.ifasm /\ v = UNDEF THEN Err([st EXCEPT !.cm = C!DoIf(m, FALSE)])
                         ELSE [st EXCEPT !.cm = C!DoIf(m, v # 0)]
       [] op = "IFB"  -> [st EXCEPT !.cm = C!DoIf(m, AllBlank(a))]
       [] op = "IFNB" -> [st EXCEPT !.cm = C!DoIf(m, ~AllBlank(a))]
       [] op = "ELSE" -> [st EXCEPT !.cm = C!DoElse(m)]
       [] OTHER       -> [st EXCEPT !.cm = C!DoEndIf(m)]

ProduceCode(st, l) ==
  IF st.outs # <<>> THEN OutProcess(st, l)
  ELSE LET op == OpOf(l)
           isMac == op \in DOMAIN st.macros
           \* LabelHandle() comes first for every line that is not a definition taking its label as operand
           s0 == IF op \in LoopOps \cup IFOps \cup {"EXITM", "SHIFT", "INCLUDE"}
                    \/ (op \notin LoopOps \cup IFOps \cup {"MACRO", "EXITM", "SHIFT", "INCLUDE"} /\ isMac /\ ~st.macros[op].intLabel)
                 THEN LabelOnly(st, l) ELSE st
       IN CASE op = "IRP"   -> ExpandIRP(s0, l)
            [] op = "IRPN"  -> ExpandIRPN(s0, l)
            [] op = "IRPC"  -> ExpandIRPC(s0, l)
            [] op = "REPT"  -> ExpandREPT(s0, l)
            [] op = "WHILE" -> ExpandWHILE(s0, l)
            [] op \in IFOps -> LET s1 == CodeIFs(s0, l) IN [s1 EXCEPT !.errs = @ + (s1.cm.errs - s0.cm.errs)]
            [] op = "MACRO" -> ReadMacro(s0, l)
            [] op = "EXITM" -> ExpandEXITM(s0, l)
            [] op = "SHIFT" -> ExpandSHIFT(s0, l)
            [] op = "INCLUDE" -> ExpandINCLUDE(s0, l)
            [] MacroEnd(op) -> IF s0.cm.ifasm THEN Err(s0) ELSE s0               \* ENDM without a definition
            [] isMac -> IF s0.cm.ifasm THEN ExpandMacro(s0, l, s0.macros[op]) ELSE s0
            [] OTHER -> IF s0.cm.ifasm THEN Ordinary(s0, l) ELSE s0

\* one turn of the loop in ProcessFile()
StepLine(st) == LET g == GetNextLine(st) IN ProduceCode(g.st, g.line)

\* ProcessFile(): open the master file ...
Start(files, bins, main) ==
  LET s == InitSt(files, bins)
      t == [BaseTag(s) EXCEPT !.kind = "FILE", !.name = <<main>>, !.lines = files[main], !.lineZ = 0]
  IN [PushTag(s, t) EXCEPT !.currFile = main]
\* ... and after the loop: drain the chain, complain about an open definition
RECURSIVE Drain(_)
Drain(st) == IF st.tags = <<>> THEN st ELSE Drain(PopTag(st))
Finish(st) == LET s == Drain(st) IN IF s.outs # <<>> THEN Err(s) ELSE s

RECURSIVE RunFrom(_, _)
RunFrom(st, fuel) == IF st.crashed THEN st ELSE IF InputEnd(st) \/ fuel = 0 THEN Finish(st) ELSE RunFrom(StepLine(st), fuel - 1)
RunMachine(files, bins, main) == RunFrom(Start(files, bins, main), 100000)

(***************************************************************************)
(* 7. Symbol resolution of the flat statement list (asmpars.c): a label    *)
(* defined in a private scope is renamed name_birth_depth, a reference     *)
(* resolves to the innermost scope of its chain that defines the name      *)
(***************************************************************************)
IsLabelDef(e) == LabOf(e.l) # <<>> /\ OpOf(e.l) \notin NoLabelOps
Defs(flat) == {<<LabName(flat[i].l), IF flat[i].sc = <<>> THEN <<0, 0>> ELSE flat[i].sc[1]>> :
                 i \in {j \in DOMAIN flat : IsLabelDef(flat[j])}}
Mangle(t, id) == IF id = <<0, 0>> THEN t ELSE t \o "_" \o ToString(id[1]) \o "_" \o ToString(id[2])
ResolveTok(t, sc, D) ==
  IF ~IsWord(t) THEN t
  ELSE LET hits == {i \in DOMAIN sc : <<t, sc[i]>> \in D}
       IN IF hits = {} THEN t ELSE Mangle(t, sc[CHOOSE i \in hits : \A j \in hits : i <= j])
ResolveLine(e, D) ==
  LET lab == LabOf(e.l)
      own == IF e.sc = <<>> THEN <<0, 0>> ELSE e.sc[1]
      n == Len(lab)
  IN [i \in DOMAIN e.l |->
        IF i <= n THEN (IF IsLabelDef(e) /\ i = 1 THEN Mangle(e.l[i], own) ELSE ResolveTok(e.l[i], e.sc, D))
        ELSE ResolveTok(e.l[i], e.sc, D)]
Resolve(flat) == LET D == Defs(flat) IN [i \in DOMAIN flat |-> ResolveLine(flat[i], D)]

\* "private per expansion": no two label definitions of the flat list collide after resolution
DefNames(flat) == LET R == Resolve(flat) IN [i \in DOMAIN flat |-> IF IsLabelDef(flat[i]) THEN R[i][1] ELSE ""]
NoDoubleDef(flat) == LET N == DefNames(flat)
                     IN \A i, j \in DOMAIN flat : (i < j /\ IsLabelDef(flat[i]) /\ IsLabelDef(flat[j])) => N[i] # N[j]

(***************************************************************************)
(* 8. Declarative side: the constructs carried out by hand                 *)
(***************************************************************************)
\* simultaneous substitution of whole names (first declared name wins), \name\ together with its backslashes
RECURSIVE Subst(_, _, _)
Subst(s, names, vals) ==
  IF s = <<>> THEN <<>>
  ELSE LET idx(t) == IF \E i \in DOMAIN names : names[i] = t
                     THEN CHOOSE i \in DOMAIN names : names[i] = t /\ \A j \in 1..(i-1) : names[j] # t ELSE 0
       IN IF Len(s) >= 3 /\ s[1] = BS /\ s[3] = BS /\ idx(s[2]) # 0
          THEN vals[idx(s[2])] \o Subst(SubSeq(s, 4, Len(s)), names, vals)
          ELSE IF idx(s[1]) # 0 THEN vals[idx(s[1])] \o Subst(Tail(s), names, vals)
          ELSE <<s[1]>> \o Subst(Tail(s), names, vals)
SubstN(s, names, vals) == Norm(Subst(s, names, vals))

\* index of the ENDM matching an opener whose body starts at j (0: none)
RECURSIVE MatchFrom(_, _, _)
MatchFrom(ls, j, lv) ==
  IF j > Len(ls) THEN 0
  ELSE IF MacroStart(OpOf(ls[j])) THEN MatchFrom(ls, j + 1, lv + 1)
  ELSE IF MacroEnd(OpOf(ls[j])) THEN (IF lv = 0 THEN j ELSE MatchFrom(ls, j + 1, lv - 1))
  ELSE MatchFrom(ls, j + 1, lv)

\* binding of a call according to the manual: positional, keyword, defaults, excess
KeyOf(a) == Trim(SubSeq(a, 1, QuotIdx(a, "=") - 1))
DeclBind(m, args) ==
  LET n == Len(m.pnames)
      isKey(a) == QuotIdx(a, "=") # 0
      firstKey == IF \E z \in DOMAIN args : isKey(args[z]) THEN CHOOSE z \in DOMAIN args : isKey(args[z]) /\ \A y \in 1..(z-1) : ~isKey(args[y])
                  ELSE Len(args) + 1
      npos == firstKey - 1
      keys == {z \in DOMAIN args : isKey(args[z])}
      kfor(i) == {z \in keys : KeyOf(args[z]) = <<m.pnames[i]>>}
      bad == (\E z \in firstKey..Len(args) : ~isKey(args[z]))                                      \* positional after keyword
             \/ (\E z \in keys : \A i \in 1..n : KeyOf(args[z]) # <<m.pnames[i]>>)                  \* unknown keyword
             \/ (\E i \in 1..n : Cardinality(kfor(i)) > 1 \/ (kfor(i) # {} /\ i <= npos /\ args[i] # <<>>))
             \/ (\E i, j \in 1..n : i # j /\ m.pnames[i] = m.pnames[j])
      val(i) == IF kfor(i) # {} THEN LET z == CHOOSE z \in kfor(i) : TRUE IN Trim(SubSeq(args[z], QuotIdx(args[z], "=") + 1, Len(args[z])))
                ELSE IF i <= npos /\ args[i] # <<>> THEN args[i] ELSE m.defs[i]
  IN [list |-> [i \in 1..n |-> val(i)] \o SubSeq(args, n + 1, npos), bad |-> bad, given |-> Len(args)]

\* one active macro expansion: formal names, remaining argument list
MFrameNames(f) == f.pnames \o (IF HasAttrs THEN <<"ATTRIBUTE">> ELSE <<>>) \o <<"ARGCOUNT", "ALLARGS">>
                  \o (IF f.intLabel THEN <<LABELTOK>> ELSE <<>>)
MFrameVals(f) == [i \in DOMAIN f.pnames |-> IF i <= Len(f.list) THEN f.list[i] ELSE <<>>]
                 \o (IF HasAttrs THEN <<f.attr>> ELSE <<>>) \o <<<<ToString(f.argc)>>, f.allargs>>
                 \o (IF f.intLabel THEN <<f.label>> ELSE <<>>)
\* does substituting this line touch something the manual leaves open?
OpenRef(l, f) ==
  \/ \E i \in DOMAIN f.pnames : i > Len(f.list) /\ f.pnames[i] \in Range(l)        \* formal without argument after SHIFT
  \/ "ARGCOUNT" \in Range(l) /\ f.fewer                                            \* "actual count" vs "never lower than formal count"

InitD(files, bins) ==
  [out |-> <<>>, macros |-> <<>>, env |-> <<>>, cm |-> C!InitM, scopes |-> <<>>, mstack |-> <<>>, frames |-> <<>>,
   exit |-> FALSE, indef |-> FALSE, files |-> files, bins |-> bins, fuel |-> 5000]

Indef(S) == [S EXCEPT !.indef = TRUE]
\* position of the statement being carried out: the innermost file with the line last read from it, and on top of
\* it every construct being expanded with (what it is expanding, iteration, body line last taken from it)
RECURSIVE DNative(_)
DNative(fr) == IF fr = <<>> THEN <<>> ELSE IF Head(fr).k = "FILE" THEN <<Head(fr)>> ELSE DNative(Tail(fr)) \o <<Head(fr)>>
DPos(S) == [native |-> DNative(S.frames), gnu |-> SelectSeq(S.frames, LAMBDA f : f.k = "FILE")]
DOut(S, l) == [S EXCEPT !.out = Append(@, [l |-> l, sc |-> S.scopes, pos |-> DPos(S)])]
Frame(k, n, i) == [k |-> k, n |-> n, i |-> i, b |-> 0]
AtLine(S, b) == [S EXCEPT !.frames = <<[Head(@) EXCEPT !.b = b]>> \o Tail(@)]
LineNo(src, j) == IF src.kind = "FILE" THEN src.phys[j] ELSE j
DLabel(S, l) == IF LabOf(l) # <<>> THEN DOut(S, LabOf(l) \o <<SP>>) ELSE S
OpenScope(S, glob, body) == IF glob \/ body = <<>> THEN S ELSE [S EXCEPT !.scopes = <<<<Len(S.out) + 1, Len(S.scopes) + 1>>>> \o @]
CloseScope(S, glob, body) == IF glob \/ body = <<>> THEN S ELSE [S EXCEPT !.scopes = Tail(@)]

\* the text of line k of a source: macro bodies are substituted with the binding current at that moment
SrcLine(src, k, S) ==
  IF src.kind = "MACRO" THEN SubstN(src.lines[k], MFrameNames(Head(S.mstack)), MFrameVals(Head(S.mstack))) ELSE src.lines[k]
SrcText(src, S) == [k \in DOMAIN src.lines |-> SrcLine(src, k, S)]

\* a file as a source: logical lines (continuations joined) and the physical line number each one ends on
RECURSIVE PhysFrom(_, _, _)
PhysFrom(raw, j, acc) == IF j > Len(raw) THEN <<>> ELSE <<acc + 1 + Count(raw[j], CONT)>> \o PhysFrom(raw, j + 1, acc + 1 + Count(raw[j], CONT))
FileSrc(raw) == [kind |-> "FILE", lines |-> [i \in DOMAIN raw |-> Without(raw[i], CONT)], phys |-> PhysFrom(raw, 1, 0)]

RECURSIVE DSeq(_, _, _), DLoop(_, _, _, _, _, _), DStmt(_, _, _)

\* iterations of a loop: vals[it] = the values bound in iteration it (<<>> for REPT/WHILE)
DLoop(kind, names, vals, body, glob, S) ==
  LET RECURSIVE Iter(_, _)
      Iter(it, T) ==
        IF T.fuel <= 0 THEN Indef(T)
        ELSE LET more == IF kind = "WHILE" THEN (LET v == Eval(names, T.env) IN v # UNDEF /\ v # 0) ELSE it <= Len(vals)
        IN IF ~more \/ body = <<>> THEN T
           ELSE LET text == IF kind \in {"REPT", "WHILE"} THEN body
                            ELSE [k \in DOMAIN body |-> SubstN(body[k], names, vals[it])]
                    disp == CASE kind = "IRP" -> vals[it][1] [] kind = "IRPN" -> JoinWith(vals[it], COMMA)
                              [] kind = "IRPC" -> <<"'">> \o vals[it][1] \o <<"'">> [] OTHER -> <<>>
                    fr == Frame(kind, disp, IF kind \in {"REPT", "WHILE"} THEN it ELSE 0)
                    T1 == OpenScope([T EXCEPT !.fuel = @ - 1, !.frames = <<fr>> \o Tail(@)], glob, body)
                    T2 == DSeq([kind |-> "PLAIN", lines |-> text], 1, T1)
                    T3 == CloseScope(T2, glob, body)
                IN IF T3.exit THEN [T3 EXCEPT !.exit = FALSE] ELSE Iter(it + 1, T3)
      S1 == [S EXCEPT !.frames = <<Frame(kind, <<>>, 0)>> \o @]
      R == Iter(1, S1)
  IN [R EXCEPT !.frames = Tail(@)]

\* statement at index k of src; returns [S, next]
DStmt(src, k, S) ==
  LET l == SrcLine(src, k, S)
      op == OpOf(l)
      a == ArgsOf(l)
      p == PlainArgs(a)
      on == S.cm.ifasm
      S0 == IF src.kind = "MACRO" /\ OpenRef(src.lines[k], Head(S.mstack)) /\ on THEN Indef(S) ELSE S
  IN IF MacroStart(op)
     THEN LET text == SrcText(src, S0)
              m == MatchFrom(text, k + 1, 0)
              body == SubSeq(text, k + 1, m - 1)
          IN IF m = 0 THEN [S |-> Indef(S0), next |-> Len(src.lines) + 1]
             ELSE IF ~on THEN [S |-> S0, next |-> m + 1]
             ELSE IF src.kind = "MACRO" /\ \E j \in k..m : OpenRef(src.lines[j], Head(S0.mstack))
             THEN [S |-> Indef(S0), next |-> m + 1]
             ELSE IF op = "MACRO"
             THEN LET c == CtrlArgs(a)
                      flag(x, y) == LET s == SelectSeq(c, LAMBDA z : CtrlName(z) \in {x, y}) IN s # <<>> /\ CtrlName(s[Len(s)]) = x
                      ok == LabOf(l) # <<>> /\ (\A i \in DOMAIN c : CtrlName(c[i]) \in MacroCtrlNames)
                            /\ (\A i \in DOMAIN p : IsName(ParamName(p[i]))) /\ LabName(l) \notin DOMAIN S0.macros
                      mac == [name |-> LabName(l), pnames |-> [i \in DOMAIN p |-> ParamName(p[i])[1]],
                              defs |-> [i \in DOMAIN p |-> ParamDef(p[i])], lines |-> body,
                              glob |-> flag("GLOBALSYMBOLS", "NOGLOBALSYMBOLS"), intLabel |-> flag("INTLABEL", "NOINTLABEL")]
                  IN [S |-> IF ok THEN [S0 EXCEPT !.macros = [x \in DOMAIN S0.macros \cup {mac.name} |-> IF x = mac.name THEN mac ELSE S0.macros[x]]]
                            ELSE Indef(S0), next |-> m + 1]
             ELSE LET S1 == AtLine(DLabel(S0, l), LineNo(src, m))
                      glob == GlobOf(a)
                      okc == LoopCtrlOK(a)
                  IN CASE op = "REPT" ->
                            LET n == IF Len(p) = 1 THEN Eval(p[1], S1.env) ELSE UNDEF
                            IN [S |-> IF ~okc \/ n = UNDEF THEN Indef(S1)
                                      ELSE DLoop("REPT", <<>>, [i \in 1..Max(n, 0) |-> <<>>], body, glob, S1), next |-> m + 1]
                       [] op = "WHILE" ->
                            [S |-> IF ~okc \/ Len(p) # 1 \/ Eval(p[1], S1.env) = UNDEF THEN Indef(S1)
                                   ELSE DLoop("WHILE", p[1], <<>>, body, glob, S1), next |-> m + 1]
                       [] op = "IRP" ->
                            [S |-> IF ~okc \/ Len(p) < 2 \/ ~IsName(p[1]) THEN Indef(S1)
                                   ELSE DLoop("IRP", <<p[1][1]>>, [i \in 1..(Len(p) - 1) |-> <<p[i + 1]>>], body, glob, S1), next |-> m + 1]
                       [] op = "IRPN" ->
                            LET n == IF p = <<>> THEN UNDEF ELSE Eval(p[1], S1.env)
                            IN [S |-> IF ~okc \/ n = UNDEF \/ n <= 0 \/ Len(p) < 1 + 2 * n \/ (\E i \in 2..(n + 1) : ~IsName(p[i])) THEN Indef(S1)
                                      ELSE LET given == SubSeq(p, n + 2, Len(p))
                                               groups == (Len(given) + n - 1) \div n
                                               g(it) == [j \in 1..n |-> IF (it - 1) * n + j <= Len(given) THEN given[(it - 1) * n + j] ELSE <<>>]
                                           IN DLoop("IRPN", [i \in 1..n |-> p[i + 1][1]], [it \in 1..groups |-> g(it)], body, glob, S1),
                                next |-> m + 1]
                       [] OTHER ->      \* IRPC: one iteration per character of the string
                            [S |-> IF ~okc \/ Len(p) < 2 \/ ~IsName(p[1]) THEN Indef(S1)
                                   ELSE DLoop("IRPC", <<p[1][1]>>, [i \in DOMAIN StrChars(p[2]) |-> <<<<StrChars(p[2])[i]>>>>], body, glob, S1),
                             next |-> m + 1]
     ELSE IF op \in IFOps
     THEN LET v == IF Len(a) = 1 THEN Eval(a[1], S0.env) ELSE UNDEF
              S1 == IF on THEN DLabel(S0, l) ELSE S0
              cm2 == CASE op = "IF" -> C!DoIf(S1.cm, v # UNDEF /\ v # 0)
                       [] op = "IFB" -> C!DoIf(S1.cm, AllBlank(a))
                       [] op = "IFNB" -> C!DoIf(S1.cm, ~AllBlank(a))
                       [] op = "ELSE" -> C!DoElse(S1.cm)
                       [] OTHER -> C!DoEndIf(S1.cm)
              S2 == [S1 EXCEPT !.cm = cm2]
          IN [S |-> IF cm2.errs > S1.cm.errs \/ (op = "IF" /\ on /\ v = UNDEF) THEN Indef(S2) ELSE S2, next |-> k + 1]
     ELSE IF ~on THEN [S |-> S0, next |-> k + 1]
     ELSE IF op = "EXITM"
     THEN IF a # <<>> \/ S0.frames = <<>> \/ Head(S0.frames).k = "FILE" THEN [S |-> Indef(S0), next |-> k + 1]
          ELSE [S |-> [DLabel(S0, l) EXCEPT !.exit = TRUE], next |-> k + 1]
     ELSE IF op = "SHIFT"
     THEN IF a # <<>> \/ S0.frames = <<>> \/ Head(S0.frames).k = "FILE" THEN [S |-> Indef(S0), next |-> k + 1]
          ELSE IF S0.mstack = <<>> \/ Head(S0.mstack).list = <<>> THEN [S |-> DLabel(S0, l), next |-> k + 1]
          ELSE LET f == Head(S0.mstack)
                   f2 == [f EXCEPT !.list = Tail(@), !.argc = Len(f.list) - 1, !.allargs = JoinWith(Tail(f.list), COMMA), !.fewer = FALSE]
               IN [S |-> [DLabel(S0, l) EXCEPT !.mstack = <<f2>> \o Tail(@)], next |-> k + 1]
     ELSE IF op = "INCLUDE"
     THEN IF Len(a) # 1 \/ FileNameOf(a[1]) \notin DOMAIN S0.files THEN [S |-> Indef(S0), next |-> k + 1]
          ELSE LET fn == FileNameOf(a[1])
                   S1 == [DLabel(S0, l) EXCEPT !.frames = <<Frame("FILE", <<fn>>, 0)>> \o @]
                   S2 == DSeq(FileSrc(S0.files[fn]), 1, S1)
               IN [S |-> [S2 EXCEPT !.frames = Tail(@)], next |-> k + 1]
     ELSE IF MacroEnd(op) THEN [S |-> Indef(S0), next |-> k + 1]
     ELSE IF op \in DOMAIN S0.macros
     THEN LET mac == S0.macros[op]
              b == DeclBind(mac, a)
              f == [pnames |-> mac.pnames, list |-> b.list, argc |-> Len(b.list), fewer |-> b.given < Len(mac.pnames),
                    allargs |-> JoinWith(a, COMMA), attr |-> AttrOf(l), label |-> LabOf(l), intLabel |-> mac.intLabel]
              S1 == IF mac.intLabel THEN S0 ELSE DLabel(S0, l)
              S2 == OpenScope([S1 EXCEPT !.mstack = <<f>> \o @, !.frames = <<Frame("MACRO", <<mac.name>>, 0)>> \o @, !.fuel = @ - 1], mac.glob, mac.lines)
              S3 == DSeq([kind |-> "MACRO", lines |-> mac.lines], 1, S2)
              S4 == CloseScope([S3 EXCEPT !.mstack = Tail(@), !.frames = Tail(@), !.exit = FALSE], mac.glob, mac.lines)
          IN [S |-> IF b.bad \/ S1.fuel <= 0 THEN Indef(S1) ELSE S4, next |-> k + 1]
     ELSE IF op = "" /\ LabOf(l) = <<>> THEN [S |-> S0, next |-> k + 1]
     ELSE IF op = "SET"
     THEN LET v == IF Len(a) = 1 THEN Eval(a[1], S0.env) ELSE UNDEF
          IN [S |-> IF v = UNDEF \/ LabOf(l) = <<>> THEN Indef(DOut(S0, l)) ELSE [DOut(S0, l) EXCEPT !.env = SetEnv(S0.env, LabName(l), v)],
              next |-> k + 1]
     ELSE IF op = "BINCLUDE"
     THEN LET fn == IF a = <<>> THEN "" ELSE FileNameOf(a[1])
              ofs == IF Len(a) >= 2 THEN Eval(a[2], S0.env) ELSE 0
              len == IF Len(a) >= 3 THEN Eval(a[3], S0.env) ELSE -1
          IN IF Len(a) \notin 1..3 \/ fn \notin DOMAIN S0.bins \/ ofs = UNDEF \/ len = UNDEF \/ ~BinOK(S0.bins[fn], ofs, len)
             THEN [S |-> Indef(S0), next |-> k + 1]
             ELSE LET w == BinWindow(S0.bins[fn], ofs, len)
                      S1 == DLabel(S0, l)
                  IN [S |-> IF w = <<>> THEN S1 ELSE DOut(S1, DataLine("DB", w)), next |-> k + 1]
     ELSE [S |-> DOut(S0, l), next |-> k + 1]

\* lines k.. of a source; an EXITM ends the innermost frame: the IF stack is cut back to its entry depth
DSeq(src, k, S) ==
  LET RECURSIVE Go(_, _, _)
      Go(j, T, lvl) ==
        IF j > Len(src.lines) \/ T.indef THEN T
        ELSE LET r == DStmt(src, j, AtLine(T, LineNo(src, j)))
             IN IF r.S.exit THEN [r.S EXCEPT !.cm = C!DoRestoreIFs(r.S.cm, lvl)] ELSE Go(r.next, r.S, lvl)
  IN Go(k, S, Len(S.cm.stk))

\* EXITM leaves only the innermost construct: a FILE frame cannot be left by it (error in the code)
ExpandDecl(files, bins, main) ==
  LET S == DSeq(FileSrc(files[main]), 1, [InitD(files, bins) EXCEPT !.frames = <<Frame("FILE", <<main>>, 0)>>])
  IN [flat |-> Resolve(S.out), raw |-> S.out, indef |-> S.indef \/ S.cm.stk # <<>> \/ S.exit]

MachineFlat(st) == Resolve(st.delivered)
=============================================================================
