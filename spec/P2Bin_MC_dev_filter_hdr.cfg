\* Dev = {filter_hdr}: TLC must report Conforms violated
CONSTANTS
  Dev = {"filter_hdr"}
  MaxRecs = 1
  Starts = {0, 2}
  UnitLens = {2}
  GranSet = {1}
  EntryAddrs = {}
  Offsets = {}
  FillSet = {255}
  SumOpts = {FALSE}
  SegOpts = {1}
  CpuSegs <- CS_Mixed
  Ranges <- R_Small
  LaneSet <- L_Sel
  FiltSet <- F_One
  ESet <- E_None
  HdrSet <- H_None
SPECIFICATION Spec
INVARIANTS Conforms StepRunAgrees ChunkListOK WindowStable MeasureSound UsedIsCoverage
CHECK_DEADLOCK FALSE
