---------------------------- MODULE PassUses_Obs ----------------------------
(* Verdict on observed code.  The harness assembles a rendered program of the PassUses family with the real    *)
(* asl and writes one JSON object per case {id, tg, org, prog, img} - img = the data records of the code file  *)
(* as [s |-> start, b |-> bytes] - into the file named by the environment variable OBS.  TLC reads the image    *)
(* with the published encodings (PassUses!Walk) and decides whether every use denotes the address at which its *)
(* label's marker lies; the harness only reports what is printed here.                                         *)
EXTENDS PassUses, Json, IOUtils

Cases == ndJsonDeserialize(IOEnv.OBS)

VARIABLE c
OInit == c = 1
Prog(x) == [j \in 1..Len(x.prog) |->
              IF x.prog[j].k = "use" THEN U(x.prog[j].s, x.prog[j].l)
              ELSE IF x.prog[j].k = "def" THEN D(x.prog[j].l) ELSE F(x.prog[j].n)]
Out(x) == LET v == Verdict(x.tg, Prog(x), x.org, x.img) IN
          [id |-> x.id, valid |-> v.valid, problems |-> v.problems,
           lay |-> [j \in 1..Len(v.lay) |-> [a |-> v.lay[j].a, n |-> v.lay[j].n, v |-> v.lay[j].v]]]
ONext == /\ c <= Len(Cases)
         /\ PrintT(<<"OUT", ToJson(Out(Cases[c]))>>)
         /\ c' = c + 1
Accepted == TLCGet("stats").diameter - 1 = Len(Cases)
=============================================================================
