---------------------------- MODULE FilterList_MC ----------------------------
(* (M) every sequence of up to MaxOps elementary add / cancel operations over the ids Ids, applied to the       *)
(* FilterBytes array model one step at a time: the array holds exactly the ids whose last operation is an add,  *)
(* never holds an id twice, and FilterOK agrees with the declarative Passes for every id.                       *)
EXTENDS FilterList, TLC
CONSTANTS Ids, MaxOps
VARIABLES fb, ops
vars == <<fb, ops>>
Init == fb = <<>> /\ ops = <<>>
Next == /\ Len(ops) < MaxOps
        /\ \E neg \in BOOLEAN, x \in Ids :
             /\ fb' = (IF neg THEN FCancel(fb, x) ELSE FAdd(fb, x))
             /\ ops' = Append(ops, [neg |-> neg, list |-> <<x>>, env |-> FALSE])
Spec == Init /\ [][Next]_vars
ArrayIsDeclaredSet == Range(fb) = {x \in Ids : InFilter(ops, x)}
NoDuplicate        == Cardinality(Range(fb)) = Len(fb)
FoldAgrees         == fb = FilterState(ops)
PassesAgrees       == \A x \in Ids : FilterPasses(fb, x) <=> FPasses(ops, x)
=============================================================================
