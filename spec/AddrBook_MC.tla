----------------------------- MODULE AddrBook_MC -----------------------------
(* Every interleaving of the address-moving statements up to MaxLen, small address space.             *)
EXTENDS AddrBook, TLC
CONSTANTS MaxLen, MaxAddr, MaxDepth

VARIABLES b, n, last, pre, labels, emits, ghostPh
vars == <<b, n, last, pre, labels, emits, ghostPh>>
\* ghostPh[s]: independent bookkeeping of "the offset in force before the matching PHASE" (a stack per segment)

Init == /\ b = InitB("code") /\ n = 0 /\ last = [k |-> "INIT"] /\ pre = InitB("code")
        /\ labels = <<>> /\ emits = <<>> /\ ghostPh = [s \in AllSegs |-> <<>>]

Step(k, nb) == /\ n' = n + 1 /\ last' = k /\ pre' = b /\ b' = nb

Ordinary == ~InStruct(b)

Next == /\ n < MaxLen
        /\ \/ \E c \in 1..3 : /\ Load(b) + c <= MaxAddr
                              /\ Step([k |-> "EMIT", n |-> c], Advance(b, c))
                              /\ emits' = IF Ordinary THEN Append(emits, [seg |-> b.act, addr |-> Load(b), n |-> c]) ELSE emits
                              /\ UNCHANGED <<labels, ghostPh>>
           \/ \E c \in 0..2 : /\ Load(b) + c <= MaxAddr
                              /\ Step([k |-> "RESERVE", n |-> c], Advance(b, c)) /\ UNCHANGED <<labels, emits, ghostPh>>
           \/ \E a \in {0, 5, 16} : /\ Ordinary /\ a - b.ph[b.act] \in 0..MaxAddr
                                    /\ Step([k |-> "ORG", a |-> a], Org(b, a)) /\ UNCHANGED <<labels, emits, ghostPh>>
           \/ \E d \in {1, 3} : /\ Ordinary /\ Load(b) + d <= MaxAddr
                                /\ Step([k |-> "RORG", d |-> d], Rorg(b, d)) /\ UNCHANGED <<labels, emits, ghostPh>>
           \/ \E a \in {2, 4, 8} : /\ Exec(b) >= 0 /\ Load(b) + AlignGap(b, a) <= MaxAddr
                                   /\ Step([k |-> "ALIGN", a |-> a], Align(b, a)) /\ UNCHANGED <<labels, emits, ghostPh>>
           \/ \E s \in Segs : /\ Ordinary
                              /\ Step([k |-> "SEGMENT", s |-> s], Segment(b, s, 0)) /\ UNCHANGED <<labels, emits, ghostPh>>
           \/ \E a \in {0, 7, 20} : /\ Ordinary /\ Len(b.phStk[b.act]) < MaxDepth
                                    /\ Step([k |-> "PHASE", a |-> a], Phase(b, a))
                                    /\ ghostPh' = [ghostPh EXCEPT ![b.act] = <<b.ph[b.act]>> \o @]
                                    /\ UNCHANGED <<labels, emits>>
           \/ /\ Ordinary /\ Step([k |-> "DEPHASE"], Dephase(b))
              /\ ghostPh' = [ghostPh EXCEPT ![b.act] = IF @ = <<>> THEN @ ELSE Tail(@)]
              /\ UNCHANGED <<labels, emits>>
           \/ \E c \in {0, 1} : /\ Ordinary /\ c # b.cpu
                                  /\ Step([k |-> "CPU", c |-> c], Cpu(b, c, "code", 0)) /\ UNCHANGED <<labels, emits, ghostPh>>
           \/ /\ Ordinary /\ Len(b.saveStk) < MaxDepth
              /\ Step([k |-> "SAVE"], Save(b)) /\ UNCHANGED <<labels, emits, ghostPh>>
           \/ /\ Ordinary /\ CanRestore(b)
              /\ Step([k |-> "RESTORE"], Restore(b)) /\ UNCHANGED <<labels, emits, ghostPh>>
           \/ \E u \in BOOLEAN : /\ Len(b.stStk) < MaxDepth
                                 /\ Step([k |-> "STRUCT", u |-> u], BeginStruct(b, u)) /\ UNCHANGED <<labels, emits, ghostPh>>
           \/ /\ b.stStk # <<>>
              /\ Step([k |-> "ENDSTRUCT", len |-> StructLen(b)], EndStruct(b)) /\ UNCHANGED <<labels, emits, ghostPh>>
           \/ /\ Step([k |-> "LABEL"], b) /\ labels' = Append(labels, [v |-> Exec(b), seg |-> b.act, at |-> n + 1])
              /\ UNCHANGED <<emits, ghostPh>>

Spec == Init /\ [][Next]_vars

\* ---- properties ------------------------------------------------------------------------------------
\* each segment keeps its own counter, phase offset and phase stack: a statement touches only the active one
\* (before or after a switch)
SegIsolation ==
  \A s \in AllSegs : (s # pre.act /\ s # b.act) =>
       b.pc[s] = pre.pc[s] /\ b.ph[s] = pre.ph[s] /\ b.phStk[s] = pre.phStk[s]
\* a switch of the active segment never moves a counter except loading the start address on first use
SwitchKeepsCounters ==
  last.k \in {"SEGMENT", "RESTORE", "CPU"} => \A s \in AllSegs : pre.used[s] => b.pc[s] = pre.pc[s] /\ b.ph[s] = pre.ph[s]
\* labels / $ read load address + active phase offset
LabelIsExec == last.k = "LABEL" => labels[Len(labels)].v = b.pc[b.act] + b.ph[b.act]
\* DEPHASE restores the offset in force before the matching PHASE (ghost stack), 0 on an empty stack
DephaseRestores ==
  last.k = "DEPHASE" =>
     /\ (pre.phStk[b.act] = <<>> \/ ghostPh[b.act] = Tail(pre.phStk[b.act]))
     /\ (pre.phStk[b.act] # <<>> => b.ph[b.act] = pre.phStk[b.act][1])
     /\ (pre.phStk[b.act] = <<>> => b.ph[b.act] = 0)
     /\ b.pc = pre.pc /\ b.act = pre.act
GhostAgrees == \A s \in AllSegs : ghostPh[s] = b.phStk[s]
\* PHASE a makes the execution address a and leaves the load address alone
PhaseSetsExec == last.k = "PHASE" => Exec(b) = last.a /\ b.pc = pre.pc
\* ALIGN n yields the next multiple of n (of the execution address), advancing by less than n
AlignIsNextMultiple == last.k = "ALIGN" =>
   /\ InUnion(pre) \/ (Exec(b) % last.a = 0 /\ Exec(b) - Exec(pre) \in 0..(last.a - 1))
\* reservations and data advance the counter by their size
AdvanceBySize == (last.k \in {"EMIT", "RESERVE"} /\ ~InUnion(pre)) => Load(b) = Load(pre) + last.n /\ b.ph = pre.ph
\* SAVE/RESTORE reinstate the saved segment in LIFO order
SaveRestoreLIFO == last.k = "RESTORE" => /\ b.act = pre.saveStk[1].seg /\ b.cpu = pre.saveStk[1].cpu
                                          /\ b.saveStk = Tail(pre.saveStk) /\ b.pc = pre.pc /\ b.ph = pre.ph
\* the CPU statement enters the CODE segment of the new target and keeps every counter
CpuEntersCode == last.k = "CPU" => b.act = "code" /\ b.cpu = last.c /\ (\A s \in AllSegs : pre.used[s] => b.pc[s] = pre.pc[s])
\* nothing inside a STRUCT/UNION body reaches the code file
StructEmitsNothing == \A i \in 1..Len(emits) : emits[i].seg # StructSeg
\* a structure body starts at offset 0; union members all start at 0; the length is total resp. maximum
StructOffsets ==
  /\ last.k = "STRUCT" => b.act = StructSeg /\ Load(b) = 0
  /\ InUnion(b) => Load(b) = 0
  /\ last.k = "ENDSTRUCT" =>
        /\ (pre.stStk[1].union => last.len = pre.stStk[1].maxLen)
        /\ (~pre.stStk[1].union => last.len = pre.pc[StructSeg])
        /\ (Len(pre.stStk) = 1 => b.act = pre.stSaveSeg /\ \A s \in Segs : b.pc[s] = pre.pc[s])
=============================================================================
