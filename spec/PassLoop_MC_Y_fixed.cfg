\* option -Y with the repair (discard only in early passes): all properties hold
CONSTANTS
  VarMode = "rel8"
  VarShort = 2
  VarLong = 3
  Padding = FALSE
  RelFpuOK = FALSE
  RefKinds = {"abs", "var", "rel"}
  Sects = {}
  Quals = {8}
  Alias = {}
  CaseSens = FALSE
  Pages = {}
  PageReset = TRUE
  SelfKinds = {}
  Labels = {"la", "lb"}
  MaxItems = 4
  Fills = {1, 126}
  AbsWidths = {2}
  EquOffs = {1}
  Orgs = {0}
  Fixed = TRUE
  ThrowErrors = TRUE
  ThrowMaxPass = 2
  WithExtra = TRUE
  AllowIllFormed = FALSE
  Complete = FALSE
SPECIFICATION Spec
CHECK_DEADLOCK FALSE
INVARIANTS TypeOK Fixpoint ExtraPassIsStutter NoSpuriousError CleanMeansSolvable IllFormedRejected
PROPERTY Termination
