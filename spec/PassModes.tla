------------------------------ MODULE PassModes ------------------------------
(***************************************************************************)
(* Settings ("modes") of the assembler across PASSES.                      *)
(*                                                                         *)
(* as.c AssembleFile runs the source once per pass; every pass starts from *)
(* the initial state (AssembleFile_InitPass + the InitPass procedures of   *)
(* the modules): number radix 10, output radix 16, RELAXED OFF, standard   *)
(* character map, listing on, no PHASE, CODE segment, the CPU named on the *)
(* command line ... .  A setting statement acts on the statements BEHIND   *)
(* it, in source order - never on statements in front of it, no matter how *)
(* many passes the forward references of the program make necessary.       *)
(*                                                                         *)
(* Code side: val = current value of every mode ("d" default, "a" altered),*)
(* a program is a sequence of Probe(m) / Set(m) / Fwd statements, a Fwd    *)
(* (forward reference) makes a second pass necessary; PassStart resets     *)
(* every mode except the ones in Leaky (named deviation: the pinned tree   *)
(* initialised RadixBase/OutRadixBase once per FILE, asmpars.c AsmParsInit,*)
(* so RADIX/OUTRADIX leaked into pass 2; repaired in /repo).               *)
(* Declarative side: Reading(prog, i) - what the probe at position i reads *)
(* is a function of the statements in front of it only.                    *)
(***************************************************************************)
EXTENDS Naturals, Sequences, FiniteSets, TLC, Json
CONSTANTS ModeNames,     \* e.g. {"radix", "outradix", "relaxed"}
          Leaky,         \* modes NOT reset at a pass start (code deviation; {} = documented behaviour)
          MaxLen

Stmts == [k : {"probe", "set"}, m : ModeNames] \cup {[k |-> "fwd", m |-> ""]}
Progs == UNION {[1..n -> Stmts] : n \in 1..MaxLen}

NeedsSecondPass(p) == \E i \in 1..Len(p) : p[i].k = "fwd"

\* declarative: a probe reads the altered value iff a Set of its mode stands in front of it
Reading(p, i) == IF \E j \in 1..(i - 1) : p[j].k = "set" /\ p[j].m = p[i].m THEN "a" ELSE "d"
Expected(p) == [i \in {j \in 1..Len(p) : p[j].k = "probe"} |-> Reading(p, i)]

\* code side: one pass over the program from a given mode vector; returns [val, out]
RECURSIVE RunFrom(_, _, _, _)
RunFrom(p, i, val, out) ==
  IF i > Len(p) THEN [val |-> val, out |-> out]
  ELSE CASE p[i].k = "set"   -> RunFrom(p, i + 1, [val EXCEPT ![p[i].m] = "a"], out)
         [] p[i].k = "probe" -> RunFrom(p, i + 1, val, out @@ (i :> val[p[i].m]))
         [] OTHER            -> RunFrom(p, i + 1, val, out)
Fresh == [m \in ModeNames |-> "d"]
PassStart(val) == [m \in ModeNames |-> IF m \in Leaky THEN val[m] ELSE "d"]
Empty == [i \in {} |-> "d"]
\* readings of the LAST pass (the one whose code is written)
Final(p) == LET r1 == RunFrom(p, 1, Fresh, Empty) IN
            IF NeedsSecondPass(p) THEN RunFrom(p, 1, PassStart(r1.val), Empty).out ELSE r1.out

VARIABLES prog
Init == prog \in Progs
Next == UNCHANGED prog
PassCountDoesNotMatter == Final(prog) = Expected(prog)
=============================================================================
