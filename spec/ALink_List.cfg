\* (G) the hand-picked file-level link sets of ALink_MC!ListCases (types, sums, placement, errors, forms)
CONSTANTS MaxFiles = 1 MaxRecs = 1 Starts = {256} Rels <- R_Abs POffs = {1} PNames <- N_a PTypes <- T_1 MaxP = 1
  XNames <- N_a XFlags = {0} XVals = {4660} MaxX = 1 Dev <- D_None
SPECIFICATION ListSpec
INVARIANTS ListSelf
CHECK_DEADLOCK FALSE
