------------------------------- MODULE PBind_MC -------------------------------
(* (M) pbind.c as a step machine (one record copied or skipped per step) over every case of a bounded  *)
(* space: 1..MaxFiles input files of 0..MaxItems items each, items drawn from Shapes (long and short   *)
(* headers, entry records, empty records, several CPUs/segments/granularities), filter lists Filters.  *)
(* (G) the same space, or random wide cases, printed with the expected output bytes for replay.        *)
EXTENDS PBind, Json

CONSTANTS MaxFiles, MaxItems, Starts, ByteLens, CpuSegGran, Forms, EntryAddrs, Filters, Creators

VARIABLES c, fi, ii, out, pc
vars == <<c, fi, ii, out, pc>>

Pat(k, n) == [i \in 1..n |-> (k * 48 + i) % 256]
\* record shapes: CpuSegGran = <<cpu, seg, gran>>; Forms = header forms to try (TRUE = short where the format allows)
Shapes == {sh \in [k : {"D"}, start : Starts, len : ByteLens, csg : CpuSegGran, short : Forms] :
             /\ sh.len % sh.csg[3] = 0
             /\ sh.short => (sh.csg[2] = SegCode /\ sh.csg[1] < 128 /\ sh.csg[3] = ImplicitGran(sh.csg[1], sh.csg[2]))}
          \cup [k : {"E"}, addr : EntryAddrs]
MkItem(sh, k) == IF sh.k = "E" THEN [k |-> "E", addr |-> sh.addr]
                 ELSE [k |-> "D", cpu |-> sh.csg[1], seg |-> sh.csg[2], gran |-> sh.csg[3], start |-> sh.start,
                       data |-> Pat(k, sh.len), short |-> sh.short]
FileSpace == {Encode([k \in 1..Len(shs) |-> MkItem(shs[k], k)], cr) :
                 shs \in UNION {[1..n -> Shapes] : n \in 0..MaxItems}, cr \in Creators}
CaseSpace == {[files |-> fs, filt |-> f] : fs \in UNION {[1..n -> FileSpace] : n \in 1..MaxFiles}, f \in Filters}

Init == c \in CaseSpace /\ fi = 1 /\ ii = 1 /\ out = Magic /\ pc = "copy"

CurItems == Decode(c.files[fi]).items
Step ==
  /\ pc = "copy"
  /\ IF \E i \in 1..Len(c.files) : ReaderRejects(c.files[i])
     THEN out' = <<>> /\ pc' = "failed" /\ UNCHANGED <<fi, ii>>
     ELSE IF fi > Len(c.files) THEN out' = out \o <<0>> \o Creator /\ pc' = "done" /\ UNCHANGED <<fi, ii>>
     ELSE IF ii > Len(CurItems) THEN fi' = fi + 1 /\ ii' = 1 /\ UNCHANGED <<out, pc>>
     ELSE out' = CopyItem(c.filt, out, CurItems[ii]) /\ ii' = ii + 1 /\ UNCHANGED <<fi, pc>>
  /\ UNCHANGED c
Next == Step
Spec == Init /\ [][Next]_vars

Result == [rc |-> IF pc = "failed" THEN 3 ELSE 0, bytes |-> out]
Conforms      == (pc \in {"done", "failed"} /\ Definite(c)) => Conserved(c, Result)
StepRunAgrees == pc \in {"done", "failed"} => Result = Run(c)
\* at every moment the target is a decodable prefix: closing it would give a well-formed code file
PrefixOK      == pc = "copy" => Decode(out \o <<0>>).ok
\* the grammar round-trips: decoding the generated inputs gives back abstract items, and re-encoding them the bytes
RoundTrip     == (pc = "copy" /\ fi = 1 /\ ii = 1) => \A i \in 1..Len(c.files) : LET d == Decode(c.files[i]) IN d.ok /\ Encode(d.items, d.creator) = c.files[i]
\* header form chosen by WriteRecordHeader: short exactly when the format allows it
HeaderRule    == pc = "done" => \A i \in 1..Len(Decode(out).items) :
                    LET it == Decode(out).items[i] IN IsData(it) => (it.short <=> CanShort(it))
\* the target never shrinks and only grows by whole records
Monotone      == [][IsPrefix(out, out') \/ pc' = "failed"]_vars

\* ---- (G) ------------------------------------------------------------------------------------------
CaseOut(cc) == [c |-> cc, exp |-> Run(cc), def |-> Definite(cc), allowed |-> Definite(cc) => Conserved(cc, Run(cc))]
CoverInit == c \in CaseSpace /\ fi = 1 /\ ii = 1 /\ out = Magic /\ pc = "gen"
CoverNext == pc = "gen" /\ PrintT(<<"TR", ToJson(CaseOut(c))>>) /\ pc' = "printed" /\ UNCHANGED <<c, fi, ii, out>>
CoverSpec == CoverInit /\ [][CoverNext]_vars

\* random wide cases: <= 4 files of <= 4 items; the item list is grown one item per step in `out`-free variables
SimCSG == {<<81, 1, 1>>, <<97, 1, 1>>, <<112, 1, 2>>, <<9, 1, 4>>, <<81, 2, 1>>, <<49, 3, 1>>, <<112, 2, 1>>, <<59, 1, 2>>,
           <<59, 2, 1>>, <<200, 1, 1>>, <<118, 1, 4>>, <<1, 1, 2>>}
SimShapes == {sh \in [k : {"D"}, start : {0, 1, 255, 256, 65535, 1048576}, len : {0, 1, 2, 3, 4, 8, 12}, csg : SimCSG,
                      short : BOOLEAN] :
                /\ sh.len % sh.csg[3] = 0
                /\ sh.short => (sh.csg[2] = SegCode /\ sh.csg[1] < 128 /\ sh.csg[3] = ImplicitGran(sh.csg[1], sh.csg[2]))}
             \cup [k : {"E"}, addr : {0, 4660, 16777215}]
SimFilters == {<<>>, <<81>>, <<97, 112>>, <<9>>, <<59, 49, 200>>, <<129>>, <<2>>}
\* during generation c.files holds ITEM LISTS; they are encoded when the case is finished
SimInit == c = [files |-> <<<<>>>>, filt |-> <<>>] /\ fi = 0 /\ ii = 0 /\ out = <<>> /\ pc = "sim"
SimNext ==
  /\ pc = "sim" /\ ii' = ii + 1 /\ UNCHANGED <<fi, out>>
  /\ LET nf == Len(c.files) IN
     IF ii < 7 THEN
        /\ UNCHANGED pc
        /\ \/ \E sh \in SimShapes : Len(c.files[nf]) < 4 /\ c' = [c EXCEPT !.files[nf] = Append(@, MkItem(sh, ii + 1))]
           \/ nf < 4 /\ c' = [c EXCEPT !.files = Append(@, <<>>)]
     ELSE IF ii = 7 THEN UNCHANGED pc /\ \E f \in SimFilters : c' = [c EXCEPT !.filt = f]
     ELSE pc' = "emit" /\ c' = [c EXCEPT !.files = [i \in 1..nf |-> Encode(c.files[i], <<65, 83, 32, 49>>)]]
SimSpec == SimInit /\ [][SimNext]_vars
SimDump == pc = "emit" => PrintT(<<"BEH", ToJson(CaseOut(c))>>)

\* named constants for the cfg files
CSG_Small == {<<81, 1, 1>>, <<112, 1, 2>>, <<81, 2, 1>>, <<200, 1, 1>>}
CSG_Two   == {<<81, 1, 1>>, <<112, 1, 2>>}
CSG_Three == {<<81, 1, 1>>, <<112, 1, 2>>, <<200, 2, 1>>}
F_Small   == {<<>>, <<81>>, <<112, 200>>}
F_Two     == {<<>>, <<112>>}
Cr_One    == {<<65, 83>>}
Cr_Two    == {<<65, 83>>, <<>>}
Forms_Both == BOOLEAN
=============================================================================
