------------------------------- MODULE PBind_MC -------------------------------
(* (M) pbind.c as a step machine (one record copied or skipped per step) over every case of a bounded  *)
(* space: 1..MaxFiles input files of 0..MaxItems items each, items drawn from Shapes (long and short   *)
(* headers, entry records, empty records, several CPUs/segments/granularities), filter lists Filters.  *)
(* (G) the same space, or random wide cases, printed with the expected output bytes for replay.        *)
EXTENDS PBind, CodeFileGen, Json

CONSTANTS MaxFiles, Filters, Quiets, Dev

VARIABLES c, fi, ii, out, pc
vars == <<c, fi, ii, out, pc>>

CaseSpace == {[files |-> fs, fops |-> f, quiet |-> q] :
                 fs \in UNION {[1..n -> FileSpace] : n \in 1..MaxFiles}, f \in Filters, q \in Quiets}

Init == c \in CaseSpace /\ fi = 1 /\ ii = 1 /\ out = Magic /\ pc = "copy"

CurItems == Decode(c.files[fi]).items
Step ==
  /\ pc = "copy"
  /\ IF \E i \in 1..Len(c.files) : ReaderRejects(c.files[i])
     THEN out' = <<>> /\ pc' = "failed" /\ UNCHANGED <<fi, ii>>
     ELSE IF /\ "quiet_stale_errno" \in Dev /\ c.quiet /\ fi <= Len(c.files) /\ ii <= Len(CurItems)
             /\ IsData(CurItems[ii]) /\ FilterOK(FilterState(c.fops), CurItems[ii].cpu)
     THEN out' = <<>> /\ pc' = "ioerror" /\ UNCHANGED <<fi, ii>>
     ELSE IF fi > Len(c.files) THEN out' = out \o <<0>> \o Creator /\ pc' = "done" /\ UNCHANGED <<fi, ii>>
     ELSE IF ii > Len(CurItems) THEN fi' = fi + 1 /\ ii' = 1 /\ UNCHANGED <<out, pc>>
     ELSE out' = CopyItem(FilterState(c.fops), out, CurItems[ii]) /\ ii' = ii + 1 /\ UNCHANGED <<fi, pc>>
  /\ UNCHANGED c
Next == Step
Spec == Init /\ [][Next]_vars

Ended == pc \in {"done", "failed", "ioerror"}
Result == [rc |-> IF pc = "failed" THEN 3 ELSE IF pc = "ioerror" THEN 2 ELSE 0, bytes |-> out]
Conforms      == (Ended /\ Definite(c)) => Conserved(c, Result)
StepRunAgrees == Ended => Result = Run(Dev, c)
\* at every moment the target is a decodable prefix: closing it would give a well-formed code file
PrefixOK      == pc = "copy" => Decode(out \o <<0>>).ok
\* the grammar round-trips: decoding the generated inputs gives back abstract items, and re-encoding them the bytes
RoundTrip     == (pc = "copy" /\ fi = 1 /\ ii = 1) => \A i \in 1..Len(c.files) : LET d == Decode(c.files[i]) IN d.ok /\ Encode(d.items, d.creator) = c.files[i]
\* header form chosen by WriteRecordHeader: short exactly when the format allows it
HeaderRule    == pc = "done" => \A i \in 1..Len(Decode(out).items) :
                    LET it == Decode(out).items[i] IN IsData(it) => (it.short <=> CanShort(it))
\* the target never shrinks and only grows by whole records
Monotone      == [][IsPrefix(out, out') \/ pc' \in {"failed", "ioerror"}]_vars

\* ---- (G) ------------------------------------------------------------------------------------------
CaseOut(cc) == [c |-> cc, exp |-> Run({}, cc), def |-> Definite(cc), allowed |-> Definite(cc) => Conserved(cc, Run({}, cc))]
CoverInit == c \in CaseSpace /\ fi = 1 /\ ii = 1 /\ out = Magic /\ pc = "gen"
CoverNext == pc = "gen" /\ PrintT(<<"TR", ToJson(CaseOut(c))>>) /\ pc' = "printed" /\ UNCHANGED <<c, fi, ii, out>>
CoverSpec == CoverInit /\ [][CoverNext]_vars

\* filter operations (FilterList.tla): one file with a record of each family a b c d and an unlisted one (plus an entry
\* record), every operation sequence of FPatterns / BigPatterns
FiltFile(fams) == Encode([k \in 1..(Len(fams) + 1) |->
                            IF k > Len(fams) THEN [k |-> "E", addr |-> 4660]
                            ELSE [k |-> "D", cpu |-> fams[k], seg |-> SegCode, gran |-> 1, start |-> 16 * k, data |-> Pat(k, 2),
                                  short |-> FALSE]], <<65, 83>>)
FiltCases == {[files |-> <<FiltFile(<<81, 97, 112, 17, 200>>)>>, fops |-> fo, quiet |-> FALSE] : fo \in FPatterns(81, 97, 112, 17, 200)}
             \cup {[files |-> <<FiltFile(<<1, 50, 100, 7, 93, 200>>)>>, fops |-> fo, quiet |-> FALSE] : fo \in BigPatterns}
FiltInit == c \in FiltCases /\ fi = 1 /\ ii = 1 /\ out = Magic /\ pc = "gen"
FiltSpec == FiltInit /\ [][CoverNext]_vars

\* random wide cases: <= 4 files of <= 4 items; the item list is grown one item per step in `out`-free variables
SimFilters == {<<>>, <<FA(<<81>>)>>, <<FA(<<97, 112>>)>>, <<FA(<<9>>)>>, <<FA(<<59, 49, 200>>)>>, <<FA(<<129>>)>>, <<FA(<<2>>)>>,
               <<FA(<<81, 97, 112>>), FC(<<81>>)>>, <<FA(<<81, 97, 112, 9>>), FC(<<97>>)>>, <<FEA(<<81, 97, 112>>), FC(<<112>>)>>,
               <<FEA(<<59, 81, 9>>), FEC(<<59>>), FA(<<112>>)>>, <<FA(<<81, 97>>), FC(<<81, 97>>)>>, <<FA(<<97, 112, 81>>), FC(<<97>>), FA(<<97>>)>>}
\* during generation c.files holds ITEM LISTS; they are encoded when the case is finished
SimInit == c = [files |-> <<<<>>>>, fops |-> <<>>, quiet |-> FALSE] /\ fi = 0 /\ ii = 0 /\ out = <<>> /\ pc = "sim"
SimNext ==
  /\ pc = "sim" /\ ii' = ii + 1 /\ UNCHANGED <<fi, out>>
  /\ LET nf == Len(c.files) IN
     IF ii < 7 THEN
        /\ UNCHANGED pc
        /\ \/ \E sh \in SimShapes : Len(c.files[nf]) < 4 /\ c' = [c EXCEPT !.files[nf] = Append(@, MkItem(sh, ii + 1))]
           \/ nf < 4 /\ c' = [c EXCEPT !.files = Append(@, <<>>)]
     ELSE IF ii = 7 THEN UNCHANGED pc /\ \E f \in SimFilters, q \in BOOLEAN : c' = [c EXCEPT !.fops = f, !.quiet = q]
     ELSE pc' = "emit" /\ c' = [c EXCEPT !.files = [i \in 1..nf |-> Encode(c.files[i], <<65, 83, 32, 49>>)]]
SimSpec == SimInit /\ [][SimNext]_vars
SimDump == pc = "emit" => PrintT(<<"BEH", ToJson(CaseOut(c))>>)

\* named constants for the cfg files
Q_Both    == BOOLEAN
Q_No      == {FALSE}
D_None    == {}
D_Quiet   == {"quiet_stale_errno"}
F_Small   == {<<>>, <<FA(<<81>>)>>, <<FA(<<112, 129>>)>>}
F_Two     == {<<>>, <<FA(<<112>>)>>}
F_Ops     == {<<FA(<<81, 112, 129>>), FC(<<81>>)>>, <<FA(<<81, 112, 129>>), FC(<<112>>)>>, <<FEA(<<129, 81>>), FC(<<129>>)>>}
F_SmallOps == F_Small \cup F_Ops
=============================================================================
