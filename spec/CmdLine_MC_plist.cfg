\* plist, every template, <= 4 occurrences
CONSTANTS Fixed = {} Prog = "plist" MaxOcc = 4 Alphabet = "all"
SPECIFICATION SpecMC
INVARIANTS ScanIsFold DeviationsAreNamed PlaceNeverMatters EnvBeforeArgv ErrorIsFinal
CHECK_DEADLOCK FALSE
