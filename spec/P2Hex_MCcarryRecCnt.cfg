\* sensitivity of the case space: with the re-initialisation of RecCnt taken out of the group prologue the public
\* verdict is EXPECTED to fail on some case (otherwise the case space cannot see this class of defect)
SPECIFICATION Spec
CONSTANTS
  Starts = {0}
  UnitLens = {5}
  Grans = {1, 2}
  LineLens = {2}
  Relocs = {0, 65536}
  Fmts = {"MOTO"}
  Devs = {"CarryRecCnt"}
  Full = FALSE
INVARIANTS InvVerdict
CHECK_DEADLOCK FALSE
