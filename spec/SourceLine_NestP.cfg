CONSTANTS MaxGap = 2 Product = TRUE Emit = FALSE
SPECIFICATION Spec
INVARIANTS GapsImmaterialInv PrefixTransparent CutsAtComponents PreprocSplit FirstBlankIsFirst Dump
CHECK_DEADLOCK FALSE
