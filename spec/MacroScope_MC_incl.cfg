CONSTANTS Alphabet <- AIncl
 MaxLen = 4
 MaxSects = 2
 MaxDepth = 2
 Fixed = {}
INIT Init
NEXT Next
INVARIANTS InvAgrees InvDevsNamed InvLaterPassesAlike InvTable
CHECK_DEADLOCK FALSE
