--------------------------- MODULE NegSpace_Trace ---------------------------
(* (V) Trace validation for the negative space: the `stmt` hook of the real assembler records, after every    *)
(* processed source line, the depths of the real nesting stacks (FirstIfSave, StructStack, SectionStack,       *)
(* FirstSaveState, pPhaseStacks[ActPC]), FirstOutputTag (recorder active), IfAsm and ErrorCount.  Every        *)
(* consecutive pair of events must be a step the statement table of NegSpace.tla allows for the logged         *)
(* mnemonic: the defined effect of that statement or an ErrorStep (counters only).  This is what detects      *)
(* "reported an error but also corrupted a stack", an underflow of a closer, or a skipped / recorded line     *)
(* that had an effect.                                                                                         *)
(*   event: [a |-> "S", op, argc, ifasm, rec, ifd, std, sed, svd, phd, seg, tagd, errs]   a = "RESET": new pass *)
EXTENDS NegSpace, Json, IOUtils

VARIABLES p, l, bad
vars == <<p, l, bad>>

TraceLog == ndJsonDeserialize(IOEnv.TRACE)

Start == [ifasm |-> TRUE, rec |-> FALSE, ifd |-> 0, std |-> 0, sed |-> 0, svd |-> 0, phd |-> 0, seg |-> 1,
          tagd |-> 0, errs |-> 0]
Snap(e) == [ifasm |-> e.ifasm, rec |-> e.rec, ifd |-> e.ifd, std |-> e.std, sed |-> e.sed, svd |-> e.svd,
            phd |-> e.phd, seg |-> e.seg, tagd |-> e.tagd, errs |-> e.errs]

Eff(op) == IF op \in OpNames THEN Op(op).e ELSE "none"       \* machine instructions, macro calls: no nesting effect
Grp(op) == IF op \in OpNames THEN Op(op).g ELSE "insn"

\* one counter under an opener (+) / closer (-) / neither; a closer at depth 0 of a live statement must be reported
Delta(a, b, e, plus, minus, must, erra, errb) ==
  IF e = plus THEN b \in {a, a + 1}
  ELSE IF e = minus THEN IF a = 0 THEN b = 0 /\ (must => errb > erra) ELSE b \in {a, a - 1}
  ELSE b = a

Allowed(a, ev) ==
  LET b == Snap(ev)  e == Eff(ev.op)  g == Grp(ev.op)
      live == a.ifasm /\ ~a.rec
      unwound == b.tagd < a.tagd                                     \* a macro / REPT expansion ended or EXITM
  IN /\ b.errs >= a.errs
     /\ IF a.rec
        THEN \* the line was swallowed by a recorder: nothing but the recorder itself may change
             /\ b.ifd = a.ifd /\ b.std = a.std /\ b.sed = a.sed /\ b.svd = a.svd /\ b.ifasm = a.ifasm
             /\ (b.errs = a.errs \/ ev.argc >= AMAX            \* SplitLine: TooManyArgs is reported for every line
                                  \/ ev.op \in {"ENDM", "ENDR"})  \* closing the recorder evaluates REPT/WHILE/IRP heads
        ELSE /\ (b.rec => e = "rec")                                  \* only MACRO IRP IRPN IRPC REPT WHILE open one
             /\ IF e \in {"if+", "sw+"} THEN b.ifd = a.ifd + 1
                ELSE IF e \in {"if-", "sw-"} THEN (IF a.ifd = 0 THEN b.ifd = 0 /\ b.errs > a.errs ELSE b.ifd \in {a.ifd, a.ifd - 1})
                ELSE IF e \in {"else", "case"} THEN b.ifd = a.ifd /\ (a.ifd = 0 => b.errs > a.errs)
                ELSE IF e = "exitm" \/ unwound THEN b.ifd <= a.ifd         \* RestoreIFs
                ELSE b.ifd = a.ifd
             /\ (e \notin {"if+", "sw+", "if-", "sw-", "else", "case", "exitm"} /\ ~unwound => b.ifasm = a.ifasm)
             /\ Delta(a.std, b.std, e, "st+", "st-", live, a.errs, b.errs)
             /\ Delta(a.sed, b.sed, e, "se+", "se-", live, a.errs, b.errs)
             /\ Delta(a.svd, b.svd, e, "sv+", "sv-", live, a.errs, b.errs)
             /\ (b.seg = a.seg /\ e # "sv-" => Delta(a.phd, b.phd, e, "ph+", "ph-", FALSE, a.errs, b.errs))  \* DEPHASE alone is accepted
             \* a skipped statement outside the IF / macro machinery is inert, whatever its arguments are
             /\ (~a.ifasm /\ g \in {"ps", "da", "insn"} => (b.errs = a.errs \/ ev.argc >= AMAX))

\* Every event is consumed; an event the table does not allow is reported (TLC prints its index) and the
\* validation continues from the logged state, so that one run lists all rejected steps.
TInit == p = Start /\ l = 1 /\ bad = 0
TNext == /\ l <= Len(TraceLog)
         /\ l' = l + 1
         /\ LET ev == TraceLog[l] IN
              IF ev.a = "RESET" THEN p' = Start /\ bad' = bad
              ELSE /\ p' = Snap(ev)
                   /\ IF Allowed(p, ev) THEN bad' = bad
                      ELSE bad' = bad + 1 /\ PrintT(<<"BAD", ToJson([l |-> l])>>)
Consumed == TLCGet("stats").diameter - 1 = Len(TraceLog)
=============================================================================
