\* replayed exhaustively: the space of P2Bin_MC_mixedpost.cfg (mixed granularity x two files with (offset) x -S none / B3 x -s x -e; -l 90, -m ALL)
CONSTANTS
  Dev = {}
  MaxRecs = 2
  Starts = {0, 3}
  UnitLens = {4}
  GranSet = {1, 2}
  EntryAddrs = {}
  Offsets = {2}
  FillSet = {90}
  SumOpts = {TRUE, FALSE}
  SegOpts = {1}
  CpuSegs <- CS_One
  Ranges <- R_MixedPost
  LaneSet <- L_All1
  FiltSet <- F_None
  ESet <- E_Mixed
  HdrSet <- H_MixedPost2
SPECIFICATION CoverSpec
CHECK_DEADLOCK FALSE
