\* replayed exhaustively: every -f / +f operation sequence of FilterList!FPatterns and BigPatterns (command line and
\* P2BINCMD) on a file with one record per family
CONSTANTS
  Dev = {}
  MaxRecs = 2
  Starts = {0, 1, 2, 3, 5}
  UnitLens = {0, 1, 4}
  GranSet = {1}
  EntryAddrs = {}
  Offsets = {}
  FillSet = {255}
  SumOpts = {FALSE}
  SegOpts = {1}
  CpuSegs <- CS_One
  Ranges <- R_Cover
  LaneSet <- AllLanes
  FiltSet <- F_None
  ESet <- E_None
  HdrSet <- H_None
SPECIFICATION FiltSpec
CHECK_DEADLOCK FALSE
