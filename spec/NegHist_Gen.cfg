CONSTANTS
  Fams = {"stk", "chr", "sect", "save", "struct", "mac", "func", "enum"}
  MaxLen = 4
  Cover = FALSE
INIT Init
NEXT Next
VIEW View
ACTION_CONSTRAINT TCover
INVARIANTS StackListOK StandardPresent ExitDocumented DepthsSane
CHECK_DEADLOCK FALSE
