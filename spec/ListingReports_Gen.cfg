CONSTANTS NSteps = 10
INIT Init
NEXT Next
CHECK_DEADLOCK FALSE
