CONSTANTS MaxLen = 5 Lim = 20000 Segs = {"code", "data"} StructSeg = "struct" Small = TRUE Mode = "all"
INIT Init
NEXT Next
VIEW View
ACTION_CONSTRAINT TCover
CHECK_DEADLOCK FALSE
