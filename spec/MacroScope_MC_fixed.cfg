CONSTANTS Alphabet <- AGen
 MaxLen = 4
 MaxSects = 2
 MaxDepth = 2
 Fixed = {"GlobCopyUninit", "GlobCopyReplaces", "CoreNotHidden"}
INIT Init
NEXT Next
INVARIANTS InvAgrees InvDevsNamed InvLaterPassesAlike InvTable InvNoDevWhenFixed NoCrash
CHECK_DEADLOCK FALSE
