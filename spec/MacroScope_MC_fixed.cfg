CONSTANTS Families = {"gen", "incl"}
 Family <- QuickFamily
 MaxSects = 2
 MaxDepth = 2
 Fixed = {"GlobCopyUninit", "GlobCopyReplaces", "CoreNotHidden"}
INIT Init
NEXT Next
INVARIANTS InvAll NoCrash
CHECK_DEADLOCK FALSE
