------------------------------ MODULE IsaCtxTab ------------------------------
(* Context table of the HISTORY dimension of C14 (IsaGen.tla "history dimension"), built from the ISA table.     *)
(* A context statement is a LEGAL statement of the same table that stands on the source line directly in front   *)
(* of the statement under test.  The forms are grouped by OPERAND SHAPE = (number of encoding units, set of      *)
(* (kind, width) of the operand fields): the shape is what an operand decoder could leave behind (operand size   *)
(* 8 / 16 bit, register vs. immediate vs. address, prefix / extension words).  Row s of the table lists every    *)
(* form of shape s together with its representative legal operands (IsaGen RepOps); forms with a PC-dependent    *)
(* operand get their operands when the address of the context statement is known (fixed = FALSE).                *)
(* Kept apart from IsaGen so that the instantiating root module can bind the table to a constant definition of   *)
(* its own (TLC evaluates those once; definitions reached through a parameterised INSTANCE are re-evaluated per  *)
(* use).                                                                                                         *)
EXTENDS IsaCommon
CONSTANTS FormsOfCpu, Cpu, AddrMax, SeqPC, HasPc(_),                \* IsaGen
          Skipped(_, _, _), Unjudged(_, _, _)                       \* ISA module
\* (this module declares no variables and takes no recursive operator of IsaGen: TLC treats a definition that reaches
\* a RECURSIVE operator of a module with variables as state-level and re-evaluates it in every state)

\* representative legal operands of a context statement of form f standing at address p: per field the first legal
\* value of a preference list (a 16-bit pattern with two different non-zero bytes, a small number, the midpoint, the
\* limits); if that tuple is not a judged statement (Skipped / Unjudged), any legal judged combination of the candidates
Pref(fld, p) ==
  CASE fld.k = "enum" -> <<1, Len(fld.names)>>
    [] fld.k = "num"  -> <<4660, 18, 19 * fld.scale, ((fld.lo + fld.hi) \div (2 * fld.scale)) * fld.scale, fld.hi, fld.lo>>
    [] fld.k = "rel"  -> <<p + fld.base + 2 * fld.scale, p + fld.base>>
    [] fld.k = "page" -> <<((p + fld.base) \div (2^fld.w)) * (2^fld.w) + 18>>
    [] fld.k = "relw" -> <<4660>>
Ok(fld, v, p) == fld.gmin <= v /\ v <= fld.gmax /\ Legal(fld, v, p, AddrMax)
Cand(fld, p) == {Pref(fld, p)[i] : i \in {j \in 1..Len(Pref(fld, p)) : Ok(fld, Pref(fld, p)[j], p)}}
First(fld, p) == LET s == Pref(fld, p)
                     I == {j \in 1..Len(s) : Ok(fld, s[j], p)}
                 IN IF I = {} THEN s[1] ELSE s[CHOOSE i \in I : \A j \in I : i <= j]
RECURSIVE Firsts(_, _, _)
Firsts(f, i, p) == IF i > Len(f.flds) THEN <<>> ELSE <<First(f.flds[i], p)>> \o Firsts(f, i + 1, p)
RECURSIVE CandOps(_, _, _)
CandOps(f, i, p) == IF i > Len(f.flds) THEN {<<>>} ELSE {<<h>> \o t : h \in Cand(f.flds[i], p), t \in CandOps(f, i + 1, p)}
Good(f, o, p) == AllLegal(f, o, p, AddrMax) /\ ~Skipped(Cpu, f, o) /\ ~Unjudged(Cpu, f, o)
HasRep(f, p) == \E o \in CandOps(f, 1, p) : Good(f, o, p)
RepOps(f, p) == IF Good(f, Firsts(f, 1, p), p) THEN Firsts(f, 1, p) ELSE CHOOSE o \in CandOps(f, 1, p) : Good(f, o, p)

Shape(f) == <<Len(f.enc), {<<f.flds[i].k, f.flds[i].w>> : i \in 1..Len(f.flds)}>>
\* forms that can serve as context: a representative legal operand tuple exists
Usable == {f \in FormsOfCpu : HasRep(f, IF HasPc(f) THEN SeqPC ELSE 0)}
RECURSIVE SeqOf(_)
SeqOf(S) == IF S = {} THEN <<>> ELSE LET x == CHOOSE y \in S : TRUE IN <<x>> \o SeqOf(S \ {x})
Shapes == SeqOf({Shape(f) : f \in Usable})
\* s = number of the shape (row of the table)
Entry(f, s) == IF HasPc(f) THEN [f |-> f, o |-> <<>>, fixed |-> FALSE, s |-> s]
               ELSE [f |-> f, o |-> RepOps(f, 0), fixed |-> TRUE, s |-> s]
\* (explicit tuples: a function constructor [j \in 1..n |-> ...] would stay a lazy value in TLC whose elements are
\* re-evaluated on every application)
RECURSIVE Entries(_, _)
Entries(fs, s) == IF fs = <<>> THEN <<>> ELSE <<Entry(Head(fs), s)>> \o Entries(Tail(fs), s)
RECURSIVE Rows(_, _, _)
Rows(shs, us, s) == IF shs = <<>> THEN <<>>
                    ELSE <<Entries(SeqOf({f \in us : Shape(f) = Head(shs)}), s)>> \o Rows(Tail(shs), us, s + 1)
MkCtxTab == Rows(Shapes, Usable, 1)
=============================================================================
