--------------------------- MODULE CodeFileReader ---------------------------
(***************************************************************************)
(* The reader side of the AS code file format (property C03, tools).       *)
(*                                                                         *)
(* Shaped like toolutils.c ReadRecordHeader() + the per-tool loops of      *)
(* plist.c / pbind.c / p2bin.c / p2hex.c / alink.c: a byte-stream parser   *)
(*                                                                         *)
(*   Magic -> Header -> (RecHdr ->) Addr -> Len -> Data -> Header ...      *)
(*                   -> Entry -> Header                                    *)
(*                   -> Reloc -> RelocData -> Header                       *)
(*                   -> Creator (rest of file) = Accept                    *)
(*                                                                         *)
(* Every step needs a number of bytes; a step that cannot get them is the  *)
(* *truncation* rejection the C code must perform after every fread().     *)
(* (Deviation named: the C code tests `fread() != n` and then calls        *)
(* ChkIO(), which returns when errno = 0 -- the model's reader rejects.)   *)
(*                                                                         *)
(* Declarative side: WellFormed(f) is the grammar of doc/file-formats.md   *)
(* written as a recursive predicate over positions, independent of the     *)
(* machine.  TLC checks machine verdict = grammar for every fault of every *)
(* base file, and that the machine terminates (pos strictly increases).    *)
(***************************************************************************)
EXTENDS Naturals, Sequences, FiniteSets, TLC

Byte == 0..255
At(f, p) == f[p + 1]                          \* byte at 0-based offset p
LE2(f, p) == At(f, p) + 256 * At(f, p + 1)
\* 32-bit little endian value, capped at 2^24 (TLC integers are 32 bit; files here are < 2^16 bytes)
Cap == 16777216
LE4c(f, p) == IF At(f, p + 3) # 0 THEN Cap ELSE At(f, p) + 256 * At(f, p + 1) + 65536 * At(f, p + 2)

\* record types (fileformat.h)
HdrEnd == 0    HdrEntry == 128   HdrData == 129   HdrRData == 130   HdrReloc == 131   HdrRReloc == 132
HdrRelocInfo == 133
LongHdrs == {HdrData, HdrRData, HdrReloc, HdrRReloc}
\* toolutils.c Granularity(): implied by a short ($01..$7f) header, segment CODE
DefGran(h) == IF h \in {9, 118, 125} THEN 4                                   \* $09 $76 $7d
              ELSE IF h \in {54, 112, 113, 114, 116, 117, 119, 18, 109, 59, 26, 27, 28, 29} THEN 2
              ELSE 1
SegMax == 10       \* doc/file-formats.md lists $00..$09; addrspace.h adds SegEEData = 10, which AS itself writes

(* ---------------------------------------------------------------------- *)
(* The reader machine                                                      *)
(* ---------------------------------------------------------------------- *)
\* r = [st, pos, hdr, gran, len, why, fields]; fields = sequence of [off, n, k] (what the reader consumed)
InitR == [st |-> "Magic", pos |-> 0, hdr |-> 0, gran |-> 1, len |-> 0, why |-> "", fields |-> <<>>, odd |-> FALSE,
          undoc |-> FALSE]
Terminal(r) == r.st \in {"Accept", "Reject"}
Reject(r, why) == [r EXCEPT !.st = "Reject", !.why = why]
Have(f, r, n) == r.pos + n <= Len(f)
Took(r, n, k, st) == [r EXCEPT !.pos = @ + n, !.st = st, !.fields = Append(@, [off |-> r.pos, n |-> n, k |-> k])]

StepR(f, r) ==
  CASE r.st = "Magic" ->
         IF ~Have(f, r, 2) THEN Reject(r, "trunc")
         ELSE IF At(f, 0) # 137 \/ At(f, 1) # 20 THEN Reject(r, "magic")        \* $89 $14
         ELSE Took(r, 2, "magic", "Header")
    [] r.st = "Header" ->
         IF ~Have(f, r, 1) THEN Reject(r, "trunc")                               \* no creator record
         ELSE LET h == At(f, r.pos) IN
              IF h = HdrEnd THEN [Took(r, 1, "hdr", "Accept") EXCEPT !.hdr = h,   \* creator string = rest of file
                                                                      !.odd = @ \/ r.pos + 1 = Len(f)]  \* empty creator
              ELSE IF h = HdrEntry THEN [Took(r, 1, "hdr", "Entry") EXCEPT !.hdr = h]
              ELSE IF h \in LongHdrs THEN [Took(r, 1, "hdr", "RecHdr") EXCEPT !.hdr = h, !.undoc = @ \/ h # HdrData]
              ELSE IF h = HdrRelocInfo THEN [Took(r, 1, "hdr", "Reloc") EXCEPT !.hdr = h, !.undoc = TRUE]
              ELSE IF h <= 127 THEN [Took(r, 1, "hdr", "Addr") EXCEPT !.hdr = h, !.gran = DefGran(h)]
              ELSE Reject(r, "header")                                            \* $86..$ff: no such record type
    [] r.st = "RecHdr" ->
         IF ~Have(f, r, 3) THEN Reject(r, "trunc")
         ELSE LET seg == At(f, r.pos + 1)  gr == At(f, r.pos + 2) IN
              IF seg > SegMax THEN Reject(r, "segment")
              ELSE IF gr = 0 THEN Reject(r, "gran0")
              ELSE [Took(r, 3, "cpusg", "Addr") EXCEPT !.gran = gr, !.odd = @ \/ gr \notin {1, 2, 4, 8}]
    [] r.st = "Addr" -> IF ~Have(f, r, 4) THEN Reject(r, "trunc") ELSE Took(r, 4, "addr", "Len")
    [] r.st = "Len" ->
         IF ~Have(f, r, 2) THEN Reject(r, "trunc")
         ELSE LET n == LE2(f, r.pos) IN
              [Took(r, 2, "len", "Data") EXCEPT !.len = n, !.odd = @ \/ (n % r.gran # 0)]
    [] r.st = "Data" ->
         IF ~Have(f, r, r.len) THEN Reject(r, "length")                          \* length larger than the rest
         ELSE Took(r, r.len, "data", "Header")
    [] r.st = "Entry" -> IF ~Have(f, r, 4) THEN Reject(r, "trunc") ELSE Took(r, 4, "entry", "Header")
    [] r.st = "Reloc" ->
         IF ~Have(f, r, 12) THEN Reject(r, "trunc")
         ELSE LET rc == LE4c(f, r.pos)  ec == LE4c(f, r.pos + 4)  sl == LE4c(f, r.pos + 8)
                  n  == IF rc >= 4096 \/ ec >= 4096 \/ sl >= 65536 THEN Cap ELSE 16 * rc + 16 * ec + sl
              IN [Took(r, 12, "reloccnt", "RelocData") EXCEPT !.len = n]
    [] r.st = "RelocData" ->
         IF ~Have(f, r, r.len) THEN Reject(r, "length") ELSE Took(r, r.len, "relocdata", "Header")

RECURSIVE RunR(_, _)
RunR(f, r) == IF Terminal(r) THEN r ELSE RunR(f, StepR(f, r))
Verdict(f) == RunR(f, InitR)

(* ---------------------------------------------------------------------- *)
(* Declarative well-formedness (doc/file-formats.md)                       *)
(* ---------------------------------------------------------------------- *)
\* size of a well-formed record starting at offset p, or 0 if there is none
RecSize(f, p) ==
  LET h == At(f, p) IN
  IF h = HdrEntry THEN (IF p + 5 <= Len(f) THEN 5 ELSE 0)
  ELSE IF h \in LongHdrs THEN
         (IF p + 10 <= Len(f) /\ At(f, p + 2) <= SegMax /\ At(f, p + 3) # 0 /\ p + 10 + LE2(f, p + 8) <= Len(f)
          THEN 10 + LE2(f, p + 8) ELSE 0)
  ELSE IF h >= 1 /\ h <= 127 THEN
         (IF p + 7 <= Len(f) /\ p + 7 + LE2(f, p + 5) <= Len(f) THEN 7 + LE2(f, p + 5) ELSE 0)
  ELSE IF h = HdrRelocInfo THEN
         (IF p + 13 <= Len(f) THEN
            LET rc == LE4c(f, p + 1)  ec == LE4c(f, p + 5)  sl == LE4c(f, p + 9) IN
            IF rc < 4096 /\ ec < 4096 /\ sl < 65536 /\ p + 13 + 16 * rc + 16 * ec + sl <= Len(f)
            THEN 13 + 16 * rc + 16 * ec + sl ELSE 0
          ELSE 0)
  ELSE 0
\* "magic, then records, the last of which is the creator record ($00 + rest of file)"
RECURSIVE RecordsFrom(_, _)
RecordsFrom(f, p) == /\ p < Len(f)
                     /\ \/ At(f, p) = HdrEnd
                        \/ RecSize(f, p) > 0 /\ RecordsFrom(f, p + RecSize(f, p))
WellFormed(f) == Len(f) >= 2 /\ At(f, 0) = 137 /\ At(f, 1) = 20 /\ RecordsFrom(f, 2)

(* ---------------------------------------------------------------------- *)
(* What the documented exit statuses demand of a tool (doc/utility-programs.md) *)
(* ---------------------------------------------------------------------- *)
\*   0 no errors / 1 command line / 2 I/O error / 3 file format error
\* class of a file:
\*   "ok"        well formed, only documented record types, sane granularity  -> must be accepted (0)
\*   "tolerated" well formed but uses record types $82..$85 that doc/file-formats.md does not describe, or a
\*               granularity that is not a power of two / does not divide the length, or an empty creator
\*               string (AS never writes one; pbind/p2bin/p2hex demand >= 1 character): accept or reject,
\*               but end normally
\*   "malformed" not well formed                                              -> must be rejected (2 or 3)
DocumentedToolExit == {0, 1, 2, 3}
ClassOf(f) == LET v == Verdict(f) IN
              IF v.st = "Reject" THEN "malformed" ELSE IF v.undoc \/ v.odd THEN "tolerated" ELSE "ok"
Expected(f) == CASE ClassOf(f) = "ok" -> {0} [] ClassOf(f) = "malformed" -> {2, 3} [] OTHER -> {0, 2, 3}
=============================================================================
