------------------------------ MODULE DataDef ------------------------------
(* Data-definition statements (doc/pseudo-instructions.md "Data Definitions", PADDING, BIGENDIAN, CHARSET).     *)
(*                                                                                                              *)
(* StmtTable: statement kinds x element types: family, element width in bytes, integer / float element,          *)
(*   float format, byte order source, string handling.  Layout(stmt, args, md) computes, by div/mod arithmetic   *)
(*   on Limb64 integers and the IEEE encoders, what the statement lays down:                                     *)
(*       [k |-> "data", pad |-> p, b |-> bytes]   p pad bytes (PADDING) followed by the bytes                     *)
(*       [k |-> "reserve", pad |-> p, n |-> n]    no bytes, the address advances by n bytes                        *)
(*       [k |-> "error"]                          an error must be reported and nothing emitted                   *)
(*       [k |-> "unspec"]                         the manual gives no definite answer (never judged)              *)
(* Arguments: [k |-> "int", v |-> limbs] [k |-> "flt", v |-> dyadic] [k |-> "str", cs |-> codes, sq |-> single    *)
(*   quoted] [k |-> "res"] ("?") [k |-> "dup", n |-> count, args |-> ...] (Intel DUP), and rep |-> n on an         *)
(*   argument for the Motorola repeat prefix [n].                                                                *)
(* Modes md: [big |-> target byte order for this statement, padding |-> PADDING ON, pcodd |-> statement starts   *)
(*   at an odd address, cs |-> the CHARSET statements in force, lg |-> list granularity of the assembling target   *)
(*   (only consulted by Devs: the documented layout does not depend on it)].                                     *)
(* Single-quoted strings (assembler-usage.md "String to Integer Conversion and Character Constants"): a "multi        *)
(*   character constant" is converted to its integer value ('AB' = 4142h), and "using the correct quotation is not    *)
(*   necessary if the character string is longer than the used operand size".  For 1..4 characters that fit the      *)
(*   element this is one integer; for more characters than the element holds it is a character string.  The manual's *)
(*   examples stop at four characters, so for 5..8 characters in a 64-bit element (DQ, DC.Q) it does not decide       *)
(*   between the two readings md.rd = "int" (ONE integer of up to 8 characters, first character most significant)    *)
(*   and md.rd = "chars" (a character string: one element per character).  The EMPTY single-quoted string has no     *)
(*   integer value ("int": an error) and no characters ("chars": nothing is laid down).  LayoutAlts collects the      *)
(*   layouts of both readings: [k |-> "alt", alts |-> ...] when they differ - both conform, nothing else does.        *)
EXTENDS Naturals, Integers, Sequences, FiniteSets, Limb64, IEEE

(* ---- statement kinds ---------------------------------------------------------------------------------------- *)
\* fam: "moto" DC.x (680x0...) | "intel" Dx | "m68" BYT/FCB, ADR/FDB, FCC (65xx/68xx) | "ti" BYTE/WORD/LONG on a
\*      16-bit-granular TMS320C2x
\* w: element width in bytes; ty: "int" | "flt" | "both" (integer argument stays integer, float argument is encoded)
\* order: "big" | "little" | "mode" (BIGENDIAN switch);  pads: takes part in PADDING (multi-byte object)
StmtTable ==
  [DCB |-> [fam |-> "moto",  w |-> 1,  ty |-> "int",  fmt |-> "none",   order |-> "big",    pads |-> FALSE],
   DCW |-> [fam |-> "moto",  w |-> 2,  ty |-> "int",  fmt |-> "none",   order |-> "big",    pads |-> TRUE],
   DCL |-> [fam |-> "moto",  w |-> 4,  ty |-> "int",  fmt |-> "none",   order |-> "big",    pads |-> TRUE],
   DCQ |-> [fam |-> "moto",  w |-> 8,  ty |-> "int",  fmt |-> "none",   order |-> "big",    pads |-> TRUE],
   DCC |-> [fam |-> "moto",  w |-> 2,  ty |-> "flt",  fmt |-> "half",   order |-> "big",    pads |-> TRUE],
   DCS |-> [fam |-> "moto",  w |-> 4,  ty |-> "flt",  fmt |-> "single", order |-> "big",    pads |-> TRUE],
   DCD |-> [fam |-> "moto",  w |-> 8,  ty |-> "flt",  fmt |-> "double", order |-> "big",    pads |-> TRUE],
   DCX |-> [fam |-> "moto",  w |-> 12, ty |-> "flt",  fmt |-> "ext96",  order |-> "big",    pads |-> TRUE],
   DB  |-> [fam |-> "intel", w |-> 1,  ty |-> "int",  fmt |-> "none",   order |-> "mode",   pads |-> FALSE],
   DW  |-> [fam |-> "intel", w |-> 2,  ty |-> "both", fmt |-> "half",   order |-> "mode",   pads |-> FALSE],
   DD  |-> [fam |-> "intel", w |-> 4,  ty |-> "both", fmt |-> "single", order |-> "mode",   pads |-> FALSE],
   DQ  |-> [fam |-> "intel", w |-> 8,  ty |-> "both", fmt |-> "double", order |-> "mode",   pads |-> FALSE],
   DT  |-> [fam |-> "intel", w |-> 10, ty |-> "flt",  fmt |-> "ext80",  order |-> "mode",   pads |-> FALSE],
   FCB |-> [fam |-> "m68",   w |-> 1,  ty |-> "int",  fmt |-> "none",   order |-> "big",    pads |-> FALSE],
   FDB |-> [fam |-> "m68",   w |-> 2,  ty |-> "int",  fmt |-> "none",   order |-> "big",    pads |-> FALSE],
   BYT |-> [fam |-> "m68",   w |-> 1,  ty |-> "int",  fmt |-> "none",   order |-> "little", pads |-> FALSE],
   ADR |-> [fam |-> "m68",   w |-> 2,  ty |-> "int",  fmt |-> "none",   order |-> "little", pads |-> FALSE],
   FCC |-> [fam |-> "m68",   w |-> 1,  ty |-> "str",  fmt |-> "none",   order |-> "big",    pads |-> FALSE],
   TIBYTE |-> [fam |-> "ti", w |-> 1,  ty |-> "int",  fmt |-> "none",   order |-> "little", pads |-> FALSE],
   TIWORD |-> [fam |-> "ti", w |-> 2,  ty |-> "int",  fmt |-> "none",   order |-> "little", pads |-> FALSE],
   TILONG |-> [fam |-> "ti", w |-> 4,  ty |-> "int",  fmt |-> "none",   order |-> "little", pads |-> FALSE],
   \* packed layouts: elements smaller than the addressable unit ("bytes are packed in pairs into 16 bit words ...
   \* LSB first ... The analogous is true for DN ... two or four nibbles are packed into a byte or 16 bit word")
   \*   ebits: element size in bits, unit: bytes per addressable unit
   PDB |-> [fam |-> "packed", w |-> 1, ebits |-> 8, unit |-> 2, ty |-> "int", fmt |-> "none", order |-> "little", pads |-> FALSE],  \* DB, AVR code segment
   PDN |-> [fam |-> "packed", w |-> 1, ebits |-> 4, unit |-> 2, ty |-> "int", fmt |-> "none", order |-> "little", pads |-> FALSE],  \* DN, AVR code segment
   DN  |-> [fam |-> "packed", w |-> 1, ebits |-> 4, unit |-> 1, ty |-> "int", fmt |-> "none", order |-> "little", pads |-> FALSE],  \* DN, byte-addressed target
   \* DATA of the AVR in the word-addressed code segment: strings two characters per word (LSB first), integers one
   \* word each, or - PACKING ON - one byte each in the same byte stream
   AVRDATA |-> [fam |-> "avrdata", w |-> 2, ebits |-> 8, unit |-> 2, ty |-> "int", fmt |-> "none", order |-> "little", pads |-> FALSE]]

(* ---- character maps ------------------------------------------------------------------------------------------ *)
(* The CHARSET table is a function value 0..255 -> 0..255, part of the state of the assembly.  It starts as the   *)
(* identity and is changed by CHARSET statements, each of which *assigns* entries indexed by the source           *)
(* character (nothing is composed with what the table held before):                                              *)
(*   [k |-> "range", a, b, c]   CHARSET a,b,c : entries a..b := c, c+1, ...                                        *)
(*   [k |-> "one", a, c]        CHARSET a,c   : entry a := c                                                       *)
(*   [k |-> "str", a, cs]       CHARSET a,"..": entries a, a+1, ... := the characters                              *)
(*   [k |-> "reset"]            CHARSET       : back to the identity                                               *)
(* md.cs is the sequence of CHARSET statements in force when the data statement is assembled.  A string argument  *)
(* lays down, per character, Table[character] - the table applied exactly once - and a repeat count ([n], DUP)    *)
(* replicates those bytes.                                                                                        *)
IdTable == [c \in 0..255 |-> c]
ApplyOp(tab, op) ==
  CASE op.k = "range" -> [x \in 0..255 |-> IF x >= op.a /\ x <= op.b THEN (op.c + (x - op.a)) % 256 ELSE tab[x]]
    [] op.k = "one"   -> [tab EXCEPT ![op.a] = op.c]
    [] op.k = "str"   -> [x \in 0..255 |-> IF x >= op.a /\ x < op.a + Len(op.cs) THEN op.cs[x - op.a + 1] ELSE tab[x]]
    [] OTHER          -> IdTable
RECURSIVE TableAfter(_, _)
TableAfter(tab, ops) == IF ops = <<>> THEN tab ELSE TableAfter(ApplyOp(tab, Head(ops)), Tail(ops))
Table(ops) == TableAfter(IdTable, ops)

\* the same entry found without building the table: the last statement that assigns it, not looking past a reset
RECURSIVE MapChar(_, _)
MapChar(ops, c) ==
  IF ops = <<>> THEN c
  ELSE LET op == ops[Len(ops)]
           before == SubSeq(ops, 1, Len(ops) - 1)
       IN CASE op.k = "reset" -> c
            [] op.k = "range" /\ c >= op.a /\ c <= op.b -> (op.c + (c - op.a)) % 256
            [] op.k = "one" /\ c = op.a -> op.c
            [] op.k = "str" /\ c >= op.a /\ c < op.a + Len(op.cs) -> op.cs[c - op.a + 1]
            [] OTHER -> MapChar(before, c)
MapStr(ops, cs) == [i \in 1..Len(cs) |-> MapChar(ops, cs[i])]

(* ---- integers ----------------------------------------------------------------------------------------------- *)
\* "-2^(8w-1) .. 2^(8w)-1": a field accepts the signed and the unsigned reading (IntTypeDefs Int8/Int16/Int32)
InRange(v, w) ==
  IF w >= 8 THEN TRUE
  ELSE IF IsNeg(v) THEN ShrA(v, 8 * w - 1) = MinusOne
  ELSE ShrL(v, 8 * w) = Zero
IntBytesBE(v, w) == LET le == BytesLE(v) IN [i \in 1..w |-> le[w + 1 - i]]      \* two's complement, w <= 8
Ordered(be, big) == IF big THEN be ELSE Reverse(be)

\* multi-character constant: 'ab' = 6162h, first character most significant, through the character map
RECURSIVE CharsAsInt(_, _)
CharsAsInt(cs, acc) == IF cs = <<>> THEN acc ELSE CharsAsInt(Tail(cs), Add(Shl(acc, 8), FromNat(Head(cs))))

(* ---- floats ------------------------------------------------------------------------------------------------- *)
FloatFits(fmt, x) ==      \* "yes" | "no" (error) | "open"
  IF x.m = 0 THEN "yes"
  ELSE CASE fmt = "half" -> IF TopExp(x) >= 16 THEN "no"
                            ELSE IF DyCmp(DyAbs(x), MaxFinite(FmtHalf)) > 0 THEN "open" ELSE "yes"
         [] fmt = "single" -> IF TopExp(x) >= 128 THEN "no"
                              \* the range test of the code is |x| <= 3.4e38, a little below the largest single
                              ELSE IF TopExp(x) = 127 /\ DyCmp(DyAbs(x), Dy(0, 1023, 118)) >= 0 THEN "open" ELSE "yes"
         [] OTHER -> IF DoubleOK(x) THEN "yes" ELSE "open"
FloatBytesBE(fmt, x) ==
  CASE fmt = "half" -> HalfBytesBE(x)
    [] fmt = "single" -> SingleBytesBE(x)
    [] fmt = "double" -> DoubleBytesBE(x)
    [] fmt = "ext80" -> ExtBytesBE(x)
    [] OTHER -> LET e == ExtBytesBE(x) IN <<e[1], e[2], 0, 0>> \o SubSeq(e, 3, 10)     \* 96 bit: two filler bytes

\* integer -> float where the statement only stores floats (exact for up to 30 significant bits, else open)
RECURSIVE TrailZ(_, _)
TrailZ(a, i) == IF i > 63 THEN 64 ELSE IF Bit(a, i) = 1 THEN i ELSE TrailZ(a, i + 1)
RECURSIVE TopBit(_, _)
TopBit(a, i) == IF i < 0 THEN 0 - 1 ELSE IF Bit(a, i) = 1 THEN i ELSE TopBit(a, i - 1)
IntAsDy(l) ==
  IF IsZero(l) THEN DyZero
  ELSE LET a == Abs(l)
           tz == TrailZ(a, 0)
           mm == ShrL(a, tz)
       IN IF TopBit(a, 63) - tz >= 30 THEN Wide ELSE Dy(IF IsNeg(l) THEN 1 ELSE 0, mm[1] + B16 * mm[2], tz)

(* ---- one argument -> elements ---------------------------------------------------------------------------------*)
Readings == {"int", "chars"}
Rd(md) == IF "rd" \in DOMAIN md THEN md.rd ELSE "int"
\* the single-quoted empty string where an integer or a character string is expected
EmptySq(a) == a.k = "str" /\ a.sq /\ a.cs = <<>>
\* result: [k |-> "b", b |-> bytes] | [k |-> "res", n |-> bytes reserved] | [k |-> "err"] | [k |-> "uns"]
ErrR == [k |-> "err"]
UnsR == [k |-> "uns"]
BytesR(b) == [k |-> "b", b |-> b]

RECURSIVE RepeatSeq(_, _)
RepeatSeq(s, n) == IF n <= 0 THEN <<>> ELSE s \o RepeatSeq(s, n - 1)

IntElem(st, v, big) ==
  IF st.ty = "flt" THEN
    LET d == IntAsDy(v) IN
    IF IsWide(d) THEN UnsR
    ELSE LET f == FloatFits(st.fmt, d) IN
         IF f = "no" THEN ErrR ELSE IF f = "open" THEN UnsR ELSE BytesR(Ordered(FloatBytesBE(st.fmt, d), big))
  ELSE IF st.ty = "str" THEN UnsR
  ELSE IF ~InRange(v, st.w) THEN ErrR
  ELSE IF st.fam = "ti" /\ st.w = 1 THEN BytesR(<<BytesLE(v)[1], 0>>)               \* one byte per 16-bit word
  ELSE IF st.fam = "ti" /\ st.w = 4 THEN BytesR(SubSeq(BytesLE(v), 1, 4))            \* low word first, words little endian
  ELSE BytesR(Ordered(IntBytesBE(v, st.w), big))

FltElem(st, x, big) ==
  IF st.ty \in {"int", "str"} THEN ErrR                                              \* "expected integer or string, but got float"
  ELSE LET f == FloatFits(st.fmt, x) IN
       IF f = "no" THEN ErrR ELSE IF f = "open" THEN UnsR ELSE BytesR(Ordered(FloatBytesBE(st.fmt, x), big))

RECURSIVE ConcatR(_)
\* concatenation of element results: an error wins, then "unspecified"; data and reservation must not be mixed
ConcatR(rs) ==
  IF rs = <<>> THEN BytesR(<<>>)
  ELSE LET h == Head(rs)
           t == ConcatR(Tail(rs))
       IN IF h.k = "err" \/ t.k = "err" THEN ErrR
          ELSE IF h.k = "uns" \/ t.k = "uns" THEN UnsR
          ELSE IF Tail(rs) = <<>> THEN h
          ELSE IF h.k # t.k THEN ErrR                                                \* db "hello",?  --> error message
          ELSE IF h.k = "b" THEN BytesR(h.b \o t.b) ELSE [k |-> "res", n |-> h.n + t.n]

StrElems(st, a, md, big) ==
  LET cs == MapStr(md.cs, a.cs)
      asint == a.sq /\ Len(a.cs) >= 1 /\ Len(a.cs) <= st.w /\ st.w <= 8 /\ st.ty # "str"
               /\ (Len(a.cs) <= 4 \/ Rd(md) = "int")                                 \* 5..8 characters: the reading decides
  IN IF asint THEN IntElem(st, CharsAsInt(cs, Zero), big)                            \* 'ab' in a word: one element 6162h
     ELSE IF EmptySq(a) /\ st.ty \in {"int", "both"}
          THEN (IF Rd(md) = "int" THEN ErrR ELSE BytesR(<<>>))                        \* no integer value / no characters
     ELSE IF a.cs = <<>> THEN UnsR
     ELSE IF st.ty = "str" \/ st.ty = "int" \/ st.ty = "both" THEN
            IF st.fam = "ti" THEN UnsR
            ELSE IF st.w > 8 THEN UnsR
            ELSE ConcatR([i \in 1..Len(cs) |-> BytesR(Ordered(IntBytesBE(FromNat(cs[i]), st.w), big))])  \* one element per character
     ELSE UnsR                                                                       \* characters as floats: not documented

RECURSIVE ArgR(_, _, _, _)
ArgR(st, a, md, big) ==
  LET one ==
        CASE a.k = "int" -> IntElem(st, a.v, big)
          [] a.k = "flt" -> FltElem(st, a.v, big)
          [] a.k = "str" -> StrElems(st, a, md, big)
          [] a.k = "res" -> IF st.fam = "ti" \/ st.ty = "str" THEN UnsR              \* "?" is documented for DC and Dx only
                            ELSE [k |-> "res", n |-> st.w]
          [] a.k = "dup" -> IF st.fam # "intel" THEN UnsR
                            ELSE LET inner == ConcatR([i \in 1..Len(a.args) |-> ArgR(st, a.args[i], md, big)])
                                 IN IF inner.k = "b" THEN BytesR(RepeatSeq(inner.b, a.n))
                                    ELSE IF inner.k = "res" THEN [k |-> "res", n |-> inner.n * a.n]
                                    ELSE inner
          [] OTHER -> UnsR
      rep == IF "rep" \in DOMAIN a THEN a.rep ELSE 1
  IN IF rep = 1 THEN one
     ELSE IF st.fam \notin {"moto", "m68"} THEN UnsR                                 \* the [n] prefix belongs to the Motorola family
     ELSE IF one.k = "b" THEN BytesR(RepeatSeq(one.b, rep))
     ELSE IF one.k = "res" THEN [k |-> "res", n |-> one.n * rep]
     ELSE one

(* ---- packed statements -------------------------------------------------------------------------------------------*)
\* elements of an argument list in order: a number 0 .. 2^ebits - 1, ResE (reserved, `?`), ErrE (error), UnsE (undecided)
ResE == 0 - 1
ErrE == 0 - 2
UnsE == 0 - 3
InRangeBits(v, bits) ==      \* -2^(bits-1) .. 2^bits - 1
  IF IsNeg(v) THEN ShrA(v, bits - 1) = MinusOne ELSE ShrL(v, bits) = Zero
RECURSIVE PElems(_, _, _)
RECURSIVE PElemsOf(_, _, _)
PElemsOf(st, a, md) ==
  CASE a.k = "int" -> IF InRangeBits(a.v, st.ebits) THEN <<BytesLE(a.v)[1] % Pow2(st.ebits)>> ELSE <<ErrE>>
    [] a.k = "flt" -> <<ErrE>>
    [] a.k = "str" -> IF st.ebits = 8 /\ EmptySq(a) THEN (IF Rd(md) = "int" THEN <<ErrE>> ELSE <<>>)
                      ELSE IF st.ebits # 8 \/ a.cs = <<>> THEN <<UnsE>>
                      ELSE IF a.sq /\ Len(a.cs) = 1 THEN <<MapChar(md.cs, a.cs[1])>>
                      ELSE MapStr(md.cs, a.cs)
    [] a.k = "res" -> <<ResE>>
    [] a.k = "dup" -> RepeatSeq(PElems(st, a.args, md), a.n)
    [] OTHER -> <<UnsE>>
PElems(st, args, md) == IF args = <<>> THEN <<>> ELSE PElemsOf(st, Head(args), md) \o PElems(st, Tail(args), md)

\* E elements per unit, the first one in the least significant position; a partly filled last unit is padded
RECURSIVE UnitValue(_, _, _)
UnitValue(es, bits, i) == IF es = <<>> THEN 0 ELSE Head(es) * Pow2(bits * i) + UnitValue(Tail(es), bits, i + 1)
RECURSIVE PackUnits(_, _)
PackUnits(es, st) ==
  LET E == (8 * st.unit) \div st.ebits IN
  IF es = <<>> THEN <<>>
  ELSE LET n == IF Len(es) < E THEN Len(es) ELSE E
           v == UnitValue(SubSeq(es, 1, n), st.ebits, 0)
       IN (IF st.unit = 1 THEN <<v>> ELSE <<v % 256, v \div 256>>) \o PackUnits(SubSeq(es, n + 1, Len(es)), st)
UnitsFor(n, st) == LET E == (8 * st.unit) \div st.ebits IN (n + E - 1) \div E

LayoutPacked(st, args, md) ==
  LET es == PElems(st, args, md)
      kinds == {es[i] : i \in 1..Len(es)}
  IN IF ErrE \in kinds THEN [k |-> "error"]
     ELSE IF UnsE \in kinds THEN [k |-> "unspec"]
     ELSE IF es = <<>> THEN [k |-> "data", pad |-> 0, b |-> <<>>]            \* only '' under the "chars" reading
     ELSE IF ResE \in kinds THEN (IF kinds = {ResE} THEN [k |-> "reserve", pad |-> 0, n |-> UnitsFor(Len(es), st) * st.unit]
                                  ELSE [k |-> "error"])                    \* constants and placeholders cannot be mixed
     ELSE [k |-> "data", pad |-> 0, b |-> PackUnits(es, st)]

\* AVR DATA: a byte stream (string characters, and integers under PACKING ON) filled into words LSB first; an integer
\* that takes a word of its own (PACKING OFF) first completes a half-filled word with a zero byte
RECURSIVE AvrStream(_, _, _, _)
AvrStream(args, md, pending, out) ==      \* pending: <<>> or <<byte>>
  IF args = <<>> THEN (IF pending = <<>> THEN out ELSE out \o pending \o <<0>>)
  ELSE LET a == Head(args) IN
       CASE a.k = "int" /\ md.packing ->
              IF ~InRangeBits(a.v, 8) THEN <<ErrE>>
              ELSE LET bs == pending \o <<BytesLE(a.v)[1]>> IN
                   IF Len(bs) = 2 THEN AvrStream(Tail(args), md, <<>>, out \o bs) ELSE AvrStream(Tail(args), md, bs, out)
         [] a.k = "int" ->
              IF ~InRangeBits(a.v, 16) THEN <<ErrE>>
              ELSE AvrStream(Tail(args), md, <<>>, out \o (IF pending = <<>> THEN <<>> ELSE pending \o <<0>>) \o SubSeq(BytesLE(a.v), 1, 2))
         [] a.k = "str" /\ a.cs # <<>> /\ ~(a.sq /\ Len(a.cs) <= 2) ->
              LET cs == MapStr(md.cs, a.cs)
                  all == pending \o cs
                  even == 2 * (Len(all) \div 2)
              IN AvrStream(Tail(args), md, SubSeq(all, even + 1, Len(all)), out \o SubSeq(all, 1, even))
         [] a.k = "flt" -> <<ErrE>>
         [] EmptySq(a) -> IF Rd(md) = "int" THEN <<ErrE>> ELSE AvrStream(Tail(args), md, pending, out)
         [] OTHER -> <<UnsE>>
LayoutAvrData(args, md) ==
  LET r == AvrStream(args, md, <<>>, <<>>) IN
  IF r # <<>> /\ r[Len(r)] = ErrE THEN [k |-> "error"]
  ELSE IF r # <<>> /\ r[Len(r)] = UnsE THEN [k |-> "unspec"]
  ELSE [k |-> "data", pad |-> 0, b |-> r]

(* ---- the statement ---------------------------------------------------------------------------------------------*)
LayoutPlain(sname, args, md) ==
  LET st == StmtTable[sname]
      big == IF st.order = "mode" THEN md.big ELSE st.order = "big"
      body == ConcatR([i \in 1..Len(args) |-> ArgR(st, args[i], md, big)])
      pad == IF st.pads /\ md.padding /\ md.pcodd THEN 1 ELSE 0                       \* a pad byte in front of a multi-byte object
  IN IF Len(args) = 0 THEN [k |-> "error"]
     ELSE IF body.k = "err" THEN [k |-> "error"]
     ELSE IF body.k = "uns" THEN [k |-> "unspec"]
     ELSE IF body.k = "b" THEN (IF Len(body.b) > 1024 \/ (body.b = <<>> /\ pad = 1) THEN [k |-> "unspec"]
                                ELSE [k |-> "data", pad |-> pad, b |-> body.b])
     ELSE [k |-> "reserve", pad |-> pad, n |-> body.n]
Layout(sname, args, md) ==
  CASE Len(args) = 0 -> [k |-> "error"]
    [] StmtTable[sname].fam = "packed" -> LayoutPacked(StmtTable[sname], args, md)
    [] StmtTable[sname].fam = "avrdata" -> LayoutAvrData(args, md)
    [] OTHER -> LayoutPlain(sname, args, md)

\* both readings of single-quoted strings: one layout when they agree, else the alternatives (each "data" or "error")
WithRd(md, r) == [f \in DOMAIN md \cup {"rd"} |-> IF f = "rd" THEN r ELSE md[f]]
LayoutAlts(sname, args, md) ==
  LET li == Layout(sname, args, WithRd(md, "int"))
      lc == Layout(sname, args, WithRd(md, "chars"))
  IN IF li = lc THEN li
     ELSE IF li.k = "unspec" \/ lc.k = "unspec" THEN [k |-> "unspec"]
     ELSE [k |-> "alt", alts |-> <<li, lc>>]

\* the same statement twice with CHARSET statements cs2 between the two: the second copy sees the changed table
LayoutTwice(sname, args, md, cs2) ==
  LET l1 == Layout(sname, args, md)
      l2 == Layout(sname, args, [md EXCEPT !.cs = md.cs \o cs2, !.pcodd = FALSE])
  IN IF l1.k = "data" /\ l2.k = "data" /\ l1.pad = 0 /\ l2.pad = 0 /\ (Len(l1.b) % 2 = 0 \/ ~StmtTable[sname].pads)
     THEN [k |-> "data", pad |-> 0, b |-> l1.b \o l2.b]
     ELSE [k |-> "unspec"]

(* ---- named deviations of the pinned implementation -------------------------------------------------------------*)
RECURSIVE FlatArgs(_)
FlatArgs(args) == IF args = <<>> THEN <<>>
                  ELSE (IF Head(args).k = "dup" THEN FlatArgs(Head(args).args) ELSE <<Head(args)>>) \o FlatArgs(Tail(args))
RECURSIVE AvrDropsByte(_, _)
AvrDropsByte(as, odd) ==      \* odd: a string byte is pending
  IF as = <<>> THEN FALSE
  ELSE LET a == Head(as) IN
       IF a.k = "str" /\ ~(a.sq /\ Len(a.cs) <= 2) THEN AvrDropsByte(Tail(as), odd # (Len(a.cs) % 2 = 1))
       ELSE IF odd THEN TRUE ELSE AvrDropsByte(Tail(as), FALSE)
IsZeroArg(a) == (a.k = "flt" /\ a.v.m = 0) \/ (a.k = "int" /\ IsZero(a.v))
CharwiseStr(st, a) == a.k = "str" /\ ~(a.sq /\ Len(a.cs) <= st.w /\ Len(a.cs) <= 4)
Devs(sname, args, md) ==
  LET st == StmtTable[sname]
      fa == FlatArgs(args)
  IN \* half precision below the normal range is truncated, not rounded (ieeefloat.c Double_2_ieee2)
     (IF st.fmt = "half" /\ \E i \in 1..Len(fa) : fa[i].k = "flt" /\ fa[i].v.m # 0 /\ HalfCodeBits(fa[i].v, FALSE) # HalfBits(fa[i].v)
      THEN {"half_subnormal"} ELSE {})
     \* a character code above 127 of a string is sign-extended into a 16/32/64-bit element
     \* (intpseudo.c LayoutWord/DoubleWord/QuadWord, motpseudo.c DecodeMotoADR: plain `char`)
     \cup (IF ((st.fam = "intel" /\ st.w \in {2, 4, 8}) \/ (st.fam = "m68" /\ st.w = 2))
              /\ \E i \in 1..Len(fa) : CharwiseStr(st, fa[i]) /\ \E j \in 1..Len(fa[i].cs) : MapChar(md.cs, fa[i].cs[j]) > 127
           THEN {"string_char_sign"} ELSE {})
     \* 0.0 in extended precision gets the exponent 3C00h instead of 0 (ieeefloat.c Double_2_ieee10)
     \cup (IF st.fmt \in {"ext80", "ext96"} /\ \E i \in 1..Len(fa) : IsZeroArg(fa[i]) THEN {"ext_zero"} ELSE {})
     \* DC.C on a target whose code is kept in bytes picks the high byte from an uninitialised word
     \* (motpseudo.c EnterIEEE2: Hi(pField[1]) instead of Hi(pField[0]))
     \cup (IF sname = "DCC" /\ md.lg = 1 THEN {"half_bytewise_target"} ELSE {})
     \* AVR DATA: a word-sized integer after an odd number of string bytes discards the pending byte (codeavr.c PlaceValue)
     \cup (IF sname = "AVRDATA" /\ ~md.packing /\ AvrDropsByte(args, FALSE) THEN {"avr_data_pending_byte"} ELSE {})
     \* a single-quoted string of 0 characters, or of 5..8 characters in a 64-bit element, is taken for a multi character
     \* constant although it cannot be converted: the element is written from a destroyed operand (asmpars.c MultiCharToInt
     \* ignores the result of TempResultToInt; NonZString2Int converts 1..4 characters only)
     \cup (IF \E i \in 1..Len(fa) : fa[i].k = "str" /\ fa[i].sq /\ (fa[i].cs = <<>> \/ (Len(fa[i].cs) \in 5..8 /\ st.w >= 8))
           THEN {"multichar_unconverted"} ELSE {})
     \* LONG of the TMS320C2x truncates silently (tipseudo.c wr_code_long has no range check)
     \cup (IF sname = "TILONG" /\ \E i \in 1..Len(fa) : fa[i].k = "int" /\ ~InRange(fa[i].v, 4) THEN {"ti_long_range"} ELSE {})
=============================================================================
