--------------------------- MODULE PassReports_MC ---------------------------
(* (M) + (G) wrapper of PassReports for the pinned tree (property C17).                                            *)
(*                                                                                                                 *)
(* AsModes / AsTouch / AsRecordedBy / AsClearedBy transcribe as.c: which per-pass component is written under which  *)
(* option and which clean-up between two passes is guarded by which option (names of options = factor names of     *)
(* Options_Gen).  "initpass" = reset by AssembleFile_InitPass / InitPass at the start of every pass, "always" = an   *)
(* unguarded clean-up between passes.                                                                               *)
(*   settings the source can read (a probe lays down other bytes)                                                   *)
(*     radix outradix relaxed enumconf listing    AssembleFile_InitPass / InitPass of the modules                   *)
(*     charset codepage     fresh STANDARD table in AssembleFile_InitPass, list freed by ClearCodepages()           *)
(*     used                 ResetSymbolDefines() (IFUSED / IFNUSED)                                                 *)
(*     define defsym        ClearDefineList() - the #define list of the preprocessor (defsym: the name is an        *)
(*                          ordinary symbol in front of its #define)                                                *)
(*   components only the report writers read                                                                        *)
(*     cross     -C  asmpars.c AddReference (MakeCrossList && DoRefs)   ClearCrossList() if MakeCrossList           *)
(*     usage     -u  BookKeeping AddChunk if MakeUseList                ClearUseList() if MakeUseList               *)
(*     lineinfo  -g  BookKeeping AddLineInfo if DebugMode               ClearLineInfo() if DebugMode                *)
(*     addrrange -g  AddLineInfo -> AddAddressRange (per file)          ResetAddressRanges() if DebugMode           *)
(*     secusage  -g  BookKeeping AddSectionUsage if DebugMode           ClearSectionUsage() if DebugMode            *)
(*     include   -I  PushInclude / PopInclude if MakeIncludeList        ClearIncludeList() unguarded                *)
(*     macpro    -P  MacProFile: opened "w" in every pass                                                           *)
(*     macdef    -M  MacroFile: written in pass 1 only (one pass' entries; modelled as an unguarded clean-up)       *)
(*     page      -L  listing file closed and re-opened, page counters reset in every pass                           *)
(*     share     -c/-p/-a  ShareFile opened "w" in every pass                                                       *)
(* PassReports_MC.cfg (quick programs; option subsets none / one / all) and PassReports_MC_full.cfg (thorough        *)
(* programs; all 256 subsets of the eight options) check the three properties; PassReports_MC_dev.cfg              *)
(* (ClearDefineList() guarded by -C) and PassReports_MC_dev2.cfg (ClearCrossList() guarded by -u) must be refuted.  *)
(* (G): Emit prints every program with                                                                              *)
(* the expected readings; the harness renders it (checks/ext_passreports.py) and runs it under C17's option vectors. *)
EXTENDS PassReports, Json

CONSTANTS Tier,          \* "quick" | "thorough": which programs are generated
          Dev            \* "" | "define-under-C" | "cross-under-u": table of a deviating tree (must be refuted)

AsModes == {"radix", "outradix", "relaxed", "enumconf", "listing", "charset", "codepage", "used",
            "define", "defsym"}
AsTouch == {"cross", "usage", "lineinfo", "addrrange", "secusage", "include", "macpro", "macdef", "page", "share"}
AsOpts  == {"u", "C", "g", "I", "P", "M", "L", "share"}
AsRecordedBy == [c \in AsTouch |-> CASE c = "cross" -> "C" [] c = "usage" -> "u" [] c = "include" -> "I"
                                     [] c \in {"lineinfo", "addrrange", "secusage"} -> "g"
                                     [] c = "macpro" -> "P" [] c = "macdef" -> "M" [] c = "page" -> "L" [] c = "share" -> "share"]
PinnedClearedBy == [x \in AsModes \cup AsTouch |->
                      CASE x \in {"charset", "codepage", "define", "defsym", "include", "macpro", "macdef", "page", "share"} -> "always"
                        [] x \in {"cross", "usage", "lineinfo", "addrrange", "secusage"} -> AsRecordedBy[x]
                        [] OTHER -> "initpass"]
AsClearedBy == CASE Dev = "define-under-C" -> [PinnedClearedBy EXCEPT !["define"] = "C", !["defsym"] = "C"]
                 [] Dev = "cross-under-u"  -> [PinnedClearedBy EXCEPT !["cross"] = "u"]
                 [] OTHER                  -> PinnedClearedBy

(* ------------------------------ generated programs ------------------------------ *)
\* quick:    every mode alone - the bodies p, pp, ps, sp, psp (p = Probe, s = Set) run with one, two and three passes
\*           (forward reference in front); every report component alone with one, two and three passes; every (mode,
\*           component) pair as p t s t p with two passes
\* thorough: additionally all bodies of <= 3 Probe / Set statements and the pairs with one and three passes, every
\*           sequence of <= 3 statements over Probe / Set of one mode, Touch of one component, Fwd, Fwd3 (the forward
\*           reference anywhere), and all bodies of <= 2 statements over two modes
Pre == {<<>>, <<Fwd>>, <<Fwd3>>}
HasProbe(p) == \E i \in 1..Len(p) : p[i].k = "probe"
ModeBodies(m, n) == {b \in SeqsUpTo({Probe(m), Set(m)}, n) : HasProbe(b)}
Around(m, c) == <<Probe(m), Touch(c), Set(m), Touch(c), Probe(m)>>
QuickProgs ==
  UNION {{pre \o b : pre \in Pre, b \in ModeBodies(m, 2) \cup {<<Probe(m), Set(m), Probe(m)>>}} : m \in ModeNames}
  \cup UNION {{pre \o <<Touch(c)>> : pre \in Pre} : c \in TouchNames}
  \cup {<<Fwd>> \o Around(mc[1], mc[2]) : mc \in ModeNames \X TouchNames}
ThoroughProgs ==
  QuickProgs
  \cup UNION {{pre \o b : pre \in Pre, b \in ModeBodies(m, 3)} : m \in ModeNames}
  \cup UNION {{pre \o Around(mc[1], mc[2]) : pre \in Pre} : mc \in ModeNames \X TouchNames}
  \cup UNION {{b \in SeqsUpTo({Probe(mc[1]), Set(mc[1]), Touch(mc[2]), Fwd, Fwd3}, 3) : HasProbe(b)} : mc \in ModeNames \X TouchNames}
  \cup UNION {{pre \o b : pre \in Pre, b \in {x \in SeqsUpTo({Probe(mm[1]), Set(mm[1]), Probe(mm[2]), Set(mm[2])}, 2) : HasProbe(x)}} :
              mm \in {y \in ModeNames \X ModeNames : y[1] # y[2]}}
GenProgs == IF Tier = "quick" THEN QuickProgs ELSE ThoroughProgs

\* the option subsets the properties are checked under
OnSets == IF Tier = "quick" THEN {on \in SUBSET Opts : Cardinality(on) <= 1 \/ on = Opts} ELSE SUBSET Opts

VARIABLES prog
Init == prog \in GenProgs
Next == UNCHANGED prog

CodeOK    == \A on \in OnSets : Final(prog, on).out = ExpectedOut(prog)
ReportsOK == \A on \in OnSets : Final(prog, on).rep = ExpectedRep(prog, on)
GuardsOK  == GuardsAreSound
Emit == PrintT(<<"PR", ToJson([prog |-> prog, passes |-> Passes(prog), exp |-> ExpectedOut(prog)])>>)
=============================================================================
