---------------------------- MODULE LineReader_MC ----------------------------
(* (M) for spec/LineReader.tla (C20): the line counter under ReadLnCont().  A state = one file (1..MaxLines     *)
(* physical lines: length, trailing backslash, ^Z, LF / CR-LF / no line end on the last one) and one buffer   *)
(* state; the only step reads the file to its end the way INCLUDE_Processor() does.  Two instances:            *)
(*   small buffers (cap 12 / 8): EVERY length 0..N, so every position of a chunk boundary in a line occurs    *)
(*     (files of <= 2 lines; thorough: 3 lines)                                                               *)
(*   the real buffer (1024/128/128, also pre-grown): the lengths around every boundary the code distinguishes *)
(*     (fits / LF alone in the next chunk / CR | LF / one more chunk / chunk after a growth), alone, as a      *)
(*     long first part of a continued statement and behind joined text of 864 / 896 / 897 characters          *)
(* TLC checks CountsPhysical (every physical line counted once - also where CrSplitFromLf strikes),           *)
(* ReadsDeclarative (logical lines, their lengths and numbers are what the text says), BufferSane.            *)
EXTENDS LineReader, TLC
CONSTANTS Tier
VARIABLES file, B, rs
vars == <<file, B, rs>>
Q == Tier = "quick"

Mid(ns, zs) == {[n |-> n, bs |-> b, z |-> z, eol |-> e] : n \in ns, b \in BOOLEAN, z \in zs, e \in {"lf", "crlf"}}
Last(ns, zs) == {l \in {[n |-> n, bs |-> FALSE, z |-> z, eol |-> e] : n \in ns, z \in zs, e \in {"lf", "crlf", "none"}} :
                   l.eol = "none" => NBytes(l) > 0}
\* the variable `file` is a file of 0..k physical lines; zm / zl: is ^Z tried in front of the line end of the inner / the
\* last line  (written as a predicate: TLC enumerates the choices instead of building the set of all files)
IsFileOf(ns, k, zm, zl) ==
  \/ file = <<>>
  \/ \E l \in Last(ns, BOOLEAN) : file = <<l>>
  \/ \E a \in Mid(ns, zm), l \in Last(ns, zl) : file = <<a, l>>
  \/ k >= 3 /\ \E a \in Mid(ns, {FALSE}), b \in Mid(ns, {FALSE}), l \in Last(ns, zl) : file = <<a, b, l>>

SmallBufs == {[cap |-> 12, low |-> 4, grow |-> 4], [cap |-> 8, low |-> 3, grow |-> 5]}
SmallNs == 0..(IF Q THEN 13 ELSE 15)

\* the real buffer: lengths around the boundaries, for the joined lengths t the continued shapes produce
Joined == {0, 864, 896, 897}
RealNs == {0, 40, 2500, 864, 896, 897}
          \cup UNION {{Fit(RealBuf, t, eb) + d : d \in (-1..2) \cup {RealBuf.grow, RealBuf.grow + 1}} : t \in Joined, eb \in {1, 2}}
RealBufs == {[RealBuf EXCEPT !.cap = c] : c \in {1024, 1152} \cup (IF Q THEN {} ELSE {1280, 2048})}

Init == /\ rs = <<>>
        /\ \/ B \in SmallBufs /\ IsFileOf(SmallNs, 2, BOOLEAN, BOOLEAN)
           \/ ~Q /\ B \in SmallBufs /\ IsFileOf(SmallNs, 3, {FALSE}, BOOLEAN)
           \/ B \in RealBufs /\ IsFileOf(RealNs, 2, {FALSE}, IF Q THEN {FALSE} ELSE BOOLEAN)
Next == rs = <<>> /\ rs' = ReadFile(file, B) /\ UNCHANGED <<file, B>>

Shaped == WellShaped(file)
InvCountsPhysical == rs # <<>> => CountsPhysical(file, rs)
InvReadsDeclarative == rs # <<>> => ReadsDeclarative(file, rs)
InvBufferSane == rs # <<>> => BufferSane(B, rs)

\* the deviation exhibited: "ab\" CR LF with the buffer ending between CR and LF keeps "\" CR and does not continue
DevBuf == [cap |-> 5, low |-> 2, grow |-> 2]
DevFile == <<[n |-> 2, bs |-> TRUE, z |-> FALSE, eol |-> "crlf"], [n |-> 1, bs |-> FALSE, z |-> FALSE, eol |-> "lf"]>>
ASSUME ReadFile(DevFile, DevBuf)[1].sp = <<"bs", "cr">> /\ ReadFile(DevFile, DevBuf)[1].lineZ = 1
ASSUME DevLines(DevFile, ReadFile(DevFile, DevBuf)) = {1, 2}
ASSUME CountsPhysical(DevFile, ReadFile(DevFile, DevBuf))
\* the shapes named in the module head are chunked in the fresh buffer and are not in the grown one
Seq9 == [i \in 1..9 |-> [n |-> IF i < 9 THEN 108 ELSE 163, bs |-> i < 9, z |-> FALSE, eol |-> "lf"]]
ASSUME Chunked(ReadFile(Seq9, RealBuf)) /\ ~Chunked(ReadFile(Seq9, [RealBuf EXCEPT !.cap = 1152]))
ASSUME Chunked(ReadFile(<<[n |-> 5, bs |-> FALSE, z |-> FALSE, eol |-> "none"]>>, RealBuf))
ASSUME ~Chunked(ReadFile(<<[n |-> 1022, bs |-> FALSE, z |-> FALSE, eol |-> "lf"]>>, RealBuf))
ASSUME Chunked(ReadFile(<<[n |-> 1023, bs |-> FALSE, z |-> FALSE, eol |-> "lf"]>>, RealBuf))
=============================================================================
