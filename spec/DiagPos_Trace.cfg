CONSTANTS Fixed = {} HasAttrs = FALSE MaxNum = 99
INIT TInit
NEXT TNext
POSTCONDITION Accepted
CHECK_DEADLOCK FALSE
