CONSTANTS MaxLen = 6 MaxDepth = 3 Vals = {"i1", "i2"}
SPECIFICATION Spec
INVARIANTS SelectsDocumentedBranch StackMatchesNesting BalancedEndsClean MisplacedReported UnbalancedReported SkippedStaysSkipped RunAgrees
CHECK_DEADLOCK FALSE
