\* Dev = {overlap_first_only}: TLC must report Conforms violated
CONSTANTS
  Dev = {"overlap_first_only"}
  MaxRecs = 3
  Starts = {0, 2, 3, 4, 6}
  UnitLens = {2, 4}
  GranSet = {1}
  EntryAddrs = {}
  Offsets = {}
  FillSet = {255}
  SumOpts = {FALSE}
  SegOpts = {1}
  CpuSegs <- CS_One
  Ranges <- R_Auto
  LaneSet <- L_Two
  FiltSet <- F_None
  ESet <- E_None
  HdrSet <- H_None
SPECIFICATION Spec
INVARIANTS Conforms StepRunAgrees ChunkListOK WindowStable MeasureSound UsedIsCoverage
CHECK_DEADLOCK FALSE
