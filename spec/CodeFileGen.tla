----------------------------- MODULE CodeFileGen -----------------------------
(* Bounded spaces of code files (as bytes) for the model checks and generators of PBind and PList.     *)
EXTENDS CodeFileBytes

CONSTANTS MaxItems, Starts, ByteLens, CpuSegGran, Forms, EntryAddrs, Creators

\* deterministic payload: byte i of item k
Pat(k, n) == [i \in 1..n |-> (k * 48 + i) % 256]
\* record shapes: CpuSegGran = <<cpu, seg, gran>>; Forms = header forms to try (TRUE = short where the format allows)
Shapes == {sh \in [k : {"D"}, start : Starts, len : ByteLens, csg : CpuSegGran, short : Forms] :
             /\ sh.len % sh.csg[3] = 0
             /\ sh.short => (sh.csg[2] = SegCode /\ sh.csg[1] < 128 /\ sh.csg[3] = ImplicitGran(sh.csg[1], sh.csg[2]))}
          \cup [k : {"E"}, addr : EntryAddrs]
MkItem(sh, k) == IF sh.k = "E" THEN [k |-> "E", addr |-> sh.addr]
                 ELSE [k |-> "D", cpu |-> sh.csg[1], seg |-> sh.csg[2], gran |-> sh.csg[3], start |-> sh.start,
                       data |-> Pat(k, sh.len), short |-> sh.short]
FileSpace == {Encode([k \in 1..Len(shs) |-> MkItem(shs[k], k)], cr) :
                 shs \in UNION {[1..n -> Shapes] : n \in 0..MaxItems}, cr \in Creators}

\* shapes for random wide cases
SimCSG == {<<81, 1, 1>>, <<97, 1, 1>>, <<112, 1, 2>>, <<9, 1, 4>>, <<81, 2, 1>>, <<49, 3, 1>>, <<112, 2, 1>>, <<59, 1, 2>>,
           <<59, 2, 1>>, <<200, 1, 1>>, <<118, 1, 4>>, <<1, 1, 2>>, <<128, 1, 1>>, <<143, 1, 1>>}
SimShapes == {sh \in [k : {"D"}, start : {0, 1, 255, 256, 65535, 1048576}, len : {0, 1, 2, 3, 4, 8, 12}, csg : SimCSG,
                      short : BOOLEAN] :
                /\ sh.len % sh.csg[3] = 0
                /\ sh.short => (sh.csg[2] = SegCode /\ sh.csg[1] < 128 /\ sh.csg[3] = ImplicitGran(sh.csg[1], sh.csg[2]))}
             \cup [k : {"E"}, addr : {0, 4660, 16777215}]

\* named constants for the cfg files
CSG_Small == {<<81, 1, 1>>, <<112, 1, 2>>, <<81, 2, 1>>, <<129, 1, 1>>}     \* 129 = $81: CPU id >= $80, never short
CSG_Two   == {<<81, 1, 1>>, <<112, 1, 2>>}
CSG_Three == {<<81, 1, 1>>, <<112, 1, 2>>, <<200, 2, 1>>}
Cr_One    == {<<65, 83>>}
Cr_Two    == {<<65, 83>>, <<>>}
Forms_Both == BOOLEAN
=============================================================================
