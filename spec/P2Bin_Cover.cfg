\* replayed exhaustively: <= 2 records (start 0..3,5 x 0,1,4 units) x 9 lanes x 3 forms of -r
CONSTANTS
  Dev = {}
  MaxRecs = 2
  Starts = {0, 1, 2, 3, 5}
  UnitLens = {0, 1, 4}
  GranSet = {1}
  EntryAddrs = {}
  Offsets = {}
  FillSet = {255}
  SumOpts = {FALSE}
  SegOpts = {1}
  CpuSegs <- CS_One
  Ranges <- R_Cover
  LaneSet <- AllLanes
  FiltSet <- F_None
  ESet <- E_None
  HdrSet <- H_None
SPECIFICATION CoverSpec
CHECK_DEADLOCK FALSE
