\* Dev = {quiet_stale_errno}: TLC must report Conforms violated
CONSTANTS MaxFiles = 1 MaxItems = 2 Starts = {0, 300} ByteLens = {0, 2} EntryAddrs = {4660}
  CpuSegGran <- CSG_Small Forms <- Forms_Both Filters <- F_Small Creators <- Cr_Two Quiets <- Q_Both Dev <- D_Quiet
SPECIFICATION Spec
INVARIANTS Conforms
CHECK_DEADLOCK FALSE
