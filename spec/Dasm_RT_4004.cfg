\* opcode coverage: cell 0 = EVERY byte value 0..255, operand cells = {00, 12, 7F, 80, FF}; entry = first cell:
\* Encode(Decode(bytes)) = bytes for every opcode of the table
CONSTANTS IsaName = "4004" Cpu = "4004" N = 3 Org = 256 MaxEntries = 1 EntrySpan = 1 AllFirst = TRUE
  FirstBytes = {}
  OtherBytes = {0, 18, 127, 128, 255}
  VecAddrs = {}
SPECIFICATION Spec
INVARIANTS TerminatesWithin InvInside InvSound InvComplete InvDisjoint InvRoundTrip InvRunAgrees
PROPERTY Terminates
CHECK_DEADLOCK FALSE
