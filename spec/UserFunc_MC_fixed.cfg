\* with the proposed repairs of argument printing (radix, \\x escapes) no exemption is needed
CONSTANTS ArgPrint = "radix" StrEscape = "hex2" RecursionGuard = TRUE ArgParen = TRUE WholeIdent = TRUE
          Level = 1 MaxDefs = 3 EmitCases = FALSE ExcludeKnown = FALSE
SPECIFICATION Spec
INVARIANTS Agreement DefAgreement TokenRoundTrip
CHECK_DEADLOCK FALSE
