---------------------------- MODULE MacroScope_MC ----------------------------
(* (M) every program of the families of one run (cfg: Families, Family <- ...): alphabets below, <= maxlen          *)
(* statements, sections nested <= MaxDepth (2), <= MaxSects (2) SECTION statements, two base names per family:       *)
(* InvAll = lookup as coded = declarative rule (Agrees), the whole table = innermost known definition for every     *)
(* name and section (TableIsInnermostKnown), later passes alike, deviations named.                                   *)
(*   MacroScope_MC.cfg        quick:    gen4 (AGen, 4) focus6 (AFocus, 6) nop db incl (ANames, 3)                    *)
(*   MacroScope_MC5.cfg       thorough: free5 (AQuick, 5) full4 (AFull, 4) focus7 (AFocus, 7) nop4 db4 incl4 (ANames, 4) *)
(*   MacroScope_MC_fixed.cfg  Fixed = all deviations: no deviation fires, agreement unconditional, no crash          *)
(*   MacroScope_MC_dev_*.cfg  the code as it is with the invariant that excludes a deviation: TLC must refute        *)
(* The deviations are also shown by witness programs (ASSUMEs below, evaluated in every run).                         *)
(* (G) the same runs print (Dump) every program up to the family's printlen whose last statement is a probe or gets  *)
(* it rejected, with the outcome the manual promises (one pass / with a forward reference), the outcome of the code *)
(* as it is, and the deviations fired.                                                                               *)
EXTENDS MacroScope, Json

AllModes == {"plain", "pub", "pubpar", "glob", "globpar"}
Sect == {[k |-> "sect"], [k |-> "ends"]}
Defs(ns, ms) == [k : {"def"}, n : ns, mode : ms]
DefIns(os, ns, ms) == [k : {"defin"}, o : os, n : ns, mode : ms]
Calls(ns, bs) == [k : {"call"}, n : ns, bang : bs]
IfDefs(ns) == [k : {"ifdef"}, n : ns]
Q(ns) == {JoinQ(q, n) : q \in {<<1>>, <<2>>, <<1, 2>>}, n \in ns}

\* two free names; the section-qualified forms of AA can be called, S1_AA can also be defined by hand
AQuick == Sect \cup Defs({"AA"}, AllModes) \cup Defs({"BB", "S1_AA"}, {"plain"}) \cup DefIns({"BB"}, {"AA"}, {"plain"})
          \cup Calls({"AA", "BB"}, {FALSE}) \cup Calls({"AA"}, {TRUE}) \cup Calls({"S1_AA", "S2_AA", "S1_S2_AA"}, {FALSE})
AFull  == Sect \cup Defs({"AA", "BB"}, AllModes) \cup Defs({"S1_AA"}, {"plain"})
          \cup DefIns({"AA", "BB"}, {"AA", "BB"}, {"plain"}) \cup DefIns({"S1_AA"}, {"AA"}, {"glob"})
          \cup Calls({"AA", "BB"}, BOOLEAN) \cup Calls(Q({"AA"}), {FALSE}) \cup IfDefs({"AA"})
\* a name that is also a machine instruction / a pseudo instruction / a statement of the macro processor
ANames(x) == Sect \cup Defs({"AA", x}, {"plain", "glob"}) \cup DefIns({x}, {"AA"}, {"plain"}) \cup DefIns({"AA"}, {x}, {"plain"})
             \cup Calls({"AA", x}, BOOLEAN) \cup Calls({"S1_" \o x}, {FALSE}) \cup IfDefs({x})
ANop == ANames("NOP")
ADb == ANames("DB")
AIncl == ANames("INCLUDE")
\* replay alphabet: AQuick plus IFDEF and the macro that defines a {GLOBAL} macro whose copy takes its own name
AGen == AQuick \cup IfDefs({"AA"}) \cup DefIns({"S1_AA"}, {"AA"}, {"glob"})

\* longer histories over few statements: same name inside and outside, after the section has ended, defined through
\* a macro called inside / outside
AFocus == Sect \cup Defs({"AA"}, {"plain"}) \cup DefIns({"BB"}, {"AA"}, {"plain"}) \cup Calls({"AA", "BB"}, {FALSE})

Fam(a, maxlen, printlen) == [alphabet |-> a, maxlen |-> maxlen, printlen |-> printlen]
QuickFamily(f) == CASE f = "gen4" -> Fam(AGen, 4, 4) [] f = "gen" -> Fam(AGen, 3, 3) [] f = "focus6" -> Fam(AFocus, 6, 6)
                    [] f = "nop" -> Fam(ANop, 3, 3) [] f = "db" -> Fam(ADb, 3, 3) [] OTHER -> Fam(AIncl, 3, 3)
FullFamily(f) == CASE f = "free5" -> Fam(AQuick, 5, 0) [] f = "full4" -> Fam(AFull, 4, 4) [] f = "focus7" -> Fam(AFocus, 7, 7)
                   [] f = "nop4" -> Fam(ANop, 4, 4)
                   [] f = "db4" -> Fam(ADb, 4, 4) [] OTHER -> Fam(AIncl, 4, 4)

\* witnesses: the deviations are in the code as it is (and gone with the repair)
Sc == [k |-> "sect"]
W_Uninit == <<Sc, [k |-> "def", n |-> "AA", mode |-> "glob"], [k |-> "call", n |-> "S1_AA", bang |-> FALSE]>>
W_Replaces == <<[k |-> "def", n |-> "S1_AA", mode |-> "plain"], Sc, [k |-> "def", n |-> "AA", mode |-> "glob"]>>
W_Crash == <<[k |-> "defin", o |-> "S1_AA", n |-> "AA", mode |-> "glob"], Sc, [k |-> "call", n |-> "S1_AA", bang |-> FALSE]>>
W_Core == <<[k |-> "def", n |-> "INCLUDE", mode |-> "plain"], [k |-> "call", n |-> "INCLUDE", bang |-> FALSE]>>
Fires(d, w) == d \in Runs(Closed(w)).m1.devs
ASSUME Fires("GlobCopyUninit", W_Uninit) = ~Repaired("GlobCopyUninit")
ASSUME Fires("GlobCopyReplaces", W_Replaces) = ~Repaired("GlobCopyReplaces")
ASSUME Runs(Closed(W_Crash)).m1.crash = ~Repaired("GlobCopyReplaces")
ASSUME Fires("CoreNotHidden", W_Core) = ~Repaired("CoreNotHidden")
\* ... and what the manual promises for them
ASSUME DOutcome(Runs(Closed(W_Uninit)).d1) = Outcome(FALSE, {}, <<Ent("body", 2, "")>>)
ASSUME DOutcome(Runs(Closed(W_Replaces)).d1) = Outcome(FALSE, {"DoubleMacro"}, <<>>)
ASSUME DOutcome(Runs(Closed(W_Core)).d1) = Outcome(FALSE, {}, <<Ent("body", 1, "")>>)

\* refutation targets for the _dev configurations
NoGlobCopyUninit == "GlobCopyUninit" \notin R.m2.devs
NoGlobCopyReplaces == "GlobCopyReplaces" \notin R.m2.devs
NoCrash == ~R.m2.crash
NoCoreNotHidden == "CoreNotHidden" \notin R.m2.devs

\* (G) programs worth assembling: no error before the last statement, and the last statement is a probe or rejected
IsProbe(st) == st.k \in {"call", "ifdef"}
Worth(r) == /\ prog # <<>> /\ Len(prog) <= Family(fam).printlen
            /\ CleanBefore(r, Len(prog))
            /\ (IsProbe(prog[Len(prog)]) \/ r.m1.errs > 0 \/ r.m1.crash \/ r.d1.ek # {})
Row(m, d) == [exp |-> DOutcome(d), coded |-> MOutcome(m), devs |-> m.devs]
DumpOf(r) == Worth(r) => PrintT(<<"MS", ToJson([prog |-> P, indef |-> Indef(P), one |-> Row(r.m1, r.d1), two |-> Row(r.m2, r.d2)])>>)
Dump == DumpOf(Runs(P))
\* model check and export on ONE evaluation of the runs
InvAllDump == LET r == Runs(P) IN Agrees(r) /\ NoDevWhenFixed(r) /\ DevsNamed(r) /\ LaterPassesAlike(r)
                                  /\ TableIsInnermostKnown(P, r) /\ DumpOf(r)
=============================================================================
