---------------------------- MODULE MacroScope_MC ----------------------------
(* (M) every program over an alphabet with <= MaxLen statements, sections nested <= MaxDepth (2), <= MaxSects (2)  *)
(* SECTION statements, two base names: lookup as coded = declarative rule (InvAgrees), the whole table = innermost *)
(* known definition for every name and section (InvTable), later passes alike, deviations named.                   *)
(*   MacroScope_MC.cfg        quick: alphabet AQuick  (names AA + BB; all five modes for AA)        MaxLen 4       *)
(*   MacroScope_MC5.cfg       thorough: alphabet AFull, MaxLen 5                                                   *)
(*   MacroScope_MC_names.cfg  names AA + NOP / DB / INCLUDE (classes mach, pseudo, core), plain + glob, MaxLen 4   *)
(*   MacroScope_MC_fixed.cfg  Fixed = all deviations: no deviation fires, InvAgrees unconditional                  *)
(*   MacroScope_MC_dev*.cfg   a deviation switched on with the invariant that excludes it: TLC must refute         *)
(* (G) MacroScope_Gen*.cfg: prints every program whose last statement is a probe or gets it rejected, with the outcome the manual *)
(* promises (one pass / with a forward reference), the outcome of the code as it is, and the deviations fired.     *)
EXTENDS MacroScope, Json

AllModes == {"plain", "pub", "pubpar", "glob", "globpar"}
Sect == {[k |-> "sect"], [k |-> "ends"]}
Defs(ns, ms) == [k : {"def"}, n : ns, mode : ms]
DefIns(os, ns, ms) == [k : {"defin"}, o : os, n : ns, mode : ms]
Calls(ns, bs) == [k : {"call"}, n : ns, bang : bs]
IfDefs(ns) == [k : {"ifdef"}, n : ns]
Q(ns) == {JoinQ(q, n) : q \in {<<1>>, <<2>>, <<1, 2>>}, n \in ns}

\* two free names; the section-qualified forms of AA can be called, S1_AA can also be defined by hand
AQuick == Sect \cup Defs({"AA"}, AllModes) \cup Defs({"BB", "S1_AA"}, {"plain"}) \cup DefIns({"BB"}, {"AA"}, {"plain"})
          \cup Calls({"AA", "BB"}, {FALSE}) \cup Calls({"AA"}, {TRUE}) \cup Calls({"S1_AA", "S2_AA", "S1_S2_AA"}, {FALSE})
AFull  == Sect \cup Defs({"AA", "BB"}, AllModes) \cup Defs({"S1_AA"}, {"plain"})
          \cup DefIns({"AA", "BB"}, {"AA", "BB"}, {"plain"}) \cup DefIns({"S1_AA"}, {"AA"}, {"glob"})
          \cup Calls({"AA", "BB"}, BOOLEAN) \cup Calls(Q({"AA"}), {FALSE}) \cup IfDefs({"AA"})
\* a name that is also a machine instruction / a pseudo instruction / a statement of the macro processor
ANames(x) == Sect \cup Defs({"AA", x}, {"plain", "glob"}) \cup DefIns({x}, {"AA"}, {"plain"}) \cup DefIns({"AA"}, {x}, {"plain"})
             \cup Calls({"AA", x}, BOOLEAN) \cup Calls({"S1_" \o x}, {FALSE}) \cup IfDefs({x})
ANop == ANames("NOP")
ADb == ANames("DB")
AIncl == ANames("INCLUDE")
\* replay alphabets (the generator): as AQuick / ANames plus IFDEF
AGen == AQuick \cup IfDefs({"AA"}) \cup DefIns({"S1_AA"}, {"AA"}, {"glob"})

\* refutation targets for the _dev configurations
NoGlobCopyUninit == \A more \in BOOLEAN : "GlobCopyUninit" \notin Machine(P, more).devs
NoGlobCopyReplaces == \A more \in BOOLEAN : "GlobCopyReplaces" \notin Machine(P, more).devs
NoCrash == \A more \in BOOLEAN : ~Machine(P, more).crash
NoCoreNotHidden == \A more \in BOOLEAN : "CoreNotHidden" \notin Machine(P, more).devs

\* (G) programs worth assembling: the last statement is a probe, or the program is rejected
IsProbe(st) == st.k \in {"call", "ifdef"}
Rejected(p) == DOutcome(Decl(p, FALSE)).rej \/ MOutcome(Machine(p, FALSE)).rej
Worth == /\ prog # <<>>
         /\ ~Rejected(Closed(Front(prog)))                 \* a program rejected before its last statement says nothing new
         /\ (IsProbe(prog[Len(prog)]) \/ Rejected(P))
Row(more) == LET m == Machine(P, more) IN [exp |-> DOutcome(Decl(P, more)), coded |-> MOutcome(m), devs |-> m.devs]
Dump == Worth => PrintT(<<"MS", ToJson([prog |-> P, indef |-> Indef(P), one |-> Row(FALSE), two |-> Row(TRUE)])>>)
=============================================================================
