------------------------------ MODULE PackedRes ------------------------------
(* Reservations and constants written with the Intel-style data statements DN / DB / DW / DD / DQ / DT   *)
(* (intpseudo.c DecodeIntelDx, DecodeIntelPseudo_LayoutMult): `?` elements and DUP groups of them, nested, *)
(* on segments whose address unit is as large as, larger than or smaller than the element.  Elements    *)
(* smaller than the unit are packed (manual, "DN,DB,DW,DD,DQ, and DT": bytes in pairs into 16 bit words, *)
(* two or four nibbles into a byte / word; an incomplete last unit is padded and is not continued by the *)
(* next statement).                                                                                      *)
(*                                                                                                       *)
(* The statement is read token by token, exactly as the code walks its argument list:                    *)
(*   Begin(e, k)  mnemonic with elements of e bits, k = "res" (all `?`) or "data" (all constants)        *)
(*   Elem         one `?` / one constant                                                                 *)
(*   Open(n)      `n DUP (`                                                                              *)
(*   Close        `)`  - the group laid out once since Open is repeated n-1 more times                   *)
(*   End          end of the argument list: round up to whole units, advance the segment's counter       *)
(* Code-shaped side: the fill position <<full units, elements in the last unit>> (tCurrCodeFill) and the *)
(* operators IncBy / Sub / Mult on it (IncCodeFillBy, SubCodeFill, MultCodeFill).                        *)
(* Declarative side: a DUP group stands for n copies of its elements (n <= 0: none), the elements of a   *)
(* statement lie consecutively, e bits each, and the statement occupies the least number of whole units  *)
(* that holds them; every segment has its own counter.  It is kept in plain element counts (lev[i].cnt,  *)
(* ref) that never see the packed representation.                                                        *)
EXTENDS Integers, Sequences

CONSTANTS Places,     \* set of <<target, segment>> pairs in which statements are written
          Elems,      \* element sizes (bits) offered, subset of {4, 8, 16, 32, 64, 80}
          Kinds,      \* subset of {"res", "data"}
          Counts,     \* DUP counts offered (negative = warning 270, like 0)
          MaxDepth,   \* nesting depth of DUP groups
          MaxTok,     \* tokens per statement (a `)` is always allowed)
          MaxStmts,   \* statements per behaviour
          MaxDS,      \* largest argument of a plain DS
          Dev         \* "none", or the name of a deviation of the code-shaped side that TLC must refute:
                      \* "noborrow", "nocarry" (hypothetical slips of SubCodeFill / MultCodeFill),
                      \* "emptygroup" (what the pinned code does: EmptyGroupAbandons below)

VARIABLES tgt,        \* target
          seg,        \* active segment
          pcs,        \* segment -> load address (code-shaped side)
          ref,        \* segment -> load address (declarative side)
          ebits,      \* element size of the statement being read, 0 between statements
          kind,       \* "res" | "data" of the statement being read
          fill,       \* CurrCodeFill
          lev,        \* open argument lists, lev[1] = the statement's own list, the others open DUP groups:
                      \* [n: count, start: fill at Open, dead: inside a group with count <= 0 (not even evaluated),
                      \*  cnt: elements this list stands for so far (declarative), items: arguments read in it]
          aband,      \* the code has given up the statement (EmptyGroupAbandons)
          ntok, nst,
          done        \* the last finished statement [n: elements, e, u, adv: units], n = -1: none yet

pvars == <<tgt, seg, pcs, ref, ebits, kind, fill, lev, aband, ntok, nst, done>>

AllSegs == {"code", "data"}
Targets == {p[1] : p \in Places}

\* address unit in bits (8 * Grans[ActPC]), first address used here and SegLimits of the targets offered
Unit(t, s)  == CASE t = "z80"    -> 8
                 [] t = "avr"    -> IF s = "code" THEN 16 ELSE 8
                 [] t = "kcpsm"  -> IF s = "code" THEN 16 ELSE 8
                 [] t = "kcpsm3" -> IF s = "code" THEN 32 ELSE 8
Base(t, s)  == CASE t = "z80"    -> 256
                 [] t = "avr"    -> IF s = "code" THEN 256 ELSE 96
                 [] t = "kcpsm"  -> 3
                 [] t = "kcpsm3" -> 5
Limit(t, s) == CASE t = "z80"    -> 20000
                 [] t = "avr"    -> IF s = "code" THEN 3000 ELSE 1000
                 [] t = "kcpsm"  -> 255
                 [] t = "kcpsm3" -> IF s = "code" THEN 1023 ELSE 63

\* An element of e bits in units of u bits has a whole-number relation in every documented case; DT (80 bits) in 32 bit
\* units has not (the code reserves 2 units per element): outside the model.
Defined(u, e) == (u % e = 0) \/ (e % u = 0)
\* constants: only where the code has a layout function for them (Grans 1 and 2), only in CODE; at most 1024 bytes a line
DataOk(t, s) == s = "code" /\ Unit(t, s) \in {8, 16}

Ceil(a, b) == (a + b - 1) \div b

------------------------------------------------------------------------------
\* code-shaped side (intpseudo.c)
EPF(u, e) == u \div e                          \* ElemsPerFullWord; 0 when the element is larger than the unit
Zero == [full |-> 0, last |-> 0]
IncPerElem(u, e) == IF EPF(u, e) > 1 THEN [full |-> 0, last |-> 1] ELSE [full |-> e \div u, last |-> 0]   \* FillIncPerElem

IncBy(a, inc, u, e) ==                         \* IncCodeFillBy
  LET l == a.last + inc.last
      c == EPF(u, e) > 1 /\ l >= EPF(u, e)
  IN  [full |-> a.full + inc.full + (IF c THEN 1 ELSE 0), last |-> IF c THEN l - EPF(u, e) ELSE l]

Sub(a, b, u, e) ==                             \* SubCodeFill
  LET l == a.last - b.last
  IN  IF l < 0 THEN [full |-> a.full - b.full - (IF Dev = "noborrow" THEN 0 ELSE 1), last |-> l + EPF(u, e)]
               ELSE [full |-> a.full - b.full, last |-> l]

Mult(b, n, u, e) ==                            \* MultCodeFill
  LET l == b.last * n
  IN  IF EPF(u, e) > 1 THEN [full |-> b.full * n + (IF Dev = "nocarry" THEN 0 ELSE l \div EPF(u, e)), last |-> l % EPF(u, e)]
                       ELSE [full |-> b.full * n, last |-> l]

RECURSIVE SumCntOf(_)
SumCntOf(l) == IF l = <<>> THEN 0 ELSE Head(l).cnt + SumCntOf(Tail(l))

\* constants: Replicate* re-puts the elements between the two positions one at a time (packed) or copies the units
ElemsBetween(a, b, u, e) == IF EPF(u, e) > 1 THEN (b.full - a.full) * EPF(u, e) + b.last - a.last
                                             ELSE (b.full - a.full) \div (e \div u)
PutElems(a, k, u, e) == IF EPF(u, e) > 1 THEN [full |-> a.full + (a.last + k) \div EPF(u, e), last |-> (a.last + k) % EPF(u, e)]
                                         ELSE [full |-> a.full + k * (e \div u), last |-> 0]

\* Named deviation of the pinned code (DecodeIntelPseudo_LayoutMult, `switch (pCtx->DSFlag) ... default: Result = False`):
\* when a DUP group with a count > 0 is closed and no element has been read in the statement so far (its body consists of
\* groups with a count <= 0 only, e.g. `3 DUP (0 DUP (?)), ?`), DSFlag is still DSNone and the function reports failure
\* without a message: the remaining arguments are skipped and the statement lays down / reserves NOTHING.  The manual
\* (a count of 0 or less stores nothing; DUP works recursively) gives the statement the size of its other arguments.
EmptyGroupAbandons(g, l) == Dev = "emptygroup" /\ ~g.dead /\ SumCntOf(l) = 0

U == Unit(tgt, seg)
Top == lev[Len(lev)]
Level(n, f, d) == [n |-> n, start |-> f, dead |-> d, cnt |-> 0, items |-> 0]

SumCnt(l) == SumCntOf(l)

------------------------------------------------------------------------------
Init ==
  /\ tgt \in Targets
  /\ seg \in {s \in AllSegs : <<tgt, s>> \in Places}
  /\ pcs = [s \in AllSegs |-> Base(tgt, s)]
  /\ ref = pcs
  /\ ebits = 0 /\ kind = "res" /\ fill = Zero /\ lev = <<>> /\ aband = FALSE /\ ntok = 0 /\ nst = 0
  /\ done = [n |-> -1, e |-> 0, u |-> 0, adv |-> 0]

Begin(e, k) ==
  /\ ebits = 0 /\ nst < MaxStmts
  /\ Defined(U, e) /\ (k = "data" => DataOk(tgt, seg))
  /\ ebits' = e /\ kind' = k /\ fill' = Zero /\ lev' = <<Level(1, Zero, FALSE)>> /\ aband' = FALSE /\ ntok' = 0
  /\ UNCHANGED <<tgt, seg, pcs, ref, nst, done>>

Elem ==
  /\ ebits # 0 /\ ntok < MaxTok
  /\ fill' = IF Top.dead \/ aband THEN fill ELSE IncBy(fill, IncPerElem(U, ebits), U, ebits)
  /\ lev' = [lev EXCEPT ![Len(lev)].cnt = @ + (IF Top.dead THEN 0 ELSE 1), ![Len(lev)].items = @ + 1]
  /\ ntok' = ntok + 1
  /\ UNCHANGED <<tgt, seg, pcs, ref, ebits, kind, aband, nst, done>>

Open(n) ==
  /\ ebits # 0 /\ ntok + 2 < MaxTok /\ Len(lev) <= MaxDepth          \* room for one element and the `)`
  /\ lev' = Append([lev EXCEPT ![Len(lev)].items = @ + 1], Level(n, fill, Top.dead \/ n <= 0))
  /\ ntok' = ntok + 1
  /\ UNCHANGED <<tgt, seg, pcs, ref, ebits, kind, fill, aband, nst, done>>

Close ==
  /\ ebits # 0 /\ Len(lev) > 1 /\ Top.items > 0
  /\ LET g == Top
         k == Len(lev) - 1
     IN  /\ aband' = (aband \/ EmptyGroupAbandons(g, lev))
         /\ fill' = IF g.dead \/ aband' THEN fill
                    ELSE IF kind = "res" THEN IncBy(fill, Mult(Sub(fill, g.start, U, ebits), g.n - 1, U, ebits), U, ebits)
                    ELSE PutElems(fill, (g.n - 1) * ElemsBetween(g.start, fill, U, ebits), U, ebits)
         /\ lev' = [SubSeq(lev, 1, k) EXCEPT ![k].cnt = @ + (IF g.dead THEN 0 ELSE g.n * g.cnt)]
  /\ ntok' = ntok + 1
  /\ UNCHANGED <<tgt, seg, pcs, ref, ebits, kind, nst, done>>

Adv == IF aband THEN 0 ELSE fill.full + (IF fill.last > 0 THEN 1 ELSE 0)       \* DecodeIntelDx: padding, CodeLen

End ==
  /\ ebits # 0 /\ Len(lev) = 1 /\ Top.items > 0
  /\ kind = "data" => Ceil(Top.cnt * ebits, U) * U <= 1024 * 8 /\ Top.cnt > 0  \* a constant list that lays down nothing is not a statement of interest
  /\ pcs[seg] + Adv <= Limit(tgt, seg)
  /\ ref[seg] + Ceil(Top.cnt * ebits, U) <= Limit(tgt, seg)
  /\ pcs' = [pcs EXCEPT ![seg] = @ + Adv]
  /\ ref' = [ref EXCEPT ![seg] = @ + Ceil(Top.cnt * ebits, U)]
  /\ done' = [n |-> Top.cnt, e |-> ebits, u |-> U, adv |-> Adv]
  /\ ebits' = 0 /\ lev' = <<>> /\ fill' = Zero /\ ntok' = 0 /\ nst' = nst + 1
  /\ UNCHANGED <<tgt, seg, kind, aband>>

Segment(s) ==
  /\ ebits = 0 /\ nst < MaxStmts /\ s # seg /\ <<tgt, s>> \in Places
  /\ seg' = s /\ nst' = nst + 1
  /\ UNCHANGED <<tgt, pcs, ref, ebits, kind, fill, lev, aband, ntok, done>>

DS(n) ==                                                  \* DecodeIntelDS: n units of the active segment
  /\ ebits = 0 /\ nst < MaxStmts /\ pcs[seg] + n <= Limit(tgt, seg) /\ ref[seg] + n <= Limit(tgt, seg)
  /\ pcs' = [pcs EXCEPT ![seg] = @ + n] /\ ref' = [ref EXCEPT ![seg] = @ + n]
  /\ nst' = nst + 1
  /\ UNCHANGED <<tgt, seg, ebits, kind, fill, lev, aband, ntok, done>>

Next ==
  \/ \E e \in Elems, k \in Kinds : Begin(e, k)
  \/ Elem
  \/ \E n \in Counts : Open(n)
  \/ Close
  \/ End
  \/ \E s \in AllSegs : Segment(s)
  \/ \E n \in 1..MaxDS : DS(n)

------------------------------------------------------------------------------
\* the property
InStmt == ebits # 0
\* at every token the packed position is the number of elements the arguments read so far stand for
PackedIsFlat == InStmt /\ ~aband =>
  IF EPF(U, ebits) >= 1 THEN fill.full * EPF(U, ebits) + fill.last = SumCnt(lev)
                        ELSE fill.last = 0 /\ fill.full = SumCnt(lev) * (ebits \div U)
LastInUnit == InStmt => fill.last >= 0 /\ fill.last < (IF EPF(U, ebits) > 1 THEN EPF(U, ebits) ELSE 1) /\ fill.full >= 0
\* a finished statement occupies the least number of whole units holding its elements
AdvanceIsCeil == done.n >= 0 => /\ done.adv * done.u >= done.n * done.e
                                /\ (done.adv - 1) * done.u < done.n * done.e \/ done.adv = 0
\* every label behind it reads what the reservations in front of it imply, per segment
CountersAreFlat == pcs = ref
DeadLaysNothing == InStmt /\ Top.dead => Top.cnt = 0
=============================================================================
