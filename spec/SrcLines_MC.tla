------------------------------ MODULE SrcLines_MC ------------------------------
(* (M) The input-tag machine of SrcLines.tla (GenerateProcessor, ExpandINCLUDE_Core, the INCLUDE / MACRO /    *)
(* REPT / IRP / IRPC / WHILE processors, the body collectors, GetNextLine with the restorers) against the      *)
(* declarative side (Expected: the program text with its places), on every program                            *)
(*     main = << x, comment, data >>  (Pairs: << x, y, data >>)                                                *)
(* with x, y out of: a loop (kind in Kinds, count in Counts) over every body of one or two of {data line,      *)
(* INCLUDE, macro call}; a loop around a data line and such a loop (Deep); a call of the plain macro 1 or of    *)
(* macro 2 (bodies: data + INCLUDE / a REPT around an INCLUDE / a call + an IRP); INCLUDE of file 2 (bodies:    *)
(* data / data around a nested INCLUDE / a REPT around data + INCLUDE / a call) or of the leaf file 3.          *)
(* Invariant Final, when the machine has stopped:                                                              *)
(*   Agree               the machine's (file, line, address, depth) per emission = what the text says           *)
(*   ShownInChain        the line shown is a line that brought the code to execution (the property)             *)
(*   FileTextAtOwnPlace  text read from a file is shown at its own place                                        *)
(* SrcLines_MC_curr.cfg (IncSave = "curr": ExpandINCLUDE_Core keeps GenerateProcessor's StartLine = CurrLine     *)
(* instead of saving MomLineCounter) must be REFUTED by TLC: an INCLUDE below a loop read from the file rewinds    *)
(* the reader's counter of the including file.                                                                  *)
(* Cont = TRUE adds data lines continued over two physical lines (in loop bodies and behind the loop):            *)
(* SrcLines_MC_cont.cfg (LoopLineBy = "count", the code) must be REFUTED - deviation BodyLinesCounted -,           *)
(* SrcLines_MC_place.cfg (LoopLineBy = "place", the proposed repair) holds.                                        *)
EXTENDS SrcLines, TLC
CONSTANTS Kinds, Counts, Deep, Pairs, Cont
VARIABLES prog, fl, m
vars == <<prog, fl, m>>

Atoms == {D, Inc(2), Call(1)} \cup (IF Cont THEN {D2} ELSE {})
Bodies1 == {<<a>> : a \in Atoms} \cup {<<a, b>> : a, b \in Atoms}
L1 == {Loop(lk, n, b) : lk \in Kinds, n \in Counts, b \in Bodies1}
L2 == IF Deep THEN {Loop(lk, 2, <<D, x>>) : lk \in Kinds, x \in {l \in L1 : l.a = 1 /\ Len(l.body) = 1}} ELSE {}
Tops == L1 \cup L2 \cup {Call(1), Call(2), Inc(2), Inc(3)}
Mac2s == {<<D, Inc(3)>>, <<Loop("rept", 2, <<Inc(3), D>>)>>, <<Call(1), Loop("irp", 2, <<D>>)>>}
File2s == {<<D>>, <<C, D, Inc(3), D>>, <<Loop("rept", 2, <<D, Inc(3)>>), D>>, <<Call(1), D>>}
Mains == {<<x, c, D>> : x \in Tops, c \in {C} \cup (IF Cont THEN {D2} ELSE {})}
Prog(m2, f2, mn) == [macros |-> <<<<C, D>>, m2>>, main |-> mn, incs |-> <<f2, <<C, D>>>>, base |-> 256, step |-> 1]
Programs == {Prog(m2, f2, mn) : m2 \in Mac2s, f2 \in File2s, mn \in Mains}
            \cup (IF Pairs THEN {Prog(<<D, Inc(3)>>, <<C, D, Inc(3), D>>, <<x, y, D>>) : x, y \in Tops} ELSE {})

MCInit == /\ prog \in Programs /\ fl = FilesOf(prog) /\ m = Machine0(prog)
MCNext == ~m.fin /\ m' = Step(fl, m) /\ UNCHANGED <<prog, fl>>
Spec == MCInit /\ [][MCNext]_vars

Final == m.fin => LET X == Expected(prog) IN Agree(m, X) /\ ShownInChain(X) /\ FileTextAtOwnPlace(X)
Sane == Len(m.stk) <= 8 /\ m.mom >= 0 /\ (m.fin => m.otag = None)

\* the seeded shape: INCLUDE in a REPT body read from the file, code lines behind the loop
ASSUME LET P == [macros |-> <<>>, main |-> <<D, Loop("rept", 2, <<D, Inc(2), D>>), D, C, D>>, incs |-> <<<<C, D>>>>,
                 base |-> 256, step |-> 1]
           X == Expected(P)
       IN  /\ Len(X) = 9 /\ X[9].line = 11 /\ X[9].addr = 264 /\ X[9].chain = {Place(1, 11)}
           /\ X[3].file = 2 /\ X[3].line = 2 /\ X[3].depth = 1 /\ X[4].chain = {Place(1, 4), Place(1, 7)}
           /\ (IncSave = "reader" => Agree(RunAll(FilesOf(P), Machine0(P)), X))
=============================================================================
