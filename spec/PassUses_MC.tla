---------------------------- MODULE PassUses_MC ----------------------------
(* (M) + (G) for PassUses: every program of the family is one initial state.  TLC checks on each that the     *)
(* modelled pass loop converges and that the image it emits satisfies the declarative Verdict (every use       *)
(* denotes, by the published encoding, the address at which its label's marker lies), and prints the program   *)
(* with its source templates and the model's layout for the replay into the real assembler.                    *)
EXTENDS PassUses, Json

ASSUME TablesSane

\* c: the program, r: what the modelled assembler makes of it (computed once per program)
VARIABLES c, r
Init == /\ c \in Family
        /\ r = Assemble(c.tg, c.prog, c.org)
Next == UNCHANGED <<c, r>>

ModelImage == <<[s |-> c.org, b |-> r.img]>>
ConvergesInv == r.conv
ModelResolvesInv == r.err \/ ~r.conv \/ Problems(c.tg, c.prog, c.org, ModelImage) = {}

Item(tg, it) == IF it.k = "use" THEN [k |-> "use", s |-> it.s, l |-> it.l, asm |-> Shape(tg, it.s).asm, n |-> 0]
                ELSE IF it.k = "def" THEN [k |-> "def", s |-> "", l |-> it.l, asm |-> "", n |-> 0]
                ELSE [k |-> "fill", s |-> "", l |-> "", asm |-> "", n |-> it.n]
Export ==
  LET ok == ~r.err /\ r.conv
      w  == Walk(c.tg, c.prog, c.org, ModelImage) IN
  [tg |-> c.tg, cpu |-> CpuOf(c), org |-> c.org, prog |-> [j \in 1..Len(c.prog) |-> Item(c.tg, c.prog[j])],
   err |-> r.err, conv |-> r.conv, passes |-> r.passes,
   lay |-> IF ok THEN [j \in 1..Len(c.prog) |-> [a |-> w[j].a, n |-> w[j].n, v |-> w[j].v]] ELSE <<>>]
Dump == PrintT(<<"OUT", ToJson(Export)>>)
=============================================================================
