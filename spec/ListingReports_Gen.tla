-------------------------- MODULE ListingReports_Gen --------------------------
(* (G) Programs for the replay, with the reports the specification expects.  A program is a fixed prelude      *)
(*        1 page L,W   2 cpu   3 A equ 1   4 B equ 2   5-7 M1 macro x / db x,A / endm   8 F1 function x,x+B     *)
(* followed by NSteps statements and the postlude  FWD: db 0 / end.  Statements (one source line each, a        *)
(* SECTION statement two: it is followed by the section's own symbol P):                                       *)
(*   data <args>   1..3 arguments out of A B FWD P(in a section) or a number: one unit and one look-up each     *)
(*   res n / org a (also backwards: overlaps) / seg (CODE <-> the data segment) / sect X|Y (<= 2 deep) / ends   *)
(*   call a        M1 a  -> db a,A  in the line of the call        func   db F1(1): B looked up in that line     *)
(*   inc 1|2       i1.inc = ; / db A,B      i2.inc = db B / include i1.inc / M1 B                                *)
(* The machine m runs them with the operators of ListingReports.tla (AddChunk for every emission, AddRef for    *)
(* every look-up, SectEnter / SectLeave, AddFile) and the expectation exported with the program is what the     *)
(* print operators make of its final state.  TLC -simulate draws one statement per step (RandomElement).        *)
EXTENDS ListingReports, TLC, Json
CONSTANTS NSteps
VARIABLES prog, m, n
vars == <<prog, m, n>>

PRE == 8
Main == "a.asm"
GLOB == -1
M0 == [seg |-> 1, pc |-> <<0, 0>>, use |-> <<<<>>, <<>>>>, warns |-> <<>>, refs |-> <<>>, defs |-> <<>>,
       files |-> <<Main>>, sl |-> Sect0, line |-> PRE + 1, incs |-> <<>>, L |-> 60, W |-> 0]

\* refs: sequence of [key, rl] in order of first look-up (a function with a growing domain)
RefAt(mm, key, f, l) ==
  LET fn == FileNum(mm.files, f)
      k  == FirstIdx({i \in 1..Len(mm.refs) : mm.refs[i].key = key})
  IN IF k = 0 THEN [mm EXCEPT !.refs = Append(@, [key |-> key, rl |-> AddRef(<<>>, fn, l)])]
     ELSE [mm EXCEPT !.refs[k].rl = AddRef(@, fn, l)]
KeyOf(mm, a) == IF a = "P" THEN <<"P", mm.sl.mom>> ELSE <<a, GLOB>>
IsSym(a) == a \in {"A", "B", "P", "FWD"}
RECURSIVE RefArgs(_, _, _, _)
RefArgs(mm, args, f, l) == IF args = <<>> THEN mm
                           ELSE RefArgs(IF IsSym(Head(args)) THEN RefAt(mm, KeyOf(mm, Head(args)), f, l) ELSE mm, Tail(args), f, l)
\* a statement occupying k units at the program counter (asmsub.c BookKeeping: only the CODE segment warns)
EmitAt(mm, k, f, l) ==
  LET r == AddChunk(mm.use[mm.seg], mm.pc[mm.seg], k, mm.seg = 1)
  IN [mm EXCEPT !.use[mm.seg] = r.cl, !.pc[mm.seg] = @ + k,
                !.warns = IF r.res THEN Append(@, [f |-> f, l |-> l]) ELSE @]
Data(mm, args, f, l) == EmitAt(RefArgs(mm, args, f, l), Len(args), f, l)
Inc1(mm, d) == LET m1 == [mm EXCEPT !.files = AddFile(@, "i1.inc"), !.incs = Append(@, [d |-> d, f |-> "i1.inc"])]
               IN Data(m1, <<"A", "B">>, "i1.inc", 2)
Inc2(mm) == LET m1 == [mm EXCEPT !.files = AddFile(@, "i2.inc"), !.incs = Append(@, [d |-> 1, f |-> "i2.inc"])]
                m2 == Data(m1, <<"B">>, "i2.inc", 1)
                m3 == Inc1(m2, 2)
            IN Data(m3, <<"B", "A">>, "i2.inc", 3)
Step(mm, st) ==
  LET l == mm.line
      nx(x) == [x EXCEPT !.line = l + 1]
  IN CASE st.k = "data" -> nx(Data(mm, st.args, Main, l))
       [] st.k = "res"  -> nx(EmitAt(mm, st.n, Main, l))
       [] st.k = "org"  -> nx([mm EXCEPT !.pc[mm.seg] = st.a])
       [] st.k = "seg"  -> nx([mm EXCEPT !.seg = 3 - mm.seg])
       [] st.k = "sect" -> LET s2 == SectEnter(mm.sl, st.name) IN
                           [mm EXCEPT !.sl = s2, !.line = l + 2,
                                      !.defs = Append(@, [key |-> <<"P", s2.mom>>, f |-> Main, l |-> l + 1])]
       [] st.k = "ends" -> nx([mm EXCEPT !.sl = SectLeave(mm.sl)])
       [] st.k = "call" -> nx(Data(mm, <<st.a, "A">>, Main, l))
       [] st.k = "func" -> nx(Data(mm, <<"B">>, Main, l))
       [] st.k = "inc"  -> nx(IF st.f = 1 THEN Inc1(mm, 1) ELSE Inc2(mm))

Args(mm) == LET S == {"A", "B", "FWD", "#"} \cup (IF mm.sl.mom >= 0 THEN {"P"} ELSE {}) IN
            {<<a>> : a \in S} \cup {<<a, b>> : a \in S, b \in S} \cup {<<a, a, b>> : a \in S, b \in S}
Stmts(mm) ==
  {[k |-> "data", args |-> a] : a \in Args(mm)}
  \cup {[k |-> "data", args |-> a] : a \in Args(mm)}
  \cup {[k |-> "res", n |-> k] : k \in 1..3}
  \cup {[k |-> "org", a |-> a] : a \in {0, 2, 5, 9, 16}}
  \cup {[k |-> "seg"]}
  \cup (IF Len(mm.sl.stk) < 2 THEN {[k |-> "sect", name |-> nm] : nm \in {x \in {"X", "Y"} : FindSect(mm.sl, x, mm.sl.mom) < 0}} ELSE {})
  \cup (IF mm.sl.stk # <<>> THEN {[k |-> "ends"]} ELSE {})
  \cup {[k |-> "call", a |-> a] : a \in {"A", "B", "#"}}
  \cup {[k |-> "func"]}
  \cup {[k |-> "inc", f |-> f] : f \in {1, 2}}
\* statement kinds are drawn evenly, then a statement of the kind
Kinds(mm) == {s.k : s \in Stmts(mm)}

\* close open sections, postlude
RECURSIVE CloseAll(_)
CloseAll(mm) == IF mm.sl.stk = <<>> THEN mm ELSE CloseAll([mm EXCEPT !.sl = SectLeave(mm.sl), !.line = @ + 1])
Finish(mm) == LET c == CloseAll(mm) IN
              [EmitAt([c EXCEPT !.seg = 1, !.line = @ + 1], 1, Main, c.line + 1) EXCEPT !.defs = Append(@, [key |-> <<"FWD", GLOB>>, f |-> Main, l |-> c.line + 1])]

SName(mm, h) == SectName(mm.sl, h)
DefSite(mm, key) == IF key[1] = "A" THEN [f |-> Main, l |-> 3] ELSE IF key[1] = "B" THEN [f |-> Main, l |-> 4]
                    ELSE LET k == FirstIdx({i \in 1..Len(mm.defs) : mm.defs[i].key = key}) IN [f |-> mm.defs[k].f, l |-> mm.defs[k].l]
Expect(mm) ==
  [usage |-> [s \in 1..2 |-> UsageItems(mm.use[s])],
   warns |-> mm.warns,
   xref  |-> [i \in 1..Len(mm.refs) |->
                [name |-> mm.refs[i].key[1], sect |-> SName(mm, mm.refs[i].key[2]), def |-> DefSite(mm, mm.refs[i].key),
                 groups |-> LET g == CrossLines(mm.refs[i].rl, Len(mm.files)) IN
                            [j \in 1..Len(g) |-> [file |-> mm.files[g[j].f], es |-> g[j].es]]]],
   sects |-> SectionLines(mm.sl),
   incs  |-> mm.incs,
   closes |-> Len(mm.sl.stk)]

Init == /\ prog = <<>> /\ n = 0
        /\ \E L \in {0, 5, 7, 60}, W \in {0, 40, 72} : m = [M0 EXCEPT !.L = L, !.W = W]
Next == /\ n < NSteps /\ n' = n + 1
        /\ \E kd \in {RandomElement(Kinds(m))} :            \* bound once: RandomElement is not a function
           \E st \in {RandomElement({s \in Stmts(m) : s.k = kd})} :
           \E m2 \in {Step(m, st)} :
              /\ prog' = Append(prog, st) /\ m' = m2
              /\ (n' = NSteps) => \E fin \in {Finish(m2)} :
                    PrintT(<<"BEH", ToJson([L |-> m.L, W |-> m.W, prog |-> prog', exp |-> Expect(fin),
                                             closes |-> Len(m2.sl.stk), lastline |-> fin.line])>>)
Spec == Init /\ [][Next]_vars
=============================================================================
