CONSTANTS Families = {"incl"}
 Family <- QuickFamily
 MaxSects = 2
 MaxDepth = 2
 Fixed = {}
INIT Init
NEXT Next
INVARIANTS NoCoreNotHidden
CHECK_DEADLOCK FALSE
