\* generator: every history of exactly 3 statements over OpsPages (12 statements), default case mode (quick)
CONSTANTS Codes <- MCCodes
 FileTabs <- MCFileTabs
 Ops <- OpsPages
 MaxLen = 3
 CheckBackward = FALSE
 CaseModes = {FALSE}
 Dev = {}
 DevSourceChecked = TRUE
INIT Init
NEXT Next
CHECK_DEADLOCK FALSE
INVARIANTS Dump MachineIsFold
