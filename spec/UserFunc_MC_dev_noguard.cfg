\* MUST FAIL: no nesting guard (the tree before a74068d): recursion does not end
CONSTANTS ArgPrint = "decimal" StrEscape = "dec3" RecursionGuard = FALSE ArgParen = TRUE WholeIdent = TRUE
          Level = 0 MaxDefs = 3 EmitCases = FALSE ExcludeKnown = TRUE
SPECIFICATION Spec
INVARIANTS Agreement DefAgreement TokenRoundTrip
CHECK_DEADLOCK FALSE
