\* same deviation: a file differs ONLY through (last machine instruction before it, its first machine instruction)
CONSTANTS
 Haz = {"cp", "sp"}
 Fams = {"a", "b"}
 Leak = {"nxt"}
 MaxFiles = 2
 MaxLen = 2
INIT Init
NEXT Next
INVARIANT TailHead
INVARIANT Witness
CHECK_DEADLOCK FALSE
