CONSTANTS MaxLen = 12 MaxDepth = 4 Vals = {"v1", "v2", "v3"} OnlyWF = FALSE
INIT Init
NEXT Next
VIEW View
ACTION_CONSTRAINT TCover
CHECK_DEADLOCK FALSE
