\* the directed programs (regression seeds) of AsCore_MC.Directed
CONSTANTS Segs = {1, 2} StructSeg = 11 OffSet = {} OffAt = 0 Family = "directed" BodyLen = 0 MaxLen = 12 MaxSteps = 60
INIT Init
NEXT GenNext
INVARIANTS ForwardIsAllowed ErrCountIsFaultyExecuted ChainMirrorsCounts ImageIsData KeptIffClean
           ConstantsKeepTheirValue SkippedDefinesNothing VariableIsLastSetOrPopped
           ExpectListIsAnnouncedMinusConsumed HiddenIsNeverCounted EndIsFinal
CHECK_DEADLOCK FALSE
