\* thorough: histories of three files
CONSTANTS MaxLines = 2 MaxFiles = 3 Wrap = 0 Leaky = {}
CONSTANTS Kinds <- KindsHist OptSpace <- OptsTwo
SPECIFICATION Spec
INVARIANTS FreshStart Independent MachineIsOutcome StatusZeroIffNoError ErrorsDropCode ErrorStatus SummaryAgrees
CHECK_DEADLOCK FALSE
