\* thorough, in addition to Driver_MC_Hist.cfg: histories of three files of one line class each
CONSTANTS MaxLines = 1 MaxFiles = 3 Wrap = 0 Leaky = {}
CONSTANTS Kinds <- KindsHist OptSpace <- OptsTwo
SPECIFICATION Spec
INVARIANTS FreshStart Independent MachineIsOutcome StatusZeroIffNoError ErrorsDropCode ErrorStatus SummaryAgrees
CHECK_DEADLOCK FALSE
