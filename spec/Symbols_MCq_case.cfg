CONSTANTS LOCSYMSIGHT = 3
          MaxLen = 4 MaxDepth = 2 Focus = "case" Devs = {} CaseModes = {TRUE, FALSE}
SPECIFICATION Spec
INVARIANTS LookupAgreesWithManual ExtraPassAgrees ConvergesInTwo StackMirrorsText
PROPERTIES ConstNeverChanges RedefIsError
CHECK_DEADLOCK FALSE
