CONSTANTS LOCSYMSIGHT = 3
          MaxLen = 4 MaxDepth = 2 Focus = "case" CaseModes = {TRUE, FALSE}
          DevSets = {{}} CheckConst = FALSE
SPECIFICATION Spec
INVARIANTS LookupAgreesWithManual ExtraPassAgrees ConvergesInTwo StackMirrorsText StacksNonEmpty
PROPERTIES ConstNeverChanges RedefIsError
CHECK_DEADLOCK FALSE
