\* generator (thorough): every history of exactly 4 statements over OpsPages, default case mode
CONSTANTS Codes <- MCCodes
 FileTabs <- MCFileTabs
 Ops <- OpsPages
 MaxLen = 4
 CheckBackward = FALSE
 CaseModes = {FALSE}
 Dev = {}
 DevSourceChecked = TRUE
INIT Init
NEXT Next
CHECK_DEADLOCK FALSE
INVARIANTS Dump MachineIsFold
