\* pinned tree: all named deviations on; every failure must be attributable to a named deviation
SPECIFICATION Spec
CONSTANTS
  Starts = {0, 65533, 1048573}
  UnitLens = {5}
  Grans = {1, 2}
  LineLens = {2, 5}
  Relocs = {0, 65536}
  Fmts = {"MOTO", "INTEL", "INTEL16", "INTEL32", "MOS", "TEK", "ATMEL", "C"}
  Devs = {"MosRunningSum", "MosTerm4", "TekByteSums", "Intel32UnitBank", "MotoTypeUnrelocated", "Intel16NoRebase", "RangeOnlyCode", "LineSplitsUnits", "MotoLineOverflow"}
  Full = FALSE
INVARIANTS InvDecodeEquiv InvEmit InvLineLen InvPinnedExplained
CHECK_DEADLOCK FALSE
