CONSTANTS LOCSYMSIGHT = 3 PopVIntoConstant = TRUE NamedTmpByLastGlobal = TRUE EmptyMacroPopsOuter = TRUE
          MaxLen = 3 MaxDepth = 2 Focus = "scope" CaseModes = {FALSE}
SPECIFICATION Spec
INVARIANTS LookupAgreesWithManual ExtraPassAgrees ConvergesInTwo StackMirrorsText
PROPERTIES RedefIsError
CHECK_DEADLOCK FALSE
