------------------------------- MODULE IsaPic16 -------------------------------
(* Microchip PIC16C84 (mid-range core, 14-bit instruction words), written from the PIC16C8X data sheet *)
(* "Instruction Set Summary" table:                                                                   *)
(*   byte-oriented file register operations   00 oooo dfff ffff   (d = 0: W, d = 1: f)                 *)
(*   bit-oriented file register operations    01 oobb bfff ffff                                       *)
(*   literal operations                       11 oooo kkkk kkkk                                       *)
(*   CALL 10 0kkk kkkk kkkk   GOTO 10 1kkk kkkk kkkk                                                   *)
(*   CLRW 00 0001 0000 0000  NOP 00 0000 0000 0000  CLRWDT 0064  RETFIE 0009  RETURN 0008  SLEEP 0063  *)
(* One unit = one 14-bit program word (stored in a 16-bit cell of the code file, granularity 2).      *)
(* f is the 7-bit register-file address inside the selected bank: 0..127 must be accepted; data       *)
(* addresses 128..511 (other banks, bank selection is the programmer's business) are convention zone:  *)
(* if accepted, the low 7 bits are encoded.  The 16C84 has 1 K words of program memory: GOTO/CALL      *)
(* targets 0..1023 must be accepted, 1024..2047 fit the 11-bit field but lie outside the device        *)
(* (convention zone), larger targets cannot be encoded in one instruction.                            *)
(* Not judged (assembler conveniences, not part of the instruction set): omitted destination operand,  *)
(* OPTION/TRIS (obsolete), BANKSEL, automatic PCLATH fix-up of the bigger family members.              *)
EXTENDS IsaCommon

AddrMax == 1023
UnitBits == 14
BranchPCs == {0}

All == {"16C84"}

FReg == FNum(0, 127, 0, 511, 7, FALSE)
Dest == FEnum(<< <<"W",0>>, <<"F",1>>, <<"0",0>>, <<"1",1>> >>, 1)
Lit8 == FUns(8)
BitNo == FAddr(3)
Prog == FNum(0, 1023, 0, 2047, 11, FALSE)

Base(id, mn, args, flds, enc, flow, tf) ==
  [id |-> id, mn |-> mn, cpus |-> All, args |-> args, flds |-> flds, enc |-> enc, flow |-> flow, tf |-> tf,
   alias |-> FALSE]

Fixed(mn, code, flow) == Base(mn, mn, <<>>, <<>>, <<U(code, <<>>)>>, flow, 0)
ByteOp(mn, oooo) == Base(mn, mn, <<Op(1), Op(2)>>, <<FReg, Dest>>, <<U(oooo * 256, <<P(1, 0, 7, 0), P(2, 0, 1, 7)>>)>>, "next", 0)
FileOp(mn, code) == Base(mn, mn, <<Op(1)>>, <<FReg>>, <<U(code, <<P(1, 0, 7, 0)>>)>>, "next", 0)
BitOp(mn, oo)    == Base(mn, mn, <<Op(1), Op(2)>>, <<FReg, BitNo>>, <<U(4096 + oo * 1024, <<P(1, 0, 7, 0), P(2, 0, 3, 7)>>)>>, "next", 0)
LitOp(mn, code, flow) == Base(mn, mn, <<Op(1)>>, <<Lit8>>, <<U(code, <<P(1, 0, 8, 0)>>)>>, flow, 0)
Jump(mn, code, flow)  == Base(mn, mn, <<Op(1)>>, <<Prog>>, <<U(code, <<P(1, 0, 11, 0)>>)>>, flow, 1)

Forms ==
  { ByteOp("ADDWF", 7), ByteOp("ANDWF", 5), ByteOp("COMF", 9), ByteOp("DECF", 3), ByteOp("DECFSZ", 11),
    ByteOp("INCF", 10), ByteOp("INCFSZ", 15), ByteOp("IORWF", 4), ByteOp("MOVF", 8), ByteOp("RLF", 13),
    ByteOp("RRF", 12), ByteOp("SUBWF", 2), ByteOp("SWAPF", 14), ByteOp("XORWF", 6),
    FileOp("CLRF", 384), FileOp("MOVWF", 128),
    Fixed("CLRW", 256, "next"), Fixed("NOP", 0, "next"), Fixed("CLRWDT", 100, "next"), Fixed("RETFIE", 9, "ret"),
    Fixed("RETURN", 8, "ret"), Fixed("SLEEP", 99, "next"),
    BitOp("BCF", 0), BitOp("BSF", 1), BitOp("BTFSC", 2), BitOp("BTFSS", 3),
    LitOp("ADDLW", 15872, "next"), LitOp("ANDLW", 14592, "next"), LitOp("IORLW", 14336, "next"),
    LitOp("MOVLW", 12288, "next"), LitOp("RETLW", 13312, "ret"), LitOp("SUBLW", 15360, "next"),
    LitOp("XORLW", 14848, "next"),
    Jump("CALL", 8192, "call"), Jump("GOTO", 10240, "jump") }

After(cpu, prev, form, units) == units
Skipped(cpu, form, ops) == FALSE
Unjudged(cpu, form, ops) == FALSE
\* canonical words only (don't-care bits 0), CALL/GOTO with targets inside the 1 K device
DefinedCount(cpu) == 14 * 256 + 2 * 128 + 6 + 4 * 1024 + 7 * 256 + 2 * 1024
=============================================================================
