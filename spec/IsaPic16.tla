------------------------------- MODULE IsaPic16 -------------------------------
(* Microchip PIC16C8x family (mid-range core, 14-bit instruction words), written from the PIC16C8X / PIC16F87X    *)
(* data sheets, "Instruction Set Summary" table:                                                       *)
(*   byte-oriented file register operations   00 oooo dfff ffff   (d = 0: W, d = 1: f)                 *)
(*   bit-oriented file register operations    01 oobb bfff ffff                                       *)
(*   literal operations                       11 oooo kkkk kkkk                                       *)
(*   CALL 10 0kkk kkkk kkkk   GOTO 10 1kkk kkkk kkkk                                                   *)
(*   CLRW 00 0001 0000 0000  NOP 00 0000 0000 0000  CLRWDT 0064  RETFIE 0009  RETURN 0008  SLEEP 0063  *)
(* One unit = one 14-bit program word (stored in a 16-bit cell of the code file, granularity 2).      *)
(* f is the 7-bit register-file address inside the selected bank: 0..127 must be accepted; data       *)
(* addresses 128..511 (other banks, bank selection is the programmer's business) are convention zone:  *)
(* if accepted, the low 7 bits are encoded.                                                           *)
(* DEVICE dimension (TLA+ Cpu constant = argument of the CPU statement).  The members of the family differ in  *)
(* the size of the program memory, i.e. in the range of CALL / GOTO and in the number of 2 K PAGES the 11-bit   *)
(* address field k selects inside of (the upper bits of the destination come from PCLATH<4:3>):                *)
(*   16C84 1 K words, 16C64 2 K (one page each), 16C873 / 16C874 4 K (2 pages), 16C876 / 16C877 8 K (4 pages). *)
(* Single-page devices: GOTO / CALL targets 0..size-1 must be accepted, size..2047 fit the 11-bit field but lie   *)
(* outside the device (convention zone), larger targets cannot be encoded.                                 *)
(* Devices with more than one page: the forms "CALL p0" / "GOTO p0" of THIS table describe the instruction for  *)
(* a statement that stands in page 0 and a target in page 0 (one word, k = target); the case generator places   *)
(* every statement without PC-dependent operand in the first 2 K words.  Targets in another page are the        *)
(* business of IsaPic16P.tla (statement page x target page x device: the BCF / BSF PCLATH prefix AS documents)  *)
(* and are skipped here (Skipped).                                                                         *)
(* Not judged (assembler conveniences, not part of the instruction set): omitted destination operand,  *)
(* OPTION/TRIS (obsolete), BANKSEL.                                                                   *)
EXTENDS IsaCommon

UnitBits == 14
BranchPCs == {0}
PageSize == 2048

\* program memory pages (2 K words each; the 16C84 has half a page)
Single == {"16C84", "16C64"}
Paged == {"16C873", "16C874", "16C876", "16C877"}
All == Single \cup Paged
PagesOf(cpu) == CASE cpu \in {"16C873", "16C874"} -> 2 [] cpu \in {"16C876", "16C877"} -> 4 [] OTHER -> 1
AddrMaxOf(cpu) == IF cpu = "16C84" THEN 1023 ELSE PagesOf(cpu) * PageSize - 1

FReg == FNum(0, 127, 0, 511, 7, FALSE)
Dest == FEnum(<< <<"W",0>>, <<"F",1>>, <<"0",0>>, <<"1",1>> >>, 1)
Lit8 == FUns(8)
BitNo == FAddr(3)
Prog(cpu) == FNum(0, IF cpu \in Paged THEN PageSize - 1 ELSE AddrMaxOf(cpu), 0, PageSize - 1, 11, FALSE)

Base(id, mn, args, flds, enc, flow, tf) ==
  [id |-> id, mn |-> mn, cpus |-> All, args |-> args, flds |-> flds, enc |-> enc, flow |-> flow, tf |-> tf,
   alias |-> FALSE]

Fixed(mn, code, flow) == Base(mn, mn, <<>>, <<>>, <<U(code, <<>>)>>, flow, 0)
ByteOp(mn, oooo) == Base(mn, mn, <<Op(1), Op(2)>>, <<FReg, Dest>>, <<U(oooo * 256, <<P(1, 0, 7, 0), P(2, 0, 1, 7)>>)>>, "next", 0)
FileOp(mn, code) == Base(mn, mn, <<Op(1)>>, <<FReg>>, <<U(code, <<P(1, 0, 7, 0)>>)>>, "next", 0)
BitOp(mn, oo)    == Base(mn, mn, <<Op(1), Op(2)>>, <<FReg, BitNo>>, <<U(4096 + oo * 1024, <<P(1, 0, 7, 0), P(2, 0, 3, 7)>>)>>, "next", 0)
LitOp(mn, code, flow) == Base(mn, mn, <<Op(1)>>, <<Lit8>>, <<U(code, <<P(1, 0, 8, 0)>>)>>, flow, 0)
\* one form per range of the address operand: the 16C84 (ids "CALL", "GOTO"), the 16C64, page 0 of the paged devices
Jump(mn, code, flow)  ==
  { [Base(mn, mn, <<Op(1)>>, <<Prog("16C84")>>, <<U(code, <<P(1, 0, 11, 0)>>)>>, flow, 1) EXCEPT !.cpus = {"16C84"}],
    [Base(mn \o " 2K", mn, <<Op(1)>>, <<Prog("16C64")>>, <<U(code, <<P(1, 0, 11, 0)>>)>>, flow, 1) EXCEPT !.cpus = {"16C64"}],
    [Base(mn \o " p0", mn, <<Op(1)>>, <<Prog("16C877")>>, <<U(code, <<P(1, 0, 11, 0)>>)>>, flow, 1) EXCEPT !.cpus = Paged] }

Forms ==
  { ByteOp("ADDWF", 7), ByteOp("ANDWF", 5), ByteOp("COMF", 9), ByteOp("DECF", 3), ByteOp("DECFSZ", 11),
    ByteOp("INCF", 10), ByteOp("INCFSZ", 15), ByteOp("IORWF", 4), ByteOp("MOVF", 8), ByteOp("RLF", 13),
    ByteOp("RRF", 12), ByteOp("SUBWF", 2), ByteOp("SWAPF", 14), ByteOp("XORWF", 6),
    FileOp("CLRF", 384), FileOp("MOVWF", 128),
    Fixed("CLRW", 256, "next"), Fixed("NOP", 0, "next"), Fixed("CLRWDT", 100, "next"), Fixed("RETFIE", 9, "ret"),
    Fixed("RETURN", 8, "ret"), Fixed("SLEEP", 99, "next"),
    BitOp("BCF", 0), BitOp("BSF", 1), BitOp("BTFSC", 2), BitOp("BTFSS", 3),
    LitOp("ADDLW", 15872, "next"), LitOp("ANDLW", 14592, "next"), LitOp("IORLW", 14336, "next"),
    LitOp("MOVLW", 12288, "next"), LitOp("RETLW", 13312, "ret"), LitOp("SUBLW", 15360, "next"),
    LitOp("XORLW", 14848, "next") }
  \cup Jump("CALL", 8192, "call") \cup Jump("GOTO", 10240, "jump")

After(cpu, prev, form, units) == units
\* paged devices: a target outside page 0 that the PCLATH page bits can select is reached with a prefix (IsaPic16P)
Skipped(cpu, form, ops) == cpu \in Paged /\ form.tf = 1 /\ ops[1] >= PageSize /\ ops[1] < 4 * PageSize
Unjudged(cpu, form, ops) == FALSE
\* canonical words only (don't-care bits 0), CALL/GOTO with k inside the device (1 K) / inside the page
DefinedCount(cpu) == 14 * 256 + 2 * 128 + 6 + 4 * 1024 + 7 * 256 + 2 * (IF cpu = "16C84" THEN 1024 ELSE PageSize)
=============================================================================
