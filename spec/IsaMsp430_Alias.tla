--------------------------- MODULE IsaMsp430_Alias ---------------------------
(* Register symbols on the MSP430 (doc/assembler-usage.md "Register Symbols": valid for MSP430(X)): every    *)
(* register operand of IsaMsp430 - in Rn, X(Rn), @Rn and @Rn+ - written through a symbol.  One class: all     *)
(* 16 registers, named PC / SP / SR or R0..R15.  The register fields of this table are SELECTIONS (RegIdx   *)
(* leaves out PC and SR because @PC+ / X(SR) are spelled #N / &ADDR), so a register a field does not list is  *)
(* not an error: FieldsComplete = FALSE, only listed registers are generated.                                *)
EXTENDS IsaMsp430_Gen
CONSTANTS ScenMode
VARIABLES prog, sym, plan
RegClass(fld) == IF fld.k = "enum" THEN "r" ELSE ""
VarDef == "SET"
FieldsComplete == FALSE
Tab == INSTANCE IsaAliasTab
LitTab == Tab!MkLitTab
Lits == {LitTab[t].l : t \in 1..Len(LitTab)}
FldTab == Tab!MkFldTab
FormTab == Tab!MkFormTab
INSTANCE IsaAlias
ASSUME LitsSane
=============================================================================
