----------------------------- MODULE CodeWriter -----------------------------
(***************************************************************************)
(* The code-file writer of asmcode.c, cell by cell.                        *)
(*                                                                         *)
(* The file is a sequence of cells that is written through a position      *)
(* (ftell/fseek) and a small buffer, exactly like the C code:              *)
(*   OpenFile      magic, NewRecord(pc)                                    *)
(*   NewRecord(s)  FlushBuffer; empty open record => header overwritten in *)
(*                 place (RecPos), otherwise length back-patched (LenPos)  *)
(*                 and a new header appended                               *)
(*   WriteBytes    split BEFORE the chunk when LenSoFar + n > MaxRecLen;   *)
(*                 three-way buffer logic                                  *)
(*   RetractWords  drop the last bytes again (buffer or fseek back)        *)
(*   CloseFile     NewRecord(pc); seek RecPos; entry record; creator       *)
(*                                                                         *)
(* w = [file, pos, buf, lenSoFar, recPos, lenPos]                          *)
(* Cells: [k:"magic"] [k:"hdr",cpu,seg,gran] [k:"start",v] [k:"len",v]     *)
(*        [k:"d",id] [k:"entry",v] [k:"end"]                               *)
(* A header cell stands for the 4 header bytes, "start" for 4, "len" for 2. *)
(*                                                                         *)
(* BufSize and MaxRecLen are the code's 512 and 65535; the exhaustive      *)
(* configuration scales them down so that TLC crosses every boundary.      *)
(***************************************************************************)
EXTENDS Naturals, Sequences, FiniteSets
CONSTANTS BufSize, MaxRecLen

Max(a, b) == IF a > b THEN a ELSE b

WriteAt(f, p, cells) ==
  LET n == Len(cells) IN
  [i \in 1..Max(p + n - 1, Len(f)) |-> IF i >= p /\ i < p + n THEN cells[i - p + 1] ELSE f[i]]

Flush(w) == [w EXCEPT !.file = WriteAt(w.file, w.pos, w.buf), !.pos = w.pos + Len(w.buf), !.buf = <<>>]

Header(cpu, seg, gran, start) ==
  << [k |-> "hdr", cpu |-> cpu, seg |-> seg, gran |-> gran], [k |-> "start", v |-> start], [k |-> "len", v |-> 0] >>

\* asmcode.c NewRecord
NewRecord(w0, cpu, seg, gran, start) ==
  LET w == Flush(w0) IN
  IF w.lenSoFar = 0
  THEN [w EXCEPT !.file = WriteAt(w.file, w.recPos, Header(cpu, seg, gran, start)),
                 !.pos = w.recPos + 3, !.lenPos = w.recPos + 2]
  ELSE LET h  == w.pos
           f1 == WriteAt(w.file, w.lenPos, << [k |-> "len", v |-> w.lenSoFar] >>)
       IN [w EXCEPT !.file = WriteAt(f1, h, Header(cpu, seg, gran, start)),
                    !.pos = h + 3, !.recPos = h, !.lenPos = h + 2, !.lenSoFar = 0]

\* asmcode.c OpenFile
OpenFile(cpu, seg, gran, pc) ==
  NewRecord([file |-> << [k |-> "magic"] >>, pos |-> 2, buf |-> <<>>, lenSoFar |-> 0, recPos |-> 2, lenPos |-> 0],
            cpu, seg, gran, pc)

\* asmcode.c WriteBytes; cells = the chunk's bytes as written; pc = ProgCounter() before the chunk
WriteBytes(w0, cells, cpu, seg, gran, pc) ==
  LET n  == Len(cells)
      w1 == IF w0.lenSoFar + n > MaxRecLen THEN NewRecord(w0, cpu, seg, gran, pc) ELSE w0
      w2 == IF Len(w1.buf) + n < BufSize
            THEN [w1 EXCEPT !.buf = w1.buf \o cells]
            ELSE LET fl == Flush(w1) IN
                 IF n < BufSize THEN [fl EXCEPT !.buf = cells]
                 ELSE [fl EXCEPT !.file = WriteAt(fl.file, fl.pos, cells), !.pos = fl.pos + n]
  IN IF n = 0 THEN w0 ELSE [w2 EXCEPT !.lenSoFar = w1.lenSoFar + n]

\* asmcode.c RetractWords (n bytes); refused (error, nothing changes) when the open record is shorter
CanRetract(w, n) == w.lenSoFar >= n
Retract(w, n) ==
  IF Len(w.buf) >= n
  THEN [w EXCEPT !.buf = SubSeq(w.buf, 1, Len(w.buf) - n), !.lenSoFar = w.lenSoFar - n]
  ELSE [w EXCEPT !.pos = w.pos - (n - Len(w.buf)), !.buf = <<>>, !.lenSoFar = w.lenSoFar - n]

\* asmcode.c CloseFile; entry = <<>> or <<addr>>.  The creator string has no length field: it runs to the end
\* of the file, so whatever lies behind the "end" cell belongs to it.
CloseFile(w0, cpu, seg, gran, pc, entry) ==
  LET w == NewRecord(w0, cpu, seg, gran, pc)
      tail == (IF entry = <<>> THEN <<>> ELSE << [k |-> "entry", v |-> entry[1]] >>) \o << [k |-> "end"] >>
  IN WriteAt(w.file, w.recPos, tail)

(***************************************************************************)
(* Independent reader (doc/file-formats.md), on the same cells.            *)
(***************************************************************************)
RECURSIVE ParseFrom(_, _, _, _)
ParseFrom(f, i, recs, entries) ==
  IF i > Len(f) THEN [ok |-> FALSE, recs |-> recs, entries |-> entries]            \* no creator record
  ELSE IF f[i].k = "end" THEN [ok |-> TRUE, recs |-> recs, entries |-> entries]      \* creator: rest of file
  ELSE IF f[i].k = "entry" THEN ParseFrom(f, i + 1, recs, Append(entries, f[i].v))
  ELSE IF f[i].k # "hdr" \/ i + 2 > Len(f) THEN [ok |-> FALSE, recs |-> recs, entries |-> entries]
  ELSE LET st == f[i+1]  ln == f[i+2] IN
       IF st.k # "start" \/ ln.k # "len" \/ i + 2 + ln.v > Len(f)
       THEN [ok |-> FALSE, recs |-> recs, entries |-> entries]
       ELSE LET data == [j \in 1..ln.v |-> f[i + 2 + j]] IN
            IF \E j \in 1..ln.v : data[j].k # "d" THEN [ok |-> FALSE, recs |-> recs, entries |-> entries]
            ELSE ParseFrom(f, i + 3 + ln.v,
                           Append(recs, [cpu |-> f[i].cpu, seg |-> f[i].seg, gran |-> f[i].gran,
                                         start |-> st.v, data |-> data]), entries)

Parse(f) == IF Len(f) = 0 \/ f[1].k # "magic" THEN [ok |-> FALSE, recs |-> <<>>, entries |-> <<>>]
            ELSE ParseFrom(f, 2, <<>>, <<>>)

\* documented well-formedness: magic, consistent records, length fields <= 65535 (MaxRecLen) and a multiple of the
\* granularity, at most one entry record, creator last
WellFormed(f) ==
  LET p == Parse(f) IN
  /\ p.ok
  /\ Len(p.entries) <= 1
  /\ \A r \in 1..Len(p.recs) : /\ Len(p.recs[r].data) <= MaxRecLen
                               /\ Len(p.recs[r].data) % p.recs[r].gran = 0

\* memory image of a parsed file: set of [seg, byte address, cell id]; byte address = start * gran + offset
Image(recs) ==
  UNION { { [seg |-> recs[r].seg, addr |-> recs[r].start * recs[r].gran + j - 1, id |-> recs[r].data[j].id]
            : j \in 1..Len(recs[r].data) } : r \in 1..Len(recs) }
ImageSize(recs) == LET L[r \in 0..Len(recs)] == IF r = 0 THEN 0 ELSE L[r-1] + Len(recs[r].data) IN L[Len(recs)]
=============================================================================
