----------------------------- MODULE StructInst -----------------------------
(***************************************************************************)
(* Structure definition details and structure instantiation (growth of     *)
(* C10; manual: pseudo-instructions.md "Structures"; code: asmallg.c       *)
(* CodeSTRUCT / CodeENDSTRUCT, asmstructs.c BuildStructName /              *)
(* AddStructSymbol / AddStructElem / ExpandStruct(_One), asmlabel.c        *)
(* LabelHandle, as.c Produce_Code (label of the line, structure name used  *)
(* as an instruction) and WriteCode).                                      *)
(*                                                                         *)
(* Part 1: operators shaped like the code, on                              *)
(*   st = [b    AddrBook record (counters, PHASE, STRUCT stack of C10),    *)
(*         fr   open definitions, innermost first, parallel to b.stStk:    *)
(*              [name  composed name (BuildStructName), "" = nameless      *)
(*               base  the label as written (pBaseName)                    *)
(*               named, ext (DoExt), ch (ExtChar), union,                  *)
(*               elems <<[n, off, sub]>>  (TStructElem: name, Offset,      *)
(*                                         IsStruct), tot (TotLen)]        *)
(*         tab  finished structures <<[name, def, union, ch, elems, tot]>> *)
(*         dots DOTTEDSTRUCTS]                                             *)
(*   Step(st, s) = [st, defs, errs, chunk]: the state after statement s,   *)
(*   the symbol definitions it makes (in order), its errors, what reaches  *)
(*   the code file (a reservation / data / nothing).                       *)
(* An instance only RESERVES (ExpandStruct: CodeLen = TotLen, DontPrint):  *)
(* the manual allows nothing but reservations inside a definition ("no     *)
(* instructions that dispose constants"), so there are no initial values.  *)
(* Names are strings in the assembler's canonical (upper case) spelling;   *)
(* addresses and sizes are in units of the segment's granularity.          *)
(*                                                                         *)
(* Part 2: the manual's promise, written on the syntax tree of a           *)
(* definition, independent of the operators above:                         *)
(*   DSize   a STRUCT is as long as its members together, a UNION as its   *)
(*           longest member;                                               *)
(*   DSyms   every member is at the sum of the sizes before it (0 in a     *)
(*           UNION); members of a nameless body belong to the next higher  *)
(*           named one; the names of nested members are composed;          *)
(*   InstancePromise  `X S` at execution address A defines X = A and       *)
(*           X<c>member = A + offset for every member, occupies exactly    *)
(*           DSize(S) units and changes nothing else.                      *)
(*                                                                         *)
(* Named deviations of the pinned code (operators below, exhibited by the  *)
(* configurations StructInst_MC_dev_*.cfg):                                *)
(*   AnonOffsetDropped        LabelHandle stores a member that is written  *)
(*       inside a nameless STRUCT/UNION with its offset inside that        *)
(*       nameless body: every instance places it without the offset of     *)
(*       the nameless body (FixAnon = TRUE is the proposed repair:         *)
(*       proposed_fixes/C10-anon-member-offset.diff)                       *)
(*   NoExtNamesKeepsOwnPrefix  NOEXTNAMES does not take the structure's    *)
(*       name off its own members (AddStructSymbol ignores DoExt); only    *)
(*       the composed names of nested structures lose it - and then the    *)
(*       instance of the outer structure no longer finds the nested one    *)
(*       (NoExtNamesLosesNested)                                           *)
(*   LenArgVerbatim           `ENDSTRUCT name` names the length symbol     *)
(*       `name`, not extended by the structure's name; a LABEL on          *)
(*       ENDSTRUCT must repeat the structure's label (else error 1552)     *)
(*   ArrayIndexUnderline      array instances are named lab_i_j with `_`   *)
(*       whatever the structure's separator is                             *)
(*   LenLowerCaseWhenCaseSensitive  with -U the length symbol is spelled   *)
(*       <name>_len ("%s%clen"), the manual says LEN (not modelled: names  *)
(*       here are in the canonical spelling of the default mode)           *)
(***************************************************************************)
EXTENDS AddrBook, TLC
CONSTANT FixAnon      \* FALSE: the pinned code; TRUE: with the proposed repair of AnonOffsetDropped

Max(x, y) == IF x > y THEN x ELSE y

NoAcc(st) == [st |-> st, defs |-> <<>>, errs |-> <<>>]
NoChunk == [k |-> "N", seg |-> "", addr |-> 0, n |-> 0]

InitS(seg0) == [b |-> InitB(seg0), fr |-> <<>>, tab |-> <<>>, dots |-> FALSE]

\* ---- structure table (asmstructs.c AddStruct / FoundStruct; sections are not modelled) ------------------
Has(tab, nm) == \E i \in 1..Len(tab) : tab[i].name = nm
Get(tab, nm) == tab[CHOOSE i \in 1..Len(tab) : tab[i].name = nm]
\* StructAdder: a second definition in the same pass is refused (error 1555), the first one stays;
\* a definition left over from the previous pass (def = FALSE, ResetStructDefines) is replaced
Put(tab, rec) ==
  IF Has(tab, rec.name)
  THEN [i \in 1..Len(tab) |-> IF tab[i].name = rec.name /\ ~tab[i].def THEN rec ELSE tab[i]]
  ELSE Append(tab, rec)
Redefined(tab, nm) == Has(tab, nm) /\ Get(tab, nm).def

\* ---- names ---------------------------------------------------------------------------------------------
\* pInnermostNamedStruct: index of the innermost frame that has a name, 0 if none
NamedIdx(fr) == IF \E i \in 1..Len(fr) : fr[i].named
                THEN CHOOSE i \in 1..Len(fr) : fr[i].named /\ \A j \in 1..(i - 1) : ~fr[j].named
                ELSE 0
\* BuildStructName: the labels of all enclosing NAMED structures that extend names, outermost first
BuildStructName(fr, nm) ==
  LET R[i \in 0..Len(fr)] == IF i = 0 THEN nm
                             ELSE IF fr[i].ext /\ fr[i].named THEN fr[i].base \o fr[i].ch \o R[i - 1] ELSE R[i - 1]
  IN R[Len(fr)]
\* offsets at which the nameless bodies between the current body and the innermost named one were opened
\* (the loop in CodeSTRUCT: "Add up all offsets of unnamed structs in between")
AnonBase(st) ==
  LET k == NamedIdx(st.fr)
      S[i \in 0..Len(st.fr)] == IF i = 0 THEN 0 ELSE S[i - 1] + (IF i < k THEN st.b.stStk[i].savePC ELSE 0)
  IN S[Len(st.fr)]

\* AddStructElem: a second element of the same name is an error (1557); TotLen is bumped either way
AddElem(fr, k, e) ==
  LET dup == \E i \in 1..Len(fr[k].elems) : fr[k].elems[i].n = e.n
  IN [fr |-> [fr EXCEPT ![k].elems = IF dup THEN @ ELSE Append(@, e), ![k].tot = Max(@, e.off)], dup |-> dup]

\* asmlabel.c LabelHandle: inside a definition the label becomes an element of the innermost NAMED structure and
\* the symbol <that structure's composed name><its separator><label> (AddStructSymbol: value + the offsets of all
\* enclosing bodies but the outermost; DoExt is NOT consulted: NoExtNamesKeepsOwnPrefix); outside, an ordinary label
LabelHandle(acc, nm, val) ==
  LET st == acc.st
      k  == NamedIdx(st.fr)
  IN IF k = 0 THEN [acc EXCEPT !.defs = Append(@, [n |-> nm, v |-> val])]
     ELSE LET off == IF FixAnon THEN val + AnonBase(st) ELSE val          \* AnonOffsetDropped
              r   == AddElem(st.fr, k, [n |-> nm, off |-> off, sub |-> FALSE])
          IN [st   |-> [st EXCEPT !.fr = r.fr],
              defs |-> IF r.dup THEN acc.defs
                       ELSE Append(acc.defs, [n |-> st.fr[k].name \o st.fr[k].ch \o nm, v |-> val + StructBase(st.b)]),
              errs |-> IF r.dup THEN Append(acc.errs, "dupelem") ELSE acc.errs]

\* as.c WriteCode for the statements of this module: the active counter advances by n (inside a UNION the
\* length only bumps the union: AddrBook.Advance, and BumpStructLength of the open record)
WriteCode(st, n) ==
  [st EXCEPT !.b = MarkUsed(Advance(st.b, n)),
             !.fr = IF InUnion(st.b) THEN [@ EXCEPT ![1].tot = Max(@, n)] ELSE @]
Reserve(st, n) == IF InStruct(st.b) THEN NoChunk ELSE [k |-> "R", seg |-> st.b.act, addr |-> Load(st.b), n |-> n]

\* ---- STRUCT / UNION -------------------------------------------------------------------------------------
OptExt(opts) == LET R[i \in 0..Len(opts)] == IF i = 0 THEN TRUE ELSE IF opts[i] = "EXTNAMES" THEN TRUE
                                             ELSE IF opts[i] = "NOEXTNAMES" THEN FALSE ELSE R[i - 1]
                IN R[Len(opts)]
OptCh(opts, dots) == LET R[i \in 0..Len(opts)] == IF i = 0 THEN (IF dots THEN "." ELSE "_") ELSE IF opts[i] = "DOTS" THEN "."
                                                  ELSE IF opts[i] = "NODOTS" THEN "_" ELSE R[i - 1]
                     IN R[Len(opts)]
OptsOK(opts) == \A i \in 1..Len(opts) : opts[i] \in {"EXTNAMES", "NOEXTNAMES", "DOTS", "NODOTS"}

CodeStruct(st, lab, u, opts) ==
  LET k == NamedIdx(st.fr) IN
  IF lab = "" /\ k = 0 THEN [st |-> st, defs |-> <<>>, errs |-> <<"freestanding">>, chunk |-> NoChunk]
  ELSE
    LET inner == st.fr # <<>> /\ lab # ""
        \* a named structure inside another one is an element of the innermost named structure, at its offset
        \* there (nameless bodies in between are added up) and a symbol of its own
        r     == IF inner THEN AddElem(st.fr, k, [n |-> lab, off |-> Load(st.b) + AnonBase(st), sub |-> TRUE])
                 ELSE [fr |-> st.fr, dup |-> FALSE]
        defs  == IF inner THEN <<[n |-> st.fr[k].name \o st.fr[k].ch \o lab, v |-> Load(st.b) + StructBase(st.b)]>> ELSE <<>>
        e1    == IF r.dup THEN <<"dupelem">> ELSE <<>>
        frame == [name |-> IF lab = "" THEN "" ELSE BuildStructName(st.fr, lab), base |-> lab, named |-> lab # "",
                  ext |-> OptExt(opts), ch |-> OptCh(opts, st.dots), union |-> u, elems |-> <<>>, tot |-> 0]
    IN IF ~OptsOK(opts)          \* the element and its symbol are entered before the arguments are looked at
       THEN [st |-> [st EXCEPT !.fr = r.fr], defs |-> defs, errs |-> e1 \o <<"baddir">>, chunk |-> NoChunk]
       ELSE [st |-> [st EXCEPT !.fr = <<frame>> \o r.fr, !.b = BeginStruct(st.b, u)], defs |-> defs, errs |-> e1, chunk |-> NoChunk]

\* ---- ENDSTRUCT / ENDUNION ------------------------------------------------------------------------------
\* AddrBook.EndStruct with the length handed over (CodeENDSTRUCT: CodeLen = TotLen for a nested one)
EndStructLen(b, len) ==
  LET outer == Tail(b.stStk)
      b1    == [b EXCEPT !.stStk = outer, !.pc[StructSeg] = b.stStk[1].savePC]
  IN IF outer = <<>> THEN [b1 EXCEPT !.act = b.stSaveSeg] ELSE Advance(b1, len)

LenName(f, arg) == IF arg # "" THEN arg ELSE f.name \o f.ch \o "LEN"        \* LenArgVerbatim
CodeEndStruct(st, lab, arg, endunion) ==
  IF st.fr = <<>> THEN [st |-> st, defs |-> <<>>, errs |-> <<"nostruct">>, chunk |-> NoChunk]
  ELSE
    LET f  == st.fr[1]
        e0 == IF endunion /\ ~f.union THEN <<"endunion">> ELSE <<>>
    IN IF lab # "" /\ lab # f.base THEN [st |-> st, defs |-> <<>>, errs |-> e0 \o <<"wrongstruct">>, chunk |-> NoChunk]
       ELSE
         LET tot   == Max(f.tot, Load(st.b))                 \* BumpStructLength(rec, ProgCounter())
             defs  == IF arg # "" \/ f.named THEN <<[n |-> LenName(f, arg), v |-> tot]>> ELSE <<>>
             dbl   == f.named /\ Redefined(st.tab, f.name)
             rec   == [name |-> f.name, def |-> TRUE, union |-> f.union, ch |-> f.ch, elems |-> f.elems, tot |-> tot]
             tab1  == IF f.named THEN Put(st.tab, rec) ELSE st.tab
             b1    == EndStructLen(st.b, tot)
             rest  == Tail(st.fr)
             fr1   == IF rest # <<>> /\ rest[1].union THEN [rest EXCEPT ![1].tot = Max(@, tot)] ELSE rest
         IN [st |-> [st EXCEPT !.b = b1, !.fr = fr1, !.tab = tab1], defs |-> defs,
             errs |-> e0 \o (IF dbl THEN <<"redefined">> ELSE <<>>), chunk |-> NoChunk]

\* ---- instantiation (asmstructs.c ExpandStruct_One / ExpandStruct) ---------------------------------------
RECURSIVE ExpandOne(_, _, _, _, _, _)
\* every element of rec: LabelHandle(<var><sep><element>, base + Offset); an element that is itself a structure is
\* looked up under <structure name as written><sep><element> and expanded below it (not found: nothing,
\* NoExtNamesLosesNested)
ExpandOne(acc, rec, var, str, base, i) ==
  IF i > Len(rec.elems) THEN acc
  ELSE LET e  == rec.elems[i]
           vn == var \o rec.ch \o e.n
           sn == str \o rec.ch \o e.n
           a1 == LabelHandle(acc, vn, base + e.off)
           a2 == IF e.sub /\ Has(a1.st.tab, sn) THEN ExpandOne(a1, Get(a1.st.tab, sn), vn, sn, base + e.off, 1) ELSE a1
       IN ExpandOne(a2, rec, var, str, base, i + 1)

Prod(dims) == LET P[i \in 0..Len(dims)] == IF i = 0 THEN 1 ELSE P[i - 1] * dims[i] IN P[Len(dims)]
\* names of the array elements, last index fastest (ArrayIndexUnderline)
ArrayNames(lab, dims) ==
  CASE Len(dims) = 1 -> [i \in 1..dims[1] |-> lab \o "_" \o ToString(i - 1)]
    [] Len(dims) = 2 -> [i \in 1..(dims[1] * dims[2]) |->
                           lab \o "_" \o ToString((i - 1) \div dims[2]) \o "_" \o ToString((i - 1) % dims[2])]
    [] Len(dims) = 3 -> [i \in 1..(dims[1] * dims[2] * dims[3]) |->
                           lab \o "_" \o ToString((i - 1) \div (dims[2] * dims[3])) \o "_"
                               \o ToString(((i - 1) \div dims[3]) % dims[2]) \o "_" \o ToString((i - 1) % dims[3])]
RECURSIVE ExpandArray(_, _, _, _, _, _)
ExpandArray(acc, rec, names, str, base, i) ==
  IF i > Len(names) THEN acc
  ELSE LET at == base + (i - 1) * rec.tot
           a1 == LabelHandle(acc, names[i], at)
       IN ExpandArray(ExpandOne(a1, rec, names[i], str, at, 1), rec, names, str, base, i + 1)

\* `lab nm [d1],[d2]`: Produce_Code enters the label of the line, ExpandStruct the elements; CodeLen = TotLen
\* (times the number of array elements), DontPrint: the space is reserved, nothing is emitted
Instantiate(st, lab, nm, dims) ==
  LET rec == Get(st.tab, nm)
      a1  == IF lab # "" THEN LabelHandle(NoAcc(st), lab, Exec(st.b)) ELSE NoAcc(st)
  IN IF lab = "" THEN [st |-> st, defs |-> <<>>, errs |-> <<"nolabel">>, chunk |-> NoChunk]
     ELSE IF Len(dims) > 3 THEN [st |-> a1.st, defs |-> a1.defs, errs |-> Append(a1.errs, "dims"), chunk |-> NoChunk]
     ELSE IF \E i \in 1..Len(dims) : dims[i] <= 0
          THEN [st |-> a1.st, defs |-> a1.defs, errs |-> Append(a1.errs, "range"), chunk |-> NoChunk]
     ELSE LET a2 == IF dims = <<>> THEN ExpandOne(a1, rec, lab, nm, Exec(st.b), 1)
                    ELSE ExpandArray(a1, rec, ArrayNames(lab, dims), nm, Exec(st.b), 1)
              n  == rec.tot * Prod(dims)
          IN [st |-> WriteCode(a2.st, n), defs |-> a2.defs, errs |-> a2.errs, chunk |-> Reserve(st, n)]

\* a labelled (or bare) reservation of n units: `lab ds n`, `lab db ?` ...
Field(st, lab, n) ==
  LET a1 == IF lab # "" THEN LabelHandle(NoAcc(st), lab, Exec(st.b)) ELSE NoAcc(st)
  IN [st |-> WriteCode(a1.st, n), defs |-> a1.defs, errs |-> a1.errs, chunk |-> Reserve(st, n)]
\* data of n units: inside a definition error 1940 (the counter moves all the same), outside it is emitted
Emit(st, lab, n) ==
  LET a1 == IF lab # "" THEN LabelHandle(NoAcc(st), lab, Exec(st.b)) ELSE NoAcc(st)
  IN [st |-> WriteCode(a1.st, n), defs |-> a1.defs,
      errs |-> IF InStruct(st.b) /\ n > 0 THEN Append(a1.errs, "code") ELSE a1.errs,
      chunk |-> IF InStruct(st.b) THEN NoChunk ELSE [k |-> "E", seg |-> st.b.act, addr |-> Load(st.b), n |-> n]]
\* an operation that is neither an instruction nor a structure: the label is entered, error 1200
Unknown(st, lab) ==
  LET a1 == IF lab # "" THEN LabelHandle(NoAcc(st), lab, Exec(st.b)) ELSE NoAcc(st)
  IN [st |-> a1.st, defs |-> a1.defs, errs |-> Append(a1.errs, "unknown"), chunk |-> NoChunk]

Plain(st, nb) == [st |-> [st EXCEPT !.b = nb], defs |-> <<>>, errs |-> <<>>, chunk |-> NoChunk]

\* ---- one statement ---------------------------------------------------------------------------------------
\* s = [k, lab, u, opts, nm, n, arg, dims]
Stmt(k, lab, u, opts, nm, n, arg, dims) == [k |-> k, lab |-> lab, u |-> u, opts |-> opts, nm |-> nm, n |-> n, arg |-> arg, dims |-> dims]
Step(st, s) ==
  CASE s.k = "STRUCT"  -> CodeStruct(st, s.lab, s.u, s.opts)
    [] s.k = "END"     -> CodeEndStruct(st, s.lab, s.arg, s.u)
    [] s.k = "FIELD"   -> Field(st, s.lab, s.n)
    [] s.k = "EMIT"    -> Emit(st, s.lab, s.n)
    [] s.k = "INST"    -> IF Has(st.tab, s.nm) THEN Instantiate(st, s.lab, s.nm, s.dims) ELSE Unknown(st, s.lab)
    [] s.k = "DOTS"    -> [st |-> [st EXCEPT !.dots = s.u], defs |-> <<>>, errs |-> <<>>, chunk |-> NoChunk]
    [] s.k = "ORG"     -> Plain(st, MarkUsed(Org(st.b, s.n)))
    [] s.k = "PHASE"   -> Plain(st, MarkUsed(Phase(st.b, s.n)))
    [] s.k = "DEPHASE" -> Plain(st, MarkUsed(Dephase(st.b)))
    [] s.k = "SEGMENT" -> Plain(st, MarkUsed(Segment(st.b, s.nm, 0)))

\* =========================================================================================================
\* Part 2: what the manual promises, on the syntax tree of a definition
\*   node = [kind "struct"|"union", name (label as written, "" nameless), ch, ext, len (name given to ENDSTRUCT
\*           for the length symbol, "" none), items]
\*   item = [t "field"|"pad"|"sub"|"inst", n label, size, node (sub: the nested definition; inst: the definition
\*           that is instantiated), dims]
\* =========================================================================================================
\*   fz: -1 sizes of all members known; >= 0: the size as observed (trace validation: a UNION member whose size the
\*       hook events do not show); -2 while such a definition is open
\*   opq: a member whose label cannot be read from the source line (trace validation): names are not judged
NullNode == [kind |-> "none", name |-> "", ch |-> "_", ext |-> TRUE, len |-> "", fz |-> -1, opq |-> FALSE, items |-> <<>>]
Item(t, n, size, node, dims) == [t |-> t, n |-> n, size |-> size, node |-> node, dims |-> dims]

RECURSIVE DSize(_)
DItemSize(it) == CASE it.t \in {"field", "pad"} -> it.size
                   [] it.t = "sub"  -> DSize(it.node)
                   [] it.t = "inst" -> Prod(it.dims) * DSize(it.node)
\* "The size of a union is the maximum of all elements' lengths"; a structure's members follow each other
DSize(node) ==
  IF node.fz >= 0 THEN node.fz ELSE
  LET its == node.items
      S[i \in 0..Len(its)] == IF i = 0 THEN 0
                              ELSE IF node.kind = "union" THEN Max(S[i - 1], DItemSize(its[i])) ELSE S[i - 1] + DItemSize(its[i])
  IN S[Len(its)]
\* offset of the i-th member: "all elements ... are located at offset 0" in a union
DOff(node, i) ==
  LET its == node.items
      S[j \in 0..Len(its)] == IF j = 0 THEN 0 ELSE S[j - 1] + DItemSize(its[j])
  IN IF node.kind = "union" THEN 0 ELSE S[i - 1]

RECURSIVE DSyms(_, _, _, _)
\* the symbols of the members of node, named below prefix with separator ch, the body placed at base
DSyms(node, prefix, ch, base) ==
  UNION { LET it == node.items[i]
              at == base + DOff(node, i)
              nm == prefix \o ch \o it.n
          IN CASE it.t = "field" -> {[n |-> nm, v |-> at]}
               [] it.t = "pad"   -> {}
               [] it.t = "sub" /\ it.node.name # "" -> {[n |-> nm, v |-> at]} \cup DSyms(it.node, nm, it.node.ch, at)
               [] it.t = "sub" /\ it.node.name = "" -> DSyms(it.node, prefix, ch, at)   \* "part of the next higher named structure"
               [] it.t = "inst" /\ it.dims = <<>> -> {[n |-> nm, v |-> at]} \cup DSyms(it.node, nm, it.node.ch, at)
               [] it.t = "inst" /\ it.dims # <<>> ->
                    LET names == ArrayNames(nm, it.dims)  sz == DSize(it.node) IN
                    {[n |-> nm, v |-> at]} \cup
                    UNION { {[n |-> names[j], v |-> at + (j - 1) * sz]} \cup DSyms(it.node, names[j], it.node.ch, at + (j - 1) * sz)
                            : j \in 1..Len(names) }
          : i \in 1..Len(node.items) }

RECURSIVE DLens(_, _, _)
\* the length symbols of a definition and of the definitions nested in it; full / ch: composed name and separator of
\* the structure that owns the members of node (node itself when it has a name).  A nameless body has no length
\* symbol ("no symbol holding its length is generated") unless ENDSTRUCT names one.
DLens(node, full, ch) ==
  (IF node.len # "" THEN {[n |-> node.len, v |-> DSize(node)]}
   ELSE IF node.name # "" THEN {[n |-> full \o node.ch \o "LEN", v |-> DSize(node)]} ELSE {})
  \cup UNION { LET it == node.items[i] IN
               IF it.t # "sub" THEN {}
               ELSE IF it.node.name # "" THEN DLens(it.node, full \o ch \o it.node.name, it.node.ch)
               ELSE DLens(it.node, full, ch)
               : i \in 1..Len(node.items) }

\* every symbol the definition of the top-level structure `node` makes
DefinitionPromise(node) == DSyms(node, node.name, node.ch, 0) \cup DLens(node, node.name, node.ch)
\* `lab name [dims]` at execution address a
InstancePromise(node, lab, dims, a) == DSyms([NullNode EXCEPT !.kind = "struct", !.items = <<Item("inst", lab, 0, node, dims)>>], "", "", a)
InstanceSize(node, dims) == Prod(dims) * DSize(node)

RECURSIVE ExtOnly(_), AnonFree(_)
\* the promise is stated for definitions that extend names (the default); NOEXTNAMES: see the deviations above
ExtOnly(node) == node.ext /\ ~node.opq /\ \A i \in 1..Len(node.items) : node.items[i].t \in {"sub", "inst"} => ExtOnly(node.items[i].node)
\* no labelled member written directly inside a nameless body (where AnonOffsetDropped strikes)
AnonFree(node) ==
  \A i \in 1..Len(node.items) :
     LET it == node.items[i] IN
     /\ it.t \in {"sub", "inst"} => AnonFree(it.node)
     /\ (it.t = "sub" /\ it.node.name = "") => \A j \in 1..Len(it.node.items) : it.node.items[j].t \in {"pad", "sub"}

\* ---- the syntax tree, kept along the statements (ghost: g = [open innermost first, done <<[name, node]>>]) --
InitG == [open |-> <<>>, done |-> <<>>]
GHas(g, nm) == \E i \in 1..Len(g.done) : g.done[i].name = nm
GGet(g, nm) == g.done[CHOOSE i \in 1..Len(g.done) : g.done[i].name = nm].node
GPut(g, nm, node) == IF GHas(g, nm) THEN [i \in 1..Len(g.done) |-> IF g.done[i].name = nm THEN [name |-> nm, node |-> node] ELSE g.done[i]]
                     ELSE Append(g.done, [name |-> nm, node |-> node])
GAdd(g, it) == [g EXCEPT !.open[1].items = Append(@, it)]
\* composed name of a named definition written inside others: "the name of the super-structure is ... prepended"
GName(open, nm) ==
  LET R[i \in 0..Len(open)] == IF i = 0 THEN nm
                               ELSE IF open[i].name # "" /\ open[i].ext THEN open[i].name \o open[i].ch \o R[i - 1] ELSE R[i - 1]
  IN R[Len(open)]
\* r = the result of Step for s in the state before: the tree follows the statements that were accepted
GStep(g, st, s, r) ==
  CASE s.k = "STRUCT" /\ Len(r.st.fr) > Len(st.fr) ->
         [g EXCEPT !.open = <<[NullNode EXCEPT !.kind = IF s.u THEN "union" ELSE "struct", !.name = s.lab,
                                               !.ch = r.st.fr[1].ch, !.ext = r.st.fr[1].ext]>> \o @]
    [] s.k = "END" /\ Len(r.st.fr) < Len(st.fr) ->
         LET node == [g.open[1] EXCEPT !.len = s.arg]
             g1   == [g EXCEPT !.open = Tail(@)]
             g2   == IF g1.open # <<>> THEN GAdd(g1, Item("sub", node.name, 0, node, <<>>)) ELSE g1
         IN IF node.name # "" /\ "redefined" \notin {r.errs[i] : i \in 1..Len(r.errs)}
            THEN [g2 EXCEPT !.done = GPut(g2, GName(g1.open, node.name), node)] ELSE g2
    [] s.k \in {"FIELD", "EMIT"} /\ g.open # <<>> ->
         IF "dupelem" \in {r.errs[i] : i \in 1..Len(r.errs)} THEN GAdd(g, Item("pad", "", s.n, NullNode, <<>>))
         ELSE GAdd(g, Item(IF s.lab = "" THEN "pad" ELSE "field", s.lab, s.n, NullNode, <<>>))
    [] s.k = "INST" /\ g.open # <<>> /\ GHas(g, s.nm) /\ Len(r.errs) = 0 ->
         GAdd(g, Item("inst", s.lab, 0, GGet(g, s.nm), s.dims))
    [] OTHER -> g
\* the structure that owns a member written now: the innermost open definition that has a name
GNamedIdx(open) == IF \E i \in 1..Len(open) : open[i].name # ""
                   THEN CHOOSE i \in 1..Len(open) : open[i].name # "" /\ \A j \in 1..(i - 1) : open[j].name = ""
                   ELSE 0
GOwnerName(open) == LET k == GNamedIdx(open) IN GName(SubSeq(open, k + 1, Len(open)), open[k].name)
GOwnerCh(open) == open[GNamedIdx(open)].ch
\* position of the next member in the open definitions, counted on the tree: sum over the open bodies of what
\* their members so far occupy (nothing in a union)
GPos(g) ==
  LET R[i \in 0..Len(g.open)] == IF i = 0 THEN 0
                                 ELSE R[i - 1] + (IF g.open[i].kind = "union" THEN 0 ELSE DSize(g.open[i]))
  IN R[Len(g.open)]
=============================================================================
