---------------------------- MODULE GenLatent_MC ----------------------------
(* Exhaustive check of GenLatent over all histories of MaxFiles files of at most MaxLen statements of the       *)
(* families Fams.  One initial state per history; the invariants are evaluated on it.                           *)
EXTENDS GenLatent, TLC

CONSTANTS MaxFiles, MaxLen

VARIABLE hist

Texts == UNION {[1..n -> Stmts] : n \in 1..MaxLen}
Files == [f : Fams, text : Texts]
Hists == UNION {[1..n -> Files] : n \in 2..MaxFiles}

Init == hist \in Hists
Next == UNCHANGED hist

Indep == Independent(hist)
ExitOK == ExitComposes(hist)
TailHead == OnlyTailHead(hist)
\* the other direction for the smallest witness: a leaked one-shot tracker IS visible for tail = set h, head = dep h
Witness == \A h \in Haz, f \in Fams, sv \in {"warn", "err"} :
             ~Independent(<<[f |-> f, text |-> <<S("set", h, "")>>], [f |-> f, text |-> <<S("dep", h, sv)>>]>>)
=============================================================================
