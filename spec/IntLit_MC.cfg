\* quick: the radixes at which a marker letter starts to be "eaten" (B=11, H=17, O=24, Q=26, X=33) and their neighbours
CONSTANTS Radixes = {2, 8, 10, 11, 12, 16, 17, 18, 24, 25, 26, 27, 33, 34, 36}
SPECIFICATION Spec
INVARIANTS DocImpliesCode DocImpliesFixedCode UnspecIsJustified Emit
CHECK_DEADLOCK FALSE
