--------------------------- MODULE CondAsm_Trace ---------------------------
(* Trace validation: every recorded statement of real assembler runs must be a step the CondAsm      *)
(* specification allows.  Events come from the `stmt` hook (after each source line) reformatted to    *)
(*   [a |-> action, argc |-> n, ifasm |-> BOOLEAN, stk |-> <<[st, found, save]...>>, errs |-> n]      *)
(* Unlogged inputs (condition values, selector / case hit) are chosen by the original operators.     *)
EXTENDS CondAsm, TLC, Json, IOUtils

VARIABLES m, l, perr
vars == <<m, l, perr>>

TraceLog == ndJsonDeserialize(IOEnv.TRACE)

Abs(stk) == [i \in 1..Len(stk) |-> [st |-> stk[i].st, found |-> stk[i].found, save |-> stk[i].save]]
LogStk(e) == [i \in 1..Len(e.stk) |-> [st |-> e.stk[i][1], found |-> e.stk[i][2] = 1, save |-> e.stk[i][3] = 1]]

\* post-state predicted by the model equals the logged one (selector values are not logged)
Matches(mm, e) == mm.ifasm = e.ifasm /\ Abs(mm.stk) = LogStk(e)

\* candidates the specification allows for event e in state m
Cands(e) ==
  CASE e.a = "IF"       -> {DoIf(m, c) : c \in BOOLEAN}
    [] e.a = "ELSEIF"   -> IF e.argc = 0 THEN {DoElse(m)}
                           ELSE IF e.argc = 1 THEN {DoElseIf(m, c) : c \in BOOLEAN}
                           ELSE {IF m.stk = <<>> \/ Top(m).st # IFIF THEN Err(m) ELSE Err(m)}
    [] e.a = "ENDIF"    -> IF e.argc = 0 THEN {DoEndIf(m)} ELSE {Err(m)}
    [] e.a = "SWITCH"   -> {DoSwitch(m, 0)}
    [] e.a = "CASE"     -> IF e.argc = 0 /\ m.stk # <<>> THEN {Err(m)} ELSE {DoCaseB(m, h) : h \in BOOLEAN}
    [] e.a = "ELSECASE" -> IF e.argc = 0 THEN {DoElseCase(m)} ELSE {Err(m)}
    [] e.a = "ENDCASE"  -> IF e.argc = 0 THEN {DoEndCase(m)} ELSE {Err(m)}
    [] e.a = "EXITM"    -> {DoRestoreIFs(m, d) : d \in 0..Len(m.stk)}
    [] OTHER            -> {m}      \* every other statement of every target: the IF machine is untouched

TInit == m = InitM /\ l = 1 /\ perr = 0

TNext ==
  /\ l <= Len(TraceLog)
  /\ l' = l + 1
  /\ LET e == TraceLog[l] IN
       IF e.a = "RESET" THEN m' = InitM /\ perr' = 0
       ELSE \E c \in Cands(e) :
              /\ Matches(c, e)
              /\ (c.errs > m.errs) => e.errs > perr      \* a step the model calls an error was reported
              /\ m' = [c EXCEPT !.errs = 0, !.warns = 0]
              /\ perr' = e.errs

TSpec == TInit /\ [][TNext]_vars
Accepted == TLCGet("stats").diameter - 1 = Len(TraceLog)
\* where validation stopped, for the harness to report
Stuck == IF l <= Len(TraceLog) THEN PrintT(<<"STUCK", ToJson([l |-> l, m |-> [ifasm |-> m.ifasm, stk |-> Abs(m.stk)]])>>) ELSE TRUE
=============================================================================
