CONSTANTS Stale = TRUE MaxTop = 3
  ModLists <- QModLists CtlLists <- QCtlLists MacroIds <- QIds MacroBodies <- QBodies
SPECIFICATION Spec
INVARIANTS CodeShown
CHECK_DEADLOCK FALSE
