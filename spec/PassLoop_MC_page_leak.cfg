\* a generator that resets the assumed page only at start-up: TLC must report Fixpoint violated
CONSTANTS
  VarMode = "abs8"
  VarShort = 2
  VarLong = 3
  Padding = FALSE
  RelFpuOK = FALSE
  RefKinds = {"abs", "var", "rel"}
  Sects = {}
  Quals = {8}
  Alias = {}
  CaseSens = FALSE
  Pages = {1}
  PageReset = FALSE
  SelfKinds = {}
  Labels = {"la", "lb"}
  MaxItems = 4
  Fills = {1}
  AbsWidths = {2}
  EquOffs = {}
  Orgs = {254}
  Fixed = TRUE
  ThrowErrors = FALSE
  ThrowMaxPass = 3
  WithExtra = TRUE
  AllowIllFormed = FALSE
  Complete = FALSE
SPECIFICATION Spec
CHECK_DEADLOCK FALSE
INVARIANTS TypeOK Fixpoint
