\* TLC -simulate: MaxItems items per program, Orgs = load addresses (incl. one straddling a page / near the top of
\* memory), WithVectors = 2-byte big-endian vectors as indirect entries (6800), MaxEntries direct entry addresses
CONSTANTS IsaName = "4004" Cpu = "4004" MaxItems = 10 Orgs = {0, 256, 490} WithVectors = FALSE MaxEntries = 4
INIT Init
NEXT Next
INVARIANT Dump
