CONSTANTS IsaName = "4004" Cpu = "4004" MaxItems = 10 Orgs = {0, 256, 490} WithVectors = FALSE MaxEntries = 4
INIT Init
NEXT Next
INVARIANT Dump
