----------------------------- MODULE IsaAvr_Gen -----------------------------
EXTENDS IsaAvr
CONSTANTS Cpu, K, Salt, Step
VARIABLES form, ops, pc
AddrMax == AddrMaxOf(Cpu)
BranchPCs == BranchPCsOf(Cpu)
INSTANCE IsaGen
ASSUME TableSane
=============================================================================
