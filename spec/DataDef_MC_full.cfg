\* thorough: every 12-bit half precision significand
CONSTANTS Level = 2
SPECIFICATION Spec
INVARIANTS RangeRuleIsTheInterval IntegerBytesDecodeBack LittleIsReversedBig LengthIsElementsTimesWidth PaddingRule MixingIsAnError FloatLayoutIsTheEncoder LookupIsTheTable EveryCopyTranslatedOnce TwiceIsBothTables PackedAdvance PackedPositions AvrDataKeepsEveryCharacter MultiCharReadings Emit
CHECK_DEADLOCK FALSE
