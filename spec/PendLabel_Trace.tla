----------------------------- MODULE PendLabel_Trace -----------------------------
(* (V) What the real assembler reports for the programs of PendLabel_Gen, judged by TLC.  One step per event:       *)
(*  CASE   [prog, table]      a run: the abstract program [blocks, fwd, tgt] and the words of its reference table     *)
(*                            as the parsed CODE FILE holds them (name -> value, -1 = not in the file): the neutral    *)
(*                            witness of every symbol's final value                                                    *)
(*  REP    [src, name, val, k]  a report line: src = "share" (k-th line of the share file, format -c / -p / -a),         *)
(*                            "lst" (symbol table of the listing), "map" (symbol section of the MAP file)               *)
(*  LINES  [i, addrs]         the line:address entries of the MAP file for the source line(s) of statement i            *)
(*  DONE   [nshare]           end of the run: number of share lines read                                               *)
(*  RESET                                                                                                              *)
(* Verdict (`bad`): a REP whose value is not the value the code file holds for that symbol - the property: share      *)
(* file, listing table and MAP give each symbol's FINAL value, the one the code was assembled with.                    *)
(* Diagnostic (`odd`, SPEC-DRIFT): anything that differs from what PendLabel.tla computes for the program - the         *)
(* table itself, a symbol's value (is the label moved behind the pad byte exactly when it is still pending?), the        *)
(* order / number of share lines, the pieces laid down per statement.  Symbols without a word in the table (the          *)
(* block in front of END) are judged against the model only; Listing_Trace judges them against the hook's record.        *)
EXTENDS PendLabel, Json, IOUtils
VARIABLES l, exp, tabv, bad, odd
vars == <<l, exp, tabv, bad, odd>>
TraceLog == ndJsonDeserialize(IOEnv.TRACE)

None == [val |-> <<>>, share |-> <<>>, tab |-> <<>>, lay |-> <<>>]
TInit == l = 1 /\ exp = None /\ tabv = <<>> /\ bad = <<>> /\ odd = <<>>

Expected(prog) == LET items == Flatten(prog) IN Assemble(items, NamesOf(items))

\* the property: the report states the value the code file holds
OK(e) == IF e.a = "REP" /\ e.name \in DOMAIN tabv THEN e.val = tabv[e.name] ELSE TRUE
\* the model's finer prediction
AsModel(e, x) ==
  CASE e.a = "CASE"  -> /\ Len(x.tab) = Cardinality(DOMAIN e.table)
                        /\ \A q \in 1..Len(x.tab) : x.tab[q].name \in DOMAIN e.table /\ e.table[x.tab[q].name] = x.tab[q].val
    [] e.a = "REP"   -> IF e.src = "share" THEN e.k \in 1..Len(x.share) /\ x.share[e.k] = [name |-> e.name, val |-> e.val]
                        ELSE e.name \in DOMAIN x.val /\ x.val[e.name] = e.val
    [] e.a = "LINES" -> Range(e.addrs) = LineEntries(x, e.i)
    [] e.a = "DONE"  -> e.nshare = Len(x.share)
    [] OTHER -> TRUE

TNext ==
  /\ l <= Len(TraceLog)
  /\ l' = l + 1
  /\ LET e == TraceLog[l]
         x == IF e.a = "CASE" THEN Expected(e.prog) ELSE exp
     IN  /\ exp' = IF e.a = "RESET" THEN None ELSE x
         /\ tabv' = IF e.a = "CASE" THEN e.table ELSE IF e.a = "RESET" THEN <<>> ELSE tabv
         /\ bad' = IF e.a # "RESET" /\ ~OK(e) THEN Append(bad, l) ELSE bad
         /\ odd' = IF e.a # "RESET" /\ ~AsModel(e, x) THEN Append(odd, l) ELSE odd
Consumed == TLCGet("stats").diameter - 1 = Len(TraceLog)
Report == IF l > Len(TraceLog) THEN PrintT(<<"OUT", ToJson([bad |-> bad, odd |-> odd, n |-> Len(TraceLog)])>>) ELSE TRUE
Accepted == Consumed
=============================================================================
