\* pinned tree: the public verdict is EXPECTED to fail (the model predicts the reproduced defects)
SPECIFICATION Spec
CONSTANTS
  Starts = {0, 65533}
  UnitLens = {5}
  Grans = {1, 2}
  LineLens = {2}
  Relocs = {0, 65536}
  Fmts = {"MOTO", "INTEL32", "MOS", "TEK"}
  Devs = {"MosRunningSum", "MosTerm4", "TekByteSums", "Intel32UnitBank", "MotoTypeUnrelocated", "Intel16NoRebase", "RangeOnlyCode", "LineSplitsUnits", "MotoLineOverflow"}
  Full = FALSE
INVARIANTS InvVerdict
CHECK_DEADLOCK FALSE
