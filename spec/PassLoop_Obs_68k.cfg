\* verdict on decoded layouts, 68k class
CONSTANTS
  VarMode = "rel8"
  VarShort = 2
  VarLong = 4
  Padding = TRUE
  Labels = {"la", "lb", "lc", "LA", "La"}
  Fills = {}
  AbsWidths = {2, 4}
  EquOffs = {}
  SelfKinds = {}
  Pages = {}
  RefKinds = {}
  Sects = {"s", "t"}
  Quals = {8}
  Alias = {{"la", "LA", "La"}}
  CaseSens = FALSE
INIT OInit
NEXT ONext
POSTCONDITION Accepted
CHECK_DEADLOCK FALSE
