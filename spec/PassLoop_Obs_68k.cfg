\* verdict on decoded layouts, 68k class
CONSTANTS
  VarMode = "rel8"
  VarShort = 2
  VarLong = 4
  Padding = TRUE
  Labels = {"la", "lb", "lc"}
  Fills = {}
  AbsWidths = {2, 4}
  EquOffs = {}
  SelfKinds = {}
  Pages = {}
INIT OInit
NEXT ONext
POSTCONDITION Accepted
CHECK_DEADLOCK FALSE
