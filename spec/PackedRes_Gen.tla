---------------------------- MODULE PackedRes_Gen ----------------------------
(* Statements for replay into the real assembler.  Same actions as PackedRes; `toks` spells the argument list   *)
(* of the statement being read ("?" one element, a number n = `n DUP (`, ")" ), `hist` the finished statements  *)
(* with the addresses the specification predicts in front of and behind each (= what a label there reads):     *)
(* at / next from the declarative side; cat / cnext what the code-shaped side yields under the configured named *)
(* deviation (Dev = "emptygroup": the pinned code), dev = the statement is one the deviation applies to.        *)
(* PackedRes_Gen_exh*.cfg: no VIEW, MaxStmts = 1 - every statement of the bounded token space exactly once.     *)
(* PackedRes_Gen_sim*.cfg: -simulate, programs of MaxStmts statements with segment switches and plain DS.       *)
EXTENDS PackedRes_MC, TLC, Json

VARIABLES toks, hist,
          w      \* weight only: TLC's simulator draws uniformly from the successor STATES, so an element is offered Weight times
CONSTANT Weight
gvars == <<pvars, toks, hist, w>>

GInit == /\ Init /\ toks = <<>> /\ w = 1
         /\ hist = <<[k |-> "INIT", tgt |-> tgt, seg |-> seg, code |-> pcs["code"], data |-> pcs["data"]]>>

GStep ==
  \/ \E e \in Elems, k \in Kinds : Begin(e, k) /\ toks' = <<>> /\ UNCHANGED hist
  \/ \E n \in Counts : Open(n) /\ toks' = Append(toks, ToString(n)) /\ UNCHANGED hist
  \/ Close /\ toks' = Append(toks, ")") /\ UNCHANGED hist
  \/ End /\ toks' = <<>>
         /\ hist' = Append(hist, [k |-> "ST", e |-> ebits, kind |-> kind, toks |-> toks, seg |-> seg, u |-> U,
                                  n |-> Top.cnt, at |-> ref[seg], next |-> ref'[seg],
                                  dev |-> aband, cat |-> pcs[seg], cnext |-> pcs'[seg]])
  \/ \E s \in AllSegs : Segment(s) /\ hist' = Append(hist, [k |-> "SEG", s |-> s]) /\ UNCHANGED toks
  \/ \E n \in 1..MaxDS : DS(n) /\ UNCHANGED toks
                               /\ hist' = Append(hist, [k |-> "DS", n |-> n, seg |-> seg, at |-> ref[seg], next |-> ref'[seg],
                                                              cat |-> pcs[seg], cnext |-> pcs'[seg]])

GNext == \/ GStep /\ w' = 1
         \/ Elem /\ toks' = Append(toks, "?") /\ UNCHANGED hist /\ w' \in 1..Weight

Finished == ebits = 0 /\ nst = MaxStmts
Dump == Finished => PrintT(<<"BEH", ToJson(hist)>>)
=============================================================================
