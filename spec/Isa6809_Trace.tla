---------------------------- MODULE Isa6809_Trace ----------------------------
(* (V) Cross-check of the MC6809 table (Isa6809.tla) against machine statements the real assembler executed in the  *)
(* golden program tests/t_full09 (assembled for CPU 6809, i.e. without its 6309 blocks): one event                  *)
(*   [a |-> "STMT", op (mnemonic, upper case), units (emitted bytes), pc (address of the statement)]              *)
(* per machine statement.  A statement whose mnemonic the table knows must be EXPLAINED from the byte side: the      *)
(* decoder finds an instruction in the bytes, it is an instruction of that mnemonic (aliases: of its opcode), and    *)
(* the encoder gives exactly these bytes back.  Other mnemonics (pseudo-instructions, macros) are not judged.        *)
(* A rejection is first of all a slip in the table: the harness reports it as spec drift.                           *)
EXTENDS Isa6809, Json, IOUtils

VARIABLES l, judged
vars == <<l, judged>>
TraceLog == ndJsonDeserialize(IOEnv.TRACE)

Explained(e) ==
  LET m == MDecode(e.units, e.pc) IN
    /\ m.mn # "?"
    /\ HasEntry(e.op, ModeOf(m.am))
    /\ Primary(e.op, ModeOf(m.am)) = m.mn
    /\ MEncode(MI(e.op, m.am), e.pc) = e.units
    /\ Len(e.units) = PubLen(m)

\* spellings asl accepts beyond Motorola's mnemonics, seen in the golden program: named, not judged
Extension(e) == e.op = "SWI" /\ e.units \in {<<16, 63>>, <<17, 63>>}      \* `SWI 2` / `SWI 3` = SWI2 / SWI3

TInit == l = 1 /\ judged = 0
TNext ==
  /\ l <= Len(TraceLog)
  /\ LET e == TraceLog[l] IN
       IF e.a = "RESET" THEN judged' = judged
       ELSE IF e.op \notin Mnems \/ Extension(e) THEN judged' = judged
       ELSE Explained(e) /\ judged' = judged + 1
  /\ l' = l + 1

TSpec == TInit /\ [][TNext]_vars
Accepted == TLCGet("stats").diameter - 1 = Len(TraceLog)
=============================================================================
