----------------------------- MODULE Isa6502_Hist -----------------------------
(* HISTORY dimension of C14 on the Isa6502 table: every leaf of the Isa6502_Gen case graph is printed together with a   *)
(* context statement (IsaHist.tla).  The context table (IsaCtxTab.tla) is computed ONCE, when TLC checks the       *)
(* assumption below, and kept in TLC register 14 (TLC would re-evaluate an ordinary definition in every state:    *)
(* it does not treat definitions that use IsaCommon's operators with a parameter called pc as constants).          *)
EXTENDS Isa6502_Gen
Ctx == INSTANCE IsaCtxTab
HasRep(f, p) == Ctx!HasRep(f, p)
CtxOps(f, p) == Ctx!RepOps(f, p)
ASSUME TLCSet(14, Ctx!MkCtxTab)
CtxTab == TLCGet(14)
INSTANCE IsaHist
=============================================================================
