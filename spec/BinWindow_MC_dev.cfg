CONSTANTS Fixed = {}
INIT Init
NEXT Next
INVARIANTS NoDeviation
CHECK_DEADLOCK FALSE
