CONSTANTS LOCSYMSIGHT = 3
          MaxLen = 5 MaxDepth = 2 Focus = "macro" Devs = {} CaseModes = {FALSE}
SPECIFICATION Spec
INVARIANTS LookupAgreesWithManual ExtraPassAgrees ConvergesInTwo StackMirrorsText
PROPERTIES ConstNeverChanges RedefIsError
CHECK_DEADLOCK FALSE
