---------------------------- MODULE GenLatent_Gen ----------------------------
(* The histories to replay against the real asl, as sequences of WINDOWS of golden sources.                     *)
(*                                                                                                              *)
(*   window  [w, f, j, k, tr]   f  family slot: "a" = the family under test, "b" = another family               *)
(*                              j  start slot: the window begins (behind the lines that define CPU / symbols /   *)
(*                                 macros) with the j-th sampled instruction of the family;  0 = top of the      *)
(*                                 source                                                                        *)
(*                              k  cut slot: the window ends with the k-th sampled instruction;  0 = end of the  *)
(*                                 source                                                                        *)
(*                              tr how a cut is closed: "none" nothing follows, "end" an END statement, "sym" a  *)
(*                                 symbol definition (a pseudo instruction) + END, "open" the cut lies inside a  *)
(*                                 construct (IF / SECTION / STRUCT / SAVE / PHASE) that is thereby left open    *)
(*   shapes  pair      << Pred(k, tr), Succ(f, j) >>            where the predecessor stops x where the          *)
(*                                                             successor starts, same and other family          *)
(*           through   << Pred(k), Whole("b"), Succ("a", j) >>  a file of another family in between              *)
(*           reverse   << Succ("a", j), Pred(k) >>              the same two files in the other order            *)
(*           one       << One(i), One(i2) >>                    single-instruction files: all kinds x all kinds  *)
(*                                                                                                              *)
(* Since nothing is known about what the sampled instructions do to the latent state of their generator, the    *)
(* expectation attached to a shape quantifies over EVERY interpretation of the cut statement c, the start       *)
(* statement s and one more statement x elsewhere in the files as statement classes of GenLatent:               *)
(*     Expect(shape) == \A c, s, x \in Stmts : Independent(Render(shape, c, s, x))                              *)
(* TRUE for the tree as it is (Leak = {"cur"}); in the variant Leak = {"nxt"} it is FALSE for every shape whose  *)
(* files share a family - i.e. every such shape is able to expose a surviving tracker (Sensitive).  It depends   *)
(* on the shape only up to renaming of slots, so it is computed once per type (ExpectOf).                       *)
EXTENDS GenLatent, TLC, Json

CONSTANTS NCut, NStart, NKind, Trailers

VARIABLE sh

Pred(k, tr) == [w |-> "pred", f |-> "a", j |-> 0, k |-> k, tr |-> tr]
Succ(f, j)  == [w |-> "succ", f |-> f, j |-> j, k |-> 0, tr |-> "none"]
Whole(f)    == [w |-> "whole", f |-> f, j |-> 0, k |-> 0, tr |-> "none"]
One(i)      == [w |-> "one", f |-> "a", j |-> i, k |-> i, tr |-> "end"]

\* trailers are crossed with the first cut / start slot only, the other family with the first start slot
Pairs   == {<<Pred(k, "none"), Succ("a", j)>> : k \in 1..NCut, j \in 1..NStart}
           \cup {<<Pred(1, tr), Succ("a", 1)>> : tr \in Trailers}
           \cup {<<Pred(k, "none"), Succ("b", 1)>> : k \in 1..NCut}
Through == {<<Pred(k, "none"), Whole("b"), Succ("a", k)>> : k \in 1..(IF NCut < NStart THEN NCut ELSE NStart)}
Reverse == {<<Succ("a", k), Pred(k, "end")>> : k \in 1..(IF NCut < NStart THEN NCut ELSE NStart)}
Ones    == {<<One(i), One(i2)>> : i \in 1..NKind, i2 \in 1..NKind}
Shapes  == Pairs \cup Through \cup Reverse \cup Ones

\* ---- the type of a shape and its canonical rendering under an interpretation ------------------------
TypeOf(h) == CASE h[1].w = "one"  -> IF h[1].j = h[2].j THEN <<"one", "same", "">> ELSE <<"one", "diff", "">>
               [] Len(h) = 3      -> <<"through", "", "">>
               [] h[1].w = "succ" -> <<"reverse", "", "">>
               [] OTHER           -> <<"pair", h[2].f, h[1].tr>>
Types == {<<"one", "same", "">>, <<"one", "diff", "">>, <<"through", "", "">>, <<"reverse", "", "">>}
         \cup {<<"pair", f, tr>> : f \in {"a", "b"}, tr \in Trailers \cup {"none"}}

F(f, text) == [f |-> f, text |-> text]
TrailerText(tr) == IF tr = "sym" THEN <<S("pseudo", "", "")>> ELSE <<>>     \* END / an open construct are no statements of the generator
Render(ty, c, s, x) ==
  CASE ty[1] = "one" /\ ty[2] = "same" -> <<F("a", <<c>>), F("a", <<c>>)>>
    [] ty[1] = "one"                   -> <<F("a", <<c>>), F("a", <<s>>)>>
    [] ty[1] = "through"               -> <<F("a", <<x, c>>), F("b", <<x>>), F("a", <<s, x>>)>>
    [] ty[1] = "reverse"               -> <<F("a", <<s, x>>), F("a", <<x, c>>)>>
    [] OTHER                           -> <<F("a", <<x, c>> \o TrailerText(ty[3])), F(ty[2], <<s, x>>)>>

ExpectOf == [ty \in Types |-> \A c \in Stmts, s \in Stmts, x \in Stmts : Independent(Render(ty, c, s, x))]
SameFamily(ty) == ty[1] # "pair" \/ ty[2] = "a"

Init == sh \in Shapes
Next == UNCHANGED sh

Dump == PrintT(<<"GL", ToJson([files |-> sh, type |-> TypeOf(sh), expect |-> ExpectOf[TypeOf(sh)]])>>)
\* tree as it is: every shape is expected independent
AllIndependent == ExpectOf[TypeOf(sh)]
\* Leak = {"nxt"}: every shape whose files share a family can expose it, the others cannot (no shared latent state)
Sensitive == ExpectOf[TypeOf(sh)] = ~SameFamily(TypeOf(sh))
=============================================================================
