CONSTANTS MaxLen = 24 MaxDepth = 4 Vals = {"v1", "v2", "v3"} OnlyWF = TRUE
INIT Init
NEXT Next
INVARIANT Dump
CHECK_DEADLOCK FALSE
