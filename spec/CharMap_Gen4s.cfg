\* generator: every history of exactly 4 statements over OpsStack (6 statements), default case mode (quick + thorough)
CONSTANTS Codes <- MCCodes
 FileTabs <- MCFileTabs
 Ops <- OpsStack
 MaxLen = 4
 CheckBackward = FALSE
 CaseModes = {FALSE}
 Dev = {}
 DevSourceChecked = TRUE
INIT Init
NEXT Next
CHECK_DEADLOCK FALSE
INVARIANTS Dump MachineIsFold
