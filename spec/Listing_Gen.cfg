CONSTANTS MaxStmts = 9 MaxLen = 13 Radices = {2, 8, 10, 16, 36}
INIT GInit
NEXT GNext
INVARIANT Dump
CHECK_DEADLOCK FALSE
