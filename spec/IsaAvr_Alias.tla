----------------------------- MODULE IsaAvr_Alias -----------------------------
(* Register symbols on the AVR (doc/assembler-usage.md "Register Symbols": valid for AVR).  One class: R0..R31. *)
(* The register fields of IsaAvr list exactly the registers the instruction takes (LDI: R16..R31, ADIW: R24,   *)
(* R26, R28, R30, MOVW: even registers, MULSU: R16..R23), so a symbol for any other register must be rejected   *)
(* (FieldsComplete).  SET is a machine instruction of the AVR: re-definable symbols are defined with EVAL         *)
(* (doc/pseudo-instructions.md).                                                                             *)
EXTENDS IsaAvr_Gen
CONSTANTS ScenMode
VARIABLES prog, sym, plan
RegClass(fld) == IF fld.k = "enum" THEN "r" ELSE ""
VarDef == "EVAL"
FieldsComplete == TRUE
Tab == INSTANCE IsaAliasTab
LitTab == Tab!MkLitTab
Lits == {LitTab[t].l : t \in 1..Len(LitTab)}
FldTab == Tab!MkFldTab
FormTab == Tab!MkFormTab
INSTANCE IsaAlias
ASSUME LitsSane
=============================================================================
