----------------------------- MODULE ALink_Trace -----------------------------
(* (V) Judging observed runs of the real alink: one JSON line {"id", "c": {"files": [bytes..]}, "obs": {"rc",   *)
(* "bytes", "undef", "dbl"}} per run; the inputs are the bytes the real alink read (written by TLC or produced *)
(* by the real asl), TLC decodes inputs and output itself (ALink!Verdict); one OUT line per case.               *)
EXTENDS ALink, Json, IOUtils
VARIABLE l
Cases == ndJsonDeserialize(IOEnv.CASES)
\* JSON arrays arrive as tuples; an empty array as an empty tuple
TInit == l = 1
TNext == /\ l <= Len(Cases)
         /\ PrintT(<<"OUT", ToJson([id |-> Cases[l].id] @@ Verdict(Cases[l].c, Cases[l].obs))>>)
         /\ l' = l + 1
TSpec == TInit /\ [][TNext]_l
AllJudged == TLCGet("stats").diameter - 1 = Len(Cases)
=============================================================================
