\* selection: -f x -segment x granularity 1/2 x 2 CPUs x 2 segments, <= 2 records
CONSTANTS
  Dev = {}
  MaxRecs = 2
  Starts = {0, 2}
  UnitLens = {0, 2}
  GranSet = {1, 2}
  EntryAddrs = {}
  Offsets = {}
  FillSet = {255}
  SumOpts = {FALSE}
  SegOpts = {1, 2}
  CpuSegs <- CS_Mixed
  Ranges <- R_Small
  LaneSet <- L_Sel
  FiltSet <- F_Mixed
  ESet <- E_None
  HdrSet <- H_None
SPECIFICATION Spec
INVARIANTS Conforms StepRunAgrees ChunkListOK WindowStable MeasureSound UsedIsCoverage
CHECK_DEADLOCK FALSE
