\* (M)+(G) 68000/MSP430 class with self-referencing padded statements, every program <= 3 items
CONSTANTS
  VarMode = "rel8"
  VarShort = 2
  VarLong = 4
  Padding = TRUE
  RelFpuOK = TRUE
  RefKinds = {"abs", "var", "rel"}
  Sects = {}
  Quals = {8}
  Alias = {}
  CaseSens = FALSE
  Pages = {}
  PageReset = TRUE
  SelfKinds = {"labs", "lvar", "lrel"}
  Labels = {"la", "lb"}
  MaxItems = 3
  Fills = {1}
  AbsWidths = {2}
  EquOffs = {}
  Orgs = {0}
  Fixed = TRUE
  ThrowErrors = FALSE
  ThrowMaxPass = 3
  WithExtra = TRUE
  AllowIllFormed = FALSE
  Complete = FALSE
SPECIFICATION GSpec
CHECK_DEADLOCK FALSE
INVARIANTS TypeOK Fixpoint ExtraPassIsStutter NoSpuriousError CleanMeansSolvable IllFormedRejected
PROPERTY Termination
ACTION_CONSTRAINT OnDone
