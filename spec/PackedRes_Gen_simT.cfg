CONSTANTS
  Places <- PlacesAll
  Elems = {4, 8, 16, 32, 64, 80}
  Kinds = {"res", "data"}
  Counts <- CountsWide
  MaxDepth = 3 MaxTok = 12 MaxStmts = 8 MaxDS = 3
  Dev = "emptygroup" Weight = 5
INIT GInit
NEXT GNext
INVARIANT Dump
CHECK_DEADLOCK FALSE
