---------------------------- MODULE Isa8080Z_Gen ----------------------------
(* Case generator over the 8080 / 8085 table in Z80 syntax (Isa8080Z.tla): Cpu = "8080:ZON" "8085:ZON" (Z80SYNTAX   *)
(* ON) "8080:ZEX" "8085:ZEX" (Z80SYNTAX EXCLUSIVE).  Table sanity as for Isa8080_Gen; in EXCLUSIVE mode the         *)
(* manufacturer's opcode count has to be reached with the Z80-style spellings alone.                                *)
EXTENDS Isa8080Z
CONSTANTS Cpu, K, Salt, Step
VARIABLES form, ops, pc
\* the derived table is computed ONCE, when TLC checks this assumption, and kept in TLC register 15 (FormsZ reaches the
\* Z80 table through an instance: TLC would re-evaluate it at every use)
ASSUME TLCSet(15, FormsZ)
INSTANCE IsaGen WITH Forms <- TLCGet(15)
ASSUME TableSane
ASSUME Cardinality(DefinedOpcodes(FormsOfCpu, UnitBits)) = DefinedCountZ(Cpu)
ASSUME ZAgrees
=============================================================================
