\* 32 option records x 9 counter states x 3 error numbers x 0..7 repetitions, counters as naturals
CONSTANTS Wrap = 0 MaxN = 7
SPECIFICATION Spec
INVARIANTS ClosedIsRepeat UserClosedIsRepeat OneLineOneCount WerrorCountsNoWarning ExpectConsumes
