\* (G) one link set at the real record limit of 65535 bytes
CONSTANTS MaxRecLenW = 65535
SPECIFICATION BigSpec
INVARIANTS BigSelf
CHECK_DEADLOCK FALSE
