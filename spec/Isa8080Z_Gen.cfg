\* default constants of the case generator over the 8080/8085 table in Z80 syntax (checks/c14.py writes per-run copies:
\* Cpu = "8080:ZON" "8085:ZON" "8080:ZEX" "8085:ZEX").  The whole finite case graph is explored (exhaustive).
CONSTANTS Cpu = "8085:ZEX" K = 3 Salt = 1 Step = 1
INIT Init
NEXT Next
INVARIANTS UnitsTyped DecodeInverts OutOfRangeIsError Dump
CHECK_DEADLOCK FALSE
