\* (M)+(G) 6809/65CE02 with ASSUME DPR/B: every program <= 4 items
CONSTANTS
  VarMode = "abs8"
  VarShort = 2
  VarLong = 3
  Padding = FALSE
  RelFpuOK = FALSE
  RefKinds = {"abs", "var", "rel"}
  Sects = {}
  Quals = {8}
  Alias = {}
  CaseSens = FALSE
  Pages = {0, 1}
  PageReset = TRUE
  SelfKinds = {}
  Labels = {"la", "lb"}
  MaxItems = 4
  Fills = {1}
  AbsWidths = {2}
  EquOffs = {}
  Orgs = {254}
  Fixed = TRUE
  ThrowErrors = FALSE
  ThrowMaxPass = 3
  WithExtra = TRUE
  AllowIllFormed = FALSE
  Complete = FALSE
SPECIFICATION GSpec
CHECK_DEADLOCK FALSE
INVARIANTS TypeOK Fixpoint ExtraPassIsStutter NoSpuriousError CleanMeansSolvable IllFormedRejected
PROPERTY Termination
ACTION_CONSTRAINT OnDone
