\* systematic opcode coverage images (Dasm_Cover.tla): one initial state per image, no steps
CONSTANTS IsaName = "4004" Cpu = "4004" MaxItems = 10 Orgs = {0, 256, 490} WithVectors = FALSE MaxEntries = 4
INIT CInit
NEXT CNext
INVARIANT CDump
