---------------------------- MODULE BodyCollect_MC ----------------------------
(* (M) every statement sequence up to MaxLen over the collector-relevant alphabet: the wrapper's body ends  *)
(* at the wrapper's ENDM exactly when the wrapped text is balanced for the collector; and (G) the construct  *)
(* trees (one and two levels deep, IRPN with 1..3 parameters) with their expansion, printed for the replay.  *)
EXTENDS BodyCollect, TLC, Json
CONSTANTS MaxLen, Emit
VARIABLES ops, tree
vars == <<ops, tree>>

Alphabet == {"MACRO", "IRP", "IRPN", "IRPC", "REPT", "WHILE", "ENDM", "ENDR", "IF", "ENDIF", "SECTION", "ENDSECTION", "DB"}

Kinds == {"REPT", "IRP", "IRPN", "IRPC", "WHILE", "MACRO", "IF", "SECTION"}
\* parameterised kinds emit their parameter(s) in the body; others a constant
Inner(k, n, body) == [k |-> k, n |-> n,
                      args |-> CASE k = "IRP" -> <<11, 12, 13>> [] k = "IRPC" -> <<1, 2>> [] k = "IRPN" -> <<21, 22, 23, 24, 25, 26>> [] OTHER -> <<>>,
                      body |-> body]
ParamLeaves(k, n) == CASE k \in {"IRP", "IRPC"} -> <<Leaf(-1)>>
                       [] k = "IRPN" -> [j \in 1..n |-> Leaf(-j)]
                       [] OTHER -> <<>>
Ns(k) == CASE k \in {"REPT", "WHILE"} -> {2} [] k = "IRPN" -> {1, 2, 3} [] k = "IF" -> {0, 1} [] OTHER -> {0}
Level1 == {Inner(k, n, ParamLeaves(k, n) \o <<Leaf(7)>>) : k \in Kinds, n \in UNION {Ns(kk) : kk \in Kinds}} 
Depth1 == {t \in Level1 : t.n \in Ns(t.k)}
Depth2 == {Inner(k, n, ParamLeaves(k, n) \o <<Leaf(5), t2, Leaf(6)>>) : k \in Kinds, n \in {1, 2, 3, 0}, t2 \in Depth1}
Repeats == {"REPT", "IRP", "IRPN", "IRPC", "WHILE"}
\* (a macro or section defined inside a repeated body would be defined once per repetition: not a valid program)
Trees == {<<Leaf(1), t, Leaf(2)>> : t \in Depth1 \cup {t2 \in Depth2 : t2.n \in Ns(t2.k) /\ ~(t2.k \in Repeats /\ t2.body[Len(t2.body) - 1].k \in {"MACRO", "SECTION"})}}

RECURSIVE SeqsUpTo(_, _)
SeqsUpTo(S, n) == IF n = 0 THEN {<<>>} ELSE LET R == SeqsUpTo(S, n - 1) IN R \cup {Append(r, x) : r \in {r \in R : Len(r) = n - 1}, x \in S}

Init == (ops \in SeqsUpTo(Alphabet, MaxLen) /\ tree = <<>>) \/ (ops = <<>> /\ tree \in Trees)
Next == FALSE /\ UNCHANGED vars

\* the precondition of the wrap is exactly what the collector needs
WrapPrecondition == CollectorBalanced(ops) <=> WrapperCollectsExactly(ops)
\* every generated program is wrappable, and its own constructs end where the grammar says
TreesWrappable == tree # <<>> => Wrappable(ProgramOps(tree)) /\ WrapperCollectsExactly(ProgramOps(tree))
Dump == (Emit /\ tree # <<>>) => PrintT(<<"OUT", ToJson([kind |-> "tree", tree |-> tree, bytes |-> Expand(tree), ops |-> ProgramOps(tree)])>>)
=============================================================================
