CONSTANTS ResetRule = "any" MaxMids = 2 Pairs = TRUE
SPECIFICATION Spec
INVARIANTS Final Sane
CHECK_DEADLOCK FALSE
