\* thorough: every history of <= 3 statements over OpsQuick
CONSTANTS Codes <- MCCodes
 FileTabs <- MCFileTabs
 Ops <- OpsQuick
 MaxLen = 3
 CheckBackward = FALSE
 CaseModes = {FALSE, TRUE}
 Dev = {}
 DevSourceChecked = TRUE
INIT Init
NEXT Next
CHECK_DEADLOCK FALSE
INVARIANTS MachineIsFold FoldIsFold WellFormed RestoreReestablishes CopyAtCreation OnlyActiveWritten ErrorsInert BackwardIsFold
