\* window clipping x byte lanes x overlap of two records, one granularity: <= 2 records, all 9 lanes, 6 forms of -r
CONSTANTS
  Dev = {}
  MaxRecs = 2
  Starts = {0, 1, 2, 3, 5}
  UnitLens = {0, 1, 2, 4}
  GranSet = {1}
  EntryAddrs = {}
  Offsets = {}
  FillSet = {255}
  SumOpts = {FALSE}
  SegOpts = {1}
  CpuSegs <- CS_One
  Ranges <- R_Window
  LaneSet <- AllLanes
  FiltSet <- F_None
  ESet <- E_None
  HdrSet <- H_None
SPECIFICATION Spec
INVARIANTS Conforms StepRunAgrees ChunkListOK WindowStable MeasureSound UsedIsCoverage
CHECK_DEADLOCK FALSE
