\* default constants of the case generator with the history dimension (checks/c14.py writes per-run copies, see
\* IsaMsp430_Gen.cfg).  HDump prints every leaf with its context statement after checking CtxSaneWith / ContextFreeWith.
CONSTANTS Cpu = "MSP430:sample" K = 3 Salt = 1 Step = 2
INIT Init
NEXT Next
INVARIANTS UnitsTyped DecodeInverts OutOfRangeIsError HDump
CHECK_DEADLOCK FALSE
