CONSTANTS
  Places <- PlacesSeg
  Elems = {4, 8, 16}
  Kinds = {"res"}
  Counts <- CountsSeg
  MaxDepth = 1 MaxTok = 3 MaxStmts = 3 MaxDS = 1
  Dev = "none"
INIT Init
NEXT Next
INVARIANTS PackedIsFlat LastInUnit AdvanceIsCeil CountersAreFlat DeadLaysNothing
CHECK_DEADLOCK FALSE
