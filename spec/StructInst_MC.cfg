\* 6
CONSTANTS MaxLen = 4 MaxDepth = 2 MaxInst = 2 MaxDefs = 2 SubNames = {"N"} Sizes = {1, 2}
          EndForms = "all" Moves = TRUE Errors = TRUE Strict = FALSE FixAnon = FALSE Segs = {"code", "data"} StructSeg = "struct"
CONSTANTS OptSets <- Opt_dots SubOptSets <- Opt_plain DimSets <- Dim_arr
SPECIFICATION Spec
INVARIANTS Shape FieldIsOffset SubIsOffset LenIsSize TotIsStructLen DefinitionIsPromise InstanceIsPromise InstanceOccupiesLen
           InstanceInBody BodyEmitsNothing RefusedChangesNothing SymbolsSingleValued
CHECK_DEADLOCK FALSE
