----------------------------- MODULE IsaPic16_Gen -----------------------------
EXTENDS IsaPic16
CONSTANTS Cpu, K, Salt, Step
VARIABLES form, ops, pc
AddrMax == AddrMaxOf(Cpu)
INSTANCE IsaGen
ASSUME TableSane
ASSUME Cardinality(DefinedOpcodes(FormsOfCpu, UnitBits)) = DefinedCount(Cpu)
=============================================================================
