---------------------------- MODULE Symbols_MC ----------------------------
(* Exhaustive check of the design: every program text up to MaxLen statements over the alphabet of a    *)
(* focus area, for the machine of the pinned tree (devs = PINNED) and the repaired one (devs = {}).      *)
(* State = the text so far + the machine state of pass 1 after it.  Every invariant is                  *)
(* evaluated on the completed text (open macro expansions and sections closed).                        *)
EXTENDS Symbols
CONSTANTS MaxLen, MaxDepth, Focus, CaseModes, DevSets,
          CheckConst    \* TRUE: demand "a constant never changes" also of the machine of the pinned tree

VARIABLES prog, cs, s
vars == <<prog, cs, s>>

Val(i) == 4096 + 16 * i

SymSp == IF Focus = "case" THEN {"sym", "Sym"} ELSE {"sym"}
SecSp == IF Focus = "case" THEN {"aa", "Aa"} ELSE IF Focus = "scope2" THEN {"aa", "bb"} ELSE {"aa"}
Quals == {NoQ, QGlob, QParent(0), QParent(1), QParent(2)} \cup {QName(n) : n \in SecSp}
PPQuals == {NoQ, QParent(1), QParent(2)} \cup {QName(n) : n \in SecSp}

Alphabet(i) ==
  CASE Focus \in {"scope", "scope2", "case"} ->
         {[k |-> "SECTION", n |-> n] : n \in SecSp}
         \cup {[k |-> "ENDSECTION", n |-> n] : n \in (IF Focus = "scope" THEN {"", "aa"} ELSE {""})}
         \cup {[k |-> "DEF", nm |-> N(w), kind |-> kd, v |-> Val(i)] : w \in SymSp,
                     kd \in (IF Focus = "scope" THEN {"equ", "set", "label"} ELSE {"equ"})}
         \cup {[k |-> "REF", nm |-> N(w), q |-> q] : w \in SymSp, q \in (IF Focus = "case" THEN {NoQ, QName("aa")} ELSE Quals)}
         \cup (IF Focus = "case" THEN {}
               ELSE {[k |-> kk, nm |-> N("sym"), q |-> q] : kk \in {"FORWARD", "PUBLIC", "GLOBAL"}, q \in PPQuals}
                    \cup {[k |-> "REF", nm |-> NP(<<"aa", "sym">>), q |-> NoQ]}
                    \* argument lists: a further argument of the FORWARD/PUBLIC/GLOBAL statement before it (with one
                    \* symbol name this is the list that names a symbol again: the later destination counts)
                    \cup (IF Focus = "scope2"
                          THEN {[k |-> kk, nm |-> N("sym"), q |-> q, cont |-> TRUE] : kk \in PPKinds, q \in PPQuals}
                          ELSE {}))
    [] Focus = "temp" ->
         {[k |-> "TDEF", t |-> t] : t \in {"-", "+", "/"}}
         \cup {[k |-> "TREF", t |-> t, c |-> c] : t \in {"-", "+"}, c \in 1..(LOCSYMSIGHT + 1)}
         \cup {[k |-> "DEF", nm |-> N("sym"), kind |-> "set", v |-> Val(i)],
               [k |-> "DEF", nm |-> N("foo"), kind |-> "label", v |-> Val(i)],
               [k |-> "DEF", nm |-> DD("lp"), kind |-> "label", v |-> Val(i)],
               [k |-> "DEF", nm |-> Dot("lp"), kind |-> "equ", v |-> Val(i)],
               [k |-> "REF", nm |-> DD("lp"), q |-> NoQ], [k |-> "REF", nm |-> Dot("lp"), q |-> NoQ],
               [k |-> "REF", nm |-> Full("foo", "lp"), q |-> NoQ]}
    [] Focus = "stack" ->
         {[k |-> "DEF", nm |-> N(w), kind |-> kd, v |-> Val(i)] : w \in {"sym", "foo"}, kd \in {"set", "equ"}}
         \cup {[k |-> kk, st |-> st, nm |-> N(w), q |-> NoQ] : kk \in {"PUSHV", "POPV"}, st \in {"", "st"}, w \in {"sym", "foo"}}
         \cup {[k |-> "REF", nm |-> N(w), q |-> NoQ] : w \in {"sym", "foo"}}
    [] OTHER -> \* "macro": macro-local labels against sections
         {[k |-> "MACBEGIN"], [k |-> "MACEND"], [k |-> "SECTION", n |-> "aa"], [k |-> "ENDSECTION", n |-> ""],
          [k |-> "DEF", nm |-> N("sym"), kind |-> "label", v |-> Val(i)],
          [k |-> "DEF", nm |-> N("sym"), kind |-> "equ", v |-> Val(i)],
          [k |-> "REF", nm |-> N("sym"), q |-> NoQ], [k |-> "REF", nm |-> N("sym"), q |-> QGlob],
          [k |-> "TDEF", t |-> "-"], [k |-> "TREF", t |-> "-", c |-> 1]}

Init == prog = <<>> /\ cs \in CaseModes /\ \E D \in DevSets : s = InitS(cs, D)

Next == /\ Len(prog) < MaxLen
        /\ \E st \in Alphabet(Len(prog) + 1) :
             /\ st.k = "SECTION" => Len(s.stk) < MaxDepth
             /\ st.k = "MACBEGIN" => Len(s.mtags) < 2
             /\ st.k = "MACEND" => Len(s.mtags) > 0
             /\ Cont(st) => prog # <<>> /\ prog[Len(prog)].k = st.k
             /\ prog' = Append(prog, st)
             /\ s' = Step(s, st)
             /\ cs' = cs

Spec == Init /\ [][Next]_vars

\* the completed text
Closed(p) ==
  LET nm == Levels(p, "MACBEGIN", "MACEND")[Len(p) + 1]
      ns == Levels(p, "SECTION", "ENDSECTION")[Len(p) + 1]
  IN p \o [i \in 1..nm |-> [k |-> "MACEND"]] \o [i \in 1..ns |-> [k |-> "ENDSECTION", n |-> ""]]

\* texts on which the configured machine is known to deviate from the manual (named deviations of Symbols.tla)
DevFree(p) ==
  LET A == Analyse(cs, p)
      D == Deviations(A, Entries(A))
  IN D \cap s.devs = {}

\* ---- the property ------------------------------------------------------------------------------------
\* the machine (all passes) and the manual agree: errors, and every word the manual is definite about
LookupAgreesWithManual ==
  LET p == Closed(prog)
      X == Expect(cs, p)
      R == RunAll(cs, s.devs, p)
  IN (~X.silent /\ DevFree(p)) =>
       /\ X.err => R.errs > 0
       /\ R.errs > 0 => X.err \/ X.mayErr
       /\ R.errs = 0 => /\ Len(R.out) = Len(X.words)
                    /\ \A k \in 1..Len(X.words) : X.words[k].definite => R.out[k].v = X.words[k].v

\* a further pass never changes what the manual is definite about, and resolves everything from the complete table
ExtraPassAgrees ==
  LET p == Closed(prog)
      X == Expect(cs, p)
      R == RunExtra(cs, s.devs, p)
  IN (~X.silent /\ DevFree(p) /\ ~X.err /\ ~X.mayErr) =>
       /\ R.errs = 0 /\ ~R.repass
       /\ \A k \in 1..Len(X.words) : X.words[k].definite => R.out[k].v = X.words[k].v

\* the pass loop needs at most two passes for these programs
\* (the pinned machine does not converge at all after a POPV into a constant: the next pass re-defines the constant
\* with its own value, sees a difference and asks for another pass - part of the popv_const deviation)
ConvergesInTwo == LET p == Closed(prog) R == RunAll(cs, s.devs, p) IN DevFree(p) => (R.errs > 0 \/ (~R.repass /\ R.pass <= 2))
\* a stack exists exactly as long as it holds a value
StacksNonEmpty == \A sn \in DOMAIN s.stacks : s.stacks[sn] # <<>>

\* the section stack mirrors the nesting of the text (while no structural error happened)
StackMirrorsText ==
  LET A == Analyse(cs, prog) IN
  s.errs = 0 => /\ Len(s.stk) = A.slev[Len(prog) + 1]
                /\ Len(s.mtags) = A.mlev[Len(prog) + 1]
                /\ (s.mom = GLOB) = (s.stk = <<>>)

\* an EQU constant / label can never change within a pass (action property)
ConstStep == (CheckConst \/ "popv_const" \notin s.devs) =>
             \A key \in DOMAIN s.tab : (s.tab[key].def /\ ~s.tab[key].chg) =>
                 (s'.tab[key].val = s.tab[key].val /\ s'.tab[key].def /\ ~s'.tab[key].chg)
ConstNeverChanges == [][ConstStep]_vars
\* a definition of an existing constant is an error; mixing is an error
RedefIsError == [][\A key \in DOMAIN s.tab :
                      (s.tab[key].def /\ \E o \in 1..Len(s'.obs) : s'.obs[o].e = "def" /\ s'.obs[o].tree = "tab" /\ s'.obs[o].name = key[1]
                                                                    /\ s'.obs[o].sect = key[2]
                                                                    /\ (~s.tab[key].chg \/ ~s'.obs[o].chg))
                      => s'.errs > s.errs]_vars
=============================================================================
