\* default constants of the case generator (checks/c14.py writes per-run copies: Cpu = each CPU variant,
\* K = 3 quick / 8 thorough = branch distances enumerated around both displacement limits, Salt = seed-derived
\* number selecting the interior representatives).  The whole finite case graph is explored (exhaustive).
CONSTANTS Cpu = "16C84" K = 3 Salt = 1 Step = 1
INIT Init
NEXT Next
INVARIANTS UnitsTyped DecodeInverts OutOfRangeIsError Dump
CHECK_DEADLOCK FALSE
