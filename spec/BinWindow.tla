------------------------------ MODULE BinWindow ------------------------------
(***************************************************************************)
(* BINCLUDE windows:  BINCLUDE file[,offset[,length]]                      *)
(* (doc/pseudo-instructions.md "BINCLUDE", doc/error-messages.md 1600;     *)
(* asmallg.c CodeBINCLUDE).  Extends the BINCLUDE part of MacroProc        *)
(* (BinWindow / BinOK: the window of a VALID statement, used by the hand   *)
(* expansion of C11) to the whole argument space: omitted / zero /         *)
(* negative / too large offsets and lengths, the position of the statement *)
(* (address 0 or not), files longer than the 256-byte read buffer, and     *)
(* targets whose address unit is wider than a byte.                        *)
(*                                                                         *)
(* Code side (Coded): the statement as CodeBINCLUDE computes it -           *)
(*   Ofs is a LongWord: a negative offset is 2^32 + offset (the seek goes  *)
(*     far behind the end); Len is a LongInt, -1 = "not given";            *)
(*   Len == -1: Len = FSize - Ofs in unsigned arithmetic read back signed; *)
(*     negative -> error 1600, nothing included;                           *)
(*   ChkPC(EProgCounter() + Len - 1) on LargeWord: for Len = 0 at address  *)
(*     0 the argument wraps to 2^64-1 -> "address overflow" (named         *)
(*     deviation EmptyWindowAtZero; Produce_Code guards the same test with *)
(*     CodeLen != 0);                                                      *)
(*   the read loop: chunks of <= 256 bytes, CodeLen = bytes read (one      *)
(*     ADDRESS UNIT per byte, whatever the granularity), WriteBytes per    *)
(*     chunk, until Rest = 0 or a chunk comes back short -> error 1600.    *)
(*   On a target with Granularity() = g > 1 WriteBytes() stores            *)
(*     CodeLen * g bytes of the buffer per chunk: the bytes read, followed *)
(*     by (g-1) * CodeLen bytes that BINCLUDE never wrote (UNDEF below).   *)
(* Declarative side (Decl): what the manual promises -                      *)
(*   file completely / from offset up to the end / length bytes from       *)
(*   offset: the bytes laid down are file[offset, offset+length) and the   *)
(*   program counter advances by that many; "It was tried to read past the *)
(*   end of a file with a BINCLUDE statement" = error 1600.  The manual is *)
(*   silent about negative arguments, about an empty window behind the end *)
(*   and about targets with wider address units: indef.                    *)
(***************************************************************************)
EXTENDS Integers, Sequences, FiniteSets, TLC

CONSTANTS Fixed                 \* repaired deviations ({} = the code as it is)

MP == INSTANCE MacroProc WITH Fixed <- {}, HasAttrs <- FALSE, MaxNum <- 2000
\* the file generator of the C11 replay (MacroProg.BinFile): byte i (1-based) of every file
FileByte(i) == (i * 7 + 3) % 256
File(n) == [i \in 1..n |-> FileByte(i)]

Arg(v) == [given |-> TRUE, v |-> v]
NoArg == [given |-> FALSE, v |-> 0]
HUGE == 1073741824              \* stands for 2^32 - k / 2^64 - k: larger than every file and every address
UNDEF == -1                     \* a byte of the code file BINCLUDE did not write
Min2(a, b) == IF a < b THEN a ELSE b
Chunk == 256

RECURSIVE SumSeq(_)
SumSeq(q) == IF q = <<>> THEN 0 ELSE q[1] + SumSeq(Tail(q))
Res(err, bytes, adv, recs) == [err |-> err, bytes |-> bytes, adv |-> adv, recs |-> recs]
Fail(e) == Res(e, <<>>, 0, <<>>)

\* the do-while loop: rest = Rest, avail = bytes between the file position and the end, pos = file position
RECURSIVE ReadLoop(_, _, _, _, _)
ReadLoop(rest, avail, pos, got, recs) ==
  LET curr == Min2(rest, Chunk)
      rlen == Min2(curr, avail)
      got2 == got \o [i \in 1..rlen |-> FileByte(pos + i)]
      recs2 == Append(recs, rlen)
      rest2 == rest - rlen
  IN IF rest2 # 0 /\ rlen = curr THEN ReadLoop(rest2, avail - rlen, pos + rlen, got2, recs2)
     ELSE [rest |-> rest2, got |-> got2, recs |-> recs2]

Coded(n, ofsA, lenA, pc, limit) ==
  LET neg  == ofsA.given /\ ofsA.v < 0                 \* (LongWord)offset >= 2^31
      ofs  == IF ofsA.given THEN ofsA.v ELSE 0
      len0 == IF lenA.given THEN lenA.v ELSE -1
      rest == n - ofs                                  \* FSize - Ofs (mod 2^32, signed): exact for the small values here
  IN IF len0 = -1 /\ rest < 0 THEN Fail("ShortRead")
     ELSE LET len == IF len0 = -1 THEN rest ELSE len0
              top == pc + len - 1                      \* LargeWord: a negative value is 2^64 - k
          IN IF (top < 0 \/ top > limit) /\ ~(len = 0 /\ "EmptyWindowAtZero" \in Fixed) THEN Fail("AdrOverflow")
             ELSE LET avail == IF neg \/ ofs > n THEN 0 ELSE n - ofs
                      r == ReadLoop(IF len < 0 THEN HUGE ELSE len, avail, ofs, <<>>, <<>>)
                  IN IF r.rest # 0 THEN Fail("ShortRead") ELSE Res("none", r.got, Len(r.got), r.recs)
Deviates(n, ofsA, lenA, pc) ==       \* EmptyWindowAtZero fires
  "EmptyWindowAtZero" \notin Fixed /\ pc = 0
  /\ LET ofs == IF ofsA.given THEN ofsA.v ELSE 0 IN (lenA.given /\ lenA.v = 0) \/ ((~lenA.given \/ lenA.v = -1) /\ n - ofs = 0)

\* code-file bytes of the statement on a target with granularity g: per chunk the bytes read, then (g-1)*rlen unwritten
RECURSIVE Stored(_, _, _)
Stored(bytes, recs, g) ==
  IF recs = <<>> THEN <<>>
  ELSE SubSeq(bytes, 1, recs[1]) \o [i \in 1..((g - 1) * recs[1]) |-> UNDEF] \o Stored(SubSeq(bytes, recs[1] + 1, Len(bytes)), Tail(recs), g)

(***************************************************************************)
(* Declarative side.                                                       *)
(***************************************************************************)
Decl(n, ofsA, lenA) ==
  LET ofs == IF ofsA.given THEN ofsA.v ELSE 0
      len == IF lenA.given THEN lenA.v ELSE n - ofs
  IN IF ofs < 0 \/ (lenA.given /\ len < 0) THEN [indef |-> TRUE, err |-> "none", bytes |-> <<>>, adv |-> 0]
     ELSE IF ofs + len <= n /\ len >= 0 THEN [indef |-> FALSE, err |-> "none", bytes |-> [i \in 1..len |-> FileByte(ofs + i)], adv |-> len]
     ELSE IF lenA.given /\ len = 0 THEN [indef |-> TRUE, err |-> "none", bytes |-> <<>>, adv |-> 0]     \* nothing is read behind the end
     ELSE [indef |-> FALSE, err |-> "ShortRead", bytes |-> <<>>, adv |-> 0]

\* consistency with the window of MacroProc (C11 hand expansion) wherever that one is defined
ExtendsMacroProc(n, ofsA, lenA) ==
  LET o == IF ofsA.given THEN ofsA.v ELSE 0
      l == IF lenA.given THEN lenA.v ELSE -1
      d == Decl(n, ofsA, lenA)
  IN (o >= 0 /\ l >= -1 /\ MP!BinOK(File(n), o, l)) =>
        (lenA.given /\ l = -1) \/ (~d.indef /\ d.err = "none" /\ d.bytes = MP!BinWindow(File(n), o, l))

(***************************************************************************)
(* The case grid.                                                          *)
(***************************************************************************)
Sizes == {0, 1, 6, 255, 256, 257, 600, 1030}
Offsets(n) == {NoArg} \cup {Arg(v) : v \in {0, 1, n - 1, n, n + 1, -1, 256} \cap (-1..(n + 1))}
Lengths(n, o) == {NoArg} \cup {Arg(v) : v \in {0, 1, 2, n - o - 1, n - o, n - o + 1, n, 255, 256, 257, 513, -1, -2} \cap (-2..(n + 1))}
GridOf(n) == UNION {{[n |-> n, ofs |-> o, len |-> l, pc |-> pc] :
                       l \in (IF o.given THEN Lengths(n, IF o.v < 0 THEN 0 ELSE o.v) ELSE {NoArg}), pc \in {0, 1}} : o \in Offsets(n)}
Grid == UNION {GridOf(n) : n \in Sizes}

Limit == 65535                                           \* SegLimits[SegCode] of the replay targets
CodedOf(c) == Coded(c.n, c.ofs, c.len, c.pc, Limit)
DeclOf(c) == Decl(c.n, c.ofs, c.len)

\* operator = declarative wherever the manual is definite, except the named deviation
Agrees(c) ==
  LET m == CodedOf(c)   d == DeclOf(c) IN
  (~d.indef /\ ~Deviates(c.n, c.ofs, c.len, c.pc)) => (m.err = d.err /\ m.bytes = d.bytes /\ m.adv = d.adv)
DeviationIsTheOnlyOne(c) ==
  LET m == CodedOf(c)   d == DeclOf(c) IN
  Deviates(c.n, c.ofs, c.len, c.pc) => (~d.indef => (d.err = "none" /\ d.adv = 0 /\ m.err = "AdrOverflow"))
FixedHasNoDeviation(c) == "EmptyWindowAtZero" \in Fixed => ~Deviates(c.n, c.ofs, c.len, c.pc)
\* the chunks partition the window; no chunk is longer than the buffer
ChunksOK(c) == LET m == CodedOf(c) IN
  m.err = "none" => /\ \A i \in 1..Len(m.recs) : m.recs[i] \in 0..Chunk
                    /\ m.adv = SumSeq(m.recs)
                    /\ \A i \in 1..(Len(m.recs) - 1) : m.recs[i] = Chunk

VARIABLE case
Init == case \in Grid
Next == UNCHANGED case
InvAgrees == Agrees(case)
InvDeviation == DeviationIsTheOnlyOne(case) /\ FixedHasNoDeviation(case)
InvExtends == ExtendsMacroProc(case.n, case.ofs, case.len)
InvChunks == ChunksOK(case)
NoDeviation == ~Deviates(case.n, case.ofs, case.len, case.pc)       \* refuted by TLC while the deviation is in the code
=============================================================================
