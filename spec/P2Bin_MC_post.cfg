\* post-processing: -S L1..L4/B1..B4 x -e x entry records x -s (fill value 0), <= 2 items
CONSTANTS
  Dev = {}
  MaxRecs = 2
  Starts = {0, 2}
  UnitLens = {1, 3}
  GranSet = {1}
  EntryAddrs = {305419896}
  Offsets = {}
  FillSet = {0}
  SumOpts = {TRUE, FALSE}
  SegOpts = {1}
  CpuSegs <- CS_One
  Ranges <- R_Post
  LaneSet <- L_Sel
  FiltSet <- F_None
  ESet <- E_Mixed
  HdrSet <- H_All
SPECIFICATION Spec
INVARIANTS Conforms StepRunAgrees ChunkListOK WindowStable MeasureSound UsedIsCoverage
CHECK_DEADLOCK FALSE
