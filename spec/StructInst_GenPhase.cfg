\* one definition, then instances between PHASE / DEPHASE / ORG / SEGMENT / data statements
CONSTANTS MaxLen = 11 MaxDepth = 2 MaxInst = 3 MaxDefs = 1 SubNames = {"N"} Sizes = {1, 2, 3} MinInst = 2 MinPhased = 1
          EndForms = "plain" Moves = TRUE Errors = FALSE Strict = FALSE Segs = {"code", "data"} StructSeg = "struct"
CONSTANTS OptSets <- Opt_dots SubOptSets <- Opt_plain DimSets <- Dim_arr2
CONSTANT FixAnon <- FixAnonEnv
INIT GInit
NEXT GNext
INVARIANT Dump
CHECK_DEADLOCK FALSE
