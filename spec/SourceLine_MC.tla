---------------------------- MODULE SourceLine_MC ----------------------------
(* (M) For every parameter set of the code generators, every abstract line over the token alphabet      *)
(* (<= MaxArgs parameters, i.e. up to MaxArgs + 3 fields) and EVERY rendering choice the manual allows: *)
(*        Norm(Split(ReadLine(Render(L, c)))) = Norm(L)                                                 *)
(* One TLC state per (parameter set, line, choice); the choice is taken in the Next step so that the    *)
(* workers share the enumeration.                                                                       *)
EXTENDS SourceLine, TLC
CONSTANTS MaxArgs,        \* number of parameters per line
          Rich,           \* TRUE: all tokens / all blank patterns; FALSE: the quick subset
          Product         \* TRUE: full product of the rendering dimensions; FALSE: groups of dimensions around the canonical spelling

VARIABLES P, L, c
vars == <<P, L, c>>

------------------------------------------------------------------------------------------------------
(* parameter sets as the SwitchTo_*() functions install them                                           *)
PDefault == [name |-> "default", div |-> <<COMMA>>, attrchars |-> <<>>, hasattrs |-> FALSE, cmt |-> << <<SEMI>> >>, qq |-> QQ_NONE]
PAttr    == [PDefault EXCEPT !.name = "attr.", !.attrchars = <<DOT>>, !.hasattrs = TRUE]              \* 68k, ...
PAttr2   == [PDefault EXCEPT !.name = "attr.:", !.attrchars = <<DOT, COLON>>, !.hasattrs = TRUE]      \* H8/500, M16(C), TLCS-9000
PZ80     == [PDefault EXCEPT !.name = "z80", !.qq = QQ_Z80]
PSQ      == [PDefault EXCEPT !.name = "sqconst", !.qq = QQ_SQCONST, !.attrchars = <<DOT>>, !.hasattrs = TRUE]  \* H8/300, NS32K, SC/MP
PPdk     == [PDefault EXCEPT !.name = "pdk", !.cmt = << <<SEMI>>, <<47, 47>> >>]                       \* ; and //
P56k     == [PDefault EXCEPT !.name = "56k", !.div = <<SPC>>]                                          \* pinned: " \009" = blank, NUL, '9'
P56kTab  == [PDefault EXCEPT !.name = "56k-fixed", !.div = <<SPC, TAB>>]                               \* intended: " \t"
PZ80X    == [PDefault EXCEPT !.name = "z80-fixed", !.qq = QQ_Z80X]
P75K0    == [PDefault EXCEPT !.name = "75k0-fixed", !.qq = QQ_75K0]
ParamSets == {PDefault, PAttr, PAttr2, PZ80, PZ80X, P75K0, PSQ, PPdk, P56k, P56kTab}

(* token alphabet (character codes)                                                                    *)
T_ID   == <<97, 98>>                              \* ab
T_ID2  == <<88, 121, 49>>                         \* Xy1
T_NUM  == <<49, 50>>                              \* 12
T_STR  == <<34, 97, 59, 44, 58, 32, 98, 34>>      \* "a;,: b"
T_CHR  == <<39, 59, 39>>                          \* ';'
T_PAR  == <<40, 97, 44, 98, 41>>                  \* (a,b)
T_ESC  == <<34, 113, 92, 34, 114, 59, 34>>        \* "q\"r;"
T_BRK  == <<91, 120, 44, 121, 93>>                \* [x,y]
T_EXPR == <<97, 43, 40, 98, 32, 44, 32, 50, 41>>  \* a+(b , 2)
T_CHR2 == <<39, 44, 39>>                          \* ','
T_AFQ  == <<97, 102, 39>>                         \* af'      (Z80 only: no quote)
T_AQ   == <<97, 39>>                              \* a'       (Z380 EX A,A')
T_XAQ  == <<120, 97, 39>>                         \* xa'      (75K0 shadow pair)
T_HQ   == <<104, 39, 49, 102>>                    \* h'1f     (single-quote constants only)
T_XQ   == <<120, 39, 49, 102, 39>>                \* x'1f'
T_EMPTY == <<>>

Tokens(p) ==
  (IF Product THEN {T_ID2, T_STR}                          \* full product of the choices: small alphabet
   ELSE IF Rich THEN {T_ID, T_ID2, T_NUM, T_STR, T_CHR, T_PAR, T_ESC, T_BRK, T_EXPR, T_CHR2, T_EMPTY}
   ELSE {T_ID2, T_STR, T_ESC, T_EXPR})
  \cup (IF p.qq = QQ_Z80 THEN {T_AFQ} ELSE {})
  \cup (IF p.qq = QQ_Z80X THEN {T_AFQ, T_AQ} ELSE {})
  \cup (IF p.qq = QQ_75K0 THEN {T_XAQ} ELSE {})
  \cup (IF p.qq = QQ_SQCONST THEN {T_HQ, T_XQ} ELSE {})

Labs == {<<>>, <<76, 95, 49>>}                       \* none, L_1
Ops  == {<<109, 79, 118>>}                           \* mOv
Attrs(p) == IF p.hasattrs THEN {<<>>, <<98>>} \cup (IF COLON \in {p.attrchars[k] : k \in 1..Len(p.attrchars)} THEN {<<119, 58, 103>>} ELSE {}) ELSE {<<>>}

RECURSIVE SeqsUpTo(_, _)
SeqsUpTo(S, n) == IF n = 0 THEN {<<>>} ELSE LET R == SeqsUpTo(S, n - 1) IN R \cup {Append(r, x) : r \in {r \in R : Len(r) = n - 1}, x \in S}

\* an empty parameter is only expressible between dividers: "a,,b"; a trailing empty one ("a,") too, a lone one not
ArgLists(p) == {a \in SeqsUpTo(Tokens(p), MaxArgs) : Len(a) = 1 => a[1] # <<>>}
Lines(p) == {[lab |-> l, op |-> o, attr |-> a, args |-> g] : l \in Labs, o \in Ops, a \in Attrs(p), g \in ArgLists(p)}

(* rendering choices                                                                                   *)
WS1 == IF Rich THEN {<<SPC>>, <<TAB>>, <<SPC, SPC, TAB>>} ELSE {<<SPC>>, <<TAB>>}             \* at least one blank
WS0 == {<<>>} \cup WS1
Cmts(p) == {<<>>, <<SEMI, 99>>, <<SEMI, 32, 120, 44, 121, 58, 122, 32, 34, 113>>}           \* none  ;c  ; x,y:z "q
           \cup (IF Len(p.cmt) > 1 THEN {<<47, 47, 99, 34>>} ELSE {})                           \* //c"
Eols == {<<>>, <<LF>>, <<CR, LF>>}
Choices(p, l) ==
  {[lform |-> lf, lead |-> ld, sep1 |-> s1, sep2 |-> s2, pre |-> pr, post |-> po, dtab |-> dt, trail |-> tr, cmt |-> cm,
    eol |-> eo, case |-> ca] :
     lf \in (IF l.lab = <<>> THEN {"none"} ELSE {"col1", "col1colon", "indcolon"}),
     ld \in (IF l.lab = <<>> THEN WS1 ELSE {<<SPC>>}),
     s1 \in (IF l.lab = <<>> THEN {<<>>} ELSE WS0), s2 \in (IF l.args = <<>> THEN {<<SPC>>} ELSE WS1),
     pr \in (IF Len(l.args) < 2 THEN {<<>>} ELSE {<<>>, <<SPC>>, <<TAB>>}), po \in (IF Len(l.args) < 2 THEN {<<>>} ELSE WS0),
     dt \in (IF p.div[1] = SPC /\ Len(l.args) > 1 THEN BOOLEAN ELSE {FALSE}),
     tr \in {<<>>, <<TAB>>}, cm \in Cmts(p), eo \in Eols, ca \in (IF Product THEN {"keep", "alt"} ELSE {"keep", "upper", "lower", "swap", "alt"})}

\* what the manual requires of a spelling (everything else is free):
Allowed(p, l, ch) ==
  /\ (ch.lform \in {"col1", "indcolon"}) => ch.sep1 # <<>>      \* blank between label and mnemonic
  \* an empty last parameter needs its divider, which a 56K blank divider cannot show
  /\ (l.args # <<>> /\ l.args[Len(l.args)] = <<>>) => p.div[1] # SPC
  /\ (\E k \in 1..Len(l.args) : l.args[k] = <<>>) => p.div[1] # SPC
  \* TabIsNo56kDivider (finding C16-56k-tab-divider): the pinned DivideChars of the DSP56K is " \009" = blank NUL '9',
  \* so a parallel move set off by tabulators only is not split.  The pinned parameter set is checked without
  \* that spelling (PinnedTabDeviation below exhibits it), the intended one (P56kTab) with it.
  /\ (p.name = "56k" /\ ch.dtab) => \E k \in 1..Len(ch.pre \o ch.post) : (ch.pre \o ch.post)[k] = SPC

\* quick tier: vary one group of dimensions at a time around the canonical spelling ("star"), thorough: product
Canon0(l) == [lform |-> IF l.lab = <<>> THEN "none" ELSE "col1", lead |-> <<SPC>>, sep1 |-> IF l.lab = <<>> THEN <<>> ELSE <<SPC>>,
              sep2 |-> <<SPC>>, pre |-> <<>>, post |-> <<>>, dtab |-> FALSE, trail |-> <<>>, cmt |-> <<>>, eol |-> <<>>, case |-> "keep"]
LForms(l) == IF l.lab = <<>> THEN {"none"} ELSE {"col1", "col1colon", "indcolon"}
Leads(l)  == IF l.lab = <<>> THEN WS1 ELSE {<<SPC>>}
Sep1s(l)  == IF l.lab = <<>> THEN {<<>>} ELSE WS0
Pres(l)   == IF Len(l.args) < 2 THEN {<<>>} ELSE {<<>>, <<SPC>>, <<TAB>>}
Posts(l)  == IF Len(l.args) < 2 THEN {<<>>} ELSE WS0
Sep2s(l)  == IF l.args = <<>> THEN {<<SPC>>} ELSE WS1
Cases     == IF Rich THEN {"keep", "upper", "lower", "swap", "alt"} ELSE {"keep", "upper", "swap", "alt"}
Trails    == {<<>>, <<TAB>>}
Star(p, l) ==
  LET k == Canon0(l) IN
  {[k EXCEPT !.lform = lf, !.lead = ld, !.sep1 = s1, !.case = ca] : lf \in LForms(l), ld \in Leads(l), s1 \in Sep1s(l), ca \in Cases} \cup
  {[k EXCEPT !.sep2 = s2, !.pre = pr, !.post = po, !.case = ca, !.dtab = dt] : s2 \in Sep2s(l), pr \in Pres(l), po \in Posts(l), ca \in Cases,
                                                                  dt \in (IF p.div[1] = SPC /\ Len(l.args) > 1 THEN BOOLEAN ELSE {FALSE})} \cup
  {[k EXCEPT !.trail = tr, !.cmt = cm, !.eol = eo] : tr \in Trails, cm \in Cmts(p), eo \in Eols} \cup
  {[k EXCEPT !.cmt = cm, !.post = po, !.sep2 = s2] : cm \in Cmts(p), po \in Posts(l), s2 \in Sep2s(l)} \cup
  {[k EXCEPT !.lform = lf, !.sep1 = s1, !.cmt = cm] : lf \in LForms(l), s1 \in Sep1s(l), cm \in Cmts(p)}
ChoiceSet(p, l) == {ch \in (IF Product THEN Choices(p, l) ELSE Star(p, l)) : Allowed(p, l, ch)}

Init == /\ P \in ParamSets /\ L \in Lines(P) /\ c = [lform |-> "start"]
Next == /\ c.lform = "start"
        /\ c' \in ChoiceSet(P, L)
        /\ UNCHANGED <<P, L>>
Spec == Init /\ [][Next]_vars

Immaterial == c.lform # "start" => SpellingImmaterial(L, c, P)

\* sanity of the transcription itself: the canonical spelling splits into the abstract fields, un-normalised
Canon == [lform |-> IF L.lab = <<>> THEN "none" ELSE "col1", lead |-> <<SPC>>, sep1 |-> <<SPC>>, sep2 |-> <<SPC>>,
          pre |-> <<>>, post |-> <<>>, dtab |-> FALSE, trail |-> <<>>, cmt |-> <<>>, eol |-> <<>>, case |-> "keep"]
CanonSplitsExactly == c.lform = "start" =>
   (Allowed(P, L, Canon) => Fields(Split(Render(L, Canon, P), P)) = L)
\* the two deviations of the pinned tree, exhibited on the model (TLC evaluates them as assumptions):
DevLine56k == [lab |-> <<>>, op |-> <<109, 111, 118>>, attr |-> <<>>, args |-> <<T_ID, T_ID2>>]
DevTab == [Canon0(DevLine56k) EXCEPT !.dtab = TRUE]
PinnedTabDeviation == ~SpellingImmaterial(DevLine56k, DevTab, P56k) /\ SpellingImmaterial(DevLine56k, DevTab, P56kTab)
DevLineApos == [lab |-> <<>>, op |-> <<101, 120>>, attr |-> <<>>, args |-> <<<<97>>, T_AQ>>]       \* ex a,a'
DevCmt == [Canon0(DevLineApos) EXCEPT !.cmt = <<SEMI, 99>>]
PinnedAposDeviation == ~SpellingImmaterial(DevLineApos, DevCmt, PZ80) /\ SpellingImmaterial(DevLineApos, DevCmt, PZ80X)
ASSUME PinnedTabDeviation
ASSUME PinnedAposDeviation
\* a comment is reported as the comment and never leaks into a field
CommentCut == c.lform # "start" => Split(ReadLine(<<Render(L, c, P)>>), P).cmt = c.cmt
=============================================================================
