\* C17: report options (q, x, n, gnuerrors, E, L) x -Werror: the code projection of every run of one file of <= 2
\* line classes is the same under all option records with the same code-affecting part (384 records)
CONSTANTS MaxLines = 2 MaxFiles = 1 Wrap = 0 Leaky = {}
CONSTANTS Kinds <- KindsSmall OptSpace <- OptsReport
SPECIFICATION Spec
INVARIANTS ReportOptionsDoNotInterfere MachineIsOutcome
CHECK_DEADLOCK FALSE
