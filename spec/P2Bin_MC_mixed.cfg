\* MIXED GRANULARITY among the selected records: <= 2 records of 4 units at 0, 1, 3, 6 in units of 1, 2, 4 bytes x windows
\* starting / ending strictly inside a record of either unit, at its edges, outside, automatic / half-automatic x ALL / ODD / WORD1
CONSTANTS
  Dev = {}
  MaxRecs = 2
  Starts = {0, 1, 3, 6}
  UnitLens = {4}
  GranSet = {1, 2, 4}
  EntryAddrs = {}
  Offsets = {}
  FillSet = {255}
  SumOpts = {FALSE}
  SegOpts = {1}
  CpuSegs <- CS_One
  Ranges <- R_Mixed
  LaneSet <- L_Mixed
  FiltSet <- F_None
  ESet <- E_None
  HdrSet <- H_None
SPECIFICATION Spec
INVARIANTS Conforms ConformsMixed StepRunAgrees ChunkListOK WindowStableMixed MeasureSoundMixed
CHECK_DEADLOCK FALSE
