---------------------------- MODULE DasmSole_Gen ----------------------------
(* SOLE-EDGE images for the DASL round trip (property C15): for every control-transfer form of every DASL target   *)
(* an image in which a routine is reachable ONLY through the target operand of that one instruction.               *)
(*                                                                                                                *)
(* The tracer of das.c main (spec/Dasm.tla) disassembles what the successor sets of the per-CPU Disassemble()      *)
(* callbacks lead it to.  A successor the callback prints as a label but does not report is invisible in every     *)
(* image in which the target is ALSO reached otherwise (fall-through, another branch, an entry address) - which is  *)
(* the case in linear code, in the random streams of Dasm_Gen (targets are drawn among all items, almost all of     *)
(* them reached by fall-through) and in the coverage images of Dasm_Cover (all branches point at the final return). *)
(* This module enumerates the missing dimension: WHICH EDGE of the control-flow graph is the only way to a routine.  *)
(*                                                                                                                *)
(* An image is                                                                                                    *)
(*      E:  <pre NOPs>  X  [closer]          the entry routine; the only entry address is E                        *)
(*      T:  NOP  term                        the target routine, placed behind E (pos "behind") or in front of it   *)
(*                                           (pos "before": backward target, negative displacement)                *)
(*   X       every form of the ISA table with a target operand (flow class cond / call / jump; relative, in-page   *)
(*           or absolute target field) x every value of its register / condition / small-number operands            *)
(*           (87C00: JRS T, JRS F, JR cc x 8, JR, JP, CALL, CALLP; 6800: BRA, 14 Bcc, BSR, JMP ext, JSR ext;         *)
(*           4004: JUN, JMS, ISZ x 16 registers, JCN x 16 condition masks)                                          *)
(*   closer  (X conditional or a call: something must keep the fall-through away from T) every form that does not   *)
(*           fall through: the unconditional jumps of the table - back to E (a loop closed by a jump, the exit       *)
(*           behind it) or to itself (parking loop) -, the returns and the indirect jumps;  none if X is a jump      *)
(*   term    how the target routine ends: every return form, or a jump back to E                                    *)
(* Whether T is reachable only through X is NOT decided by construction but by the model: Sole == T is not in the   *)
(* reachability closure of the image in which the decode at X's address has lost its target successor, and is in    *)
(* the closure of the unmodified image.  Only sole images are kept; e.g. an 87C00 image whose closer is RET is not   *)
(* sole in position "behind", because the table has RetFallsThrough (DASL goes on behind a return of that target).   *)
(*                                                                                                                *)
(* Expected (checked by TLC on every image, then printed): the worklist machine ends, marks exactly the reachable    *)
(* bytes (InvComplete: code = ReachBytes; the instructions do not overlap), the whole target routine is among them    *)
(* (InvTargetTraced), control flow stays on the instruction starts of the layout (InvOnItems).  The harness runs the  *)
(* real dasl on the printed image and re-assembles its output (checks/c15.py, judge_image).                           *)
EXTENDS Integers, Sequences, FiniteSets, TLC, Json
CONSTANTS IsaName,        \* "6800" | "87C00" | "4004": ISA table and DASL target
          Orgs,           \* load addresses
          OrgMode,        \* "all": every load address at which the image is legal; "min": only the lowest such address
          Pres,           \* numbers of NOPs in front of X
          AllTerms,       \* TRUE: every return form / jump as end of the target routine; FALSE: the first return + a jump
          AllVals         \* TRUE: every value of a 4-bit operand of X in every context; FALSE: its lowest and highest value
                          \* in every context, the inner values in one context (fields of at most 3 bits - the 87C00
                          \* conditions - always get every value in every context)

I4 == INSTANCE Isa4004
I8 == INSTANCE Isa6800
I7 == INSTANCE Isa87FlowX
Forms == CASE IsaName = "4004" -> I4!Forms [] IsaName = "6800" -> I8!Forms [] IsaName = "87C00" -> I7!FormsX
AddrMax == CASE IsaName = "4004" -> I4!AddrMax [] IsaName = "6800" -> I8!AddrMax [] IsaName = "87C00" -> I7!AddrMax
FormsOfCpu == {f \in Forms : IsaName \in f.cpus}
OpTable == [x \in 0..255 |-> I4!FormsMatching(FormsOfCpu, x, 8)]
INSTANCE Dasm
IsaLabel == IF IsaName = "87C00" THEN "87C800" ELSE IsaName      \* name of the target family in the reports of C15

\* ------------------------------------------------------------------------------------------ forms by role
G == {f \in FormsOfCpu : ~f.alias}
TargetForms == {f \in G : f.tf # 0}
JumpForms == {f \in TargetForms : f.flow = "jump"}
ReturnIds == IF IsaName = "87C00" THEN I7!ReturnIds ELSE {f.id : f \in {g \in G : g.flow = "ret"}}
RetForms == {f \in G : f.id \in ReturnIds}
StopForms == {f \in G : f.flow = "stop"}
Nop == CHOOSE f \in G : f.id = (IF IsaName = "6800" THEN "NOP inh" ELSE "NOP")

CanonIdx(fld) == {i \in 1..Len(fld.names) : EnumIndex(fld, fld.names[i][2]) = i}
Rep(fld) == IF fld.k = "enum" THEN 1 ELSE IF fld.lo <= 18 /\ 18 <= fld.hi THEN 18 ELSE fld.hi
\* values of a non-target operand of X: every register / condition, every value of a field of at most 4 bits;
\* "ends": fields of 4 bits only with their lowest and highest value
Ends(S) == {v \in S : (\A w \in S : v <= w) \/ (\A w \in S : v >= w)}
Vals(fld, mode) ==
  IF mode = "rep" THEN {Rep(fld)}
  ELSE LET S == IF fld.k = "enum" THEN CanonIdx(fld) ELSE IF fld.w <= 4 THEN fld.lo..fld.hi ELSE {Rep(fld)}
       IN IF mode = "all" \/ fld.w <= 3 THEN S ELSE Ends(S)

RECURSIVE OpsSets(_, _, _)
OpsSets(f, i, mode) ==                      \* operand tuples of form f, fields i..n; 0 stands for the target operand
  IF i > Len(f.flds) THEN {<<>>}
  ELSE LET heads == IF i = f.tf THEN {0} ELSE Vals(f.flds[i], mode)
       IN {<<h>> \o t : h \in heads, t \in OpsSets(f, i + 1, mode)}
\* an item: a form, its operands, and what its target operand points at: "T" | "E" | "self" | "-" (no target)
Item(f, ops, to) == [f |-> f, ops |-> ops, to |-> to]
RepItem(f, to) == Item(f, CHOOSE o \in OpsSets(f, 1, "rep") : TRUE, to)
NopItem == RepItem(Nop, "-")
XItems == UNION {{Item(f, o, "T") : o \in OpsSets(f, 1, "all")} : f \in TargetForms}
\* the variants that are combined with EVERY closer and end of the target routine; the others (AllVals = FALSE: the inner
\* values of 4-bit operands - 4004 ISZ registers 1..14, JCN masks 1..14) get one context: closed by the first jump form
\* back to E, target routine ended by the first return form
XMain == IF AllVals THEN XItems ELSE UNION {{Item(f, o, "T") : o \in OpsSets(f, 1, "ends")} : f \in TargetForms}
Closers(x) == IF x.f.flow = "jump" THEN {<<>>}
              ELSE {<<RepItem(f, to)>> : f \in JumpForms, to \in {"E", "self"}}
                   \cup {<<RepItem(f, "-")>> : f \in RetForms \cup StopForms}
FirstRet == CHOOSE f \in RetForms : \A g \in RetForms : f.enc[1].c <= g.enc[1].c
FirstJump == CHOOSE f \in JumpForms : \A g \in JumpForms : f.enc[1].c <= g.enc[1].c
TermItems == IF AllTerms THEN {RepItem(f, "-") : f \in RetForms} \cup {RepItem(f, "E") : f \in JumpForms}
             ELSE {RepItem(FirstRet, "-"), RepItem(FirstJump, "E")}
Poss == {"behind", "before"}
Progs == UNION {{[x |-> x, pre |-> pre, pos |-> pos, cl |-> c, tm |-> t] :
                   pre \in Pres, pos \in Poss, c \in Closers(x), t \in TermItems} : x \in XMain}
         \cup {[x |-> x, pre |-> pre, pos |-> pos, cl |-> IF x.f.flow = "jump" THEN <<>> ELSE <<RepItem(FirstJump, "E")>>,
                 tm |-> RepItem(FirstRet, "-")] : x \in XItems \ XMain, pre \in Pres, pos \in Poss}

\* ------------------------------------------------------------------------------------------ layout of program p at o
ESeq(p) == [i \in 1..p.pre |-> NopItem] \o <<p.x>> \o p.cl
TSeq(p) == <<NopItem, p.tm>>
ItemSeq(p) == IF p.pos = "behind" THEN ESeq(p) \o TSeq(p) ELSE TSeq(p) \o ESeq(p)
EIdx(p) == IF p.pos = "behind" THEN 1 ELSE 3
TIdx(p) == IF p.pos = "behind" THEN Len(ESeq(p)) + 1 ELSE 1
XIdx(p) == EIdx(p) + p.pre
RECURSIVE AddrOf(_, _, _)
AddrOf(s, o, i) == IF i = 1 THEN o ELSE AddrOf(s, o, i - 1) + Len(s[i - 1].f.enc)
EAddr(p, o) == AddrOf(ItemSeq(p), o, EIdx(p))
TAddr(p, o) == AddrOf(ItemSeq(p), o, TIdx(p))
XAddr(p, o) == AddrOf(ItemSeq(p), o, XIdx(p))
EndAddr(p, o) == AddrOf(ItemSeq(p), o, Len(ItemSeq(p)) + 1)          \* the address behind the image
Resolved(p, o, i) ==
  LET it == ItemSeq(p)[i]
      t == CASE it.to = "T" -> TAddr(p, o) [] it.to = "E" -> EAddr(p, o) [] OTHER -> AddrOf(ItemSeq(p), o, i)
  IN [k \in 1..Len(it.ops) |-> IF k = it.f.tf THEN t ELSE it.ops[k]]
\* where the table of the target allows a form to stand (87C00: CallpInPageFF)
PlaceOK(f, pc) == IF IsaName = "87C00" THEN I7!PlaceOK(f, pc) ELSE TRUE
WF(p, o) == /\ EndAddr(p, o) - 1 <= AddrMax
            /\ \A i \in 1..Len(ItemSeq(p)) : PlaceOK(ItemSeq(p)[i].f, AddrOf(ItemSeq(p), o, i))
            /\ \A i \in 1..Len(ItemSeq(p)) : AllLegal(ItemSeq(p)[i].f, Resolved(p, o, i), AddrOf(ItemSeq(p), o, i), AddrMax)
RECURSIVE Concat(_, _, _)
Concat(p, o, i) == IF i > Len(ItemSeq(p)) THEN <<>>
                   ELSE EncodeRaw(ItemSeq(p)[i].f, Resolved(p, o, i), AddrOf(ItemSeq(p), o, i)) \o Concat(p, o, i + 1)
ImageSeq(p, o) == Concat(p, o, 1)
ImageOf(p, o) == LET q == ImageSeq(p, o) IN [a \in o..(o + Len(q) - 1) |-> q[a - o + 1]]
ItemStarts(p, o) == {AddrOf(ItemSeq(p), o, i) : i \in 1..Len(ItemSeq(p))}
TBytes(p, o) == TAddr(p, o)..(AddrOf(ItemSeq(p), o, TIdx(p) + 2) - 1)        \* the target routine

\* ------------------------------------------------------------------------------------------ soleness (declarative)
\* successors of the decode at a when the instruction at xa has lost its target successor
SuccW(img, a, xa) ==
  LET d == DecodeAt(img, a) IN
  IF a = xa THEN (IF d.flow \in {"cond", "call"} THEN {a + d.len} ELSE {}) ELSE d.succ
RECURSIVE ClosureW(_, _, _)
ClosureW(img, R, xa) ==
  LET R2 == R \cup UNION {SuccW(img, a, xa) : a \in R} IN IF R2 = R THEN R ELSE ClosureW(img, R2, xa)
Sole(p, o) ==
  LET img == ImageOf(p, o) IN
  /\ TAddr(p, o) \in ReachStarts(img, {EAddr(p, o)})
  /\ TAddr(p, o) \notin ClosureW(img, {EAddr(p, o)}, XAddr(p, o))
  /\ DecodeAt(img, XAddr(p, o)).tgt = TAddr(p, o)                 \* the table decodes X at its place with target T
Kept(p, o) == WF(p, o) /\ Sole(p, o)

VARIABLES prog, org,
          img,            \* the image (function address -> byte)
          fin             \* the finished run of the worklist machine on it
vars == <<prog, org, img, fin>>
Ents == {EAddr(prog, org)}
Init == /\ prog \in Progs
        /\ org \in Orgs
        /\ Kept(prog, org)
        /\ (OrgMode = "min" => \A o2 \in Orgs : o2 < org => ~Kept(prog, o2))
        /\ img = ImageOf(prog, org)
        /\ fin = Run(img, InitState(Ents, {}))
Next == UNCHANGED vars

\* ------------------------------------------------------------------------------------------ the expected run
Img == img
Fin == fin
InvDone == Done(Fin) /\ InsideImage(Img, Fin) /\ Fin.data = {}
InvComplete == NoOverlap(Img, Ents) /\ Fin.code = ReachBytes(Img, Ents)
InvTargetTraced == TBytes(prog, org) \subseteq Fin.code
InvOnItems == \A a \in ReachStarts(Img, Ents) : a \in ItemStarts(prog, org) \/ a \notin DOMAIN Img
\* without the edge under test the target routine is not code at all: an unreported successor loses all of it
InvLostWithoutEdge ==
  LET R == ClosureW(Img, Ents, XAddr(prog, org)) IN TBytes(prog, org) \cap UNION {BytesOf(Img, a) : a \in R} = {}

ClName == IF prog.cl = <<>> THEN "none" ELSE prog.cl[1].f.id \o (IF prog.cl[1].to = "-" THEN "" ELSE " -> " \o prog.cl[1].to)
Out ==
  LET S == ReachStarts(Img, Ents) \cap DOMAIN Img IN
  [isa |-> IsaLabel, cpu |-> IsaName, org |-> org, bytes |-> ImageSeq(prog, org), entries |-> Ents, vecs |-> {},
   code |-> Fin.code, data |-> Fin.data, reach |-> ReachBytes(Img, Ents),
   ids |-> [i \in 1..Len(ItemSeq(prog)) |-> ItemSeq(prog)[i].f.id],
   starts |-> S,
   targets |-> {<<a, DecodeAt(Img, a).tgt>> : a \in {s \in S : DecodeAt(Img, s).tgt >= 0}},
   stopends |-> {a + DecodeAt(Img, a).len : a \in {s \in S : DecodeAt(Img, s).flow = "stop"}},
   \* the dimension: the form under test, its operands, where it stands, the routine only it leads to
   sole |-> [variant |-> <<prog.x.f.id, prog.x.ops>>, form |-> prog.x.f.id, flow |-> prog.x.f.flow, ops |-> Resolved(prog, org, XIdx(prog)),
             at |-> XAddr(prog, org), target |-> TAddr(prog, org), tbytes |-> TBytes(prog, org),
             pos |-> prog.pos, pre |-> prog.pre, closer |-> ClName, term |-> prog.tm.f.id]]
Dump == PrintT(<<"OUT", ToJson(Out)>>)

\* the dimension is present: printed once, the harness checks that every variant of X occurs in an image
ASSUME PrintT(<<"FORMS", ToJson([isa |-> IsaLabel, forms |-> {f.id : f \in TargetForms},
                                  variants |-> {<<x.f.id, x.ops>> : x \in XItems},
                                  closers |-> {f.id : f \in JumpForms \cup RetForms \cup StopForms},
                                  programs |-> Cardinality(Progs)])>>)
=============================================================================
