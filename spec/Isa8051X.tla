------------------------------ MODULE Isa8051X ------------------------------
(* MCS-51: what the assembler's own notation adds on top of the instruction table Isa8051 (C14 extension).              *)
(*                                                                                                                     *)
(* 1. BIT OPERANDS written byte.b.  The instruction set has ONE bit operand, the 8-bit bit address; the hardware       *)
(*    description says which bits exist: bytes 20H..2FH of the internal RAM (bit addresses 00..7F) and the special      *)
(*    function registers whose address is divisible by 8 (80..FF); Isa8051!BitAddrOf.  The assembler manual: "the dot   *)
(*    is only allowed to meet the MCS-51 notation of register bits" (symbol names), `My_Carry bit PSW.7` "would assign   *)
(*    the value 0d7h to My_Carry on an 8051" (pseudo-instructions, BIT), SFR / SFRB define the register symbol.  So a    *)
(*    statement whose bit operand is written byte.b IS the statement with the bit address BitAddrOf(byte, b); if there   *)
(*    is no such bit (byte not bit addressable, b > 7) the operand has no encoding: error, nothing emitted.              *)
(*    Spellings (sp) of the operand:  "num" 208.7   "sfr"  X sfr 208 / X.7   "sfrb"  X sfrb 208 / X.7                    *)
(*                                    "bit"  X bit 208.7 / X   (the definition line stands in front of the context)      *)
(*    NamedDeviation: bytes 30H..3FH - the assembler manual (SFR and SFRB) calls 20h...3fh bit addressable, the          *)
(*    hardware description 20H..2FH only.  Such a statement is generated with verdict "reject" (instruction set) and      *)
(*    marked zone = "ram30": the harness reports what the assembler does with it under its own finding key.              *)
(* 2. GENERIC JMP / CALL (processor-specific hints, MCS-51): "AS will automatically use the variant that is optimal for  *)
(*    the given target address.  The options are SJMP, AJMP, or LJMP for JMP resp. ACALL or LCALL for CALL."             *)
(*    Declarative reading: the emitted bytes are an instruction of the option list whose hardware target (Isa8051!       *)
(*    HwTarget) is the operand, and no option that reaches the target is shorter.  Where two options of the same length  *)
(*    reach it (SJMP and AJMP, both 2 bytes) the manual does not choose: both are admissible (alt).  Operational side    *)
(*    (shaped like an assembler): ChooseJmp tries SJMP, then AJMP, then LJMP.  TLC checks operational \in declarative.   *)
(* 3. Every case gets a CONTEXT statement for the line in front (history dimension, as IsaHist): a legal statement of    *)
(*    the table, chosen by rotation over the operand shapes; the expectation does not depend on it.                      *)
EXTENDS Isa8051, TLC, Json
CONSTANTS Salt,        \* rotation of contexts / spellings
          Deep         \* FALSE: quick (spelling rotates over the cases), TRUE: every spelling for every case
VARIABLES kase
vars == <<kase>>

\* ------------------------------------------------------------------------------------------------ contexts
\* one legal statement per operand shape of the table (form id, operands); PC-dependent ones get their target from the
\* address they stand at
CtxList ==
  << <<"NOP", <<>> >>, <<"MOV DPTR,#data16", <<4660>> >>, <<"LJMP addr16", <<43981>> >>, <<"MOV direct,#data", <<18, 52>> >>,
     <<"MOV direct,direct", <<47, 128>> >>, <<"SETB bit", <<215>> >>, <<"ORL C,/bit", <<127>> >>, <<"MOV A,#data", <<255>> >>,
     <<"INC @Ri", <<2>> >>, <<"MOV Rn,direct", <<8, 48>> >>, <<"PUSH direct", <<224>> >>, <<"MOVX @DPTR,A", <<>> >>,
     <<"CJNE Rn,#data,rel", <<3, 200, -1>> >>, <<"SJMP rel", <<-1>> >>, <<"AJMP addr11", <<-1>> >>, <<"JB bit,rel", <<47, -1>> >> >>
CtxCount == Len(CtxList)
\* operands of context n standing at address p (-1 in the list = "a target the instruction reaches": its own address)
CtxOpsAt(n, p) == [i \in 1..Len(CtxList[n][2]) |-> IF CtxList[n][2][i] = -1 THEN p ELSE CtxList[n][2][i]]
CtxRec(n, p) ==
  LET f == FormById(CtxList[n][1])  o == CtxOpsAt(n, p) IN
    [id |-> f.id, mn |-> f.mn, args |-> RenderArgs(f, o), units |-> EncodeRaw(f, o, p), shape |-> n]
CtxLegal(n, p) == AllLegal(FormById(CtxList[n][1]), CtxOpsAt(n, p), p, AddrMax)
CtxLen(n) == Len(FormById(CtxList[n][1]).enc)

\* ------------------------------------------------------------------------------------------------ 1. bit operands
BitFormIds == {"CLR bit", "SETB bit", "CPL bit", "ANL C,bit", "ANL C,/bit", "ORL C,bit", "ORL C,/bit", "MOV C,bit",
               "MOV bit,C", "JB bit,rel", "JNB bit,rel", "JBC bit,rel"}
\* byte addresses: both windows with their edges +-1, the manual's 30H..3FH, SFRs divisible and not divisible by 8,
\* beyond the 8-bit address, values congruent to a bit-addressable byte modulo 256
ByteClasses == {0, 1, 31, 32, 33, 39, 46, 47, 48, 49, 56, 63, 64, 127, 128, 129, 135, 136, 137, 144, 208, 215, 224, 240,
                247, 248, 249, 255, 256, 288, 384, 464}
BitNoClasses == {0, 1, 6, 7, 8, 9, 15, 16}
Spellings == <<"num", "sfr", "bit", "sfrb">>
BitPC == 4660
BitCoord(f, y, b) == Salt + f.enc[1].c + Cardinality({u \in ByteClasses : u < y}) * 3 + Cardinality({u \in BitNoClasses : u < b})
BitCaseSet ==
  { [k |-> "bit", f |-> f, y |-> y, b |-> b, sp |-> sp, rot |-> BitCoord(f, y, b)] :
      f \in {g \in Forms : g.id \in BitFormIds}, y \in ByteClasses, b \in BitNoClasses, sp \in 1..Len(Spellings) }
BitCases == {c \in BitCaseSet : Deep \/ c.sp = (c.rot % Len(Spellings)) + 1}

HasRel(f) == \E i \in 1..Len(f.flds) : f.flds[i].k = "rel"
\* operands of the underlying table statement: bit address a, branch target = the statement itself
BitOps(f, a) == IF HasRel(f) THEN <<a, BitPC>> ELSE <<a>>
BitZone(y, b) == IF y \in 48..63 /\ b \in 0..7 THEN "ram30"
                 ELSE IF y \in 0..255 /\ b \in 0..7 /\ ~BitAddressable(y) THEN "nobit" ELSE ""
\* the operand text and the definition line in front of the statement
ByteBit(y, b) == ToString(y) \o "." \o ToString(b)
\* (symbol names are made unique from the case's coordinates, so that cases can share a source file)
SymName(f, sp, y, b) == "X" \o ToString(f.enc[1].c) \o "Y" \o ToString(y) \o "B" \o ToString(b) \o "S" \o ToString(sp)
BitText(f, sp, y, b) == IF Spellings[sp] = "num" THEN ByteBit(y, b)
                        ELSE IF Spellings[sp] = "bit" THEN SymName(f, sp, y, b) ELSE SymName(f, sp, y, b) \o "." \o ToString(b)
BitPre(f, sp, y, b) == IF Spellings[sp] = "num" THEN <<>>
                       ELSE IF Spellings[sp] = "bit" THEN << <<SymName(f, sp, y, b), "bit", ByteBit(y, b)>> >>
                       ELSE << <<SymName(f, sp, y, b), Spellings[sp], ToString(y)>> >>
\* argument texts: the table's rendering with the bit operand replaced
BitArgs(f, sp, y, b) ==
  LET o == BitOps(f, 0) IN
    [i \in 1..Len(f.args) |-> IF f.args[i].f = 1 THEN f.args[i].pre \o BitText(f, sp, y, b) \o f.args[i].post
                              ELSE RenderArgs(f, o)[i]]

\* ------------------------------------------------------------------------------------------------ 2. JMP / CALL
JmpOptions  == <<"SJMP rel", "AJMP addr11", "LJMP addr16">>
CallOptions == <<"ACALL addr11", "LCALL addr16">>
OptionsOf(mn) == IF mn = "JMP" THEN JmpOptions ELSE CallOptions
Reaches(id, t, p) == Legal(FormById(id).flds[1], t, p, AddrMax)
EncOf(id, t, p) == EncodeRaw(FormById(id), <<t>>, p)
\* declarative: the encodings of the option list that reach t, and among them those of minimal length
Reaching(mn, t, p) == {EncOf(OptionsOf(mn)[i], t, p) : i \in {j \in 1..Len(OptionsOf(mn)) : Reaches(OptionsOf(mn)[j], t, p)}}
Admissible(mn, t, p) == {u \in Reaching(mn, t, p) : \A v \in Reaching(mn, t, p) : Len(u) <= Len(v)}
\* operational: first option of the list that reaches the target (the list is ordered by length)
RECURSIVE FirstOpt(_, _, _, _)
FirstOpt(opts, i, t, p) == IF i > Len(opts) THEN <<>>
                           ELSE IF Reaches(opts[i], t, p) THEN EncOf(opts[i], t, p) ELSE FirstOpt(opts, i + 1, t, p)
Choose(mn, t, p) == FirstOpt(OptionsOf(mn), 1, t, p)

JmpPCs == {255, 2045, 2046, 2047, 2048, 4660, 63486}
JmpTargets(p) ==
  LET nx == p + 2
      pb == (nx \div 2048) * 2048
  IN {t \in {nx - 130, nx - 129, nx - 128, nx - 127, nx - 1, nx, nx + 1, p, nx + 126, nx + 127, nx + 128, nx + 129,
             pb - 2, pb - 1, pb, pb + 1, pb + 2046, pb + 2047, pb + 2048, pb + 2049, pb + 1000, pb - 1000, pb + 3000,
             0, 1, 32768, 43981, 65534, 65535, 65536, 65537, 70000, 131072 + nx} : t >= 0}
JmpCases == UNION { { [k |-> "jmp", mn |-> mn, t |-> t, p |-> p, rot |-> Salt + p + Cardinality({u \in JmpTargets(p) : u < t})] :
                        mn \in {"JMP", "CALL"}, t \in JmpTargets(p) } : p \in JmpPCs }

\* ------------------------------------------------------------------------------------------------ state space
Init == kase \in BitCases \cup JmpCases
Next == UNCHANGED kase

\* context of a case: rotation number -> 0 (none) or an entry of CtxList that is legal where it stands
CasePc(c) == IF c.k = "bit" THEN (IF HasRel(c.f) THEN BitPC ELSE -1) ELSE c.p
CtxNo(c) == c.rot % (CtxCount + 1)
HasPcCtx(n) == \E i \in 1..Len(CtxList[n][2]) : CtxList[n][2][i] = -1
CtxAt(c) == IF CasePc(c) >= 0 THEN CasePc(c) - CtxLen(CtxNo(c)) ELSE (IF HasPcCtx(CtxNo(c)) THEN 4096 ELSE -1)
CtxOf(c) == IF CtxNo(c) = 0 THEN <<>>
            ELSE LET p == CtxAt(c) IN
                 IF (CasePc(c) >= 0 /\ p < 0) \/ ~CtxLegal(CtxNo(c), IF p < 0 THEN 0 ELSE p) THEN <<>>
                 ELSE <<CtxRec(CtxNo(c), IF p < 0 THEN 0 ELSE p)>>
OrgOf(c) == IF CtxOf(c) = <<>> THEN CasePc(c) ELSE CtxAt(c)

RECURSIVE SetToSeq(_)
SetToSeq(S) == IF S = {} THEN <<>> ELSE LET x == CHOOSE y \in S : TRUE IN <<x>> \o SetToSeq(S \ {x})
BitOut(c) ==
  LET a == BitAddrOf(c.y, c.b) IN
    [id |-> c.f.id \o " [" \o Spellings[c.sp] \o "]", mn |-> c.f.mn, args |-> BitArgs(c.f, c.sp, c.y, c.b),
     pc |-> CasePc(c), org |-> OrgOf(c), exp |-> IF a = -1 THEN "reject" ELSE "units",
     units |-> IF a = -1 THEN <<>> ELSE EncodeRaw(c.f, BitOps(c.f, a), BitPC), alt |-> <<>>,
     ops |-> <<c.y, c.b>>, len |-> Len(c.f.enc), pre |-> BitPre(c.f, c.sp, c.y, c.b), zone |-> BitZone(c.y, c.b),
     sp |-> Spellings[c.sp], ctx |-> CtxOf(c)]
JmpOut(c) ==
  LET adm == Admissible(c.mn, c.t, c.p)  ch == Choose(c.mn, c.t, c.p) IN
    [id |-> c.mn \o " (generic)", mn |-> c.mn, args |-> <<ToString(c.t)>>, pc |-> c.p, org |-> OrgOf(c),
     exp |-> IF adm = {} THEN "reject" ELSE "units", units |-> ch, alt |-> SetToSeq(adm), ops |-> <<c.t>>,
     len |-> Len(ch), pre |-> <<>>, zone |-> "", sp |-> "", ctx |-> CtxOf(c)]
Out(c) == IF c.k = "bit" THEN BitOut(c) ELSE JmpOut(c)

\* ------------------------------------------------------------------------------------------------ checked per case
\* a bit statement in byte.b notation is the table's statement with that bit address: the decoder finds the form
\* and the bit address back, and the bit address names byte and bit number of the source text
BitMeaning ==
  kase.k = "bit" =>
    LET o == BitOut(kase) IN
      IF o.exp = "units"
      THEN LET d == Decode(o.units, BitPC) IN
             /\ d # NoInstr /\ d.id = kase.f.id
             /\ ByteOfBit(d.ops[1]) = kase.y /\ NoOfBit(d.ops[1]) = kase.b
             /\ BitAddressable(kase.y)
      ELSE ~BitAddressable(kase.y) \/ kase.b \notin 0..7
\* generic JMP / CALL: every admissible encoding is an instruction of the option list that lands on the operand; no
\* reaching option is shorter; the operational choice is admissible; no admissible encoding <=> the target cannot be
\* reached at all (beyond the 64K program memory)
JmpMeaning ==
  kase.k = "jmp" =>
    LET adm == Admissible(kase.mn, kase.t, kase.p)  ch == Choose(kase.mn, kase.t, kase.p) IN
      /\ \A u \in adm : /\ HwTarget(u, kase.p) = kase.t
                        /\ Decode(u, kase.p) # NoInstr
                        /\ Decode(u, kase.p).id \in Range(OptionsOf(kase.mn))
                        /\ Decode(u, kase.p).ops = <<kase.t>>
                        /\ \A v \in Reaching(kase.mn, kase.t, kase.p) : Len(u) <= Len(v)
      /\ (adm = {}) = (kase.t > 65535)
      /\ (adm # {} => ch \in adm) /\ (adm = {} => ch = <<>>)
      /\ Cardinality(adm) <= 2
CtxSane == LET x == CtxOf(kase) IN
             x # <<>> => /\ Decode(x[1].units, IF CtxAt(kase) < 0 THEN 0 ELSE CtxAt(kase)) # NoInstr
                         /\ (CasePc(kase) >= 0 => CtxAt(kase) + Len(x[1].units) = CasePc(kase))
XDump == BitMeaning /\ JmpMeaning /\ CtxSane /\ PrintT(<<"OUT", ToJson(Out(kase))>>)
=============================================================================
