\* the named situation must be reachable: TLC has to find a program in which it occurs
CONSTANTS MaxStmts = 3 MaxRecLenW = 4
SPECIFICATION Spec
INVARIANTS NeverCancel
CHECK_DEADLOCK FALSE
