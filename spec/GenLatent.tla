------------------------------ MODULE GenLatent ------------------------------
(***************************************************************************)
(* Latent state INSIDE a code generator and the run driver of as.c around  *)
(* it (property C18: files assembled in one invocation do not influence    *)
(* each other).                                                            *)
(*                                                                         *)
(* Besides what Driver.tla models (mode flags, tables, construct stacks of *)
(* the assembler core) every code generator code*.c keeps statics of its   *)
(* own between two statements:                                             *)
(*                                                                         *)
(*   one-shot trackers   "the previous machine instruction did X", valid   *)
(*                       for exactly ONE machine instruction.  C16x        *)
(*                       (code166.c): MakeCode_166 starts every machine    *)
(*                       instruction with  XChanged = N_XChanged;          *)
(*                       N_XChanged = False  (X = CP, SP, DPP0..3), an     *)
(*                       instruction writing X sets N_XChanged, an         *)
(*                       instruction using X while XChanged earns warning  *)
(*                       200 "possible pipelining effects".  Same pattern: *)
(*                       65xx CLI_SEI_Flag/ADC_SBC_Flag, TMS320C3x NextPar/*)
(*                       PrevOp/PrevARs, C54x LastRep, SH7000 PrevDelayed, *)
(*                       CP1600 PrefixedSDBD, MSP430X MultPrefix, Z80      *)
(*                       LastPrefix ...  Here: cur / nxt (sets of hazards) *)
(*   sticky modes        ASSUMEd bank / page / direct page registers, M/X  *)
(*                       width flags, C16x ExtCounter/MemMode ...: valid   *)
(*                       until changed.  Here: mode.                       *)
(*                                                                         *)
(* asmsub.c InitPass() calls, at the start of EVERY pass of EVERY file,    *)
(* the procedure every generator registered with AddInitPassProc(),        *)
(* whatever the current target is (InitPassAll).  That procedure has to    *)
(* bring the generator's latent state back to its start value (InitPassG). *)
(* Pseudo instructions and labels never reach the generator's MakeCode:    *)
(* they do not shift the trackers (Shifts).                                *)
(*                                                                         *)
(* Named deviation  Leak  = the components InitPassG does NOT reset:       *)
(*   {"cur"}    the tree as it is: XChanged is never reset, which is       *)
(*              harmless because MakeCode overwrites it before reading.    *)
(*   "nxt"      N_XChanged survives: the LAST machine instruction of one   *)
(*              file hands its hazard to the FIRST machine instruction of  *)
(*              the next file assembled by that generator.                 *)
(*   "mode"     a sticky mode survives.                                    *)
(*                                                                         *)
(* A statement is a record [k, h, sev]:                                    *)
(*   n       machine instruction that neither sets nor reads latent state  *)
(*   set h   machine instruction that leaves hazard h for the next one     *)
(*   dep h   machine instruction that is diagnosed (sev: warning / error)  *)
(*           if hazard h is current; after an error it lays down no code   *)
(*   sd h    machine instruction that does both (reads h, then writes it)  *)
(*   use     machine instruction whose code depends on the sticky mode     *)
(*   mode    ASSUME-like statement switching the sticky mode (h = value)   *)
(*   pseudo  data / symbol definition / label: not seen by MakeCode        *)
(*   fwd     neutral machine instruction with a forward reference: the     *)
(*           file needs a second pass                                      *)
(* What C18 speaks about per file: code file, exit contribution,           *)
(* diagnostics (Obs).  Independent: Obs of every file of a run equals Obs  *)
(* of that file assembled alone - "the successor's observable behaviour is *)
(* a function of its own text and the options only".                       *)
(***************************************************************************)
EXTENDS Naturals, Sequences, FiniteSets

CONSTANTS Haz,          \* hazards the generators track
          Fams,         \* generator families taking part in a run
          Leak          \* components of the latent state InitPassG forgets

S(k, h, sev) == [k |-> k, h |-> h, sev |-> sev]
Stmts == {S("n", "", ""), S("pseudo", "", ""), S("fwd", "", ""), S("use", "", ""), S("mode", "1", "")}
         \cup {S("set", h, "") : h \in Haz}
         \cup {S("dep", h, sv) : h \in Haz, sv \in {"warn", "err"}}
         \cup {S("sd", h, "warn") : h \in Haz}

FreshG == [cur |-> {}, nxt |-> {}, mode |-> "0"]

\* the generator's per-pass initialiser (InitCode_166 & co.)
InitPassG(g) == [cur  |-> IF "cur" \in Leak THEN g.cur ELSE {},
                 nxt  |-> IF "nxt" \in Leak THEN g.nxt ELSE {},
                 mode |-> IF "mode" \in Leak THEN g.mode ELSE "0"]
\* asmsub.c InitPass(): every registered procedure runs, whatever the target of the file
InitPassAll(gens) == [f \in Fams |-> InitPassG(gens[f])]

Shifts(s) == s.k \notin {"pseudo", "mode"}

\* one statement in generator state g -> new state, what it lays down, what it is diagnosed with
Exec(g, s) ==
  IF ~Shifts(s)
  THEN [g |-> IF s.k = "mode" THEN [g EXCEPT !.mode = s.h] ELSE g, code |-> <<s.k, "">>, diag |-> ""]
  ELSE LET g1 == [g EXCEPT !.cur = g.nxt, !.nxt = {}]          \* XChanged = N_XChanged; N_XChanged = False
       IN CASE s.k = "set" -> [g |-> [g1 EXCEPT !.nxt = {s.h}], code |-> <<"set", s.h>>, diag |-> ""]
            [] s.k = "dep" -> LET hit == s.h \in g1.cur
                              IN [g |-> g1, code |-> IF hit /\ s.sev = "err" THEN <<>> ELSE <<"dep", s.h>>,
                                  diag |-> IF hit THEN s.sev ELSE ""]
            [] s.k = "sd"  -> [g |-> [g1 EXCEPT !.nxt = {s.h}], code |-> <<"sd", s.h>>,
                               diag |-> IF s.h \in g1.cur THEN s.sev ELSE ""]
            [] s.k = "use" -> [g |-> g1, code |-> <<"use", g1.mode>>, diag |-> ""]
            [] OTHER       -> [g |-> g1, code |-> <<s.k, "">>, diag |-> ""]

\* one pass over a text: acc = [g, code, diags]
RECURSIVE FoldT(_, _, _)
FoldT(acc, text, i) ==
  IF i > Len(text) THEN acc
  ELSE LET r == Exec(acc.g, text[i])
       IN FoldT([g |-> r.g, code |-> IF r.code = <<>> THEN acc.code ELSE Append(acc.code, r.code),
                 diags |-> IF r.diag = "" THEN acc.diags ELSE Append(acc.diags, <<i, r.diag>>)], text, i + 1)

RunPass(gens, file) ==
  LET g0 == InitPassAll(gens)
      r  == FoldT([g |-> g0[file.f], code |-> <<>>, diags |-> <<>>], file.text, 1)
  IN [gens |-> [g0 EXCEPT ![file.f] = r.g], code |-> r.code, diags |-> r.diags]

HasErr(diags) == \E i \in 1..Len(diags) : diags[i][2] = "err"
TwoPass(file) == \E i \in 1..Len(file.text) : file.text[i].k = "fwd"

\* AssembleFile: do { pass } while (ErrorCount == 0 && Repass); errors -> no code file, exit contribution 2;
\* warnings are written in every pass
RunFile(gens, file) ==
  LET p1 == RunPass(gens, file)
  IN IF HasErr(p1.diags) \/ ~TwoPass(file)
     THEN [gens |-> p1.gens, obs |-> [code |-> IF HasErr(p1.diags) THEN <<>> ELSE p1.code,
                                      rc |-> IF HasErr(p1.diags) THEN 2 ELSE 0, diags |-> p1.diags]]
     ELSE LET p2 == RunPass(p1.gens, file)
          IN [gens |-> p2.gens, obs |-> [code |-> IF HasErr(p2.diags) THEN <<>> ELSE p2.code,
                                         rc |-> IF HasErr(p2.diags) THEN 2 ELSE 0, diags |-> p1.diags \o p2.diags]]

FreshGens == [f \in Fams |-> FreshG]
Alone(file) == RunFile(FreshGens, file).obs

\* main(): the files of the command line in order, one process
RECURSIVE RunAll(_, _, _)
RunAll(gens, hist, i) ==
  IF i > Len(hist) THEN <<>>
  ELSE LET r == RunFile(gens, hist[i]) IN <<r.obs>> \o RunAll(r.gens, hist, i + 1)
Joint(hist) == RunAll(FreshGens, hist, 1)

\* ---- the property ----------------------------------------------------------------------------------
Independent(hist) == LET j == Joint(hist) IN \A i \in 1..Len(hist) : j[i] = Alone(hist[i])
ExitStatus(obs) == IF \E i \in 1..Len(obs) : obs[i].rc = 2 THEN 2 ELSE 0
ExitComposes(hist) == ExitStatus(Joint(hist)) = ExitStatus([i \in 1..Len(hist) |-> Alone(hist[i])])

\* ---- why the dimension "where the predecessor stops x where the successor starts" ------------------
Shifting(file) == \E n \in 1..Len(file.text) : Shifts(file.text[n])
LastShift(text) == text[CHOOSE n \in 1..Len(text) : Shifts(text[n]) /\ \A m \in (n + 1)..Len(text) : ~Shifts(text[m])]
FirstShift(text) == text[CHOOSE n \in 1..Len(text) : Shifts(text[n]) /\ \A m \in 1..(n - 1) : ~Shifts(text[m])]
\* the file whose last machine instruction is the one in front of file i's first, as its generator sees it
GenPred(hist, i, j) == /\ j < i /\ hist[j].f = hist[i].f /\ Shifting(hist[j])
                       /\ \A m \in (j + 1)..(i - 1) : ~(hist[m].f = hist[i].f /\ Shifting(hist[m]))
\* With a surviving one-shot tracker a file differs from its solo run ONLY IF the last machine instruction its
\* generator saw before it sets a hazard and its own first machine instruction depends on that hazard: files of other
\* families and pseudo instructions in between do not matter, any other first instruction shifts the stale flag out.
OnlyTailHead(hist) ==
  LET j == Joint(hist)
  IN \A i \in 1..Len(hist) : j[i] # Alone(hist[i]) =>
        /\ Shifting(hist[i])
        /\ \E p \in 1..(i - 1) : /\ GenPred(hist, i, p)
                                 /\ LastShift(hist[p].text).k \in {"set", "sd"}
                                 /\ FirstShift(hist[i].text).k \in {"dep", "sd"}
                                 /\ LastShift(hist[p].text).h = FirstShift(hist[i].text).h
=============================================================================
