\* 4004, all images of 3 cells at the start of page 1; cell 0 = representative opcodes (NOP, JCN, SRC, FIN/JIN,
\* JUN, JMS, ISZ, BBL, undefined FE/FF, 4040-only 01..03), other cells = representative bytes; 1..2 entries
CONSTANTS IsaName = "4004" Cpu = "4004" N = 3 Org = 256 MaxEntries = 2 EntrySpan = 4 AllFirst = FALSE
  FirstBytes = {0, 20, 33, 64, 65, 80, 81, 113, 192, 49, 254, 1, 2, 3}
  OtherBytes = {0, 1, 2, 20, 65, 192}
  VecAddrs = {}
SPECIFICATION Spec
INVARIANTS TerminatesWithin InvInside InvSound InvComplete InvDisjoint InvRoundTrip InvRunAgrees
PROPERTY Terminates
CHECK_DEADLOCK FALSE
