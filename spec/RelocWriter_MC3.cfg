\* programs of <= 3 statements (14 statement kinds), record limit 4 bytes
CONSTANTS MaxStmts = 3 MaxRecLenW = 4
SPECIFICATION Spec
INVARIANTS WFaithful LostMeans SplitMeans CancelMeans ImageOK RoundTrip NoEmpty
CHECK_DEADLOCK FALSE
