\* pinned SymbolAdder with self-referencing statements: livelock only with a patched label
CONSTANTS
  VarMode = "rel8"
  VarShort = 2
  VarLong = 4
  Padding = TRUE
  RelFpuOK = TRUE
  RefKinds = {"abs", "var", "rel"}
  Sects = {}
  Quals = {8}
  Alias = {}
  CaseSens = FALSE
  Pages = {}
  PageReset = TRUE
  SelfKinds = {"labs", "lvar", "lrel"}
  Labels = {"la", "lb"}
  MaxItems = 3
  Fills = {1}
  AbsWidths = {2}
  EquOffs = {}
  Orgs = {0}
  Fixed = FALSE
  ThrowErrors = FALSE
  ThrowMaxPass = 3
  WithExtra = TRUE
  AllowIllFormed = FALSE
  Complete = FALSE
SPECIFICATION Spec
CHECK_DEADLOCK FALSE
INVARIANTS TypeOK Fixpoint
PROPERTIES LivelockOnlyWhenPatched
