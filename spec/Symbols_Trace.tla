--------------------------- MODULE Symbols_Trace ---------------------------
(* Trace validation: every symbol definition and every symbol lookup the real assembler recorded       *)
(* (sym_def / sym_ref hook events: stored name, section or local handle, value, outcome), in every pass, *)
(* must be exactly what the Symbols machine does for the same statement.                                *)
(*                                                                                                      *)
(* Events (one per executed source line, reformatted from the hook records by line order only):          *)
(*   [a |-> "RESET", cs |-> BOOLEAN, devs |-> <<..>>]      a new program; devs: deviations the machine has *)
(*   [a |-> "PASS"]                                        pass_begin of pass 2, 3, ..                    *)
(*   [a |-> "STMT", st |-> statement, obs |-> <<o..>>, err |-> BOOLEAN]   generated programs: the abstract *)
(*        statement that was rendered into this line and what the hooks recorded while it was processed   *)
(*        (optional field more |-> <<st..>>: the further arguments of a FORWARD/PUBLIC/GLOBAL list)       *)
(*   [a |-> "SECT", n], [a |-> "ENDSECT", n], [a |-> "PP", k, n, q], [a |-> "LINE", obs, forms, lenient]  *)
(*        corpus programs: SECTION / ENDSECTION / FORWARD, PUBLIC, GLOBAL statements (names already       *)
(*        case-folded the way the run was configured) and any other line with its recorded observations   *)
(* An observation o: [e |-> "def"|"ref", name, sect, val, chg, out, dd] (dd: name carries a $$ suffix).    *)
EXTENDS Symbols, Json, IOUtils

VARIABLES s, l, perr
vars == <<s, l, perr>>

TraceLog == ndJsonDeserialize(IOEnv.TRACE)

\* ---- generated programs: exact --------------------------------------------------------------------------------
StripHash(n) == n       \* $$ names are compared up to their suffix: the tokeniser cuts the suffix off both sides

ObsEq(m, o) ==
  /\ m.e = o.e
  /\ m.out = o.out
  /\ m.val = o.val
  /\ m.out # "unknown" => m.sect = o.sect
  /\ (m.out # "unknown" /\ ~o.dd) => m.name = o.name
  /\ m.e = "def" => m.chg = (o.chg = 1)

\* the model's $$ names end in "#<suffix>"; the observed ones in a hash: both are cut by the tokeniser, which sets dd
ObsMatch(ms, os) == Len(ms) = Len(os) /\ \A k \in 1..Len(ms) : ObsEq(ms[k], os[k])

\* ---- corpus programs: the lookup rule only ------------------------------------------------------------------------
\* a definition recorded in section e.sect: it must be where EnterSymbol puts it (current section, or the target of a
\* pending PUBLIC/GLOBAL), or - inside macro expansions, where the hooks do not tell the two trees apart - anything
DefPlaceOK(st, o, lenient) ==
  \/ lenient
  \/ o.sect = st.mom
  \/ st.stk # <<>> /\ \E e \in st.stk[1].pub \cup st.stk[1].glb : e.d = o.sect

RecordDef(st, o) ==
  LET key == <<o.name, o.sect>>
      ne == [val |-> o.val, chg |-> o.chg = 1, def |-> TRUE]
      top == IF st.stk = <<>> THEN [h |-> 0, fwd |-> {}, pub |-> {}, glb |-> {}] ELSE st.stk[1]
      nt == [top EXCEPT !.fwd = Drop(@, o.name), !.pub = Drop(@, o.name), !.glb = Drop(@, o.name)]
      st1 == IF st.stk = <<>> THEN st ELSE [st EXCEPT !.stk = <<nt>> \o Tail(@)]
  IN IF o.out \in {"double", "mix"} THEN st
     ELSE [st1 EXCEPT !.tab = IF key \in DOMAIN @ THEN [@ EXCEPT ![key] = ne] ELSE @ @@ (key :> ne)]

\* a lookup that found (name, sect): some way of writing the reference on this line (plain, or one of the qualifiers
\* that occur on the line) makes FindNode return exactly this entry
RefOK(st, o, forms, lenient) ==
  \/ o.out = "unknown"
  \/ lenient
  \/ \E q \in forms : FindNode(st, o.name, q).key = <<o.name, o.sect>>

RECURSIVE ApplyObs(_, _, _, _, _)
ApplyObs(st, os, k, forms, lenient) ==
  IF k > Len(os) THEN [ok |-> TRUE, s |-> st]
  ELSE LET o == os[k] IN
       IF o.e = "def"
       THEN IF DefPlaceOK(st, o, lenient) THEN ApplyObs(RecordDef(st, o), os, k + 1, forms, lenient)
            ELSE [ok |-> FALSE, s |-> st]
       ELSE IF RefOK(st, o, forms, lenient) THEN ApplyObs(st, os, k + 1, forms, lenient)
            ELSE [ok |-> FALSE, s |-> st]

\* a source line = one statement; a FORWARD/PUBLIC/GLOBAL statement with an argument list is several elements
\* (e.st and the further arguments e.more), processed one after the other like the loop of CodePPSyms
RECURSIVE StepLine(_, _)
StepLine(st, els) == IF els = <<>> THEN st ELSE StepLine(Step(st, Head(els)), Tail(els))

TInit == s = InitS(FALSE, PINNED) /\ l = 1 /\ perr = FALSE

TNext ==
  /\ l <= Len(TraceLog)
  /\ l' = l + 1
  /\ LET e == TraceLog[l] IN
       CASE e.a = "RESET" -> s' = InitS(e.cs, {d \in PINNED : \E k \in 1..Len(e.devs) : e.devs[k] = d}) /\ perr' = FALSE
         [] e.a = "PASS"  -> s' = NextPass(ExitPass(s)) /\ perr' = FALSE
         [] e.a = "STMT"  -> LET n == StepLine(s, <<e.st>> \o (IF "more" \in DOMAIN e THEN e.more ELSE <<>>)) IN
                               /\ ObsMatch(n.obs, e.obs)
                               /\ (n.errs > s.errs) = e.err
                               /\ s' = n /\ perr' = perr
         [] e.a = "SECT"    -> s' = DoSection(s, e.n) /\ Len(s'.stk) = e.sed /\ perr' = perr
         [] e.a = "ENDSECT" -> s' = [DoEndSection(s, e.n) EXCEPT !.errs = 0] /\ Len(s'.stk) = e.sed /\ perr' = perr
         [] e.a = "PP"      -> s' = [DoPP(s, e.k, N(e.n), e.q) EXCEPT !.errs = 0] /\ perr' = perr
         [] OTHER           -> LET r == ApplyObs(s, e.obs, 1, {NoQ} \cup {e.forms[k] : k \in 1..Len(e.forms)}, e.lenient) IN
                               r.ok /\ s' = r.s /\ perr' = perr

TSpec == TInit /\ [][TNext]_vars
Accepted == TLCGet("stats").diameter - 1 = Len(TraceLog)
=============================================================================
