------------------------------ MODULE Expr_MC ------------------------------
(* Model check of the structural half of Expr:                                                        *)
(*   tree mode: every formula tree up to depth TreeDepth over the whole operator table (all two-       *)
(*     operand operators, ~ ~~ one-operand minus, one- and two-argument function calls, Atoms atoms):  *)
(*     Parse(Unparse(t)) = t with minimal parentheses, with blanks, and fully parenthesised;           *)
(*   flat mode: every parenthesis-free formula a o1 b o2 c ... with up to FlatOps operators: the parse *)
(*     tree reads back in order and obeys the manual's rank table with left-to-right grouping.         *)
(* The static ASSUMEs tie the manual's rank column to operator.c's Priority column and the manual's    *)
(* integer/float/string columns to the TypeCombinations + TryConvert arithmetic.                       *)
EXTENDS Expr, TLC
CONSTANTS TreeDepth, Atoms, FlatOps,
          Variants    \* 1: minimal parentheses only; 3: also with blanks and fully parenthesised

ASSUME RankOrderIsPriorityOrder ==
  \A i, j \in 1..NOps : (OpTable[i].rank < OpTable[j].rank) <=> (OpTable[i].pr < OpTable[j].pr)
ASSUME MinusMonadicLikeMinus == MinusMonadic.pr = OpByName("-").pr /\ MinusMonadic.rank = OpByName("-").rank
ASSUME TypingIsTheManualsColumns ==
  \A k \in 1..NOps : \A tl, tr \in {"I", "F", "S"} :
     (Typing(OpTable[k], tl, tr)[1] # 255) <=> DocAccepts(OpTable[k], tl, tr)
ASSUME OnlyPlusMixesToString ==     \* the one place where a combination other than II/FF/SS is selected
  \A k \in 1..NOps : \A tl, tr \in {"I", "F", "S"} :
     LET ty == Typing(OpTable[k], tl, tr) IN
     (ty[1] # 255 /\ OpTable[k].tc[ty[2]][1] # OpTable[k].tc[ty[2]][2] /\ OpTable[k].dy) <=> UndocumentedMix(OpTable[k], tl, tr)
\* the documented alias "!=": as long as OpTable (= Operators[] of operator.c) has no such row, the split rule reads
\* "a != b" as (a !) = b, an operand-count error; with the row of proposed_fixes/C08-not-equal-alias-missing.diff
\* appended to OpTable it is the inequality
NotEqualRowPresent == \E k \in 1..NOps : OpTable[k].n = "!="
ASSUME NotEqualAliasMissing ==
  IF NotEqualRowPresent THEN Parse(<<"a", " ", "!", "=", " ", "b">>) = Bin("!=", Atom("a"), Atom("b"))
  ELSE IsPErr(Parse(<<"a", " ", "!", "=", " ", "b">>))
ASSUME EqualAliasPresent == Parse(<<"a", "=", "=", "b">>) = Bin("==", Atom("a"), Atom("b"))

VARIABLES mode, top, t, ops
vars == <<mode, top, t, ops>>

RECURSIVE Trees(_)
Trees(d) ==
  IF d = 1 THEN {Atom(a) : a \in Atoms}
  ELSE LET S == Trees(d - 1)
       IN S \cup {Bin(o, l, r) : o \in BinOpNames, l \in S, r \in S} \cup {Un(o, x) : o \in UnOpNames, x \in S}
            \cup {Fun("F", <<x>>) : x \in S} \cup (IF d = 2 THEN {Fun("G", <<x, y>>) : x \in S, y \in S} ELSE {})

Tops == BinOpNames \cup UnOpNames \cup {"F", "G"}
None == [k |-> "none"]

Init == \/ mode = "tree" /\ top \in Tops /\ t = None /\ ops = <<>>
        \/ mode = "flat" /\ top = "-" /\ t = None /\ ops \in {<<o>> : o \in BinOpNames}

Next ==
  \/ /\ mode = "tree" /\ t = None
     /\ LET S == Trees(TreeDepth - 1) IN
        t' \in CASE top \in BinOpNames -> {Bin(top, l, r) : l \in S, r \in S}
                 [] top \in UnOpNames -> {Un(top, x) : x \in S}
                 [] top = "F" -> {Fun("F", <<x>>) : x \in S}
                 [] OTHER -> {Fun("G", <<x, y>>) : x \in S, y \in Trees(2)}
     /\ UNCHANGED <<mode, top, ops>>
  \/ /\ mode = "flat" /\ Len(ops) < FlatOps
     /\ \E o \in BinOpNames : ops' = Append(ops, o)
     /\ UNCHANGED <<mode, top, t>>
Spec == Init /\ [][Next]_vars

RoundTrip ==
  (mode = "tree" /\ t # None) =>
     /\ Parse(Unparse(t, FALSE, FALSE)) = t
     /\ (Variants >= 3 => /\ Parse(Unparse(t, TRUE, FALSE)) = t
                          /\ Parse(Unparse(t, FALSE, TRUE)) = t)

Letters == <<"a", "b", "c", "d", "e", "f", "g">>
RECURSIVE FlatChars(_, _)
FlatChars(os, i) == IF os = <<>> THEN <<Letters[i]>> ELSE <<Letters[i]>> \o OpByName(Head(os)).id \o FlatChars(Tail(os), i + 1)

FlatObeysRanks ==
  mode = "flat" =>
     LET cs == FlatChars(ops, 1)
         p == Parse(cs)
     IN /\ ~IsPErr(p)
        /\ InOrder(p) = cs
        /\ RankGrouped(p)
=============================================================================
