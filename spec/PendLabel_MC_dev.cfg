CONSTANTS ResetRule = "labelled-or-code" MaxMids = 1 Pairs = FALSE
SPECIFICATION Spec
INVARIANTS Final
CHECK_DEADLOCK FALSE
