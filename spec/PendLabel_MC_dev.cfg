CONSTANTS ResetRule = "labelled-or-code" MaxMids = 1 Pairs = FALSE
SPECIFICATION Spec
INVARIANTS ShareStatesFinal
CHECK_DEADLOCK FALSE
