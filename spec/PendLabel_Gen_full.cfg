CONSTANTS ResetRule = "any" Full = TRUE PerProg = 14
INIT GInit
NEXT GNext
INVARIANT Dump
CHECK_DEADLOCK FALSE
