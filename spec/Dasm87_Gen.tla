----------------------------- MODULE Dasm87_Gen -----------------------------
(* TLCS-870 (87C800 family): operand FIELD LIMITS of the forms with a signed displacement or a PC-relative  *)
(* distance that tests/t_87c800/t_87c800.asm exercises.  There is no instruction table for this family in   *)
(* the specification (C15 round-trips golden-source images only); this module describes just the three      *)
(* operand fields (Toshiba TLCS-870 series instruction set: "(HL+d)" d = signed 8 bit behind the memory     *)
(* prefix E4 / F4; "JR [cc,]a" signed 8 bit distance from the address behind the 2-byte instruction; "JRS   *)
(* T/F,a" signed 5 bit distance in the low opcode bits, from the address of the instruction + 2) with the   *)
(* IsaCommon field machinery, and enumerates for each of them the displacement classes                       *)
(*     {min, min + 1, -1, 0, 1, max - 1, max}  (+ for the branches -2, -3: self loop and the neighbour)        *)
(* A case tells the harness which displacement to substitute into a statement template of the golden       *)
(* source, how to spell a PC-relative operand ("$" + off), and which bits the assembled image must carry    *)
(* at the field position (so that the harness can be sure the image really contains the limit value).        *)
(* Named conventions / exclusions:                                                                            *)
(*   ShortenedByAssembler  (HL+0) is assembled as (HL) (prefix E3/F3, no displacement byte): the image       *)
(*                         carries no field, only the round trip is judged                                   *)
(*   InsideSelf            a branch whose target lies inside the branch instruction itself (JR with d = -1)  *)
(*                         is not a valid instruction stream: not generated                                  *)
EXTENDS IsaCommon, TLC, Json
VARIABLES kind, d

AddrMax == 65535
PcRef == 1000              \* the encoding of a relative field does not depend on the address: any reference works

Kinds == {"hld", "jr", "jrs"}
Field(k) == CASE k = "hld" -> FSig(8) [] k = "jr" -> FRel(8, 2) [] k = "jrs" -> FRel(5, 2)
InsLen(k) == CASE k = "hld" -> 0 [] k = "jr" -> 2 [] k = "jrs" -> 1

Limits(f) == {f.lo, f.lo + 1, -1, 0, 1, f.hi - 1, f.hi}
Classes(k) == IF Field(k).k = "rel" THEN Limits(Field(k)) \cup {-2, -3} ELSE Limits(Field(k))

\* operand value as the assembler sees it: the displacement itself, or the target address for a PC-relative field
Operand(k, x) == IF Field(k).k = "rel" THEN PcRef + Field(k).base + x ELSE x
Off(k, x) == IF Field(k).k = "rel" THEN Field(k).base + x ELSE 0         \* target = address of the statement + Off
InsideSelf(k, x) == Field(k).k = "rel" /\ 0 < Off(k, x) /\ Off(k, x) < InsLen(k)
ShortenedByAssembler(k, x) == k = "hld" /\ x = 0

FieldBits(k, x) == Bits(Enc(Field(k), Operand(k, x), PcRef), 0, Field(k).w)

Init == kind \in Kinds /\ d \in {x \in Classes(kind) : ~InsideSelf(kind, x)}
Next == UNCHANGED <<kind, d>>

\* every generated class is encodable, and the declarative decoder gets the displacement back from the field bits
AllEncodable == Legal(Field(kind), Operand(kind, d), PcRef, AddrMax)
DecodeInverts == SignExt(FieldBits(kind, d), Field(kind).w) = d
\* both limits of every field are among the cases
LimitsPresent == \A k \in Kinds : {Field(k).lo, Field(k).hi} \subseteq {x \in Classes(k) : ~InsideSelf(k, x)}

CaseOut == [kind |-> kind, d |-> d, off |-> Off(kind, d), w |-> Field(kind).w, bits |-> FieldBits(kind, d),
            fieldless |-> ShortenedByAssembler(kind, d), min |-> Field(kind).lo, max |-> Field(kind).hi]
Dump == PrintT(<<"OUT", ToJson(CaseOut)>>)
=============================================================================
