--------------------------- MODULE MacroProc_MC ---------------------------
(* Exhaustive check of the macro processor design: every program of the nesting family (bodies          *)
(* pre* construct? post*, nesting <= MaxD, counts Cnts) and of the small focused families is run line    *)
(* by line through the machine (one state per source line handed to Produce_Code); at the end the flat   *)
(* statement list must equal ExpandDecl of the program text, and the tag / symbol-space / IF stacks must *)
(* be balanced.                                                                                          *)
(*   Fixed = DevNames : the design with the proposed repairs satisfies Transparent for every program     *)
(*   Fixed = {}       : the code as it is satisfies TransparentUnlessDev, i.e. the named deviations are  *)
(*                      the only reasons for a difference within the bounds                              *)
EXTENDS MacroProg
CONSTANTS MaxD, Cnts, NPre, NPost, Rich, Focus

VARIABLES files, st, done
vars == <<files, st, done>>

Small ==
  {BindProg(n, sh, k, <<1, n>>, k >= n) : n \in 1..2, sh \in Shapes, k \in 0..3}
  \cup {RecProg(k, e) : k \in 0..3, e \in 0..1}
  \cup {ShiftProg(n, k, s) : n \in 1..2, k \in 0..3, s \in 1..2}
  \cup {ExitProg(kd, n, at) : kd \in {"REPT", "IRP", "WHILE", "MACRO", "MREPT"}, n \in 0..3, at \in 0..2}
  \cup {LabelProg(g, n, i) : g \in BOOLEAN, n \in 1..2, i \in {"NONE", "REPT", "EMPTY", "EMPTYREPT"}}
  \cup {InclProg(d, v) : d \in 1..3, v \in BOOLEAN}
  \cup {AdjProg(18, i, j) : <<i, j>> \in {<<1, 2>>, <<16, 17>>, <<17, 1>>, <<8, 9>>}}
  \cup {ConcatProg(<<"MODULE">>, <<"FUNCTION">>)}
  \cup {ShiftHoleProg(k, m, sh) : k \in 0..2, m \in Masks(2), sh \in 0..2}
  \cup {ShiftLoopProg(kd, t[1], t[2], n) : kd \in LoopKinds, t \in {<<0, 2>>, <<1, 1>>, <<1, 3>>, <<2, 3>>}, n \in 0..2}
  \cup {ScopeProg(o, i, n, pre) : o \in ScopeOuters, i \in ScopeInners, n \in {0, 2}, pre \in BOOLEAN}

Programs == NestPrograms(MaxD, Cnts, [npre |-> NPre, npost |-> NPost, rich |-> Rich]) \cup (IF Focus THEN Small ELSE {})

Init == files \in Programs /\ st = Start(files, <<>>, "a.asm") /\ done = FALSE
Next == /\ ~done
        /\ files' = files
        /\ IF st.crashed THEN st' = st /\ done' = TRUE
           ELSE IF InputEnd(st) THEN st' = Finish(st) /\ done' = TRUE
                           ELSE st' = StepLine(st) /\ done' = FALSE
Spec == Init /\ [][Next]_vars

D == ExpandDecl(files, <<>>, "a.asm")

\* C11: the delivered statements are the program carried out by hand
Transparent == done => (~D.indef => (MachineFlat(st) = D.flat /\ st.errs = 0))
TransparentUnlessDev == done => ((~D.indef /\ st.devs = {}) => (MachineFlat(st) = D.flat /\ st.errs = 0))
\* labels are private per expansion: whenever the hand expansion has no clash, the machine has none
Private == done => ((~D.indef /\ (Fixed = DevNames \/ st.devs = {})) => (NoDoubleDef(D.raw) => NoDoubleDef(st.delivered)))
\* every stack the macro processor touches is back where it started
Balanced == done => /\ st.tags = <<>>
                    /\ st.crashed => "IrpDoubleCleanup" \in st.devs
                    /\ (~D.indef /\ (Fixed = DevNames \/ st.devs = {})) =>
                         /\ st.outs = <<>> /\ st.loc.mom = NoLoc /\ st.loc.stack = <<>> /\ st.cm.stk = <<>> /\ st.cm.ifasm
                         /\ \A m \in DOMAIN st.macros : st.macros[m].useCnt = 0
\* C20 (position part): every statement is attributed to the place the text puts it: file and line last read,
\* and for every construct being expanded what it expands, the iteration and the body line
PosAgree == done => ((~D.indef /\ (Fixed = DevNames \/ (st.devs = {} /\ st.pdevs = {}))) =>
                       /\ Len(st.delivered) = Len(D.raw)
                       /\ \A i \in DOMAIN D.raw : st.delivered[i].pos = D.raw[i].pos)
\* the repaired design never takes a deviating branch
NoDevWhenFixed == (Fixed = DevNames) => st.devs = {} /\ st.pdevs = {}
\* counters of every tag stay inside the body they index
TagsOK == \A i \in DOMAIN st.tags :
            LET t == st.tags[i] IN
              /\ t.kind \in {"FILE", "MACRO", "IRP", "IRPC", "REPT", "WHILE"}
              /\ t.kind # "FILE" => (t.lineCnt = Len(t.lines) \/ t.lines = <<>>) /\ t.lineZ >= 1 /\ (t.isEmpty \/ t.lineZ <= t.lineCnt)
              /\ t.kind = "FILE" => t.idx <= Len(t.lines) + 1
=============================================================================
