CONSTANTS BufSize = 4 MaxRecLen = 9 MaxStmts = 6 Segs = {1, 2} MaxN = 3 MaxAddr = 14 MaxSave = 1 BinChunk = 2 Dev = "none"
CONSTANT Cpus <- MCCpus
SPECIFICATION SpecFam
INVARIANTS FileWellFormed Conservation EntryKept HeadersTruthful LenFits BufInBounds OpenRecordTracksCounter
CHECK_DEADLOCK FALSE
