------------------------------ MODULE LineReader ------------------------------
(***************************************************************************)
(* C20: how the line counter of a source file advances - strutil.c         *)
(* ReadLnCont() under as.c INCLUDE_Processor(), at the level of LENGTHS.   *)
(*                                                                         *)
(* A diagnostic names the line of the innermost file "last read", i.e. the *)
(* sum of what ReadLnCont() returned for that file so far.  ReadLnCont()   *)
(* does not see lines, it sees fgets() CHUNKS: it reads into what is left  *)
(* of the line buffer (OneLine: capacity 1024 at program start, enlarged   *)
(* by 128 whenever fewer than 128 bytes are free, never shrunk - so the    *)
(* state of the buffer is inherited from every earlier line, file and      *)
(* pass), strips LF / CR-LF / ^Z, and joins physical lines that end in a   *)
(* backslash.  A physical line arrives in more than one chunk when it is   *)
(* longer than the free room: a long line, a later part of a continued     *)
(* statement (the joined text already fills the buffer), or the last line  *)
(* of a file without a line end (the data chunk is followed by the NULL    *)
(* chunk).  The property needs: every PHYSICAL line is counted once,       *)
(* whatever the chunking was.                                              *)
(*                                                                         *)
(* (SourceLine.tla of C16 has the same function at the level of            *)
(* characters and checks the TEXT that is delivered; this module abstracts *)
(* the text to byte classes so that TLC can run it for the real buffer     *)
(* sizes inside the placement generator of C20, and checks the COUNT.)     *)
(*                                                                         *)
(* physical line  l = [n, bs, z, eol]:  n ordinary characters, then a      *)
(*   backslash iff bs, then ^Z iff z, then the line end eol: "lf", "crlf"  *)
(*   or "none" (only the last line of a file, which then is not empty)     *)
(* file           = sequence of physical lines                             *)
(* buffer state   B = [cap, low, grow]   (real: 1024.., 128, 128)          *)
(*                                                                         *)
(* Named deviation kept as coded: CrSplitFromLf - CR is stripped only from *)
(* the chunk that carries the LF; when the buffer ends exactly between CR  *)
(* and LF the CR stays, and a backslash in front of it no longer continues *)
(* the line (the statement falls apart; the COUNT stays right).            *)
(***************************************************************************)
EXTENDS Integers, Sequences, FiniteSets

RealBuf == [cap |-> 1024, low |-> 128, grow |-> 128]    \* OneLine: STRINGSIZE (datatypes.h), ReadLnCont's 128 / 128

MinI(a, b) == IF a < b THEN a ELSE b
MaxI(a, b) == IF a > b THEN a ELSE b

\* --- bytes of a physical line ---------------------------------------------------------------------------
Specials(l) == (IF l.bs THEN <<"bs">> ELSE <<>>) \o (IF l.z THEN <<"z">> ELSE <<>>)
               \o (IF l.eol = "crlf" THEN <<"cr">> ELSE <<>>) \o (IF l.eol = "none" THEN <<>> ELSE <<"lf">>)
NBytes(l) == l.n + Len(Specials(l))
ByteAt(l, i) == IF i <= l.n THEN "o" ELSE Specials(l)[i - l.n]
WellFormedFile(file) == \A i \in DOMAIN file : file[i].eol = "none" => (i = Len(file) /\ NBytes(file[i]) > 0)

\* --- content of the line buffer: n ordinary characters, then the special ones sp -----------------------------
EmptyBuf == [n |-> 0, sp |-> <<>>, ok |-> TRUE]
Fill(buf) == buf.n + Len(buf.sp)                                     \* `Count` of the C code
LastOf(buf) == IF buf.sp # <<>> THEN buf.sp[Len(buf.sp)] ELSE IF buf.n > 0 THEN "o" ELSE "nul"
DropLast(buf) == IF buf.sp # <<>> THEN [buf EXCEPT !.sp = SubSeq(@, 1, Len(@) - 1)] ELSE [buf EXCEPT !.n = @ - 1]
\* bytes a+1 .. b of line l appended  (ok: the representation holds - no ordinary character behind a special one)
AppendBytes(buf, l, a, b) ==
  LET ord == MaxI(0, MinI(b, l.n) - a)
      from == MaxI(a, l.n)
      sp == [i \in 1..(b - from) |-> ByteAt(l, from + i)]
  IN [n |-> buf.n + ord, sp |-> buf.sp \o sp, ok |-> buf.ok /\ (ord > 0 => buf.sp = <<>>)]

(***************************************************************************)
(* The inner loop of ReadLnCont(): one physical line, chunk by chunk.      *)
(* cursor (i, p): p bytes of line i are consumed.  fgets(room) delivers at *)
(* most room - 1 bytes and stops behind LF; NULL at the end of the file.   *)
(***************************************************************************)
RECURSIVE ReadPhys(_, _, _, _, _, _, _)
ReadPhys(file, i, p, B, buf, calls, crsplit) ==
  LET cap2 == IF B.cap - Fill(buf) < B.low THEN B.cap + B.grow ELSE B.cap      \* as_dynstr_realloc(+128)
      B2 == [B EXCEPT !.cap = cap2]
      avail == IF i > Len(file) THEN 0 ELSE NBytes(file[i]) - p
  IN IF avail = 0                                                                \* fgets() = NULL
     THEN [buf |-> buf, i |-> IF p > 0 THEN i + 1 ELSE i, B |-> B2, calls |-> calls + 1, eof |-> TRUE, crsplit |-> crsplit]
     ELSE LET l == file[i]
              k == MinI(cap2 - Fill(buf) - 1, avail)
              term == ByteAt(l, p + k) = "lf"                                    \* Terminated
              strip == IF ~term THEN 0 ELSE IF k > 1 /\ ByteAt(l, p + k - 1) = "cr" THEN 2 ELSE 1
              nb == AppendBytes(buf, l, p, p + k - strip)
              cs == crsplit \/ (term /\ k = 1 /\ LastOf(buf) = "cr")              \* CrSplitFromLf
          IN IF term THEN [buf |-> nb, i |-> i + 1, B |-> B2, calls |-> calls + 1, eof |-> FALSE, crsplit |-> cs]
             ELSE ReadPhys(file, i, p + k, B2, nb, calls + 1, cs)

\* the outer loop: LineCount++ per physical line, ^Z stripped, a trailing backslash continues
RECURSIVE ReadLog(_, _, _, _, _, _, _)
ReadLog(file, i, B, buf, used, calls, crsplit) ==
  LET r == ReadPhys(file, i, 0, B, buf, calls, crsplit)
      b1 == IF Fill(r.buf) > 0 /\ LastOf(r.buf) = "z" THEN DropLast(r.buf) ELSE r.buf
  IN IF Fill(b1) > 0 /\ LastOf(b1) = "bs" THEN ReadLog(file, r.i, r.B, DropLast(b1), used + 1, r.calls, r.crsplit)
     ELSE [count |-> used + 1, buf |-> b1, i |-> r.i, B |-> r.B, calls |-> r.calls, eof |-> r.eof, crsplit |-> r.crsplit]
ReadLnCont(file, i, B) == ReadLog(file, i, B, EmptyBuf, 0, 0, FALSE)

\* INCLUDE_Processor() until it says "last line": LineZ = MomLineCounter += count.  One entry per call.
RECURSIVE ReadFrom(_, _, _, _, _)
ReadFrom(file, i, B, lineZ, acc) ==
  LET r == ReadLnCont(file, i, B)
      e == [first |-> i, next |-> r.i, count |-> r.count, lineZ |-> lineZ + r.count, len |-> r.buf.n, sp |-> r.buf.sp,
            ok |-> r.buf.ok, calls |-> r.calls, crsplit |-> r.crsplit, last |-> r.eof, cap |-> r.B.cap]
  IN IF r.eof THEN Append(acc, e) ELSE ReadFrom(file, r.i, r.B, e.lineZ, Append(acc, e))
ReadFile(file, B) == ReadFrom(file, 1, B, 0, <<>>)

(***************************************************************************)
(* Declarative side (manual, "Line references in error messages always     *)
(* relate to the last line of such a composed source line"): line k of a   *)
(* file is its k-th physical line - lengths, line ends and the reader's    *)
(* buffer do not occur.  A logical line runs up to the first physical line *)
(* that does not end in a backslash.                                       *)
(***************************************************************************)
GroupEnd(file, i) == IF \E k \in i..Len(file) : ~file[k].bs THEN CHOOSE k \in i..Len(file) : ~file[k].bs /\ \A j \in i..(k - 1) : file[j].bs
                     ELSE Len(file)
RECURSIVE SumN(_, _, _)
SumN(file, a, b) == IF a > b THEN 0 ELSE file[a].n + SumN(file, a + 1, b)
EndsOpen(file) == file # <<>> /\ file[Len(file)].eol = "none"        \* no line end behind the last line
\* (a backslash at the very end of a file is not a continuation of anything: the manual does not say what it is,
\*  such files are outside WellShaped and are never generated)
WellShaped(file) == WellFormedFile(file) /\ (file # <<>> => ~file[Len(file)].bs)
RECURSIVE DeclFrom(_, _)
DeclFrom(file, i) ==
  IF i > Len(file) THEN <<[lineZ |-> Len(file) + 1, len |-> 0, last |-> TRUE]>>                 \* the read that meets the end
  ELSE LET g == GroupEnd(file, i)
           closes == g = Len(file) /\ EndsOpen(file)
       IN <<[lineZ |-> g, len |-> SumN(file, i, g), last |-> closes]>> \o (IF closes THEN <<>> ELSE DeclFrom(file, g + 1))
DeclReads(file) == DeclFrom(file, 1)

\* --- what the reader has to satisfy ---------------------------------------------------------------------
Brief(rs) == [j \in DOMAIN rs |-> [lineZ |-> rs[j].lineZ, len |-> rs[j].len, last |-> rs[j].last]]
SplitDev(e) == "bs" \in {e.sp[x] : x \in DOMAIN e.sp}        \* CrSplitFromLf hit a continued line: it did not continue
NoSplitDev(rs) == \A j \in DOMAIN rs : ~SplitDev(rs[j])
\* every physical line is counted exactly once, whatever the chunks were (holds even where the deviation strikes)
CountsPhysical(file, rs) ==
  \A j \in DOMAIN rs : /\ rs[j].ok
                       /\ rs[j].lineZ = (IF rs[j].last /\ ~EndsOpen(file) THEN Len(file) + 1 ELSE rs[j].next - 1)
                       /\ rs[j].count = rs[j].lineZ - (IF j = 1 THEN 0 ELSE rs[j - 1].lineZ)
\* logical lines, their lengths and their line numbers are the declarative ones; a CR may only stay where the deviation says
ReadsDeclarative(file, rs) ==
  /\ NoSplitDev(rs) => Brief(rs) = DeclReads(file)
  /\ \A j \in DOMAIN rs : rs[j].sp # <<>> => rs[j].crsplit
\* the buffer only grows, and is never fuller than its capacity
BufferSane(B, rs) == \A j \in DOMAIN rs : rs[j].cap >= (IF j = 1 THEN B.cap ELSE rs[j - 1].cap) /\ rs[j].len + Len(rs[j].sp) < rs[j].cap
\* some physical line took more than one fgets() (used to tell which generated shapes exercise the chunking)
Chunked(rs) == \E j \in DOMAIN rs : rs[j].calls > rs[j].count
\* physical lines of the logical lines on which the reader can deviate
DevLines(file, rs) == UNION {rs[j].first..GroupEnd(file, rs[j].first) : j \in {x \in DOMAIN rs : SplitDev(rs[x])}}

\* capacities the buffer can have when a file is opened: it starts as B0 and grows in steps (history of earlier
\* lines, files and passes); hi = longest joined line that is around
Caps(B0, hi) == {[B0 EXCEPT !.cap = B0.cap + j * B0.grow] : j \in 0..((hi \div B0.grow) + 2)}

(***************************************************************************)
(* Lengths the reader distinguishes, derived from the buffer constants:    *)
(* with t characters already joined, a physical line of m bytes in front   *)
(* of its line end (eb = 1 for LF, 2 for CR-LF) arrives in one chunk iff   *)
(* m + eb <= Room(B, t) - 1.                                               *)
(***************************************************************************)
Room(B, t) == IF B.cap - t < B.low THEN B.cap + B.grow - t ELSE B.cap - t
Fit(B, t, eb) == Room(B, t) - 1 - eb
=============================================================================
