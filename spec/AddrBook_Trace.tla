---------------------------- MODULE AddrBook_Trace ----------------------------
(* Trace validation of the address bookkeeping on real runs (every statement of every pass).           *)
(* One event per source statement, regrouped from the hook events of that line:                        *)
(*   [a |-> class, chunks |-> <<[k, seg, addr, n]>>, seg, pc, ph, phd, svd, std, len, skip]             *)
(*   k: "E" emitted data (n units), "R" reservation (n units), "X" retraction (n units)                *)
(*   seg/pc/ph/phd/svd/std: active segment, its load counter, phase offset, phase-stack depth,         *)
(*   SAVE depth, STRUCT depth AFTER the statement; len = CodeLen; skip = line not assembled            *)
(* Claims checked at every statement of every target:                                                  *)
(*   - every chunk is emitted/reserved at the load address the bookkeeping implies  (addr = pc[seg])   *)
(*   - a statement that is not one of the named address-moving pseudo-ops moves nothing but the active *)
(*     counter, and that only by its chunks (or by CodeLen inside a STRUCT body)                       *)
(*   - the named pseudo-ops have exactly the effect of the AddrBook operators                          *)
EXTENDS AddrBook, TLC, Json, IOUtils

VARIABLES l, b
vars == <<l, b>>
TraceLog == ndJsonDeserialize(IOEnv.TRACE)

\* ---- chunks of one statement --------------------------------------------------------------------------
RECURSIVE Chunks(_, _, _)
\* returns <<ok, b>>
Chunks(bb, cs, i) ==
  IF i > Len(cs) THEN <<TRUE, bb>>
  ELSE LET c == cs[i] IN
       IF c.k = "X" THEN Chunks(Retract(bb, c.n), cs, i + 1)
       ELSE IF c.seg = bb.act /\ c.addr = Load(bb)                 \* emitted where the bookkeeping says
            THEN Chunks(MarkUsed(Advance(bb, c.n)), cs, i + 1)
            ELSE <<FALSE, bb>>

PostOK(bb, e) ==
  /\ bb.act = e.seg /\ Load(bb) = e.pc /\ bb.ph[bb.act] = e.ph
  /\ (e.seg # StructSeg => Len(bb.phStk[bb.act]) = e.phd)
  /\ Len(bb.saveStk) = e.svd /\ Len(bb.stStk) = e.std

\* candidates for the state right after the pseudo-op handler ran (before WriteCode)
AfterHandler(e) ==
  CASE e.a = "ORG"      -> {Org(b, e.pc + e.ph), b}                      \* argument recovered from the post state
    [] e.a = "RORG"     -> {Rorg(b, e.pc - Load(b))}
    [] e.a = "SEGMENT"  -> {Segment(b, e.seg, e.pc), b}                  \* start address of a fresh segment: logged
    [] e.a = "CPU"      -> {Segment(b, e.seg, e.pc)}                      \* SetNSeg(SegCode)
    [] e.a = "PHASE"    -> {Phase(b, e.pc + e.ph), b}
    [] e.a = "DEPHASE"  -> {Dephase(b), b}
    [] e.a = "SAVE"     -> {Save(b), b}
    [] e.a = "RESTORE"  -> (IF CanRestore(b) THEN {Restore(b)} ELSE {}) \cup {b}
    [] e.a = "STRUCT"   -> {BeginStruct(b, FALSE), b}
    [] e.a = "UNION"    -> {BeginStruct(b, TRUE), b}
    [] e.a = "ENDSTRUCT" -> (IF b.stStk # <<>> THEN {EndStruct(b)} ELSE {}) \cup {b}
    [] OTHER            -> {b}                                            \* ALIGN and every other statement

\* in a STRUCT body nothing reaches WriteBytes/NewRecord: the counter moves by CodeLen
BodyAdvance(bb, e) == IF InStruct(bb) /\ e.a # "ENDSTRUCT" /\ e.a # "STRUCT" /\ e.a # "UNION" THEN Advance(bb, e.len) ELSE bb

TInit == l = 1 /\ b = InitB(1)

\* AssembleFile_InitPass: code segment active, every counter 0, no segment marked used yet
Reset(e) == [InitB(e.seg) EXCEPT !.pc[e.seg] = e.pc, !.used = [s \in AllSegs |-> FALSE]]

TNext ==
  /\ l <= Len(TraceLog) /\ l' = l + 1
  /\ LET e == TraceLog[l] IN
       IF e.a = "RESET" THEN b' = Reset(e)
       ELSE \E h \in AfterHandler(e) :
              LET r  == Chunks(h, e.chunks, 1)
                  nb == BodyAdvance(r[2], e)
              IN /\ r[1]
                 /\ PostOK(nb, e)
                 /\ b' = nb

Accepted == TLCGet("stats").diameter - 1 = Len(TraceLog)
=============================================================================
