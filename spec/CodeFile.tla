------------------------------ MODULE CodeFile ------------------------------
(* Abstract AS code file ("P file"), written from doc/file-formats.md "Code Files".                    *)
(*                                                                                                     *)
(* A file is a sequence of ITEMS in file order followed by the creator record:                         *)
(*   data record  [k |-> "D", cpu, seg, gran, start, data]   data = sequence of bytes (0..255)         *)
(*   entry record [k |-> "E", addr]                                                                    *)
(* `start` counts addressable units of `gran` bytes, Len(data) counts bytes (manual: "While the start  *)
(* address refers to the granularity, the Length value is always expressed in bytes").                 *)
(* The header form (short $01..$7f or long $81) is not part of the abstract record; byte-level         *)
(* encoding/decoding lives in CodeFileBytes.tla.                                                       *)
(* Generic on purpose: used by P2Bin, PBind, PList (and free to be extended by other modules).         *)
EXTENDS Integers, Sequences, FiniteSets

SegNone == 0  SegCode == 1  SegData == 2  SegIData == 3  SegXData == 4
SegYData == 5 SegBData == 6 SegIO == 7    SegReg == 8    SegRomData == 9
Segments == 0..9
Grans == {1, 2, 4, 8}
MaxRecLen == 65535

IsData(it)  == it.k = "D"
IsEntry(it) == it.k = "E"

\* a data record as the manual allows it
WellFormedRec(r) ==
  /\ r.cpu \in 0..255 /\ r.seg \in Segments /\ r.gran \in Grans
  /\ r.start >= 0
  /\ Len(r.data) <= MaxRecLen /\ Len(r.data) % r.gran = 0
  /\ \A i \in 1..Len(r.data) : r.data[i] \in 0..255

WellFormedItem(it) == IF IsData(it) THEN WellFormedRec(it) ELSE IsEntry(it) /\ it.addr >= 0
WellFormed(items) == \A i \in 1..Len(items) : WellFormedItem(items[i])

\* address arithmetic of one record ---------------------------------------------------------------
Units(r)     == Len(r.data) \div r.gran              \* addressable units occupied
LastAddr(r)  == r.start + Units(r) - 1               \* manual: "end address"; start-1 for an empty record
Covers(r, a) == r.start <= a /\ a <= LastAddr(r)     \* unit address a lies in the record
\* byte addresses: unit a, byte j of the unit  ->  a * gran + j
ByteLo(r)       == r.start * r.gran
ByteHi(r)       == r.start * r.gran + Len(r.data)    \* exclusive
CoversByte(r, x) == ByteLo(r) <= x /\ x < ByteHi(r)
ByteAt(r, x)     == r.data[x - ByteLo(r) + 1]

\* selections -----------------------------------------------------------------------------------------
SelectSeqIdx(s, P(_)) == {i \in 1..Len(s) : P(s[i])}
DataIdx(items)  == {i \in 1..Len(items) : IsData(items[i])}
EntryIdx(items) == {i \in 1..Len(items) : IsEntry(items[i])}
\* the entry address of a file: the manual defines one entry record; with several, tools take the first
FirstEntry(items) == IF EntryIdx(items) = {} THEN -1
                     ELSE items[CHOOSE i \in EntryIdx(items) : \A j \in EntryIdx(items) : i <= j].addr

\* memory image of one segment: byte address -> set of byte values laid there (a set exposes overlaps)
Image(items, seg) ==
  LET D == {i \in DataIdx(items) : items[i].seg = seg}
      X == UNION {ByteLo(items[i])..(ByteHi(items[i]) - 1) : i \in D}
  IN [x \in X |-> {ByteAt(items[i], x) : i \in {j \in D : CoversByte(items[j], x)}}]

Overlapping(items, seg) == \E x \in DOMAIN Image(items, seg) :
                              Cardinality({i \in DataIdx(items) : items[i].seg = seg /\ CoversByte(items[i], x)}) > 1
=============================================================================
