------------------------------ MODULE RelocFile ------------------------------
(* Relocatable AS code files: the record types $82..$85 that doc/file-formats.md does not describe.    *)
(* Written from fileformat.h (record types, the 32-bit relocation type word, RelName_SegStart,         *)
(* RelFlag_Relative), asmcode.c WrPatches (layout of the $85 record as the assembler writes it) and    *)
(* toolutils.c ReadRelocInfo (what the tools accept).  Extends the documented grammar of               *)
(* CodeFileBytes.tla; nothing of that module is changed.                                               *)
(*                                                                                                     *)
(*   $82 cpu seg gran start:4 len:2 data      data record "with symbols": a $85 record follows          *)
(*   $83 cpu seg gran start:4 len:2 data      record of a relocatable segment (RSEG), no symbols        *)
(*   $84 cpu seg gran start:4 len:2 data      relocatable segment, a $85 record follows                 *)
(*   $85 np:4 nx:4 slen:4                     relocation info of the record in front of it:             *)
(*       np * (addr:8 strpos:4 type:4)          patch entries                                           *)
(*       nx * (strpos:4 flags:4 value:8)        export entries                                          *)
(*       slen bytes                             string table, NUL-terminated names, last byte NUL       *)
(*                                                                                                     *)
(* A $85 record that does not follow a $82/$84 record is the item [k |-> "S", info |-> <<I>>] (no tool uses it).   *)
(* Abstract item = data item of CodeFile.tla + rel (BOOLEAN: $83/$84) + info (<<>> or <<I>> with       *)
(*   I = [patches |-> << [addr, name, type] >>, exports |-> << [name, flags, value] >>]);               *)
(* names are sequences of character codes, type is the decoded type word (record, see TypeOfBytes).    *)
(* Model bounds: addresses and values < 2^30 (TLC integers), the upper halves of the 8-byte fields 0.   *)
EXTENDS CodeFileBytes

SegStartName == <<36, 36, 36>>        \* "$$$": "internal symbol name used to signify the start address of a segment"
RelFlagRelative == 1                  \* export flag bit 0: the value moves with its (relocatable) record

(***************************************************************************)
(* The relocation type word (comment in fileformat.h):                     *)
(*   bits 24..31 base type (0 = binary integer)                            *)
(*   bits 0..7   length of the integer in bits                             *)
(*   bits 8..11  start position / bits 12..15 length of the first          *)
(*               component in the first byte, then as many whole bytes as  *)
(*               possible, bits 16..19 position of the remaining bits in   *)
(*               the last byte                                             *)
(*   bit 20 big endian, bit 21 subtract instead of add, bit 22 "page       *)
(*   integer" (upper address bits must equal those of the patch location)  *)
(***************************************************************************)
B01(x) == IF x THEN 1 ELSE 0
TypeBytes(t) == << t.bits, t.start + 16 * t.len1,
                   t.rest + 16 * B01(t.big) + 32 * B01(t.sub) + 64 * B01(t.page) + 128 * B01(t.b23), t.base >>
TypeOfBytes(b) == [bits |-> b[1], start |-> b[2] % 16, len1 |-> b[2] \div 16, rest |-> b[3] % 16,
                   big |-> (b[3] \div 16) % 2 = 1, sub |-> (b[3] \div 32) % 2 = 1, page |-> (b[3] \div 64) % 2 = 1,
                   b23 |-> b[3] \div 128 = 1, base |-> b[4]]
\* the "simple types" RelocTypeL8 ($8008) L16 ($8010) B16 ($108010) L24 B24 L32 ($8020) B32 ($108020) L64 B64
MkType(bits, big, sub) == [bits |-> bits, start |-> 0, len1 |-> 8, rest |-> 0, big |-> big, sub |-> sub,
                           page |-> FALSE, b23 |-> FALSE, base |-> 0]
Simple(t) == /\ t.base = 0 /\ ~t.b23 /\ t.start = 0 /\ t.len1 = 8 /\ t.rest = 0
             /\ t.bits \in {8, 16, 24, 32, 64} /\ (t.bits = 8 => ~t.big)          \* RelocTypeB8 = RelocTypeL8
Width(t) == t.bits \div 8              \* whole bytes of a simple type
TL8  == MkType(8, FALSE, FALSE)   TL16 == MkType(16, FALSE, FALSE)  TB16 == MkType(16, TRUE, FALSE)
TL24 == MkType(24, FALSE, FALSE)  TB24 == MkType(24, TRUE, FALSE)
TL32 == MkType(32, FALSE, FALSE)  TB32 == MkType(32, TRUE, FALSE)
TL64 == MkType(64, FALSE, FALSE)  TB64 == MkType(64, TRUE, FALSE)
Neg(t) == [t EXCEPT !.sub = TRUE]

\* ---- fields as byte lists (values up to 2^64 do not fit TLC integers) ---------------------------------
\* little-endian digits of an integer v (|v| < 2^31) over n bytes, two's complement for negative v
Digit(v, i) == IF i < 4 THEN (v \div (256 ^ i)) % 256 ELSE IF v < 0 THEN 255 ELSE 0
DigitsLE(v, n) == [i \in 1..n |-> Digit(v, i - 1)]
Rev(s) == [i \in 1..Len(s) |-> s[Len(s) + 1 - i]]
\* a + b modulo 256^n on little-endian digit lists of equal length
RECURSIVE AddLEc(_, _, _, _)
AddLEc(a, b, i, carry) == IF i > Len(a) THEN <<>>
                          ELSE LET s == a[i] + b[i] + carry IN <<s % 256>> \o AddLEc(a, b, i + 1, s \div 256)
AddLE(a, b) == AddLEc(a, b, 1, 0)
ComplLE(a) == AddLE([i \in 1..Len(a) |-> 255 - a[i]], [i \in 1..Len(a) |-> IF i = 1 THEN 1 ELSE 0])     \* -a
SubLE(a, b) == AddLE(a, ComplLE(b))
\* the field of a simple type at byte offset off (0-based) of data, as little-endian digits, and its replacement
FieldLE(data, off, t) == LET raw == SubSeq(data, off + 1, off + Width(t)) IN IF t.big THEN Rev(raw) ELSE raw
PutFieldLE(data, off, t, le) ==
  LET raw == IF t.big THEN Rev(le) ELSE le
  IN [i \in 1..Len(data) |-> IF i > off /\ i <= off + Width(t) THEN raw[i - off] ELSE data[i]]
FieldInside(data, off, t) == off >= 0 /\ off + Width(t) <= Len(data)

(***************************************************************************)
(* encoder                                                                 *)
(***************************************************************************)
LE8(v) == LE4(v) \o <<0, 0, 0, 0>>
NoInfo == <<>>
HasInfo(it) == it.info # <<>>
InfoOf(it) == it.info[1]
HdrByte(it) == 129 + B01(HasInfo(it)) + 2 * B01(it.rel)          \* $81 / $82 / $83 / $84
\* string table as asmcode.c WrPatches lays it out: the names of the patch entries, then those of the export
\* entries, one string per entry (no sharing), in entry order.  layout = "shared": every distinct name once.
AllNames(I) == [i \in 1..(Len(I.patches) + Len(I.exports)) |->
                  IF i <= Len(I.patches) THEN I.patches[i].name ELSE I.exports[i - Len(I.patches)].name]
FirstIdx(names, i) == CHOOSE j \in 1..i : names[j] = names[i] /\ \A k \in 1..(j - 1) : names[k] # names[i]
Stored(names, layout) == IF layout = "shared" THEN {i \in 1..Len(names) : FirstIdx(names, i) = i} ELSE 1..Len(names)
StrOff(names, layout, i) ==
  LET S == Stored(names, layout)
      tgt == IF layout = "shared" THEN FirstIdx(names, i) ELSE i
      L[k \in 0..Len(names)] == IF k = 0 THEN 0 ELSE L[k - 1] + (IF k \in S /\ k < tgt THEN Len(names[k]) + 1 ELSE 0)
  IN L[Len(names)]
StrTab(names, layout) == FoldLeft(LAMBDA acc, i : IF i \in Stored(names, layout) THEN acc \o names[i] \o <<0>> ELSE acc,
                                  <<>>, [i \in 1..Len(names) |-> i])
EncInfo(I, layout) ==
  LET nm == AllNames(I)  np == Len(I.patches)  nx == Len(I.exports)
      pe == FoldLeft(LAMBDA acc, i : acc \o LE8(I.patches[i].addr) \o LE4(StrOff(nm, layout, i)) \o TypeBytes(I.patches[i].type),
                     <<>>, [i \in 1..np |-> i])
      xe == FoldLeft(LAMBDA acc, i : acc \o LE4(StrOff(nm, layout, np + i)) \o LE4(I.exports[i].flags) \o LE8(I.exports[i].value),
                     <<>>, [i \in 1..nx |-> i])
      st == StrTab(nm, layout)
  IN <<133>> \o LE4(np) \o LE4(nx) \o LE4(Len(st)) \o pe \o xe \o st
REncItem(it, layout) ==
  IF IsEntry(it) THEN <<128>> \o LE4(it.addr)
  ELSE IF it.k = "S" THEN EncInfo(InfoOf(it), layout)
  ELSE (IF it.short /\ ~it.rel /\ ~HasInfo(it) THEN <<it.cpu>> ELSE <<HdrByte(it), it.cpu, it.seg, it.gran>>)
       \o LE4(it.start) \o LE2(Len(it.data)) \o it.data
       \o (IF HasInfo(it) THEN EncInfo(InfoOf(it), layout) ELSE <<>>)
REncodeL(items, creator, layout) == Magic \o FoldLeft(LAMBDA acc, it : acc \o REncItem(it, layout), <<>>, items) \o <<0>> \o creator
REncode(items, creator) == REncodeL(items, creator, "seq")

(***************************************************************************)
(* decoder (the reader of toolutils.c: ReadRecordHeader + ReadRelocInfo)   *)
(***************************************************************************)
RBad(why, items) == [ok |-> FALSE, why |-> why, items |-> items, creator |-> <<>>]
Small4(b, p) == b[p + 3] < 64                                   \* RdLE4 stays below 2^30
Zero4(b, p) == b[p] = 0 /\ b[p + 1] = 0 /\ b[p + 2] = 0 /\ b[p + 3] = 0
\* the NUL-terminated string at 0-based offset o of the table that starts at 1-based position s and has slen bytes
RECURSIVE CStr(_, _)
CStr(b, p) == IF b[p] = 0 THEN <<>> ELSE <<b[p]>> \o CStr(b, p + 1)
\* relocation info whose three count words start at position p; result [ok, why, info, next]
DecodeInfo(b, p) ==
  LET n == Len(b)
      bad(why) == [ok |-> FALSE, why |-> why, info |-> [patches |-> <<>>, exports |-> <<>>], next |-> p]
  IN
  IF p + 11 > n THEN bad("truncated relocation info")
  ELSE IF ~(Small4(b, p) /\ Small4(b, p + 4) /\ Small4(b, p + 8)) THEN bad("relocation info outside the model")
  ELSE LET np == RdLE4(b, p)  nx == RdLE4(b, p + 4)  slen == RdLE4(b, p + 8)
           pp == p + 12   xp == pp + 16 * np   sp == xp + 16 * nx   nextp == sp + slen
       IN IF np > 4096 \/ nx > 4096 \/ nextp - 1 > n THEN bad("relocation info longer than the file")
          ELSE IF slen > 0 /\ b[nextp - 1] # 0 THEN bad("string table not terminated")
          ELSE IF \E i \in 0..(np - 1) : ~Small4(b, pp + 16 * i + 8) \/ RdLE4(b, pp + 16 * i + 8) >= slen
               THEN bad("patch name outside the string table")
          ELSE IF \E i \in 0..(nx - 1) : ~Small4(b, xp + 16 * i) \/ RdLE4(b, xp + 16 * i) >= slen
               THEN bad("export name outside the string table")
          ELSE IF \E i \in 0..(np - 1) : ~(Small4(b, pp + 16 * i) /\ Zero4(b, pp + 16 * i + 4))
               THEN bad("patch address outside the model")
          ELSE IF \E i \in 0..(nx - 1) : ~(Small4(b, xp + 16 * i + 8) /\ Zero4(b, xp + 16 * i + 12) /\ Small4(b, xp + 16 * i + 4))
               THEN bad("export value outside the model")
          ELSE [ok |-> TRUE, why |-> "", next |-> nextp,
                info |-> [patches |-> [i \in 1..np |-> LET q == pp + 16 * (i - 1) IN
                                          [addr |-> RdLE4(b, q), name |-> CStr(b, sp + RdLE4(b, q + 8)),
                                           type |-> TypeOfBytes(SubSeq(b, q + 12, q + 15))]],
                          exports |-> [i \in 1..nx |-> LET q == xp + 16 * (i - 1) IN
                                          [name |-> CStr(b, sp + RdLE4(b, q)), flags |-> RdLE4(b, q + 4),
                                           value |-> RdLE4(b, q + 8)]]]]

RECURSIVE RDecodeFrom(_, _, _)
RDecodeFrom(b, p, acc) ==
  LET n == Len(b) IN
  IF p > n THEN RBad("no creator record", acc)
  ELSE LET h == b[p] IN
    IF h = 0 THEN [ok |-> TRUE, why |-> "", items |-> acc, creator |-> SubSeq(b, p + 1, n)]
    ELSE IF h = 128 THEN
      IF p + 4 > n THEN RBad("truncated entry record", acc)
      ELSE IF b[p + 4] >= 64 THEN RBad("address outside the model", acc)
      ELSE RDecodeFrom(b, p + 5, Append(acc, [k |-> "E", addr |-> RdLE4(b, p + 1)]))
    ELSE IF h \in 129..132 \/ h < 128 THEN
      LET long == h >= 129
          q == IF long THEN p + 4 ELSE p + 1
      IN IF q + 5 > n THEN RBad("truncated record header", acc)
         ELSE IF b[q + 3] >= 64 THEN RBad("address outside the model", acc)
         ELSE LET ln == RdLE2(b, q + 4)
                  cpu == IF long THEN b[p + 1] ELSE h
                  seg == IF long THEN b[p + 2] ELSE SegCode
                  gran == IF long THEN b[p + 3] ELSE ImplicitGran(h, SegCode)
                  it == [k |-> "D", cpu |-> cpu, seg |-> seg, gran |-> gran, start |-> RdLE4(b, q),
                         data |-> SubSeq(b, q + 6, q + 5 + ln), short |-> ~long, rel |-> h \in {131, 132}, info |-> <<>>]
              IN IF q + 5 + ln > n THEN RBad("record longer than the file", acc)
                 ELSE IF long /\ (seg > 10 \/ gran \notin Grans) THEN RBad("invalid segment or granularity", acc)
                 ELSE IF h \in {130, 132} THEN
                    IF q + 6 + ln > n \/ b[q + 6 + ln] # 133 THEN RBad("relocation info missing behind record", acc)
                    ELSE LET d == DecodeInfo(b, q + 7 + ln) IN
                         IF ~d.ok THEN RBad(d.why, acc)
                         ELSE RDecodeFrom(b, d.next, Append(acc, [it EXCEPT !.info = <<d.info>>]))
                 ELSE RDecodeFrom(b, q + 6 + ln, Append(acc, it))
    ELSE IF h = 133 THEN          \* relocation info without a $82/$84 record in front of it: the tools skip it (SkipRecord), PLIST lists it
      LET d == DecodeInfo(b, p + 1) IN
      IF ~d.ok THEN RBad(d.why, acc) ELSE RDecodeFrom(b, d.next, Append(acc, [k |-> "S", info |-> <<d.info>>]))
    ELSE RBad("unknown record type", acc)

RDecode(b) == IF Len(b) < 2 \/ SubSeq(b, 1, 2) # Magic THEN RBad("bad magic", <<>>) ELSE RDecodeFrom(b, 3, <<>>)

\* abstract item: header form forgotten
RAbs(it) == IF IsEntry(it) THEN [k |-> "E", addr |-> it.addr]
            ELSE [k |-> "D", cpu |-> it.cpu, seg |-> it.seg, gran |-> it.gran, start |-> it.start, data |-> it.data,
                  rel |-> it.rel, info |-> it.info]
Plain(it) == IsEntry(it) \/ (~it.rel /\ ~HasInfo(it))              \* an item of the documented grammar
\* the documented item behind a plain item (for CodeFile.tla operators)
AsDoc(it) == IF IsEntry(it) THEN it ELSE [k |-> "D", cpu |-> it.cpu, seg |-> it.seg, gran |-> it.gran, start |-> it.start,
                                          data |-> it.data]

\* every patch of an item lies inside the record it is attached to (needed by every consumer: alink indexes its
\* record buffer with addr - start)
PatchesInside(it) == HasInfo(it) => \A i \in 1..Len(InfoOf(it).patches) :
                        LET pt == InfoOf(it).patches[i] IN Simple(pt.type) => FieldInside(it.data, pt.addr - it.start, pt.type)

(***************************************************************************)
(* what PLIST prints for the relocation info (plist.c ProcessSingle): one   *)
(* row per patch  <addr> <bytes>:<bits>(<B|L>) <+|-><name>  and one per      *)
(* export  <value> <R| > <name>                                              *)
(***************************************************************************)
PListRelocRows(items) ==
  FoldLeft(LAMBDA acc, it :
             IF IsEntry(it) \/ it.info = <<>> THEN acc
             ELSE acc \o [i \in 1..Len(InfoOf(it).patches) |->
                            LET pt == InfoOf(it).patches[i] IN
                            [k |-> "R", addr |-> pt.addr, bytes |-> pt.type.bits \div 8, bits |-> pt.type.bits % 8,
                             big |-> pt.type.big, sub |-> pt.type.sub, name |-> pt.name]]
                      \o [i \in 1..Len(InfoOf(it).exports) |->
                            LET x == InfoOf(it).exports[i] IN
                            [k |-> "X", value |-> x.value, rel |-> x.flags % 2 = 1, name |-> x.name]],
           <<>>, items)
=============================================================================
