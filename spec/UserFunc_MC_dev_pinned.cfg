\* MUST FAIL: the pinned printing of argument values without exempting its named deviations (they are real)
CONSTANTS ArgPrint = "decimal" StrEscape = "dec3" RecursionGuard = TRUE ArgParen = TRUE WholeIdent = TRUE
          Level = 0 MaxDefs = 3 EmitCases = FALSE ExcludeKnown = FALSE
SPECIFICATION Spec
INVARIANTS Agreement DefAgreement TokenRoundTrip
CHECK_DEADLOCK FALSE
