\* deviation Leak = {"nxt"}: every same-family shape must be able to expose it
CONSTANTS
 Haz = {"cp"}
 Fams = {"a", "b"}
 Leak = {"nxt"}
 NCut = 2
 NStart = 2
 NKind = 2
 Trailers = {"end", "sym", "open"}
INIT Init
NEXT Next
INVARIANT Sensitive
CHECK_DEADLOCK FALSE
