----------------------------- MODULE KeyFile_MC -----------------------------
(* (M) The physical shape of key files (spec/KeyFile.tla) under the option layer of spec/CmdLine.tla.                              *)
(* A state = a sequence of <= MaxOcc occurrence templates of program Prog (KNames: a report switch, code-affecting options with    *)
(* an argument, a switch whose argument is missing, an optional argument, a second file, an unknown switch, a key reference;        *)
(* three occurrences - three lines - only over K3Names).  For every state the occurrences are written into a key file in every     *)
(* SHAPE  [cut, eol, term, deco, from]:                                                                                            *)
(*   cut   after which occurrences a new line starts (all compositions: n occurrences on 1..n lines)                               *)
(*   eol   line ends LF / CR-LF / alternating                                                                                      *)
(*   term  is there a line end behind the last line                                                                                *)
(*   deco  blanks, tabs, blank + tab in front of / behind / between the words; an empty line first / between / last; a last line   *)
(*         of blanks only; a remark line first / last; ^Z as the last byte / in front of every line end; the first / the last      *)
(*         line filled with blanks to 254, 255 (the manual's maximum) and beyond (undecided by the manual)                         *)
(*   from  the file is named on the command line (@k) or by the environment variable (ASCMD=@k)                                    *)
(* (no occurrence at all gives the empty file, the file that is one line end, one blank, one remark without line end ...).          *)
(* KThin = 0: all shapes; KThin = k > 0: sequences of two and more occurrences get every (cut, term) with the plain decoration and  *)
(* k more, rotating with the sequence (line end and `from` rotate too); single occurrences meet every decoration.                  *)
(* Invariants (one conjunction, ShapeInv, so that the facts of a state are computed once):                                         *)
(*   ReaderReadsText     the chunks ProcessFile() decodes are the lines of the text file: same words, same lines, same order        *)
(*                       (every shape the manual allows: no line beyond 255 characters)                                            *)
(*   ScanIsFoldK         the scanner without the named deviations behind the reader = Meaning(Parse(Flatten)) of the TEXT           *)
(*   DeviationsAreNamedK wherever the code as it is differs from that, a named deviation is live                                    *)
(*   ShapeNeverMatters   (PlaceNeverMatters over shapes) any two shapes - and the plain command line - that parse to the same       *)
(*                       occurrences give the same scanner result; BlankBeforeTab taken out as in CmdLine_MC                        *)
(* ASSUMEs: the reader variant LeaveAtEof (loop left when the end-of-file indicator is set, before the chunk is decoded) loses an  *)
(* unterminated last line and nothing else; a line of 256 characters falls apart (LongLineSplit).                                  *)
EXTENDS CmdLine_MC, KeyFile

CONSTANT KThin

KNames == CASE Prog = "asl"   -> {"-L", "-D A=2", "-D B=7", "-D", "-cpu Z80", "-i p1", "-o o1", "-g", "s2", "-z", "@kd"}
            [] Prog = "p2bin" -> {"-s", "-l 0xaa", "-l", "-r 0x10-0x1f", "-f $51", "-z", "src2", "@kd"}
            [] OTHER          -> {"-q", "+q", "-q x", "-z", "@kd"}
K3Names == CASE Prog = "asl"   -> {"-D A=2", "-cpu Z80", "s2"}
             [] Prog = "p2bin" -> {"-s", "-l 0xaa", "-f $51"}
             [] OTHER          -> {"-q", "+q"}
KIdx  == {i \in 1..Len(Templates(Prog)) : Templates(Prog)[i].n \in KNames}
K3Idx == {i \in 1..Len(Templates(Prog)) : Templates(Prog)[i].n \in K3Names}
ASSUME Cardinality(KIdx) = Cardinality(KNames) /\ K3Idx \subseteq KIdx

NextK == \/ Len(seq) < 2 /\ Len(seq) < MaxOcc /\ \E i \in KIdx : seq' = Append(seq, i)
         \/ Len(seq) = 2 /\ MaxOcc >= 3 /\ {seq[1], seq[2]} \subseteq K3Idx /\ \E i \in K3Idx : seq' = Append(seq, i)
SpecK == Init /\ [][NextK]_seq

\* ---- shapes ---------------------------------------------------------------------------------------------------------
Decos == <<"none", "lead_sp", "lead_tab", "lead_mix", "wide", "sep_tab", "sep_sptab", "sep_tabsp", "trail_sp", "trail_tab",
           "trail_sptab", "empty_first", "empty_mid", "empty_last", "blank_last", "remark_first", "remark_last",
           "cz_end", "cz_eol", "pad255_first", "pad255_last", "pad254_last", "long_last">>
\* (tab + blank BEHIND a line is left out: BlankBeforeTab glues the tab to the last word, and what a glued ARGUMENT means is the
\*  business of the callback - `-D A=2<TAB>` defines A, `-cpu Z80<TAB>` is refused - which the atoms of CmdLine.tla cannot say)
Eols == <<"lf", "crlf", "mixed">>
DecoIdx(d) == CHOOSE i \in 1..Len(Decos) : Decos[i] = d

Lead(d)  == CASE d = "lead_sp" -> <<SP(1)>> [] d = "lead_tab" -> <<TAB>> [] d = "lead_mix" -> <<SP(2), TAB>> [] OTHER -> <<>>
Sep(d)   == CASE d = "wide" -> <<SP(3)>> [] d = "sep_tab" -> <<TAB>> [] d = "sep_sptab" -> <<SP(1), TAB>>
              [] d = "sep_tabsp" -> <<TAB, SP(1)>> [] OTHER -> <<SP(1)>>
Trail(d) == CASE d = "trail_sp" -> <<SP(2)>> [] d = "trail_tab" -> <<TAB>> [] d = "trail_sptab" -> <<SP(1), TAB>> [] OTHER -> <<>>
Inter(ws, sep) == Flat([i \in 1..Len(ws) |-> (IF i > 1 THEN sep ELSE <<>>) \o <<W(ws[i])>>])
TextLine(ws, d) == Lead(d) \o Inter(ws, Sep(d)) \o Trail(d) \o (IF d = "cz_eol" THEN <<CZ>> ELSE <<>>)
\* blanks added behind the first word (behind the line if it has less than two words) up to len characters
PadTo(l, len) == LET k == len - Bytes(l)
                 IN IF k <= 0 THEN l ELSE IF Len(l) >= 2 /\ l[2].c = "sp" THEN [l EXCEPT ![2].n = @ + k] ELSE Append(l, SP(k))
PadLen(d) == CASE d \in {"pad255_first", "pad255_last"} -> 255 [] d = "pad254_last" -> 254 [] OTHER -> 0
\* beyond the manual's maximum: the first word and the blanks behind it fill the reader's buffer exactly, the rest of the line
\* arrives as a line of its own (LongLineSplit); a line of less than two words: 256 characters, the last one a blank
LongLine2(l) == IF Len(l) >= 2 /\ l[2].c = "sp" THEN [l EXCEPT ![2].n = (LINEBUF - 1) - l[1].n] ELSE PadTo(l, LINEBUF)
RemarkLine == <<W(Comment), SP(1), W(Plain("text"))>>

GroupOf(sh, i) == 1 + Cardinality({c \in sh.cut : c < i})
FileOf(s, sh) ==
  LET d  == sh.deco
      nl == Cardinality(sh.cut) + 1
      ws(j) == Flat([i \in 1..Len(s) |-> IF GroupOf(sh, i) = j THEN Templates(Prog)[s[i]].ws ELSE <<>>])
      bl == [j \in 1..nl |-> LET l == TextLine(ws(j), d)
                             IN IF (d = "pad255_first" /\ j = 1) \/ (d \in {"pad255_last", "pad254_last"} /\ j = nl)
                                THEN PadTo(l, PadLen(d))
                                ELSE IF d = "long_last" /\ j = nl THEN LongLine2(l) ELSE l]
      pl == CASE d = "empty_first"  -> << <<>> >> \o bl
              [] d = "empty_mid"    -> Flat([j \in 1..nl |-> IF j < nl THEN <<bl[j], <<>>>> ELSE <<bl[j]>>])
              [] d = "empty_last"   -> bl \o << <<>> >>
              [] d = "blank_last"   -> bl \o << <<SP(1), TAB>> >>
              [] d = "remark_first" -> <<RemarkLine>> \o bl
              [] d = "remark_last"  -> bl \o <<RemarkLine>>
              [] OTHER              -> bl
      eol(j) == IF sh.eol = "lf" \/ (sh.eol = "mixed" /\ j % 2 = 0) THEN <<LF>> ELSE <<CR, LF>>
  IN Flat([j \in 1..Len(pl) |-> pl[j] \o (IF j < Len(pl) \/ sh.term THEN eol(j) ELSE <<>>)]) \o (IF d = "cz_end" THEN <<CZ>> ELSE <<>>)

FixedPhys == "kd" :> Flat([i \in 1..Len(FixedKey(Prog)) |-> Inter(FixedKey(Prog)[i], <<SP(1)>>) \o <<LF>>])
BuildJ(s, sh) == IF sh.from = "argv"
                 THEN [env |-> <<>>, phys |-> FixedPhys @@ ("k" :> FileOf(s, sh)), argv |-> Main(Prog) \o <<KeyRef("k")>>]
                 ELSE [env |-> <<KeyRef("k")>>, phys |-> FixedPhys @@ ("k" :> FileOf(s, sh)), argv |-> Main(Prog)]

SumK(s) == FoldLeft(LAMBDA a, b : a + b, 0, s)
HK(s) == SumK(s) + 3 * Len(s)
RotDecos(s) == IF KThin = 0 \/ Len(s) < 2 THEN Range(Decos)
               ELSE {"none"} \cup {Decos[((HK(s) + 7 * k) % Len(Decos)) + 1] : k \in 0..(KThin - 1)}
ChosenK(s) ==
  LET cuts == SUBSET (1..(Len(s) - 1))
  IN IF KThin = 0
     THEN {[cut |-> C, eol |-> e, term |-> t, deco |-> d, from |-> f] :
              C \in cuts, e \in Range(Eols), t \in BOOLEAN, d \in Range(Decos), f \in {"argv", "env"}}
     ELSE {[cut |-> C, eol |-> Eols[((HK(s) + DecoIdx(d) + Cardinality(C)) % 3) + 1], term |-> t, deco |-> d,
            from |-> IF (HK(s) + DecoIdx(d) + Cardinality(C) + (IF t THEN 1 ELSE 0)) % 2 = 0 THEN "argv" ELSE "env"] :
              C \in cuts, t \in BOOLEAN, d \in RotDecos(s)}

\* ---- facts and invariants -------------------------------------------------------------------------------------------
InputsK == {BuildJ(seq, sh) : sh \in ChosenK(seq)}
FactsK(J) == LET it == ItemsK(Prog, J)
             IN [J |-> J, it |-> it, open |-> Open(Prog, it) \/ ShapeOpen(J), sp |-> Meaning(Prog, it),
                 s0 |-> ScanK(Prog, J, {}), sd |-> ScanK(Prog, J, Devs), sn |-> ScanK(Prog, J, NoFileDev)]
RefI == Place(Prog, seq, [k |-> "argv", j |-> 0])                          \* the same occurrences on the plain command line
RefFact == LET it == Items(Prog, RefI) IN [it |-> it, open |-> Open(Prog, it), sn |-> Scan(Prog, RefI, NoFileDev)]

ReaderReadsText(F) == \A f \in F : LET file == f.J.phys["k"]
                                   IN WellFormedFile(file) /\ (~LongLine(file) => ReadsText(file, ReadAll(file)))
ScanIsFoldK(F) == \A f \in F : ~f.open => f.s0 = f.sp
DeviationsAreNamedK(F) == \A f \in F : ~f.open /\ f.sd # f.sp => LiveDevsK(Prog, f.J, Devs) # {}
ShapeNeverMatters(F) == \A f \in F : ~f.open => /\ \A g \in F : ~g.open /\ f.it = g.it => f.sn = g.sn
                                                /\ (~RefFact.open /\ f.it = RefFact.it => f.sn = RefFact.sn)
ShapeInv == LET F == {FactsK(J) : J \in InputsK}
            IN ReaderReadsText(F) /\ ScanIsFoldK(F) /\ DeviationsAreNamedK(F) /\ ShapeNeverMatters(F)
\* the single conjuncts, for looking at a failure
InvReader == ReaderReadsText({FactsK(J) : J \in InputsK})
InvFold   == ScanIsFoldK({FactsK(J) : J \in InputsK})
InvNamed  == DeviationsAreNamedK({FactsK(J) : J \in InputsK})
InvShape  == ShapeNeverMatters({FactsK(J) : J \in InputsK})
\* the reader variant LeaveAtEof against the text: expected to FAIL (KeyFile_MC_LeaveAtEof.cfg)
InvLeaveAtEof == \A J \in InputsK : LET file == J.phys["k"] IN ~LongLine(file) => ReadsText(file, ReadAllLeaveAtEof(file))

\* ---- the named variants are observable / harmless where the module head says ------------------------------------------
LOCAL Q == Sw("-", "", <<"q">>)
LOCAL D == Sw("-", "", <<"D">>)
ASSUME ~ReadsText(<<W(Q)>>, ReadAllLeaveAtEof(<<W(Q)>>))                                      \* a one-line file without line end: all lost
ASSUME ~ReadsText(<<W(Q), LF, W(D), SP(1), W(Plain("A"))>>, ReadAllLeaveAtEof(<<W(Q), LF, W(D), SP(1), W(Plain("A"))>>))
ASSUME ReadsText(<<W(Q), LF, W(D), SP(1), W(Plain("A")), CR, LF>>, ReadAllLeaveAtEof(<<W(Q), LF, W(D), SP(1), W(Plain("A")), CR, LF>>))
ASSUME ReadsText(<<>>, ReadAllLeaveAtEof(<<>>)) /\ ReadsText(<<>>, ReadAll(<<>>))
ASSUME ReadsText(<<W(Q)>>, ReadAll(<<W(Q)>>)) /\ Len(ReadAll(<<W(Q)>>)) = 1 /\ Len(ReadAll(<<W(Q), LF>>)) = 2    \* one more (empty) round
ASSUME Len(ReadAll(<<W(Q), SP(253)>>)) = 2                               \* 255 characters, no line end: the buffer was full, the end not met
ASSUME LET f == <<W(D), SP(253), W(Plain("A")), LF>>                     \* 256 characters: LongLineSplit, the argument on a line of its own
       IN LongLine(f) /\ ~ReadsText(f, ReadAll(f)) /\ Meaningful(MachineLines(f, {})) = << <<D>>, <<Plain("A")>> >>
ASSUME LET f == <<W(D), SP(252), W(Plain("A")), CR, LF>> IN ~LongLine(f) /\ ReadsText(f, ReadAll(f))   \* 255 characters and CR-LF
=============================================================================
