------------------------------ MODULE P2Bin_MC ------------------------------
(* (M) Model checking P2Bin: the program of p2bin.c as a step machine                                  *)
(*        measure (one record per step) -> open -> process (one record per step) -> close -> done      *)
(* over EVERY case of a bounded case space (constants below), with the deviation set Dev switched on.  *)
(* Checked: the final output satisfies the declarative property (Conforms), the step machine equals    *)
(* the fold Run (StepRunAgrees), chunks.c keeps its list invariant (ChunkListOK), nothing is written   *)
(* outside the window (WindowStable), the measuring pass finds the declared bounds (MeasureSound).     *)
(* With Dev = {} (all repairs) every invariant must hold; with Dev = {d} TLC must find the defect d.   *)
EXTENDS P2Bin

CONSTANTS Dev,        \* subset of Devs
          MaxRecs,    \* items per case: 0..MaxRecs
          Starts, UnitLens, GranSet, CpuSegs,   \* record shapes: start x units x gran x <<cpu, seg>>; an element
                      \* <<cpu, 1, TRUE>> of CpuSegs is a record written with the SHORT header (seg, gran implied)
          EntryAddrs, \* entry records that may be mixed in ({} = none)
          Offsets,    \* {} = one input file; else the items are split over two files, the 2nd with (offset)
          Ranges,     \* set of <<rs, re>>, -1 = automatic
          LaneSet, FillSet, HdrSet, ESet, SumOpts, FiltSet, SegOpts

VARIABLES c, pc, idx, m, s, out
vars == <<c, pc, idx, m, s, out>>

\* deterministic payload: byte i of item k -- distinct between the records of a case
Pat(k, n) == [i \in 1..n |-> (k * 48 + i) % 256]

Shapes == [k : {"D"}, start : Starts, units : UnitLens, gran : GranSet, cs : CpuSegs]
            \cup [k : {"E"}, addr : EntryAddrs]
\* header form of a shape: <<cpu, 1, TRUE>> = one-byte header.  The item then carries no seg / gran (P2Bin.tla, module
\* comment); its payload is `units` units of the granularity the processor type implies, so the record is well formed.
ShortCS(cs) == Len(cs) = 3 /\ cs[3]
MkItem(sh, k) == IF sh.k = "E" THEN [k |-> "E", addr |-> sh.addr]
                 ELSE IF ShortCS(sh.cs)
                 THEN [k |-> "D", cpu |-> sh.cs[1], start |-> sh.start, short |-> TRUE,
                       data |-> Pat(k, sh.units * CFB!ImplicitGran(sh.cs[1], SegCode))]
                 ELSE [k |-> "D", cpu |-> sh.cs[1], seg |-> sh.cs[2], gran |-> sh.gran, start |-> sh.start,
                       data |-> Pat(k, sh.units * sh.gran)]
MkItems(shs) == [k \in 1..Len(shs) |-> MkItem(shs[k], k)]
OptSpace == [rg : Ranges, fill : FillSet, lane : LaneSet, hdr : HdrSet, e : ESet, sum : SumOpts, filt : FiltSet,
             seg : SegOpts]
MkOpts(x) == [rs |-> x.rg[1], re |-> x.rg[2], fill |-> x.fill, lane |-> x.lane, hdr |-> x.hdr, e |-> x.e,
              sum |-> x.sum, fops |-> x.filt, seg |-> x.seg]
FileSplits(items) == IF Offsets = {} THEN {<<[off |-> 0, items |-> items]>>}
                     ELSE {<<[off |-> 0, items |-> SubSeq(items, 1, k)],
                             [off |-> d, items |-> SubSeq(items, k + 1, Len(items))]>> : k \in 0..Len(items), d \in Offsets}
CaseSpace == {[files |-> fs, o |-> MkOpts(x)] :
                 fs \in UNION {FileSplits(MkItems(shs)) : shs \in UNION {[1..n -> Shapes] : n \in 0..MaxRecs}},
                 x \in OptSpace}

\* ---- HEADER FORMS x FAMILIES: code files as PBIND / ALINK write them.  One processor family per case (the ids in
\* CpuSegs), every sequence of <= MaxRecs records each of which is a short-header CODE record, a long-header CODE
\* record or a long-header record of another segment (the kinds in CpuSegs), long headers with the granularity the
\* family has in that segment -- so the selected records share one granularity and the case is Definite whatever the
\* order of the kinds: what a record means must not depend on the record standing before it.
\* (The cfg files of this space leave GranSet empty: the granularity of a long header is the family's, not a free choice.
\* FormCases takes a parameter only to keep TLC from evaluating it when it processes the definitions of OTHER cfg files.)
FormFams == {cs[1] : cs \in CpuSegs}
FormShapes(fam) == {[k |-> "D", start |-> st, units |-> u, cs |-> cs,
                     gran |-> IF ShortCS(cs) THEN 0 ELSE CFB!ImplicitGran(fam, cs[2])] :
                       st \in Starts, u \in UnitLens, cs \in {x \in CpuSegs : x[1] = fam}}
FormCases(fams) == {[files |-> fs, o |-> MkOpts(x)] :
                       fs \in UNION {FileSplits(MkItems(shs)) :
                                       shs \in UNION {[1..n -> FormShapes(fam)] : n \in 0..MaxRecs, fam \in fams}},
                       x \in OptSpace}

Blank == [file |-> <<>>, used |-> <<>>, warn |-> FALSE, entry |-> -1, stale |-> FALSE]
NoOut == [rc |-> -2, bytes |-> <<>>, warn |-> FALSE]

Init == /\ c \in CaseSpace
        /\ pc = "measure" /\ idx = 1 /\ m = M0(c.o) /\ s = Blank /\ out = NoOut

Items == Flat(c)

StepMeasure ==
  /\ pc = "measure"
  /\ IF Measured(Dev, c.o) /\ idx <= Len(Items)
     THEN m' = MeasureRec(Dev, c.o, m, Items[idx]) /\ idx' = idx + 1 /\ UNCHANGED pc
     ELSE pc' = "open" /\ UNCHANGED <<m, idx>>
  /\ UNCHANGED <<c, s, out>>

StepOpen ==
  /\ pc = "open"
  /\ IF Wild(Dev, c.o, Items) THEN out' = [rc |-> -1, bytes |-> <<>>, warn |-> FALSE] /\ pc' = "done" /\ UNCHANGED <<s, idx>>
     ELSE IF AutoFailed(c.o, m) THEN out' = [rc |-> 1, bytes |-> <<>>, warn |-> FALSE] /\ pc' = "done" /\ UNCHANGED <<s, idx>>
     ELSE s' = S0(c.o, m) /\ idx' = 1 /\ pc' = "process" /\ UNCHANGED out
  /\ UNCHANGED <<c, m>>

StepProcess ==
  /\ pc = "process"
  /\ IF idx <= Len(Items)
     THEN s' = ProcessItem(Dev, c.o, m, s, Items[idx]) /\ idx' = idx + 1 /\ UNCHANGED pc
     ELSE pc' = "close" /\ UNCHANGED <<s, idx>>
  /\ UNCHANGED <<c, m, out>>

StepClose ==
  /\ pc = "close"
  /\ out' = Close(c.o, s) /\ pc' = "done"
  /\ UNCHANGED <<c, idx, m, s>>

Next == StepMeasure \/ StepOpen \/ StepProcess \/ StepClose
Spec == Init /\ [][Next]_vars
FormInit == /\ c \in FormCases(FormFams)
            /\ pc = "measure" /\ idx = 1 /\ m = M0(c.o) /\ s = Blank /\ out = NoOut
FormSpec == FormInit /\ [][Next]_vars

-------------------------------------------------------------------------------
Conforms      == (pc = "done" /\ Definite(c)) => Allowed(c, out)
\* selected records of different granularity: the weaker-but-definite statement of P2Bin.tla Part 2b
ConformsMixed == (pc = "done" /\ DefiniteMixed(c)) => AllowedMixed(c, out)
\* ... and every write of the record loop stays inside the pre-filled window there, too
WindowStableMixed == (pc \in {"process", "close"} /\ Dev = {} /\ DefiniteMixed(c))
                        => Len(s.file) = HdrLen(c.o) + RealFileLen(c.o, m)
MeasureSoundMixed == (pc \in {"process", "close"} /\ Dev = {} /\ DefiniteMixed(c))
                        => m.start = DStart(c.o, Items) /\ m.stop = DStop(c.o, Items) /\ m.maxgran = DGmax(c.o, Items)
StepRunAgrees == pc = "done" => out = Run(Dev, c)
ChunkListOK   == ChunksApart(s.used) /\ ~s.stale
\* every write of the record loop stays inside the pre-filled window (with all repairs, in a definite case)
WindowStable  == (pc \in {"process", "close"} /\ Dev = {} /\ Definite(c))
                    => Len(s.file) = HdrLen(c.o) + RealFileLen(c.o, m)
\* the measuring pass computes the declared window
MeasureSound  == (pc \in {"process", "close"} /\ Dev = {} /\ Definite(c))
                    => m.start = DStart(c.o, Items) /\ m.stop = DStop(c.o, Items) /\ m.maxgran = DGran(c.o, Items)
\* the chunk list covers exactly the selected addresses inside the window
UsedIsCoverage == (pc = "close" /\ Dev = {} /\ Definite(c)) =>
                    \A a \in m.start..m.stop :
                       (\E z \in 1..Len(s.used) : s.used[z].s <= a /\ a < s.used[z].s + s.used[z].l)
                         <=> (\E i \in DSel(c.o, Items) : Covers(Items[i], a))
\* the records the program works on (ReadRecordHeader, Granularity) are the records the file describes (DRead)
ReadAgrees == Flat(c) = DFlat(c)
-------------------------------------------------------------------------------
\* named constant values for the .cfg files (cfg syntax has neither tuples nor negative numbers)
AllLanes   == Lanes
L_Two      == {"ALL", "ODD"}
L_All1     == {"ALL"}
L_Sel      == {"ALL", "EVEN"}
L_Three    == {"ALL", "EVEN", "WORD1"}
R_Window   == {<<-1, -1>>, <<0, 7>>, <<2, 5>>, <<-1, 4>>, <<2, -1>>, <<4, 7>>}
R_Cover    == {<<-1, -1>>, <<0, 7>>, <<2, 5>>}
R_Small    == {<<-1, -1>>, <<0, 3>>, <<1, -1>>}
R_Ovl      == {<<-1, -1>>, <<0, 9>>, <<3, 6>>}
R_Ovl2     == {<<-1, -1>>, <<3, 6>>}
R_Post     == {<<-1, -1>>, <<0, 3>>, <<2, 2>>}
R_Big      == {<<-1, -1>>, <<4, 8195>>}
R_Auto     == {<<-1, -1>>}
\* image starts of every phase of the lane period (1, 2, 3 mod 4), window length two periods of 4; with Starts
\* {1..6, 8} a further record lies at every residue of the distance to the image start (P2Bin_MC_phase*.cfg,
\* P2Bin_CoverPhase*.cfg)
R_Phase    == {<<-1, -1>>, <<1, 8>>, <<2, 9>>, <<3, 10>>}
L_Thin     == Lanes \ {"ALL"}
R_Explicit == {<<0, 3>>}
\* MIXED GRANULARITY (P2Bin_MC_mixed*.cfg, P2Bin_CoverMixed*.cfg): records of 1 / 4 units at 0, 1, 3, 6 in units of 1, 2
\* (, 4) bytes; windows that start / end strictly inside a record of either unit, at a record start / end, before
\* the first and behind the last record, automatic and half-automatic bounds
R_Mixed    == {<<-1, -1>>, <<0, 7>>, <<1, 4>>, <<2, 8>>, <<4, 7>>, <<2, -1>>, <<-1, 5>>}
R_Mixed3   == R_Mixed \cup {<<3, 6>>, <<5, 9>>, <<1, -1>>, <<-1, 2>>, <<0, 3>>}
L_Mixed    == {"ALL", "ODD", "WORD1"}
L_Mixed3   == {"ALL", "EVEN", "ODD", "BYTE0", "BYTE3", "WORD0", "WORD1"}
H_Mixed    == {0, 2}
R_MixedPost == {<<-1, -1>>, <<1, 4>>}
H_MixedPost == {0, 2, -3}
H_MixedPost2 == {0, -3}
CS_One     == {<<81, 1>>}
CS_Mixed   == {<<81, 1>>, <<97, 1>>, <<81, 2>>}
\* header forms x families, kinds per family: short CODE, long CODE, long DATA (, long IO).  Families: one of each
\* class of toolutils.c Granularity() (81 default 1, 112 two, 118 four) + ALL five whose value depends on the segment
\* (59 AVR, 26..29 PDK13..16); CS_FormsAll3: every id the table names + defaults incl. the ends 1, 127 of the id range
FormKinds(fams, segs) == {<<f, 1, TRUE>> : f \in fams} \cup {<<f, sg>> : f \in fams, sg \in segs}
CS_Forms    == FormKinds({81, 112, 118, 59, 26, 27, 28, 29}, {1, 2})
CS_FormsSeg == FormKinds({59, 26, 27, 28, 29}, {1, 2, 7})
CS_FormsAll3 == FormKinds({9, 118, 125, 54, 112, 113, 114, 116, 117, 119, 18, 109, 59, 26, 27, 28, 29, 81, 1, 127}, {1, 2})
R_Forms     == {<<-1, -1>>, <<0, 5>>}
R_Forms3    == {<<-1, -1>>, <<0, 5>>, <<1, -1>>, <<2, 9>>}
L_Forms     == {"ALL", "ODD", "WORD1"}
H_None     == {0}
H_All      == -4..4
H_L2       == {2}
E_None     == {-1}
E_Mixed    == {-1, 66051}            \* 66051 = $010203
F_None     == {<<>>}
F_One      == {<<FA(<<81>>)>>}
F_Mixed    == {<<>>, <<FA(<<81>>)>>, <<FA(<<97>>)>>, <<FA(<<129>>)>>, <<FA(<<81, 97>>), FC(<<81>>)>>,
               <<FEA(<<97, 81>>), FC(<<97>>)>>}
F_Mixed5   == F_Mixed \cup {<<FA(<<81, 97>>)>>, <<FA(<<81, 97, 129>>), FC(<<81>>), FA(<<81>>)>>}
=============================================================================
