----------------------------- MODULE SymScope_MC -----------------------------
(* (M)+(G) for SymScope.tla: every scoped program of the tier's descriptor space; TLC checks that the        *)
(* transcription of asmpars.c's local symbol spaces means what the scope chains say (ScopeAgree), that the   *)
(* program is the same under every wrapper (WrapImmaterial) and valid (no double definition, one-byte         *)
(* addresses), and prints each program with its code for the replay plain / INCLUDE / macro-wrapped (three   *)
(* symbol modes of the wrapper).  Tier 1 = quick, 2 = thorough.                                              *)
EXTENDS SymScope, TLC, Json
CONSTANTS Tier, EmitOut
VARIABLES P
vars == <<P>>

C(k, g) == [k |-> k, g |-> g]
AllC    == {C(k, g) : k \in ConstructKinds, g \in Modes}
TwoC    == {C(k, g) : k \in ConstructKinds, g \in {"default", "global"}}
CoreC   == {C(k, g) : k \in {"MACRO", "REPT"}, g \in {"default", "global"}}
Globals(ch) == Cardinality({i \in 1..Len(ch) : ch[i].g = "global"})

Chains0 == {<<>>}
Chains1 == {<<c>> : c \in AllC}
\* two levels: every kind at either level beside MACRO / REPT at the other; not both without a space of their own
Chains2q == {ch \in {<<a, b>> : a \in TwoC, b \in TwoC} :
               (ch[1].k \in {"MACRO", "REPT"} \/ ch[2].k \in {"MACRO", "REPT"}) /\ Globals(ch) <= 1}
Chains2c == {ch \in {<<a, b>> : a \in CoreC, b \in CoreC} : Globals(ch) <= 1}
Chains2t == {<<a, b>> : a \in AllC, b \in AllC}
\* three levels: the distance 3 (4 with the wrapper)
Chains3q == {ch \in {<<a, b, c>> : a \in CoreC, b \in CoreC, c \in CoreC} : Globals(ch) <= 1}
Chains3t == {ch \in {<<a, b, c>> : a \in TwoC, b \in TwoC, c \in TwoC} : Globals(ch) <= 1}

Desc(chains, hows, dirs, poss, shadows) ==
  {p \in [chain : chains, d : 0..3, r : 0..3, how : hows, dir : dirs, pos : poss, shadow : shadows] : WellFormed(p)}

CoreHows == {"val", "ifdef"}
Space ==
  IF Tier = 1
  THEN \* no construct / one construct: every kind and symbol mode; every reference kind around MACRO and REPT
       Desc(Chains0 \cup {ch \in Chains1 : ch[1].k \in {"MACRO", "REPT"}}, RefHows, {"back", "fwd"}, {"pre", "post"}, BOOLEAN)
       \cup Desc(Chains1, CoreHows, {"back", "fwd"}, {"pre", "post"}, BOOLEAN)
       \* two constructs: every kind at either level by value; the other dimensions on MACRO / REPT chains
       \cup Desc(Chains2q, {"val"}, {"back"}, {"pre"}, {FALSE})
       \cup Desc(Chains2c, CoreHows, {"back", "fwd"}, {"pre", "post"}, BOOLEAN)
       \* three constructs: the distances 1..3 (2..4 with the wrapper)
       \cup {p \in Desc(Chains3q, {"val"}, {"back"}, {"pre"}, {FALSE}) : p.r > p.d}
  ELSE Desc(Chains0 \cup Chains1 \cup Chains2t, RefHows, {"back", "fwd"}, {"pre", "post"}, BOOLEAN)
       \cup Desc(Chains3t, {"val"}, {"back", "fwd"}, {"pre"}, {FALSE})
       \cup Desc(Chains3q, RefHows, {"back"}, {"pre", "post"}, BOOLEAN)

\* the wrappers a program is replayed under.  The INCLUDE wrap and the wrappers with a control parameter do not
\* add a symbol space: they are replayed for the short chains only (quick tier: around the core reference kinds)
Forms(p) == IF Len(p.chain) >= 2 THEN (IF Tier = 1 THEN <<"plain", "macro">> ELSE <<"plain", "macro", "macro-global">>)
            ELSE IF Tier = 1 /\ p.how \notin CoreHows THEN <<"plain", "macro", "macro-global">>
            ELSE <<"plain", "include", "macro", "macro-global", "macro-noglobal">>

Init == P \in Space
Next == FALSE /\ UNCHANGED vars

Text == Program(P)
Code == Expand(Text)
\* the handle/stack transcription means what the scope chains say, under every wrapper
ScopeAgree == \A w \in Wrappers : Expand(Wrapped(Text, w)) = Meant(Wrapped(Text, w))
\* C16 for the symbol side: the wrapped text is the same program
WrapImmaterial == \A w \in Wrappers : Expand(Wrapped(Text, w)) = Code
\* the generated text is a valid program: it assembles, defines nothing twice, addresses fit a byte
ProgramValid == LET ev == Events(Wrapped(Text, "macro")) IN
                  /\ Code # Failed /\ NoDoubleDef(ev) /\ NoDoubleDef(Events(Text))
                  /\ Cardinality({j \in 1..Len(ev) : ev[j].k # "DEF"}) < 256
Dump == EmitOut => PrintT(<<"OUT", ToJson([kind |-> "scope", desc |-> P, tree |-> Text, bytes |-> Code, forms |-> Forms(P),
                                           level |-> IF Described(P) THEN "manual" ELSE "silent"])>>)
=============================================================================
