------------------------------ MODULE CondAsm ------------------------------
(***************************************************************************)
(* Conditional assembly (asmif.c): the IF / SWITCH stack machine.          *)
(*                                                                         *)
(* One action per statement kind, shaped like the C code:                  *)
(*   CodeIF/IFDEF/IFB/... -> If(c)       (c = value of the condition)      *)
(*   CodeELSEIF           -> ElseIf(c) / Else                              *)
(*   CodeENDIF            -> EndIf                                         *)
(*   CodeSWITCH           -> Switch(v)                                     *)
(*   CodeCASE             -> Case(S)     (S = set of case values)          *)
(*   CodeELSECASE         -> ElseCase                                      *)
(*   CodeENDCASE          -> EndCase                                       *)
(*   any other statement  -> Other       (emits a marker iff ifasm)        *)
(*                                                                         *)
(* The operators are pure functions on a record m = [ifasm, stk, errs,     *)
(* warns] so that AsCore and the trace specification can reuse them.       *)
(*                                                                         *)
(* Stack entries mirror TIfSave: st (State), found (CaseFound),            *)
(* save (SaveIfAsm), sel (SaveExpr).  Head of the sequence = FirstIfSave.  *)
(***************************************************************************)
EXTENDS Naturals, Sequences, FiniteSets

IFIF == 0  IFELSE == 1  CASESWITCH == 2  CASECASE == 3  CASEELSE == 4

InitM == [ifasm |-> TRUE, stk |-> <<>>, errs |-> 0, warns |-> 0]

Top(m) == m.stk[1]
Pop(m) == Tail(m.stk)
Push(m, e) == <<e>> \o m.stk
SetTop(m, e) == <<e>> \o Tail(m.stk)
Err(m) == [m EXCEPT !.errs = @ + 1]

\* PushIF: every IF-family opener.  Inside a skipped region the condition is not evaluated (IfExpr = 1).
DoIf(m, c) ==
  LET cc == IF m.ifasm THEN c ELSE TRUE
      e  == [st |-> IFIF, found |-> cc, save |-> m.ifasm, sel |-> 0]
  IN [m EXCEPT !.stk = Push(m, e), !.ifasm = m.ifasm /\ cc]

\* CodeELSEIF with one argument
DoElseIf(m, c) ==
  IF m.stk = <<>> \/ Top(m).st # IFIF THEN Err(m)
  ELSE LET t  == Top(m)
           cc == IF ~t.save THEN TRUE ELSE IF t.found THEN FALSE ELSE c
       IN [m EXCEPT !.ifasm = t.save /\ cc /\ ~t.found,
                    !.stk = SetTop(m, [t EXCEPT !.found = t.found \/ cc])]

\* CodeELSEIF without argument (= ELSE)
DoElse(m) ==
  IF m.stk = <<>> \/ Top(m).st # IFIF THEN Err(m)
  ELSE LET t == Top(m)
       IN [m EXCEPT !.ifasm = IF t.save THEN ~t.found ELSE m.ifasm,
                    !.stk = SetTop(m, [t EXCEPT !.st = IFELSE])]

DoEndIf(m) ==
  IF m.stk = <<>> \/ Top(m).st \notin {IFIF, IFELSE} THEN Err(m)
  ELSE [m EXCEPT !.ifasm = Top(m).save, !.stk = Pop(m)]

\* CodeSWITCH: selector evaluated only when assembling; otherwise SaveExpr := 1
DoSwitch(m, v) ==
  LET e == [st |-> CASESWITCH, found |-> FALSE, save |-> m.ifasm, sel |-> IF m.ifasm THEN v ELSE 1]
  IN [m EXCEPT !.stk = Push(m, e)]

\* CodeCASE; hit = "the selector equals one of the case values" (evaluated left to right, same type)
DoCaseB(m, hit) ==
  IF m.stk = <<>> THEN Err(m)
  ELSE IF Top(m).st \notin {CASESWITCH, CASECASE} THEN Err(m)
  ELSE LET t  == Top(m)
           eq == IF ~t.save THEN TRUE ELSE IF t.found THEN FALSE ELSE hit
       IN [m EXCEPT !.ifasm = t.save /\ eq /\ ~t.found,
                    !.stk = SetTop(m, [t EXCEPT !.found = t.found \/ eq, !.st = CASECASE])]

DoCase(m, S) == DoCaseB(m, m.stk # <<>> /\ Top(m).sel \in S)

\* EXITM inside a macro body (as.c ExpandEXITM -> RestoreIFs): the stack is cut back to the depth it had
\* when the expansion started; ifasm becomes the SaveIfAsm of the last entry removed.
DoRestoreIFs(m, depth) ==
  IF Len(m.stk) <= depth THEN m
  ELSE LET k == Len(m.stk) - depth
       IN [m EXCEPT !.ifasm = m.stk[k].save, !.stk = SubSeq(m.stk, k + 1, Len(m.stk))]

\* CodeELSECASE.  Deviation kept from the code: in a wrong state the error is reported AND the entry is
\* still marked found / CASEELSE (the two assignments are outside the else branch).
\* On an empty stack the C code of the pinned tree dereferences NULL; the specification says what the
\* property demands: an error is reported and nothing changes (ElseCaseOnEmptyStack).
DoElseCase(m) ==
  IF m.stk = <<>> THEN Err(m)
  ELSE LET t   == Top(m)
           bad == t.st \notin {CASESWITCH, CASECASE}
           m1  == IF bad THEN Err(m) ELSE [m EXCEPT !.ifasm = t.save /\ ~t.found]
       IN [m1 EXCEPT !.stk = SetTop(m, [t EXCEPT !.found = TRUE, !.st = CASEELSE])]

\* CodeENDCASE: no branch taken => warning 100 (NoCaseHit), not an error
DoEndCase(m) ==
  IF m.stk = <<>> THEN Err(m)
  ELSE IF Top(m).st \notin {CASESWITCH, CASECASE, CASEELSE} THEN Err(m)
  ELSE [m EXCEPT !.ifasm = Top(m).save, !.stk = Pop(m),
                 !.warns = IF Top(m).found THEN @ ELSE @ + 1]

\* end of pass: FirstIfSave # NULL => MissEndif
DoEndOfPass(m) == IF m.stk # <<>> THEN Err(m) ELSE m

(***************************************************************************)
(* Statements as values, and the step function used by every wrapper.      *)
(***************************************************************************)
Step(m, s) ==
  CASE s.k = "IF"       -> DoIf(m, s.c)
    [] s.k = "ELSEIF"   -> DoElseIf(m, s.c)
    [] s.k = "ELSE"     -> DoElse(m)
    [] s.k = "ENDIF"    -> DoEndIf(m)
    [] s.k = "SWITCH"   -> DoSwitch(m, s.v)
    [] s.k = "CASE"     -> DoCase(m, s.S)
    [] s.k = "ELSECASE" -> DoElseCase(m)
    [] s.k = "ENDCASE"  -> DoEndCase(m)
    [] OTHER            -> m          \* "EMIT": marker statement, effect is observed through m.ifasm

IsOpener(s) == s.k \in {"IF", "SWITCH"}
IsCloser(s) == s.k \in {"ENDIF", "ENDCASE"}

(***************************************************************************)
(* Declarative meaning (the property statement): in a well-formed skeleton *)
(* a statement at position i contributes iff, for every construct that     *)
(* encloses i, the branch containing i is the first branch of that         *)
(* construct whose condition holds, or its default branch if none holds.   *)
(* Defined by position arithmetic on the program text, not by a stack.     *)
(***************************************************************************)
\* nesting level before statement i (number of unclosed openers among 1..i-1)
RECURSIVE LevelBefore(_, _)
LevelBefore(p, i) ==
  IF i = 1 THEN 0
  ELSE LET l == LevelBefore(p, i - 1)
       IN IF IsOpener(p[i-1]) THEN l + 1 ELSE IF IsCloser(p[i-1]) /\ l > 0 THEN l - 1 ELSE l

\* the opener enclosing position i at nesting level lv (1 = outermost): last opener j < i with
\* LevelBefore(j) = lv - 1 that is not closed before i
EnclosingOpener(p, i, lv) ==
  LET C == {j \in 1..(i-1) : IsOpener(p[j]) /\ LevelBefore(p, j) = lv - 1}
  IN IF C = {} THEN 0 ELSE CHOOSE j \in C : \A k \in C : k <= j

\* branch headers of the construct opened at o that appear before position i, in order
Headers(p, o, i) ==
  {j \in o..(i-1) : j = o \/ (LevelBefore(p, j) = LevelBefore(p, o) + 1
                              /\ p[j].k \in {"ELSEIF", "ELSE", "CASE", "ELSECASE"})}

\* does the branch introduced by header j hold, given the selector of its construct
Holds(p, o, j) ==
  CASE p[j].k = "IF"       -> p[j].c
    [] p[j].k = "ELSEIF"   -> p[j].c
    [] p[j].k = "ELSE"     -> TRUE
    [] p[j].k = "SWITCH"   -> FALSE          \* text between SWITCH and the first CASE is never selected ...
    [] p[j].k = "CASE"     -> p[o].v \in p[j].S
    [] p[j].k = "ELSECASE" -> TRUE
    [] OTHER -> FALSE

\* ... except that the code leaves IfAsm untouched after SWITCH (named deviation SwitchBodyBeforeFirstCase):
\* statements between SWITCH and the first CASE are assembled iff the surrounding text is.
SwitchPreamble(p, o, i) == p[o].k = "SWITCH" /\ Headers(p, o, i) = {o}

SelectedAt(p, i) ==
  \A lv \in 1..LevelBefore(p, i) :
     LET o  == EnclosingOpener(p, i, lv)
         H  == Headers(p, o, i)
         b  == CHOOSE j \in H : \A k \in H : k <= j        \* header of the branch containing i
     IN \/ SwitchPreamble(p, o, i)
        \/ /\ Holds(p, o, b)
           /\ \A j \in H : j < b => ~Holds(p, o, j)

\* Well-formedness of a (prefix of a) skeleton, by the grammar of the manual.
RECURSIVE WFPrefix(_, _, _)
\* ctx: sequence of "I" (if, no else yet), "E" (if, else seen), "S" (switch/case), "D" (elsecase seen)
WFPrefix(p, i, ctx) ==
  IF i > Len(p) THEN TRUE
  ELSE LET s == p[i] IN
    CASE s.k = "IF"       -> WFPrefix(p, i + 1, <<"I">> \o ctx)
      [] s.k = "SWITCH"   -> WFPrefix(p, i + 1, <<"S">> \o ctx)
      [] s.k = "ELSEIF"   -> ctx # <<>> /\ ctx[1] = "I" /\ WFPrefix(p, i + 1, ctx)
      [] s.k = "ELSE"     -> ctx # <<>> /\ ctx[1] = "I" /\ WFPrefix(p, i + 1, <<"E">> \o Tail(ctx))
      [] s.k = "ENDIF"    -> ctx # <<>> /\ ctx[1] \in {"I", "E"} /\ WFPrefix(p, i + 1, Tail(ctx))
      [] s.k = "CASE"     -> ctx # <<>> /\ ctx[1] = "S" /\ WFPrefix(p, i + 1, ctx)
      [] s.k = "ELSECASE" -> ctx # <<>> /\ ctx[1] = "S" /\ WFPrefix(p, i + 1, <<"D">> \o Tail(ctx))
      [] s.k = "ENDCASE"  -> ctx # <<>> /\ ctx[1] \in {"S", "D"} /\ WFPrefix(p, i + 1, Tail(ctx))
      [] OTHER            -> WFPrefix(p, i + 1, ctx)

WellFormedPrefix(p) == WFPrefix(p, 1, <<>>)
Balanced(p) == WellFormedPrefix(p) /\ LevelBefore(p, Len(p) + 1) = 0

\* run the machine over a whole program
RECURSIVE RunFrom(_, _, _)
RunFrom(m, p, i) == IF i > Len(p) THEN m ELSE RunFrom(Step(m, p[i]), p, i + 1)
Run(p) == RunFrom(InitM, p, 1)

\* markers the machine lets through: positions i of EMIT statements at which ifasm holds
RECURSIVE EmittedFrom(_, _, _)
EmittedFrom(m, p, i) ==
  IF i > Len(p) THEN {}
  ELSE (IF p[i].k = "EMIT" /\ m.ifasm THEN {i} ELSE {}) \cup EmittedFrom(Step(m, p[i]), p, i + 1)
Emitted(p) == EmittedFrom(InitM, p, 1)

SelectedDecl(p) == {i \in 1..Len(p) : p[i].k = "EMIT" /\ SelectedAt(p, i)}
=============================================================================
