------------------------------- MODULE PendLabel -------------------------------
(* C19, dimension "pending label": WHEN a report takes a symbol's value, relative to the moment the automatic     *)
(* padding moves the label.                                                                                        *)
(*                                                                                                                 *)
(* The code (asmlabel.c, as.c Produce_Code, asmcode.c InsertPadding, asmallg.c CodeSHARED):                         *)
(*   LabelHandle   a label in the label field is entered with the program counter and REMEMBERED                    *)
(*                 (pLabelEntry, LabelValue)                                                                        *)
(*   InsertPadding a statement that wants an even address on a padding target (PADDING ON: 680x0, MSP430,           *)
(*                 TMS9900 ...) lays down / reserves one byte and calls LabelModify(old pc, new pc): the             *)
(*                 remembered label, if it still has the old value, is moved behind the pad byte                    *)
(*   LabelReset    end of Produce_Code: every statement with an operation part that is no macro call and no         *)
(*                 repetition forgets the remembered label (ResetLastLabel); lines without operation (label only,   *)
(*                 empty, comment) and macro calls leave it pending                                                 *)
(*   CodeSHARED    writes the value the symbol has WHEN THE STATEMENT IS EXECUTED into the share file; EQU / SET    *)
(*                 copy it the same way; the listing's symbol table, the MAP file and a reference in the code       *)
(*                 (resolved in the same pass behind the definition, or in the next pass) show the value the        *)
(*                 symbol has at the end                                                                            *)
(* The property (C19): the share file, the symbol table of the listing and the MAP symbols give each symbol's       *)
(* FINAL value.  A snapshot report (SHARED) is right only if nothing moves the symbol behind it: this is what the   *)
(* reset at the end of every statement guarantees - a statement that can take a snapshot also ends the pending      *)
(* state.  ResetRule = "any" is the code; ResetRule = "labelled-or-code" is the deviation in which bare             *)
(* declarations (no label field, no code) leave the label pending: TLC must refute ShareFinal there.                *)
(*                                                                                                                 *)
(* Declarative side (from the manual, PADDING: "If the source line also contained a label, the label still points   *)
(* to the address of the code or data object, i.e. right behind the pad byte.  The same is true for a label in a    *)
(* source line immediately before, as long as this line only holds the label and no other instruction"):            *)
(* ExpectFinal / MovedIff below, written over the TEXT of a block without the label memory.                         *)
EXTENDS Naturals, Integers, Sequences, FiniteSets, TLC
CONSTANT ResetRule           \* "any" (as.c) | "labelled-or-code" (deviation: bare declarations keep the label pending)

Base == 4096
Span == 32                   \* address distance of two blocks
Odd(n) == n % 2 = 1
Digits == <<"0", "1", "2", "3", "4", "5", "6", "7", "8", "9">>
Str(n) == IF n < 10 THEN Digits[n + 1] ELSE Digits[(n \div 10) + 1] \o Digits[(n % 10) + 1]

\* ---------------------------------------------------------------------------------------------------------------
\* abstract programs: blocks = label-only line at an even / odd address, 0..2 intervening statements, one
\* following statement
\* ---------------------------------------------------------------------------------------------------------------
MidKinds == <<"shself", "shother", "public", "global", "equ", "set", "byte", "blank", "listing", "call0", "callsh">>
FolKinds == <<"insn", "word", "byte", "resw", "align">>      \* + "end" for the last block of a program
Transparent == {"blank", "call0"}        \* no operation part / a macro call that expands to nothing: no LabelReset
Targets == {"68k", "msp"}                \* 68000 (DS.W is padded, too) and MSP430 with PADDING ON (BSS reserves bytes)
Padders(tgt) == IF tgt = "68k" THEN {"insn", "word", "resw"} ELSE {"insn", "word"}
                                         \* statements that ask InsertPadding for an even address

L(b) == "L" \o Str(b)                    \* the label of block b, alone on its line
N(b) == "N" \o Str(b)                    \* the label behind the following statement (on a DC.B line)
X(b, j) == "X" \o Str(b) \o (IF j = 1 THEN "A" ELSE "B")    \* the symbol an intervening EQU / SET defines

\* a statement: k = kind, lab = label field, names = symbols in the operand field, a = ORG address / number of data
\* bytes / which of the two blank lines / for DS: 1 = asks for an even address on this target
It(k, lab, names, a) == [k |-> k, lab |-> lab, names |-> names, a |-> a]

MidItem(b, j, m) ==
  CASE m = "shself"  -> It("shared", "", <<L(b)>>, 0)
    [] m = "shother" -> It("shared", "", <<IF b = 1 THEN "START" ELSE L(b - 1)>>, 0)
    [] m = "public"  -> It("public", "", <<N(b)>>, 0)
    [] m = "global"  -> It("global", "", <<N(b)>>, 0)
    [] m = "equ"     -> It("equ", X(b, j), <<L(b)>>, 0)
    [] m = "set"     -> It("set", X(b, j), <<L(b)>>, 0)
    [] m = "byte"    -> It("byte", "", <<>>, 1)
    [] m = "blank"   -> It("blank", "", <<>>, j)
    [] m = "listing" -> It("listing", "", <<>>, 0)
    [] m = "call0"   -> It("call0", "", <<>>, 0)
    [] m = "callsh"  -> It("callsh", "", <<L(b)>>, 0)

BlockItems(b, blk, tgt) ==
  <<It("org", "", <<>>, Base + Span * b)>>
  \o (IF blk.odd THEN <<It("byte", "", <<>>, 1)>> ELSE <<>>)
  \o <<It("label", L(b), <<>>, 0)>>
  \o [j \in 1..Len(blk.mids) |-> MidItem(b, j, blk.mids[j])]
  \o (IF blk.fol = "end" THEN <<>> ELSE <<It(blk.fol, "", <<>>, IF blk.fol = "byte" \/ blk.fol \in Padders(tgt) THEN 1 ELSE 0), It("byte", N(b), <<>>, 1)>>)

BlockNames(b, blk) ==
  <<L(b)>> \o (IF blk.fol = "end" THEN <<>> ELSE <<N(b)>>)
  \o SelectSeq([j \in 1..Len(blk.mids) |-> IF blk.mids[j] \in {"equ", "set"} THEN X(b, j) ELSE ""], LAMBDA x : x # "")

RECURSIVE Cat(_)
Cat(ss) == IF ss = <<>> THEN <<>> ELSE Head(ss) \o Cat(Tail(ss))

\* the flat statement list of a program [blocks, fwd, tgt]: a reference table (DC.W of every symbol: the code file as a
\* witness of the values) and a SHARED of every symbol stand behind the blocks - in front of the last block when that
\* one ends the program with END -; fwd = a SHARED of every block label in front of everything (forward reference:
\* the values come from the previous pass)
Flatten(prog) ==
  LET K    == Len(prog.blocks)
      last == prog.blocks[K].fol = "end"
      Kt   == IF last THEN K - 1 ELSE K
      nm   == <<"START">> \o Cat([b \in 1..Kt |-> BlockNames(b, prog.blocks[b])])
      tail == <<It("org", "", <<>>, Base + Span * (K + 1)), It("table", "", nm, 0), It("shared", "", nm, 0)>>
  IN  (IF prog.fwd THEN <<It("shared", "", [b \in 1..K |-> L(b)], 0)>> ELSE <<>>)
      \o <<It("org", "", <<>>, Base), It("byte", "START", <<>>, 1)>>
      \o Cat([b \in 1..Kt |-> BlockItems(b, prog.blocks[b], prog.tgt)])
      \o tail
      \o (IF last THEN BlockItems(K, prog.blocks[K], prog.tgt) ELSE <<>>)
      \o <<It("end", "", <<>>, 0)>>

Range(f) == {f[q] : q \in DOMAIN f}
NamesOf(items) == (UNION {Range(items[q].names) \cup {items[q].lab} : q \in 1..Len(items)}) \ {""}

\* ---------------------------------------------------------------------------------------------------------------
\* the machine: one operator per critical section of the code
\* ---------------------------------------------------------------------------------------------------------------
Undef == -1
S0(names, val0) == [pc |-> 0, pend |-> "", pendv |-> Undef, val |-> val0, share |-> <<>>, tab |-> <<>>, lay |-> <<>>,
                    fwd |-> FALSE]
NoValues(names) == [n \in names |-> Undef]

\* asmlabel.c
LabelHandle(s, name, v) == [s EXCEPT !.val[name] = v, !.pend = name, !.pendv = v]
LabelReset(s)           == [s EXCEPT !.pend = "", !.pendv = Undef]
LabelModify(s, old, new) ==
  IF s.pend # "" /\ s.pendv = old THEN [s EXCEPT !.val[s.pend] = new, !.pendv = new] ELSE s
LabelPresent(it) == it.lab # "" /\ it.k \notin {"equ", "set"}

\* asmcode.c: one byte laid down (or only reserved: DS), then the remembered label follows the program counter
Lay(s, i, kind, n) == [s EXCEPT !.lay = Append(@, [i |-> i, addr |-> s.pc, k |-> kind, n |-> n]), !.pc = s.pc + n]
InsertPadding(s, i, onlyReserve) ==
  LabelModify(Lay(s, i, IF onlyReserve THEN "padres" ELSE "pad", 1), s.pc, s.pc + 1)
Aligned(s, i, onlyReserve) == IF Odd(s.pc) THEN InsertPadding(s, i, onlyReserve) ELSE s

\* asmallg.c CodeSHARED: one line per known symbol, with the value it has now
RECURSIVE Snapshot(_, _, _)
Snapshot(s, names, field) ==
  IF names = <<>> THEN s
  ELSE LET n == Head(names) IN
       Snapshot(IF s.val[n] = Undef THEN [s EXCEPT !.fwd = TRUE]
                ELSE [s EXCEPT ![field] = Append(@, [name |-> n, val |-> s.val[n]])], Tail(names), field)

Exec(s, i, it) ==
  CASE it.k = "org"    -> [s EXCEPT !.pc = it.a]
    [] it.k = "byte"   -> Lay(s, i, "emit", it.a)
    [] it.k \in {"insn", "word"} -> Lay(Aligned(s, i, FALSE), i, "emit", 2)
    [] it.k = "resw"   -> Lay(IF it.a = 1 THEN Aligned(s, i, TRUE) ELSE s, i, "res", 2)
    [] it.k = "table"  -> LET s1 == Aligned(s, i, FALSE) IN Snapshot(Lay(s1, i, "emit", 2 * Len(it.names)), it.names, "tab")
    [] it.k = "align"  -> IF Odd(s.pc) THEN Lay(s, i, "res", 1) ELSE s          \* CodeALIGN: no LabelModify
    [] it.k = "shared" -> Snapshot(s, it.names, "share")
    [] it.k \in {"equ", "set"} -> IF s.val[it.names[1]] = Undef THEN [s EXCEPT !.fwd = TRUE]
                                   ELSE [s EXCEPT !.val[it.lab] = s.val[it.names[1]]]
    [] OTHER -> s                 \* label, blank, listing, public, global, call0, end: no code, no symbol value

HasOp(it)  == it.k \notin {"label", "blank"}
IsCall(it) == it.k \in {"call0", "callsh"}                \* Produce_Code: ResetLastLabel = False
CodeLenOf(s, it) ==                                       \* CodeLen at the end of the statement
  CASE it.k = "byte" -> it.a
    [] it.k \in {"insn", "word", "resw"} -> 2
    [] it.k = "table" -> 2 * Len(it.names)
    [] it.k = "align" -> IF Odd(s.pc) THEN 1 ELSE 0
    [] OTHER -> 0
Forgets(s, it) ==
  /\ HasOp(it) /\ ~IsCall(it)
  /\ \/ ResetRule = "any"
     \/ ResetRule = "labelled-or-code" /\ (it.lab # "" \/ CodeLenOf(s, it) # 0)

\* as.c Produce_Code for one source line
Line(s, i, it) ==
  LET s1 == IF LabelPresent(it) THEN LabelHandle(s, it.lab, s.pc) ELSE s
      s2 == Exec(s1, i, it)
  IN  IF Forgets(s1, it) THEN LabelReset(s2) ELSE s2
\* a macro call leaves the label pending; the line of its body (SHARED of the argument) is a statement of its own
Statement(s, i, it) ==
  IF it.k = "callsh" THEN Line(Line(s, i, it), i, It("shared", "", it.names, 0)) ELSE Line(s, i, it)

RECURSIVE RunFrom(_, _, _)
RunFrom(s, items, i) == IF i > Len(items) THEN s ELSE RunFrom(Statement(s, i, items[i]), items, i + 1)
RunPass(items, names, val0) == RunFrom(S0(names, val0), items, 1)
\* pass 1; a forward reference asks for one more pass, which starts with the values of the first (AsmLabelPassInit:
\* nothing pending; the share file is written anew)
Assemble(items, names) ==
  LET p1 == RunPass(items, names, NoValues(names)) IN
  IF p1.fwd THEN [RunPass(items, names, p1.val) EXCEPT !.fwd = TRUE] ELSE p1

\* ---------------------------------------------------------------------------------------------------------------
\* declarative side
\* ---------------------------------------------------------------------------------------------------------------
\* the property: every line of the share file gives the symbol's final value; so does every word of the table
ShareFinal(r) == \A q \in 1..Len(r.share) : r.share[q].val = r.val[r.share[q].name]
CodeFinal(r)  == \A q \in 1..Len(r.tab) : r.tab[q].val = r.val[r.tab[q].name]

\* what the text of block b says
Count(seq, x) == Cardinality({j \in 1..Len(seq) : seq[j] = x})
EntryAddr(b, blk) == Base + Span * b + (IF blk.odd THEN 1 ELSE 0)
FolRaw(b, blk)    == EntryAddr(b, blk) + Count(blk.mids, "byte")               \* where the following statement begins
FolCode(b, blk, tgt) == IF blk.fol \in Padders(tgt) /\ Odd(FolRaw(b, blk)) THEN FolRaw(b, blk) + 1 ELSE FolRaw(b, blk)
StillPending(blk) == \A j \in 1..Len(blk.mids) : blk.mids[j] \in Transparent
\* the label's final value: the address of the following code if the label is still pending when that statement is
\* padded, the address of the label line otherwise
ExpectFinal(b, blk, tgt) == IF StillPending(blk) THEN FolCode(b, blk, tgt) ELSE EntryAddr(b, blk)
\* the manual decides: nothing between label and statement (moved), or another instruction between them (not moved);
\* it is silent about empty lines and calls of empty macros (the code: still pending)
ManualDecides(blk) == blk.mids = <<>> \/ ~StillPending(blk)
FinalAsText(prog, r) == \A b \in 1..Len(prog.blocks) : r.val[L(b)] = ExpectFinal(b, prog.blocks[b], prog.tgt)
\* ... equals the address the following code was laid down at iff the label is still pending when the padding
\* happens (or nothing at all lies between the label and the code)
MovedIff(prog, r) ==
  \A b \in 1..Len(prog.blocks) : LET blk == prog.blocks[b] IN
     blk.fol \in {"insn", "word", "byte", "resw"} =>
       ((r.val[L(b)] = FolCode(b, blk, prog.tgt)) <=> (StillPending(blk) \/ FolCode(b, blk, prog.tgt) = EntryAddr(b, blk)))
\* a symbol copied from the label by EQU / SET: the statement ends the pending state, so the copy is the final value
CopiesFinal(prog, r) ==
  \A b \in 1..Len(prog.blocks) : \A j \in 1..Len(prog.blocks[b].mids) :
     prog.blocks[b].mids[j] \in {"equ", "set"} => r.val[X(b, j)] = r.val[L(b)]
\* layout: aligned statements lie at even addresses, pad bytes at odd ones, in front of their statement
LayoutSane(items, r) ==
  \A q \in 1..Len(r.lay) : LET e == r.lay[q] IN
     /\ e.k \in {"pad", "padres"} => Odd(e.addr) /\ q < Len(r.lay) /\ r.lay[q + 1].i = e.i /\ r.lay[q + 1].addr = e.addr + 1
     /\ (items[e.i].k \in {"insn", "word", "table"} \/ (items[e.i].k = "resw" /\ items[e.i].a = 1)) /\ e.k \in {"emit", "res"}
          => ~Odd(e.addr)
\* line:address entries of the debug file for statement i: one per piece laid down (the pad byte, the code)
LineEntries(r, i) == {r.lay[q].addr : q \in {q \in 1..Len(r.lay) : r.lay[q].i = i /\ r.lay[q].k # "padres"}}
=============================================================================
