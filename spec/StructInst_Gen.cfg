CONSTANTS MaxLen = 16 MaxDepth = 2 MaxInst = 3 MaxDefs = 2 SubNames = {"N", "M"} Sizes = {1, 2, 3} MinInst = 2 MinPhased = 0
          EndForms = "all" Moves = TRUE Errors = FALSE Strict = FALSE Segs = {"code", "data"} StructSeg = "struct"
CONSTANTS OptSets <- Opt_gen SubOptSets <- Opt_dots DimSets <- Dim_arr2
CONSTANT FixAnon <- FixAnonEnv
INIT GInit
NEXT GNext
INVARIANT Dump
CHECK_DEADLOCK FALSE
