\* (M)+(G): the whole family, five targets, pairs included
CONSTANTS
  OpcodePageCounted = TRUE
  Targets = {"6809", "6811", "6502", "8086", "68000"}
  Wide = FALSE
  WithPairs = TRUE
INIT Init
NEXT Next
CHECK_DEADLOCK FALSE
INVARIANTS ConvergesInv ModelResolvesInv Dump
