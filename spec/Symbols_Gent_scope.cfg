CONSTANTS LOCSYMSIGHT = 3
          MaxLen = 4 FreeLen = 0 MaxDepth = 2 Mode = "scope" CaseModes = {FALSE} EveryState = TRUE
INIT Init
NEXT Next
INVARIANT Dump
CHECK_DEADLOCK FALSE
