CONSTANTS LOCSYMSIGHT = 3
          MaxLen = 3 FreeLen = 0 MaxDepth = 2 Mode = "scope" CaseModes = {TRUE, FALSE} EveryState = TRUE
INIT Init
NEXT Next
INVARIANT Dump
CHECK_DEADLOCK FALSE
