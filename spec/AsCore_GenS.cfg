\* symbol table family: every program of up to 3 source lines over the 19 statements of SymAlpha
CONSTANTS Segs = {1, 2} StructSeg = 11 OffSet = {} OffAt = 0 Family = "sym" BodyLen = 0 MaxLen = 3 MaxSteps = 12
INIT Init
NEXT GenNext
INVARIANTS ForwardIsAllowed ErrCountIsFaultyExecuted ChainMirrorsCounts ImageIsData KeptIffClean
           ConstantsKeepTheirValue SkippedDefinesNothing VariableIsLastSetOrPopped
           ExpectListIsAnnouncedMinusConsumed HiddenIsNeverCounted EndIsFinal
CHECK_DEADLOCK FALSE
