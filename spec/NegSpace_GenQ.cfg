CONSTANTS
  GenOps <- OpNames
  GenCtx = {"top", "open", "skip", "rec", "mac", "rept", "struct", "sect"}
  GenClasses = {"empty", "0", "m1", "h31", "h63", "str", "float", "undef", "fwd"}
  AllClasses = {"m1", "h63", "lstr"}
  MaxPos = 2
  BigCounts = {257, 477}
INIT Init
NEXT Next
VIEW View
ACTION_CONSTRAINT TCover
INVARIANT ExitDocumented
CHECK_DEADLOCK FALSE
