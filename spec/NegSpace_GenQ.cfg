CONSTANTS
  GenOps <- OpNames
  GenCtx = {"top", "open", "skip", "rec", "mac", "rept", "struct", "sect", "ltop", "lnarrow", "lshort"}
  GenClasses = {"empty", "0", "m1", "h31", "h63", "str", "float", "undef", "fwd"}
  AllClasses = {"m1", "h63", "lstr"}
  MaxPos = 2
  BigCounts = {257, 477}
  GenCounts = {"c4", "c5", "c6", "c127", "c128", "c129", "c255", "c256", "c257", "c511", "c512", "c513", "c1000",
               "c5000", "c32767", "c65536"}
INIT Init
NEXT Next
VIEW View
ACTION_CONSTRAINT TCover
INVARIANT ExitDocumented
CHECK_DEADLOCK FALSE
