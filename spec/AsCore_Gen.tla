------------------------------ MODULE AsCore_Gen ------------------------------
(***************************************************************************)
(* (M)+(G) for the composed specification: the forward model AsCore_MC     *)
(* with the export of every COMPLETE behaviour (program read to its end,   *)
(* pass finished) for replay into the real assembler:                      *)
(*   <<"BEH", [prog, errs, warns, image, steps]>>                          *)
(* prog = source lines [k, a, id]; errs / warns = what the diagnostic      *)
(* counters of the composition hold at the end of the pass; image = the    *)
(* emitted stream as <<load address, byte = id of the source line it comes *)
(* from>> - for DB VX the value the symbol table holds for VX; steps =     *)
(* executions of Produce_Code.                                             *)
(* AsCore_Gen.cfg / AsCore_Gen4.cfg: breadth first, EVERY program of up    *)
(* to 3 / 4 source lines, invariants of AsCore_MC checked on the way.      *)
(* AsCore_GenS.cfg / AsCore_GenS4.cfg: the same over SymAlpha (statements  *)
(* of the symbol table).  AsCore_GenM*.cfg: macro family.  AsCore_GenD.cfg:*)
(* the Directed programs.  AsCore_GenX.cfg / AsCore_GenX4.cfg: EXPECT /    *)
(* ENDEXPECT / END / IFDEF family (ExpAlpha, 3 / 4 lines).  AsCore_Sim.cfg:*)
(* -simulate, longer programs over all alphabets (8 lines, 60 steps).      *)
(***************************************************************************)
EXTENDS AsCore_MC, Json

Outcome == [prog |-> prog, errs |-> s.d.err, warns |-> s.d.warn,
            image |-> [i \in 1..Len(gh.image) |-> <<gh.image[i][1], gh.image[i][2]>>], steps |-> l - 1]
GenNext == \/ Step /\ (mode' = "done" => PrintT(<<"BEH", ToJson(Outcome')>>))
           \/ (mode = "done" /\ UNCHANGED vars)
=============================================================================
