------------------------------ MODULE AsCore_Gen ------------------------------
(***************************************************************************)
(* (M)+(G) for the composed specification: the forward model AsCore_MC     *)
(* with the export of every COMPLETE behaviour (program read to its end,   *)
(* pass finished) for replay into the real assembler:                      *)
(*   <<"BEH", [prog, errs, warns, image, steps]>>                          *)
(* prog = source lines [k, a, id]; errs / warns = what the diagnostic      *)
(* counters of the composition hold at the end of the pass; image = the    *)
(* emitted stream as <<load address, id of the source line the byte comes  *)
(* from>>; steps = executions of Produce_Code.                             *)
(* AsCore_Gen.cfg / AsCore_Gen4.cfg: breadth first, EVERY program of up    *)
(* to 3 / 4 source lines, invariants of AsCore_MC checked on the way.      *)
(* AsCore_Sim.cfg: -simulate, longer programs (8 lines, 60 steps).         *)
(***************************************************************************)
EXTENDS AsCore_MC, Json

Outcome == [prog |-> prog, errs |-> s.d.err, warns |-> s.d.warn, image |-> gh.image, steps |-> l - 1]
GenNext == \/ Step /\ (mode' = "done" => PrintT(<<"BEH", ToJson(Outcome')>>))
           \/ (mode = "done" /\ UNCHANGED vars)
=============================================================================
