CONSTANTS ResetRule = "any"
INIT TInit
NEXT TNext
INVARIANT Report
POSTCONDITION Accepted
CHECK_DEADLOCK FALSE
