----------------------------- MODULE AsCore_Trace -----------------------------
(***************************************************************************)
(* Trace validation of the composed specification (AsCore.tla): ONE        *)
(* recorded execution of the real assembler (one process, all passes) is   *)
(* validated against ALL statement-level machines at once.                 *)
(*                                                                         *)
(* The run / file / pass protocol (options, freshness of every pass, the   *)
(* do-while condition of the pass loop, keep / unlink of the code file,    *)
(* exit status) is Driver_Trace's, reused by INSTANCE: its actions Run,    *)
(* File, Pass, Last, PassEnd, FileEnd, Exit are conjuncts of the steps     *)
(* below and its variables are variables of this module.                   *)
(*                                                                         *)
(* Events (hook records regrouped per source statement by                  *)
(* checks/ext_ascore.py; regrouping and tokenising only):                  *)
(*  RUN, FILE, LAST, PASSEND, FILEEND, EXIT   as in Driver_Trace           *)
(*  PASS  Driver_Trace's PASS + [last, hasfile, recs, problems, entries]:  *)
(*        for the last pass of a kept file the code file as parsed by the  *)
(*        independent reader; sy = the sym_def records AssembleFile_InitPass*)
(*        wrote before pass_begin (predefined symbols)                     *)
(*  S     one execution of Produce_Code:                                   *)
(*        pre   lines delivered before it that never became a statement    *)
(*              (preprocessor lines), each [nl, tx, dp, em]                *)
(*        nl,tx,dp,em  `line` record: no line (chain empty), text (interned*)
(*              id, 0 = empty text), chain length after GetNextLine,       *)
(*              "top tag exhausted"                                        *)
(*        op, argc, lab, wm, ca, cb, mc, nm   statement: OpPart, ArgCnt,   *)
(*              label field present, WasMACRO, class for CondAsm, class    *)
(*              for AddrBook, class for the macro processor, name defined  *)
(*              by a MACRO statement                                       *)
(*        ifasm, stk, rec, tagd, errs, seg, pc, ph, phd, svd, std, len     *)
(*              state AFTER the statement (stmt record)                    *)
(*        dg    diag records of the line  [num, cls, errs, warns]          *)
(*        sy    sym_def / sym_mod / sym_ref records of the line, in order  *)
(*              [k, name, sect, t, v, x, chg, out] (name as stored, value  *)
(*              split into type, integer below 2^30, decimal text beyond); *)
(*              psy: those written while the line was being fetched        *)
(*        lbn   label field, case-folded, "" if it is not a plain name     *)
(*              (temporary, composed, with {..} or [..]);  q  a "[" on the *)
(*              line;  sed  depth of the section stack after the statement *)
(*        sc, sa  class for the symbol table (SECTION ENDSECTION PUBLIC    *)
(*              GLOBAL FORWARD EQU SET ENUM NEXTENUM ENUMCONF PUSHV POPV)  *)
(*              and its tokenised arguments; gsym: {GLOBALSYMBOLS} option  *)
(*              on a MACRO / loop header                                   *)
(*        gk, ga  kind of the statement for the EXPECT list and the named *)
(*              single-statement actions: EXPECT (ga = its arguments: a    *)
(*              literal decimal number or -1), ENDEXPECT, EMPTY (blank /   *)
(*              comment / label only as written), LIST, ALIGN (ga = <<n>>),*)
(*              END, FUNCTION (ga = <<name>>) - only when the statement is *)
(*              executed; IFDEF / IFNDEF (ga = <<name as stored, name in   *)
(*              capitals>> for one plain name)                             *)
(*        ch    emit / reserve / retract records [k, seg, addr, n, g, b,nb]*)
(*  FILEEND  + haslst, lst: the symbol table of the listing, tokenised    *)
(*        [n, s, v] (name, section name, integer value), if one was written*)
(*  L     lines delivered at the end of a pass that never became a         *)
(*        statement;   T  diag records outside statements (end of pass)    *)
(***************************************************************************)
EXTENDS AsCore, Json, IOUtils

CONSTANT Block     \* statements taken in ONE step of TLC (a run of consecutive S events is cut into blocks of this
                   \* length; the statements of a block are executed one after the other by RunBlock - the same
                   \* StmtSucc, fewer states to fingerprint and queue).  Diagnosis (OffSet # {}) uses Block = 1.

VARIABLES base, ca, ab, mp, cw, tl, sy, en, au,
          ph, o, d, glob, keptq, cur, pass1, lastpe, resid, lastst, prevdiag
mine == <<base, ca, ab, mp, cw, tl, sy, en, au>>
vars == <<l, base, ca, ab, mp, cw, tl, sy, en, au, ph, o, d, glob, keptq, cur, pass1, lastpe, resid, lastst, prevdiag>>
\* The two trees of the symbol table are kept out of the fingerprint (cfg: VIEW TView): they hold thousands of entries
\* and are a function of the events consumed so far (SymFold / SyHandler are deterministic in the table; the
\* alternatives a step may leave open differ in ca / ab / mp, which the view keeps).
TView == <<l, base, ca, ab, mp, cw, tl, [sy EXCEPT !.tab = 0, !.loc = 0], en, au,
           ph, o, d, glob, keptq, cur, pass1, lastpe, resid, lastst, prevdiag>>

DR == INSTANCE Driver_Trace WITH Wrap <- 0, Leaky <- {}

TraceLog == ndJsonDeserialize(IOEnv.TRACE)
Tx(i) == TraceLog[i].tx
Recs == TraceLog[base].recs            \* kept out of the state: it is large

MineInit == /\ base = 0 /\ ca = CA!InitM /\ ab = AB!InitB(1) /\ mp = InitMP /\ cw = InitW(FALSE) /\ tl = <<>>
            /\ sy = InitSY /\ en = InitEN /\ au = InitAU
MineReset == /\ base' = 0 /\ ca' = CA!InitM /\ ab' = AB!InitB(1) /\ mp' = InitMP /\ cw' = InitW(FALSE) /\ tl' = <<>>
             /\ sy' = InitSY /\ en' = InitEN /\ au' = InitAU
\* register 1: how far some behaviour got (index of the first event not consumed); register 2: all consumed
TInit == l = 1 /\ DR!TInit /\ MineInit /\ TLCSet(1, 1) /\ TLCSet(2, 0)

\* ---- pass boundary ------------------------------------------------------------------------------------------
\* PassBoundaryResetsEverything: Driver_Trace's Pass (the pass_begin record shows the state of the first pass: segment,
\* counter, IfAsm, target; counters cleared) and every machine of the composition starts from its initial state -
\* which the statements that follow then have to confirm (IF stack, counters, tag chain, recorded stream).
\* The symbol table: the entries and their values survive, the "defined in this pass" marks are reset, the section
\* stack, the PUSHV stacks and ENUM's counter start anew (Symbols!NextPass); then AssembleFile_InitPass enters the
\* predefined symbols - like every other definition through SymbolAdder.
PassBoundaryResetsEverything(e) ==
  /\ DR!Pass(e)
  /\ ca' = CA!InitM /\ ab' = Reset(e) /\ mp' = StartPass(mp, e.pass) /\ cw' = InitW(e.last /\ e.hasfile)
  /\ LET p == Predefine(IF e.pass = 1 THEN InitSY ELSE sy, e.pass, e.sy) IN p[1] /\ sy' = Quiesce(p[2])
  /\ en' = InitEN /\ au' = AuStartPass(au, e.pass)
  /\ base' = l /\ tl' = <<>>
Pass(e) ==
  /\ (e.last /\ e.hasfile) => CW!WellFormedRecs(e)
  /\ PassBoundaryResetsEverything(e)

\* ---- one statement = one step of every machine -----------------------------------------------------------------
IsS(i) == i <= Len(TraceLog) /\ TraceLog[i].a = "S"
RECURSIVE BlockEnd(_, _)
\* last event of the block of at most k statements that starts at i
BlockEnd(i, k) == IF k > 1 /\ IsS(i + 1) THEN BlockEnd(i + 1, k - 1) ELSE i
\* S = the composed states before event i; the statements i..j one after the other (a statement behind a fatal
\* error is not accepted: ph = "pass" is the precondition of every statement).  FoldLeft of the community modules
\* iterates in Java: the chain in which TLC looks names up does not grow with the position in the block.
SX == INSTANCE SequencesExt
RunBlock(S, i, j) ==
  SX!FoldLeft(LAMBDA acc, k : UNION {{n \in StmtSuccAt(Tx, Recs, o, x, TraceLog[k], k) :
                                       k = j \/ DR!Dead(n.d) = "pass"} : x \in acc},
              S, [k \in 1..(j - i + 1) |-> i + k - 1])
Stmts(j) ==
  /\ ph = "pass"
  /\ \E n \in RunBlock({[ca |-> ca, ab |-> ab, mp |-> mp, cw |-> cw, d |-> d, sy |-> sy, en |-> en, au |-> au]}, l, j) :
       /\ ca' = n.ca /\ ab' = n.ab /\ mp' = n.mp /\ cw' = n.cw /\ d' = n.d /\ ph' = DR!Dead(n.d)
       /\ sy' = n.sy /\ en' = n.en /\ au' = n.au
  /\ prevdiag' = FALSE /\ tl' = <<>>
  /\ UNCHANGED <<base, o, glob, keptq, cur, pass1, lastpe, resid, lastst>>

\* lines handed out by GetNextLine that never reached Produce_Code
Lines(e) ==
  /\ ph = "pass"
  /\ \E tg \in Deliver(Tx, [tags |-> mp.tags, lc |-> mp.lc], e.pre, 1) : mp' = [mp EXCEPT !.tags = tg.tags, !.lc = tg.lc]
  /\ UNCHANGED <<base, ca, ab, cw, tl, sy, en, au, ph, o, d, glob, keptq, cur, pass1, lastpe, resid, lastst, prevdiag>>

\* diagnostics outside statements (AssembleFile_ExitPass, or the process died inside a statement)
Outside(e) ==
  LET fd == FoldDiagsExit(o, d, e.dg, 1, au.fz \/ ~On("ExpectListIsHistory"))
  IN /\ ph = "pass" /\ fd[1]
     /\ d' = fd[2] /\ ph' = DR!Dead(fd[2]) /\ tl' = e.dg /\ prevdiag' = FALSE
     /\ UNCHANGED <<base, ca, ab, mp, cw, sy, en, au, o, glob, keptq, cur, pass1, lastpe, resid, lastst>>

PassEnd(e) ==
  /\ DR!PassEnd(e)
  /\ e.ifd = Len(ca.stk)
  /\ OpenConstructsAreReported(ca, ab, sy, tl)
  /\ ExpectEndsWithPass(d, tl)
  /\ PhaseErrorForcesRepass(au, e)
  /\ tl' = <<>> /\ UNCHANGED <<base, ca, ab, mp, cw, sy, en, au>>

\* LastPassImageEqualsFile, second half: a code file that is kept was compared, and nothing is left in it
FileEnd(e) ==
  /\ DR!FileEnd(e)
  /\ Claim("LastPassImageEqualsFile", (e.kept = 1) => cw.on)
  /\ (cw.on => StreamDone(Recs, cw))
  /\ (cw.on => EndSetsEntry(au, TraceLog[base].entries))
  /\ FinalTableIsListed(sy, e)
  /\ UNCHANGED mine

TNext ==
  /\ l <= Len(TraceLog)
  /\ LET e == TraceLog[l]
         j == IF e.a = "S" THEN BlockEnd(l, Block) ELSE l
     IN /\ l' = j + 1
        /\ CASE e.a = "S"       -> Stmts(j)
             [] e.a = "RESET"   -> DR!Reset /\ MineReset
             [] e.a = "RUN"     -> DR!Run(e) /\ MineReset
             [] e.a = "FILE"    -> DR!File(e) /\ UNCHANGED mine
             [] e.a = "PASS"    -> Pass(e)
             [] e.a = "L"       -> Lines(e)
             [] e.a = "T"       -> Outside(e)
             [] e.a = "LAST"    -> DR!Last(e) /\ UNCHANGED mine
             [] e.a = "PASSEND" -> PassEnd(e)
             [] e.a = "FILEEND" -> FileEnd(e)
             [] e.a = "EXIT"    -> DR!Exit(e) /\ UNCHANGED mine
        /\ TLCSet(1, IF TLCGet(1) < j + 1 THEN j + 1 ELSE TLCGet(1))
        /\ (j + 1 > Len(TraceLog) => TLCSet(2, 1))

\* accepted: some behaviour consumed every event; otherwise the position reached is printed for the harness
Accepted == IF TLCGet(2) = 1 THEN TRUE ELSE PrintT(<<"REACHED", TLCGet(1)>>) /\ FALSE
=============================================================================
