----------------------------- MODULE AsCore_Trace -----------------------------
(***************************************************************************)
(* Composition: one recorded statement = one step of ALL statement-level   *)
(* machines of the specification at once (DESIGN.md section 7, step 8).    *)
(*                                                                         *)
(*   CA  conditional assembly (CondAsm)      IF/SWITCH stack, ifasm        *)
(*   AB  address bookkeeping  (AddrBook)     counters, phases, segments,   *)
(*                                           SAVE/RESTORE, STRUCT bodies   *)
(*                                                                         *)
(* Besides validating each machine's own step, the composition checks the  *)
(* cross-machine claims that no single machine can state:                  *)
(*   SkippedIsInert   a line in a branch that is not selected (ifasm false *)
(*                    before and after, not an IF-family statement) emits  *)
(*                    and reserves nothing and moves no counter, phase,    *)
(*                    segment, SAVE or STRUCT state                        *)
(*   RecordedIsInert  a line swallowed by a MACRO/REPT/IRP/WHILE body that *)
(*                    is being recorded changes neither machine            *)
(*   IfFamilyIsAddressNeutral  IF/ELSE/ENDIF/SWITCH/CASE/... never move    *)
(*                    an address, even when they are assembled             *)
(* Event = the `stmt` hook record of one source line, regrouped with the   *)
(* emit/reserve/retract records of that line:                              *)
(*  [ca |-> CondAsm action, cb |-> AddrBook class, rec, argc, ifasm, stk,  *)
(*    errs, chunks, seg, pc, ph, phd, svd, std, len]                        *)
(***************************************************************************)
EXTENDS Integers, Sequences, FiniteSets, TLC, Json, IOUtils

CONSTANTS Segs, StructSeg
CA == INSTANCE CondAsm
AB == INSTANCE AddrBook

VARIABLES l, ca, ab, perr
vars == <<l, ca, ab, perr>>
TraceLog == ndJsonDeserialize(IOEnv.TRACE)

\* ---- CondAsm side (same as CondAsm_Trace) ----------------------------------------------------------------
AbsStk(stk) == [i \in 1..Len(stk) |-> [st |-> stk[i].st, found |-> stk[i].found, save |-> stk[i].save]]
LogStk(e) == [i \in 1..Len(e.stk) |-> [st |-> e.stk[i][1], found |-> e.stk[i][2] = 1, save |-> e.stk[i][3] = 1]]
CAMatches(m, e) == m.ifasm = e.ifasm /\ AbsStk(m.stk) = LogStk(e)
CACands(e) ==
  CASE e.ca = "IF"       -> {CA!DoIf(ca, c) : c \in BOOLEAN}
    [] e.ca = "ELSEIF"   -> IF e.argc = 0 THEN {CA!DoElse(ca)}
                            ELSE IF e.argc = 1 THEN {CA!DoElseIf(ca, c) : c \in BOOLEAN} ELSE {CA!Err(ca)}
    [] e.ca = "ENDIF"    -> IF e.argc = 0 THEN {CA!DoEndIf(ca)} ELSE {CA!Err(ca)}
    [] e.ca = "SWITCH"   -> {CA!DoSwitch(ca, 0)}
    [] e.ca = "CASE"     -> IF e.argc = 0 /\ ca.stk # <<>> THEN {CA!Err(ca)} ELSE {CA!DoCaseB(ca, h) : h \in BOOLEAN}
    [] e.ca = "ELSECASE" -> IF e.argc = 0 THEN {CA!DoElseCase(ca)} ELSE {CA!Err(ca)}
    [] e.ca = "ENDCASE"  -> IF e.argc = 0 THEN {CA!DoEndCase(ca)} ELSE {CA!Err(ca)}
    [] e.ca = "EXITM"    -> {CA!DoRestoreIFs(ca, d) : d \in 0..Len(ca.stk)}
    [] OTHER             -> {ca}

\* ---- AddrBook side (same as AddrBook_Trace) -----------------------------------------------------------------
RECURSIVE Chunks(_, _, _)
Chunks(bb, cs, i) ==
  IF i > Len(cs) THEN <<TRUE, bb>>
  ELSE LET c == cs[i] IN
       IF c.k = "X" THEN Chunks(AB!Retract(bb, c.n), cs, i + 1)
       ELSE IF c.seg = bb.act /\ c.addr = AB!Load(bb)
            THEN Chunks(AB!MarkUsed(AB!Advance(bb, c.n)), cs, i + 1)
            ELSE <<FALSE, bb>>
PostOK(bb, e) ==
  /\ bb.act = e.seg /\ AB!Load(bb) = e.pc /\ bb.ph[bb.act] = e.ph
  /\ (e.seg # StructSeg => Len(bb.phStk[bb.act]) = e.phd)
  /\ Len(bb.saveStk) = e.svd /\ Len(bb.stStk) = e.std
AfterHandler(e) ==
  CASE e.cb = "ORG"      -> {AB!Org(ab, e.pc + e.ph), ab}
    [] e.cb = "RORG"     -> {AB!Rorg(ab, e.pc - AB!Load(ab))}
    [] e.cb = "SEGMENT"  -> {AB!Segment(ab, e.seg, e.pc), ab}
    [] e.cb = "CPU"      -> {AB!Segment(ab, e.seg, e.pc)}
    [] e.cb = "PHASE"    -> {AB!Phase(ab, e.pc + e.ph), ab}
    [] e.cb = "DEPHASE"  -> {AB!Dephase(ab), ab}
    [] e.cb = "SAVE"     -> {AB!Save(ab), ab}
    [] e.cb = "RESTORE"  -> (IF AB!CanRestore(ab) THEN {AB!Restore(ab)} ELSE {}) \cup {ab}
    [] e.cb = "STRUCT"   -> {AB!BeginStruct(ab, FALSE), ab}
    [] e.cb = "UNION"    -> {AB!BeginStruct(ab, TRUE), ab}
    [] e.cb = "ENDSTRUCT" -> (IF ab.stStk # <<>> THEN {AB!EndStruct(ab)} ELSE {}) \cup {ab}
    [] OTHER             -> {ab}
BodyAdvance(bb, e) ==
  IF AB!InStruct(bb) /\ e.cb \notin {"ENDSTRUCT", "STRUCT", "UNION"} THEN AB!Advance(bb, e.len) ELSE bb

\* ---- cross-machine claims -----------------------------------------------------------------------------------
Inert(e, nab) == e.chunks = <<>> /\ nab = ab
SkippedIsInert(e, nab) == (~ca.ifasm /\ ~e.ifasm /\ e.ca = "OTHER" /\ ~e.rec) => Inert(e, nab)
RecordedIsInert(e, nca, nab) == e.rec => (Inert(e, nab) /\ nca.ifasm = ca.ifasm /\ nca.stk = ca.stk)
IfFamilyIsAddressNeutral(e, nab) == (e.ca \notin {"OTHER", "EXITM"}) => (e.chunks = <<>> \/ \A i \in 1..Len(e.chunks) : e.chunks[i].n = 0) /\ nab.pc = ab.pc /\ nab.ph = ab.ph /\ nab.act = ab.act

TInit == l = 1 /\ ca = CA!InitM /\ ab = AB!InitB(1) /\ perr = 0
Reset(e) == [AB!InitB(e.seg) EXCEPT !.pc[e.seg] = e.pc, !.used = [s \in AB!AllSegs |-> FALSE]]

TNext ==
  /\ l <= Len(TraceLog) /\ l' = l + 1
  /\ LET e == TraceLog[l] IN
       IF e.ca = "RESET" THEN ca' = CA!InitM /\ ab' = Reset(e) /\ perr' = 0
       ELSE \E c \in CACands(e) : \E h \in AfterHandler(e) :
              LET r   == Chunks(h, e.chunks, 1)
                  nab == BodyAdvance(r[2], e)
              IN /\ CAMatches(c, e)
                 /\ (c.errs > ca.errs) => e.errs > perr
                 /\ r[1] /\ PostOK(nab, e)
                 /\ SkippedIsInert(e, nab)
                 /\ RecordedIsInert(e, c, nab)
                 /\ IfFamilyIsAddressNeutral(e, nab)
                 /\ ca' = [c EXCEPT !.errs = 0, !.warns = 0]
                 /\ ab' = nab
                 /\ perr' = e.errs

Accepted == TLCGet("stats").diameter - 1 = Len(TraceLog)
=============================================================================
