----------------------------- MODULE AsCore_Trace -----------------------------
(***************************************************************************)
(* Trace validation of the composed specification (AsCore.tla): ONE        *)
(* recorded execution of the real assembler (one process, all passes) is   *)
(* validated against ALL statement-level machines at once.                 *)
(*                                                                         *)
(* The run / file / pass protocol (options, freshness of every pass, the   *)
(* do-while condition of the pass loop, keep / unlink of the code file,    *)
(* exit status) is Driver_Trace's, reused by INSTANCE: its actions Run,    *)
(* File, Pass, Last, PassEnd, FileEnd, Exit are conjuncts of the steps     *)
(* below and its variables are variables of this module.                   *)
(*                                                                         *)
(* Events (hook records regrouped per source statement by                  *)
(* checks/ext_ascore.py; regrouping and tokenising only):                  *)
(*  RUN, FILE, LAST, PASSEND, FILEEND, EXIT   as in Driver_Trace           *)
(*  PASS  Driver_Trace's PASS + [last, hasfile, recs, problems, entries]:  *)
(*        for the last pass of a kept file the code file as parsed by the  *)
(*        independent reader                                               *)
(*  S     one execution of Produce_Code:                                   *)
(*        pre   lines delivered before it that never became a statement    *)
(*              (preprocessor lines), each [nl, tx, dp, em]                *)
(*        nl,tx,dp,em  `line` record: no line (chain empty), text (interned*)
(*              id, 0 = empty text), chain length after GetNextLine,       *)
(*              "top tag exhausted"                                        *)
(*        op, argc, lab, wm, ca, cb, mc, nm   statement: OpPart, ArgCnt,   *)
(*              label field present, WasMACRO, class for CondAsm, class    *)
(*              for AddrBook, class for the macro processor, name defined  *)
(*              by a MACRO statement                                       *)
(*        ifasm, stk, rec, tagd, errs, seg, pc, ph, phd, svd, std, len     *)
(*              state AFTER the statement (stmt record)                    *)
(*        dg    diag records of the line  [num, cls, errs, warns]          *)
(*        sd    first sym_def record after the line was delivered          *)
(*        ch    emit / reserve / retract records [k, seg, addr, n, g, b,nb]*)
(*  L     lines delivered at the end of a pass that never became a         *)
(*        statement;   T  diag records outside statements (end of pass)    *)
(***************************************************************************)
EXTENDS AsCore, Json, IOUtils

VARIABLES base, ca, ab, mp, cw, tl,
          ph, o, d, glob, keptq, cur, pass1, lastpe, resid, lastst, prevdiag
mine == <<base, ca, ab, mp, cw, tl>>
vars == <<l, base, ca, ab, mp, cw, tl, ph, o, d, glob, keptq, cur, pass1, lastpe, resid, lastst, prevdiag>>

DR == INSTANCE Driver_Trace WITH Wrap <- 0, Leaky <- {}

TraceLog == ndJsonDeserialize(IOEnv.TRACE)
Tx(i) == TraceLog[i].tx
Recs == TraceLog[base].recs            \* kept out of the state: it is large

MineInit == base = 0 /\ ca = CA!InitM /\ ab = AB!InitB(1) /\ mp = InitMP /\ cw = InitW(FALSE) /\ tl = <<>>
MineReset == base' = 0 /\ ca' = CA!InitM /\ ab' = AB!InitB(1) /\ mp' = InitMP /\ cw' = InitW(FALSE) /\ tl' = <<>>
TInit == l = 1 /\ DR!TInit /\ MineInit

\* ---- pass boundary ------------------------------------------------------------------------------------------
\* PassBoundaryResetsEverything: Driver_Trace's Pass (the pass_begin record shows the state of the first pass: segment,
\* counter, IfAsm, target; counters cleared) and every machine of the composition starts from its initial state -
\* which the statements that follow then have to confirm (IF stack, counters, tag chain, recorded stream).
PassBoundaryResetsEverything(e) ==
  /\ DR!Pass(e)
  /\ ca' = CA!InitM /\ ab' = Reset(e) /\ mp' = StartPass(mp, e.pass) /\ cw' = InitW(e.last /\ e.hasfile)
  /\ base' = l /\ tl' = <<>>
Pass(e) ==
  /\ (e.last /\ e.hasfile) => CW!WellFormedRecs(e)
  /\ PassBoundaryResetsEverything(e)

\* ---- one statement = one step of every machine -----------------------------------------------------------------
Stmt(e) ==
  /\ ph = "pass"
  /\ \E n \in StmtSucc(Tx, Recs, o, [ca |-> ca, ab |-> ab, mp |-> mp, cw |-> cw, d |-> d], e) :
       /\ ca' = n.ca /\ ab' = n.ab /\ mp' = n.mp /\ cw' = n.cw /\ d' = n.d /\ ph' = DR!Dead(n.d)
  /\ prevdiag' = FALSE /\ tl' = <<>>
  /\ UNCHANGED <<base, o, glob, keptq, cur, pass1, lastpe, resid, lastst>>

\* lines handed out by GetNextLine that never reached Produce_Code
Lines(e) ==
  /\ ph = "pass"
  /\ \E tg \in Deliver(Tx, mp.tags, e.pre, 1) : mp' = [mp EXCEPT !.tags = tg]
  /\ UNCHANGED <<base, ca, ab, cw, tl, ph, o, d, glob, keptq, cur, pass1, lastpe, resid, lastst, prevdiag>>

\* diagnostics outside statements (AssembleFile_ExitPass, or the process died inside a statement)
Outside(e) ==
  LET fd == FoldDiags(o, d, e.dg, 1)
  IN /\ ph = "pass" /\ fd[1]
     /\ d' = fd[2] /\ ph' = DR!Dead(fd[2]) /\ tl' = e.dg /\ prevdiag' = FALSE
     /\ UNCHANGED <<base, ca, ab, mp, cw, o, glob, keptq, cur, pass1, lastpe, resid, lastst>>

PassEnd(e) ==
  /\ DR!PassEnd(e)
  /\ e.ifd = Len(ca.stk)
  /\ OpenConstructsAreReported(ca, ab, tl)
  /\ tl' = <<>> /\ UNCHANGED <<base, ca, ab, mp, cw>>

\* LastPassImageEqualsFile, second half: a code file that is kept was compared, and nothing is left in it
FileEnd(e) ==
  /\ DR!FileEnd(e)
  /\ Claim("LastPassImageEqualsFile", (e.kept = 1) => cw.on)
  /\ (cw.on => StreamDone(Recs, cw))
  /\ UNCHANGED mine

TNext ==
  /\ l <= Len(TraceLog) /\ l' = l + 1
  /\ LET e == TraceLog[l] IN
       CASE e.a = "S"       -> Stmt(e)
         [] e.a = "RESET"   -> DR!Reset /\ MineReset
         [] e.a = "RUN"     -> DR!Run(e) /\ MineReset
         [] e.a = "FILE"    -> DR!File(e) /\ UNCHANGED mine
         [] e.a = "PASS"    -> Pass(e)
         [] e.a = "L"       -> Lines(e)
         [] e.a = "T"       -> Outside(e)
         [] e.a = "LAST"    -> DR!Last(e) /\ UNCHANGED mine
         [] e.a = "PASSEND" -> PassEnd(e)
         [] e.a = "FILEEND" -> FileEnd(e)
         [] e.a = "EXIT"    -> DR!Exit(e) /\ UNCHANGED mine

Accepted == TLCGet("stats").diameter - 1 = Len(TraceLog)
=============================================================================
