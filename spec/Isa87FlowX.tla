----------------------------- MODULE Isa87FlowX -----------------------------
(* Control-flow table of the TLCS-870 (DASL target 87C00) for the round trip of property C15: the table of        *)
(* Isa87Flow (NOP, RET, RETI, JRS T/F, JR cc, JR, JP mn, CALL mn) + the remaining control-transfer forms whose     *)
(* target is written in the instruction itself:                                                                   *)
(*   RETN       E8 04     return from the non-maskable interrupt (register prefix E8 + 04)                         *)
(*   CALLP n    FD nn     call into the fixed page FF: target = FF00 + nn                                          *)
(* Named restriction of the table, not of the instruction set:                                                     *)
(*   CallpInPageFF   the form language of IsaCommon has no "fixed page" operand; CALLP is written with the        *)
(*                   in-page field FPage(8, 0), which is the instruction's meaning exactly when the instruction    *)
(*                   itself lies in page FF (page of its own address = FF).  Elsewhere the form does not describe  *)
(*                   the instruction: PlaceOK(form, pc) states where a form of this table may be used, generators  *)
(*                   (DasmSole_Gen) only keep images that respect it, so CALLP only occurs in images loaded into   *)
(*                   page FF.                                                                                     *)
(* Not in the table: CALLV n (1100nnnn): the target is read from the vector cell FFC0 + 2n, i.e. it is a function   *)
(* of the image contents, not of the instruction; JP gg / JP (mem) / CALL gg / CALL (mem): no target operand        *)
(* (DASL marks them "indirect jump, investigate here").                                                            *)
(* RetFallsThrough (Isa87Flow) applies to RETN as well: deco87c800.c reports the address behind it as successor.   *)
EXTENDS Isa87Flow

CallpInPageFF == TRUE
PlaceOK(f, pc) == (CallpInPageFF /\ f.id = "CALLP") => pc \div 256 = 255
FormsX ==
  Forms \cup
  { [id |-> "RETN", mn |-> "RETN", cpus |-> All, args |-> <<>>, flds |-> <<>>, enc |-> <<U(232, <<>>), U(4, <<>>)>>,
     flow |-> RetFlow, tf |-> 0, alias |-> FALSE],
    [id |-> "CALLP", mn |-> "CALLP", cpus |-> All, args |-> <<Op(1)>>, flds |-> <<FPage(8, 0)>>,
     enc |-> <<U(253, <<>>), U(0, <<P(1, 0, 8, 0)>>)>>, flow |-> "call", tf |-> 1, alias |-> FALSE] }
\* the forms that END a routine in the manufacturer's sense (the table's flow class of them is "next", see above)
ReturnIds == {"RET", "RETI", "RETN"}
=============================================================================
