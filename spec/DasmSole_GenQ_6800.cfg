\* C15 quick tier, DASL target 6800: sole-edge images - every control-transfer variant (inner values of 4-bit operands: one context) behind one NOP x target
\* routine behind / before x every closer; the target routine ends with the first return form or a jump back; every image
\* at the lowest load address where it is legal
CONSTANTS IsaName = "6800" Orgs = {256, 65280} OrgMode = "min" Pres = {1} AllTerms = FALSE AllVals = FALSE
INIT Init
NEXT Next
INVARIANTS InvDone InvComplete InvTargetTraced InvOnItems InvLostWithoutEdge Dump
CHECK_DEADLOCK FALSE
