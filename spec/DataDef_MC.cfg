\* quick
CONSTANTS Level = 1
SPECIFICATION Spec
INVARIANTS RangeRuleIsTheInterval IntegerBytesDecodeBack LittleIsReversedBig LengthIsElementsTimesWidth PaddingRule MixingIsAnError FloatLayoutIsTheEncoder LookupIsTheTable EveryCopyTranslatedOnce TwiceIsBothTables PackedAdvance PackedPositions AvrDataKeepsEveryCharacter MultiCharReadings Emit
CHECK_DEADLOCK FALSE
