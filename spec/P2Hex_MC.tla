----------------------------- MODULE P2Hex_MC -----------------------------
(* (M) Bounded exhaustive check of the operational model of p2hex.c against the public definitions.            *)
(* One behaviour = one conversion: the emitter machine of P2Hex.tla run action by action (group prologue,     *)
(* one action per data line, group epilogue, terminators), for EVERY case of CaseSpace:                       *)
(*   records placed below / across the 64 KiB, 1 MiB and 16 MiB boundaries, 1-2 records, granularity 1/2,      *)
(*   x format x option vector (-l, -M, +5, -s, -i, -m, -a, -R, -r, -e, -avrlen, -cformat).                     *)
(* Devs = {}         : the repaired code.  Every invariant must hold.                                          *)
(* Devs = PinnedDevs : the pinned code.  InvPinnedExplained must hold (every failure of the public verdict is  *)
(*                     caused by a NAMED deviation); InvVerdict is expected to FAIL (the model predicts the     *)
(*                     defects the replay finds in the real binary).                                           *)
EXTENDS P2Hex, Json

CONSTANTS Starts,     \* unit addresses of the first record
          UnitLens,   \* record lengths in address units
          Grans,      \* granularities
          LineLens,   \* -l
          Relocs,     \* -R
          Fmts,       \* formats explored
          Devs,       \* named deviations switched on
          Full        \* TRUE: all option dimensions, FALSE: reduced (quick tier)

VARIABLES c, pc, k, g, st
vars == <<c, pc, k, g, st>>

Pat(s, i) == (s * 7 + i * 29 + 91) % 256
Rec(cpu, s, n, G) == [cpu |-> cpu, seg |-> 1, gran |-> G, start |-> s, data |-> [i \in 1..(n * G) |-> Pat(s, i)]]
CpuOf(f) == CASE f = "MOTO" -> 1 [] f = "MOS" -> 17 [] f = "INTEL32" -> 19 [] f = "INTEL16" -> 66 [] f = "ATMEL" -> 59
              [] f = "DSK" -> 117 [] OTHER -> 81

BaseO == [fmt |-> "DEFAULT", l |-> 16, M |-> 1, rec5 |-> TRUE, sep |-> FALSE, i |-> 0, m |-> 0, rel |-> FALSE, reloc |-> 0,
          rstart |-> -1, rstop |-> -1, e |-> -1, avrlen |-> 3, seg |-> 0, filt |-> <<>>, ofs |-> 0,
          cfmt |-> <<"d", "S", "E", "l">>]

RecSets(f) ==
  LET GG == IF f \in {"ATMEL", "DSK"} THEN {2} ELSE Grans IN
  {<<Rec(CpuOf(f), s, n, G)>> : s \in Starts, n \in UnitLens, G \in GG}
  \cup {<<Rec(CpuOf(f), s, n, G), Rec(CpuOf(f), s + n + 2, 3, G)>> : s \in Starts, n \in {SetMax(UnitLens)}, G \in GG}

\* ---- record files placed RELATIVE TO A BOUNDARY: record 1 ends exactly on (d = 0), one before (d = -1) or one after
\*      (d = 1) a 64 KiB (Intel-32 bank, S1/S2), 1 MiB (Intel-16 reach) or 16 MiB (S2/S3) boundary - in address units and,
\*      for granularity > 1, also in bytes - and the following record(s) lie in the same bank, the next bank, a lower bank
Bounds == {65536, 1048576, 16777216}
Deltas == IF Full THEN {-1, 0, 1} ELSE {0}
BN == SetMax(UnitLens)
BoundarySets(f) ==
  LET GG == IF f \in {"ATMEL", "DSK"} THEN {2} ELSE Grans
      R(s, n, G) == Rec(CpuOf(f), s, n, G)
  IN UNION {UNION {UNION {
       LET e == BB + d                 \* first address after record 1
           r1 == R(e - BN, BN, G)
           same == R(e - 2 * BN - 3, BN, G)        \* below record 1, same bank
           next == R(BB + 16, 3, G)                 \* next bank
           low == R(IF BB >= 32768 THEN BB - 32768 + 7 ELSE 7, 3, G)     \* a lower bank (lower part of the bank for small BB)
       IN {<<r1, same>>, <<r1, next>>, <<r1, low>>, <<r1, next, low>>, <<r1, low, next>>}
       : BB \in {B \div x : x \in {1, G}}} : d \in Deltas} : B \in Bounds, G \in GG}
BoundaryOpts(f) ==
  {[BaseO EXCEPT !.fmt = f, !.l = l, !.rel = a, !.reloc = rl] : l \in LineLens, a \in (IF Full THEN BOOLEAN ELSE {FALSE}),
                                                                   rl \in (IF Full THEN {0, 65536} ELSE {0})}

Windows(rs) ==
  LET lo == rs[1].start  hi == rs[Len(rs)].start + Len(rs[Len(rs)].data) \div rs[Len(rs)].gran - 1
  IN {<<-1, -1>>} \cup (IF hi - lo >= 2 THEN {<<lo + 1, hi - 1>>} ELSE {}) \cup (IF Full THEN {<<-1, hi - 1>>} ELSE {})

\* TLC configuration files cannot hold negative numbers: the backward relocation is added here
RelocSet == Relocs \cup (IF Full THEN {-1} ELSE {})
Common(f, rs) ==
  {[BaseO EXCEPT !.fmt = f, !.l = l, !.rel = a, !.reloc = rl, !.rstart = w[1], !.rstop = w[2], !.e = e] :
     l \in LineLens, a \in BOOLEAN, rl \in RelocSet, w \in Windows(rs), e \in {-1, 4660}}
  \* no -F: the format follows from the processor family of the records (Tek and C have no family)
  \cup (IF Full /\ f \notin {"TEK", "C"} THEN {[BaseO EXCEPT !.l = l, !.e = e] : l \in LineLens, e \in {-1, 4660}} ELSE {})

PerFmt(f, o, rs) ==
  CASE f = "MOTO" -> IF Full THEN {[o EXCEPT !.M = M, !.rec5 = r5] : M \in 1..3, r5 \in BOOLEAN} \cup {[o EXCEPT !.sep = TRUE]}
                     ELSE {[o EXCEPT !.M = M] : M \in 1..3} \cup {[o EXCEPT !.rec5 = FALSE]}
    [] f = "INTEL" -> IF Full THEN {[o EXCEPT !.i = i, !.m = m] : i \in 0..2, m \in (IF rs[1].gran = 2 THEN 0..3 ELSE {0})}
                      ELSE {[o EXCEPT !.i = i] : i \in 0..2} \cup {[o EXCEPT !.m = m] : m \in (IF rs[1].gran = 2 THEN 0..3 ELSE {0})}
    [] f \in {"INTEL16", "INTEL32"} -> {[o EXCEPT !.i = i, !.m = m] : i \in (IF Full THEN 0..2 ELSE {0}), m \in (IF rs[1].gran = 2 THEN 0..1 ELSE {0})}
    [] f = "ATMEL" -> {[o EXCEPT !.avrlen = n] : n \in 2..3}
    [] f = "C" -> {[o EXCEPT !.cfmt = cf] : cf \in {<<"d", "S", "E", "l">>, <<"D", "s", "L">>}}
    [] OTHER -> {o}

CaseSpace ==
  UNION {UNION {UNION {{[recs |-> rs, fentry |-> fe, o |-> oo] : oo \in PerFmt(f, o, rs), fe \in {-1}} : o \in Common(f, rs)}
                : rs \in RecSets(f)} : f \in Fmts}
  \cup UNION {UNION {UNION {{[recs |-> rs, fentry |-> -1, o |-> oo] : oo \in PerFmt(f, o, rs)} : o \in BoundaryOpts(f)}
                     : rs \in BoundarySets(f)} : f \in Fmts}

\* cases with a definite outcome whose written addresses do not wrap below 0
Admissible(cc) == (\A kk \in 1..Len(cc.recs) : cc.recs[kk].start >= 0) /\ Definite(cc) /\ TheFmt(cc) \in Fmts /\ ~AutoFails(cc, Devs) /\ \A kk \in Live(cc) : KeyLo(cc, kk) >= 0 /\ KeyHi(cc, kk) < BigAddr

NoG == [el |-> 0]
Init == /\ c \in {cc \in CaseSpace : Admissible(cc)}
        /\ pc = "group" /\ k = 1 /\ g = NoG /\ st = InitSt

BeginGroup ==
  /\ pc = "group" /\ k <= Len(c.recs)
  /\ LET g0 == GroupOfL(c, k, st.loc, Devs) IN      \* the locals of ProcessFile() as the previous group left them
       IF ~g0.doit THEN k' = k + 1 /\ UNCHANGED <<c, pc, g, st>>
       ELSE LET p == Prologue(c, g0, st, Devs) IN g' = p.g /\ st' = p.st /\ pc' = "line" /\ UNCHANGED <<c, k>>
DataLine ==
  /\ pc = "line" /\ g.el > 0
  /\ LET n == LineStep(c, g, st, Devs) IN g' = n.g /\ st' = n.st
  /\ UNCHANGED <<c, pc, k>>
EndGroup ==
  /\ pc = "line" /\ g.el <= 0
  /\ st' = GroupEnd(g, Epilogue(c, g, st, Devs)) /\ pc' = "group" /\ k' = k + 1 /\ g' = NoG /\ UNCHANGED c
Terminate ==
  /\ pc = "group" /\ k > Len(c.recs)
  /\ st' = Finish(c, st, Devs) /\ pc' = "done" /\ UNCHANGED <<c, k, g>>
Next == BeginGroup \/ DataLine \/ EndGroup \/ Terminate
Spec == Init /\ [][Next]_vars

Fmt == TheFmt(c)
\* every line written so far is valid by the public definition of its format
InvLinesValid == \A i \in 1..Len(st.out) : LineValid(Fmt, st.out[i], c.o, pc = "done" /\ i = Len(st.out))
\* finished text: structure (terminator, counts, entry) right and Decode(Emit(x)) = Selected(x)
InvVerdict == pc = "done" => Verdict(c, st.out).ok
\* the group prologue re-initialises the per-group locals whatever the previous group left behind
InvGroupReset ==
  (pc = "line" /\ g.pos = g.pos0 /\ Devs \cap CarryDevs = {}) =>
     /\ (g.fmt = "INTEL32" => ~g.fb)
     /\ g.gll = GrpLL(c.o, g.gran, g.fmt, g.mt, Devs)
     /\ g.reccnt = (g.el0 + g.gll - 1) \div g.gll
     /\ (g.fmt \in {"INTEL16", "INTEL32"} => g.io <= g.es /\ (g.es - g.io) * Scale(c, g.gran) < 65536)
\* the pointwise comparison used by Verdict is the set equality of the property statement
InvDecodeEquiv == pc = "done" /\ Representable(c, Fmt) =>
                    (DecodeMatches(c, Runs(Fmt, st.out, MulOf(c, Fmt))) <=> Decode(Fmt, st.out, MulOf(c, Fmt)) = Selected(c))
\* the action-by-action machine and the functional composition Emit agree
InvEmit == pc = "done" => st.out = Emit(c, Devs)
\* no line carries more data than -l allows (as the code rounds it) and no Intel line leaves its 64K bank / segment
InvLineLen == pc = "done" => MaxLineData(Fmt, st.out) <= Max2(EffLineLen(c.o), TheGran(c))      \* at least one address unit
\* every data line carries whole address units (needs the repaired line splitting)
InvWholeUnits == \A i \in 1..Len(st.out) : LineData(Fmt, st.out[i]) % TheGran(c) = 0 \/ (c.o.m >= 2)
InvBank == \A i \in 1..Len(st.out) :
             LET ln == st.out[i] IN
             (Fmt \in {"INTEL16", "INTEL32"} /\ ln.k = "I" /\ Len(ln.b) >= 5 /\ ln.b[4] = 0) => IAddr(ln) + ln.b[1] <= 65536
\* pinned model: a failed public verdict is always attributable to a named deviation
InvPinnedExplained == pc = "done" /\ ~Verdict(c, st.out).ok => Emit(c, {}) # st.out
\* the repaired model and the pinned model differ only where a deviation is active
=============================================================================
