----------------------------- MODULE P2Hex_MC -----------------------------
(* (M) Bounded exhaustive check of the operational model of p2hex.c against the public definitions.            *)
(* One behaviour = one conversion: the emitter machine of P2Hex.tla run action by action (group prologue,     *)
(* one action per data line, group epilogue, terminators), for EVERY case of CaseSpace:                       *)
(*   records placed below / across the 64 KiB, 1 MiB and 16 MiB boundaries, 1-2 records, granularity 1/2,      *)
(*   x format x option vector (-l, -M, +5, -s, -i, -m, -a, -R, -r, -e, -avrlen, -cformat);                     *)
(*   and SEVERAL SOURCE FILES per call (FileCases): 2 (Full: also 3) files in every order, each named without  *)
(*   "(offset)", with "(0)" or with a moving offset, x automatic / half-automatic / explicit -r window x -a.    *)
(* Devs = {}         : the repaired code.  Every invariant must hold.                                          *)
(* Devs = PinnedDevs : the pinned code.  InvPinnedExplained must hold (every failure of the public verdict is  *)
(*                     caused by a NAMED deviation); InvVerdict is expected to FAIL (the model predicts the     *)
(*                     defects the replay finds in the real binary).                                           *)
EXTENDS P2Hex, Json

CONSTANTS Starts,     \* unit addresses of the first record
          UnitLens,   \* record lengths in address units
          Grans,      \* granularities
          LineLens,   \* -l
          Relocs,     \* -R
          Fmts,       \* formats explored
          Devs,       \* named deviations switched on
          Full        \* TRUE: all option dimensions, FALSE: reduced (quick tier)

VARIABLES c, pc, k, g, st
vars == <<c, pc, k, g, st>>

Pat(s, i) == (s * 7 + i * 29 + 91) % 256
Rec(cpu, s, n, G) == [cpu |-> cpu, seg |-> 1, gran |-> G, start |-> s, data |-> [i \in 1..(n * G) |-> Pat(s, i)]]
CpuOf(f) == CASE f = "MOTO" -> 1 [] f = "MOS" -> 17 [] f = "INTEL32" -> 19 [] f = "INTEL16" -> 66 [] f = "ATMEL" -> 59
              [] f = "DSK" -> 117 [] OTHER -> 81

BaseO == [fmt |-> "DEFAULT", l |-> 16, M |-> 1, rec5 |-> TRUE, sep |-> FALSE, i |-> 0, m |-> 0, rel |-> FALSE, reloc |-> 0,
          rstart |-> -1, rstop |-> -1, e |-> -1, avrlen |-> 3, seg |-> 0, filt |-> <<>>,
          cfmt |-> <<"d", "S", "E", "l">>]

RecSets(f) ==
  LET GG == IF f \in {"ATMEL", "DSK"} THEN {2} ELSE Grans IN
  {<<Rec(CpuOf(f), s, n, G)>> : s \in Starts, n \in UnitLens, G \in GG}
  \cup {<<Rec(CpuOf(f), s, n, G), Rec(CpuOf(f), s + n + 2, 3, G)>> : s \in Starts, n \in {SetMax(UnitLens)}, G \in GG}

\* ---- record files placed RELATIVE TO A BOUNDARY: record 1 ends exactly on (d = 0), one before (d = -1) or one after
\*      (d = 1) a 64 KiB (Intel-32 bank, S1/S2), 1 MiB (Intel-16 reach) or 16 MiB (S2/S3) boundary - in address units and,
\*      for granularity > 1, also in bytes - and the following record(s) lie in the same bank, the next bank, a lower bank
Bounds == {65536, 1048576, 16777216}
Deltas == IF Full THEN {-1, 0, 1} ELSE {0}
BN == SetMax(UnitLens)
BoundarySets(f) ==
  LET GG == IF f \in {"ATMEL", "DSK"} THEN {2} ELSE Grans
      R(s, n, G) == Rec(CpuOf(f), s, n, G)
  IN UNION {UNION {UNION {
       LET e == BB + d                 \* first address after record 1
           r1 == R(e - BN, BN, G)
           same == R(e - 2 * BN - 3, BN, G)        \* below record 1, same bank
           next == R(BB + 16, 3, G)                 \* next bank
           low == R(IF BB >= 32768 THEN BB - 32768 + 7 ELSE 7, 3, G)     \* a lower bank (lower part of the bank for small BB)
       IN {<<r1, same>>, <<r1, next>>, <<r1, low>>, <<r1, next, low>>, <<r1, low, next>>}
       : BB \in {B \div x : x \in {1, G}}} : d \in Deltas} : B \in Bounds, G \in GG}
BoundaryOpts(f) ==
  {[BaseO EXCEPT !.fmt = f, !.l = l, !.rel = a, !.reloc = rl] : l \in LineLens, a \in (IF Full THEN BOOLEAN ELSE {FALSE}),
                                                                   rl \in (IF Full THEN {0, 65536} ELSE {0})}

Windows(rs) ==
  LET lo == rs[1].start  hi == rs[Len(rs)].start + Len(rs[Len(rs)].data) \div rs[Len(rs)].gran - 1
  IN {<<-1, -1>>} \cup (IF hi - lo >= 2 THEN {<<lo + 1, hi - 1>>} ELSE {}) \cup (IF Full THEN {<<-1, hi - 1>>} ELSE {})

\* TLC configuration files cannot hold negative numbers: the backward relocation is added here
RelocSet == Relocs \cup (IF Full THEN {-1} ELSE {})
Common(f, rs) ==
  {[BaseO EXCEPT !.fmt = f, !.l = l, !.rel = a, !.reloc = rl, !.rstart = w[1], !.rstop = w[2], !.e = e] :
     l \in LineLens, a \in BOOLEAN, rl \in RelocSet, w \in Windows(rs), e \in {-1, 4660}}
  \* no -F: the format follows from the processor family of the records (Tek and C have no family)
  \cup (IF Full /\ f \notin {"TEK", "C"} THEN {[BaseO EXCEPT !.l = l, !.e = e] : l \in LineLens, e \in {-1, 4660}} ELSE {})

PerFmt(f, o, rs) ==
  CASE f = "MOTO" -> IF Full THEN {[o EXCEPT !.M = M, !.rec5 = r5] : M \in 1..3, r5 \in BOOLEAN} \cup {[o EXCEPT !.sep = TRUE]}
                     ELSE {[o EXCEPT !.M = M] : M \in 1..3} \cup {[o EXCEPT !.rec5 = FALSE]}
    [] f = "INTEL" -> IF Full THEN {[o EXCEPT !.i = i, !.m = m] : i \in 0..2, m \in (IF rs[1].gran = 2 THEN 0..3 ELSE {0})}
                      ELSE {[o EXCEPT !.i = i] : i \in 0..2} \cup {[o EXCEPT !.m = m] : m \in (IF rs[1].gran = 2 THEN 0..3 ELSE {0})}
    [] f \in {"INTEL16", "INTEL32"} -> {[o EXCEPT !.i = i, !.m = m] : i \in (IF Full THEN 0..2 ELSE {0}), m \in (IF rs[1].gran = 2 THEN 0..1 ELSE {0})}
    [] f = "ATMEL" -> {[o EXCEPT !.avrlen = n] : n \in 2..3}
    [] f = "C" -> {[o EXCEPT !.cfmt = cf] : cf \in {<<"d", "S", "E", "l">>, <<"D", "s", "L">>}}
    [] OTHER -> {o}

\* one source file named without an offset (every case of the two sub-spaces above)
NoOfs == [sfx |-> FALSE, ofs |-> 0, nota |-> "$"]
FileD(n, a, fe) == [n |-> n, sfx |-> a.sfx, ofs |-> a.ofs, nota |-> a.nota, fentry |-> fe]
OneFile(rs, fe) == <<FileD(Len(rs), NoOfs, fe)>>

\* ---- SEVERAL SOURCE FILES in one call.  What the code distinguishes per source argument is whether the name carries
\*      "(offset)" at all, whether that offset is 0 or moves the file, where the argument stands (a name without offset
\*      BEFORE / AFTER / BETWEEN names with one) and whether the list is walked once (-r start-stop) or twice (a "$" end:
\*      MeasureFile walk + ProcessFile walk).  Records A < B < C3 lie apart, so that every combination of the offsets
\*      below keeps them disjoint; 4096 keeps every address below 64 KiB (all formats can carry it), 65536 (Full)
\*      moves a file into the next bank.
OfsArgs == {NoOfs, [sfx |-> TRUE, ofs |-> 0, nota |-> "$"], [sfx |-> TRUE, ofs |-> 4096, nota |-> "dec"]}
            \cup (IF Full THEN {[sfx |-> TRUE, ofs |-> 65536, nota |-> "0x"]} ELSE {})
FileLayouts(f) ==
  LET GG == IF f \in {"ATMEL", "DSK"} THEN {2} ELSE Grans
      A(G) == Rec(CpuOf(f), 256, BN, G)  B(G) == Rec(CpuOf(f), 256 + BN + 2, 3, G)  C3(G) == Rec(CpuOf(f), 640, 2, G)
  IN UNION {
       \* two files with one record each, both orders, every pair of argument shapes
       {[recs |-> rs, files |-> <<FileD(1, x, fe), FileD(1, y, -1)>>] :
          rs \in {<<A(G), B(G)>>, <<B(G), A(G)>>}, x \in OfsArgs, y \in OfsArgs, fe \in (IF Full THEN {-1, 4660} ELSE {-1})}
       \cup (IF ~Full THEN {} ELSE
         \* three files (a name without offset between / before / after names with one) and files of two records
         {[recs |-> rs, files |-> <<FileD(1, x, -1), FileD(1, y, -1), FileD(1, z, -1)>>] :
            rs \in {<<A(G), B(G), C3(G)>>, <<C3(G), A(G), B(G)>>}, x \in OfsArgs, y \in OfsArgs, z \in OfsArgs}
         \cup {[recs |-> <<A(G), B(G), C3(G)>>, files |-> fs] :
                 fs \in {<<FileD(2, x, -1), FileD(1, y, -1)>> : x \in OfsArgs, y \in OfsArgs}
                         \cup {<<FileD(1, x, -1), FileD(2, y, -1)>> : x \in OfsArgs, y \in OfsArgs}})
       : G \in GG}
\* windows over the MOVED records: automatic, explicit inner window, (one automatic end)
FileWindows(lay) ==
  LET cc == [recs |-> lay.recs, files |-> lay.files, o |-> BaseO]
      lo == SetMin({RStart(cc, kk) : kk \in RecIdx(cc)})  hi == SetMax({RStart(cc, kk) + RUnits(cc, kk) - 1 : kk \in RecIdx(cc)})
  IN {<<-1, -1, FALSE>>, <<-1, -1, TRUE>>, <<lo + 1, hi - 1, FALSE>>, <<-1, hi - 1, FALSE>>}
     \cup (IF Full /\ Len(lay.files) = 2 /\ Len(lay.recs) = 2 THEN {<<lo + 1, -1, FALSE>>, <<lo + 1, hi - 1, TRUE>>} ELSE {})
FileCases(f) ==
  UNION {{[recs |-> lay.recs, files |-> lay.files,
           o |-> [BaseO EXCEPT !.fmt = f, !.l = l, !.rstart = w[1], !.rstop = w[2], !.rel = w[3]]] :
            w \in FileWindows(lay), l \in {SetMax(LineLens)}} : lay \in FileLayouts(f)}

CaseSpace ==
  UNION {UNION {UNION {{[recs |-> rs, files |-> OneFile(rs, fe), o |-> oo] : oo \in PerFmt(f, o, rs), fe \in {-1}} : o \in Common(f, rs)}
                : rs \in RecSets(f)} : f \in Fmts}
  \cup UNION {UNION {UNION {{[recs |-> rs, files |-> OneFile(rs, -1), o |-> oo] : oo \in PerFmt(f, o, rs)} : o \in BoundaryOpts(f)}
                     : rs \in BoundarySets(f)} : f \in Fmts}
  \cup UNION {FileCases(f) : f \in Fmts}

\* cases with a definite outcome whose written addresses do not wrap below 0
Admissible(cc) == (\A kk \in 1..Len(cc.recs) : cc.recs[kk].start >= 0) /\ Definite(cc) /\ TheFmt(cc) \in Fmts /\ ~AutoFails(cc, Devs) /\ \A kk \in Live(cc) : KeyLo(cc, kk) >= 0 /\ KeyHi(cc, kk) < BigAddr

NoG == [el |-> 0]
Init == /\ c \in {cc \in CaseSpace : Admissible(cc)}
        /\ pc = "group" /\ k = 1 /\ g = NoG /\ st = InitSt

BeginGroup ==
  /\ pc = "group" /\ k <= Len(c.recs)
  /\ LET g0 == GroupOfL(c, k, AtFile(c, k, st).loc, Devs) IN      \* the locals of ProcessFile() as the previous group of the FILE left them
       IF ~g0.doit THEN k' = k + 1 /\ st' = AtFile(c, k, st) /\ UNCHANGED <<c, pc, g>>
       ELSE LET p == Prologue(c, g0, AtFile(c, k, st), Devs) IN g' = p.g /\ st' = p.st /\ pc' = "line" /\ UNCHANGED <<c, k>>
DataLine ==
  /\ pc = "line" /\ g.el > 0
  /\ LET n == LineStep(c, g, st, Devs) IN g' = n.g /\ st' = n.st
  /\ UNCHANGED <<c, pc, k>>
EndGroup ==
  /\ pc = "line" /\ g.el <= 0
  /\ st' = GroupEnd(g, Epilogue(c, g, st, Devs)) /\ pc' = "group" /\ k' = k + 1 /\ g' = NoG /\ UNCHANGED c
Terminate ==
  /\ pc = "group" /\ k > Len(c.recs)
  /\ st' = Finish(c, st, Devs) /\ pc' = "done" /\ UNCHANGED <<c, k, g>>
Next == BeginGroup \/ DataLine \/ EndGroup \/ Terminate
Spec == Init /\ [][Next]_vars

Fmt == TheFmt(c)
\* every line written so far is valid by the public definition of its format
InvLinesValid == \A i \in 1..Len(st.out) : LineValid(Fmt, st.out[i], c.o, pc = "done" /\ i = Len(st.out))
\* finished text: structure (terminator, counts, entry) right and Decode(Emit(x)) = Selected(x)
InvVerdict == pc = "done" => Verdict(c, st.out).ok
\* the group prologue re-initialises the per-group locals whatever the previous group left behind
InvGroupReset ==
  (pc = "line" /\ g.pos = g.pos0 /\ Devs \cap CarryDevs = {}) =>
     /\ (g.fmt = "INTEL32" => ~g.fb)
     /\ g.gll = GrpLL(c.o, g.gran, g.fmt, g.mt, Devs)
     /\ g.reccnt = (g.el0 + g.gll - 1) \div g.gll
     /\ (g.fmt \in {"INTEL16", "INTEL32"} => g.io <= g.es /\ (g.es - g.io) * Scale(c, g.gran) < 65536)
\* ProcessGroup()/RemoveOffset(): in both walks of the file list every source argument is handled with the offset
\* written behind ITS name, 0 if there is none - whatever the arguments before it and the walk before it left behind
InvArgOffsets == (pc = "group" /\ k = 1 /\ "CarryOffset" \notin Devs) =>          \* a property of the case: once per case
                   \A i \in FileIdx(c) : MeasOfs(c, i, Devs) = DeclOfs(c.files[i]) /\ ProcOfs(c, i, Devs) = DeclOfs(c.files[i])
\* the pointwise comparison used by Verdict is the set equality of the property statement
InvDecodeEquiv == pc = "done" /\ Representable(c, Fmt) =>
                    (DecodeMatches(c, Runs(Fmt, st.out, MulOf(c, Fmt))) <=> Decode(Fmt, st.out, MulOf(c, Fmt)) = Selected(c))
\* the action-by-action machine and the functional composition Emit agree
InvEmit == pc = "done" => st.out = Emit(c, Devs)
\* no line carries more data than -l allows (as the code rounds it) and no Intel line leaves its 64K bank / segment
InvLineLen == pc = "done" => MaxLineData(Fmt, st.out) <= Max2(EffLineLen(c.o), TheGran(c))      \* at least one address unit
\* every data line carries whole address units (needs the repaired line splitting)
InvWholeUnits == \A i \in 1..Len(st.out) : LineData(Fmt, st.out[i]) % TheGran(c) = 0 \/ (c.o.m >= 2)
InvBank == \A i \in 1..Len(st.out) :
             LET ln == st.out[i] IN
             (Fmt \in {"INTEL16", "INTEL32"} /\ ln.k = "I" /\ Len(ln.b) >= 5 /\ ln.b[4] = 0) => IAddr(ln) + ln.b[1] <= 65536
\* pinned model: a failed public verdict is always attributable to a named deviation
InvPinnedExplained == pc = "done" /\ ~Verdict(c, st.out).ok => Emit(c, {}) # st.out
\* the repaired model and the pinned model differ only where a deviation is active
=============================================================================
