------------------------------- MODULE KeyFile -------------------------------
(* The PHYSICAL shape of a key file (extension of the command-line layer of check C17).                                           *)
(*                                                                                                                                *)
(* CmdLine.tla takes a key file as what it means: a sequence of lines, a line a sequence of words.  Between the bytes of the      *)
(* file and that sequence stands a reader of its own - cmdarg.c ProcessFile() around strutil.c ReadLn() - and the clause "the     *)
(* place an option is given (command line, ASCMD variable, @key file) never alters the code file" also quantifies over HOW the    *)
(* same options are laid down in the file: on one line or on several, with LF or CR-LF line ends, with or without a line end      *)
(* behind the last line, with empty lines, blank lines, remark lines, blanks and tabs in front of / behind / between the words,   *)
(* a DOS end-of-file mark, lines as long as the manual allows (255 characters).  This module models the file as a sequence of     *)
(* CHARACTERS and transcribes the reader next to the reading every text tool has.                                                 *)
(*                                                                                                                                *)
(* character  [c, w, n]: c = "w" a whole word (w = the word of CmdLine.tla, n = its length in bytes; words are atoms, two words    *)
(*            never touch), "sp" a run of n blanks, "tab", "cr", "lf", "cz" (^Z, 0x1A)                                             *)
(*                                                                                                                                *)
(* MACHINE SIDE (operators shaped like the C code)                                                                                *)
(*   FGets      = fgets(Zeile, 256, f): at most 255 bytes, stops behind LF; the end-of-file indicator is set when a byte is       *)
(*                ASKED FOR and there is none - i.e. by the call that reads a last line WITHOUT line end, not by the call that     *)
(*                reads a last line with one, and not when the buffer is full exactly at the end of the file                      *)
(*   ReadLn     = ReadLn(): one fgets() chunk, then one LF, one CR, one ^Z stripped from its end, in this order                   *)
(*   ReadAll    = ProcessFile(): `while (!feof(f)) { ReadLn(); DecodeLine(); }` - every chunk is decoded, also the one whose     *)
(*                reading met the end of the file; a file that ends in a line end costs one more (empty) round                    *)
(*   ClrBlanks / Split / DecodeChars = DecodeLine() at character level: leading white space dropped (isspace: blank, tab, CR),    *)
(*                the line cut at its first BLANK, at its first TAB only when no blank follows anywhere (deviation                *)
(*                BlankBeforeTab of CmdLine.tla), white space behind a cut skipped                                                *)
(*   MachineLines = what ProcessFile hands to the parameter scanner: per chunk the sequence of tokens as words                    *)
(* Named reader variant that is NOT the code (TLC refutes it, KeyFile_MC): LeaveAtEof - the loop left as soon as the indicator    *)
(*   is set, before the chunk just read is decoded (`ReadLn(); if (feof(f)) break;`): an unterminated last line is lost.          *)
(* Outside the manual's promise, named: LongLineSplit - a line of more than 255 characters arrives as several lines (a switch     *)
(*   and its argument may fall apart, a word may be cut); the manual allows "a maximum length of 255 characters".                  *)
(*                                                                                                                                *)
(* DECLARATIVE SIDE  a key file is a text file "in which the options can be written in the same way as in the command line or     *)
(*   the ASCMD variable ... this file may contain several lines" (doc/assembler-usage.md): its lines are what stands between      *)
(*   the line ends (LF, the CR in front of it belongs to the line end); what follows the last line end is a line too unless it    *)
(*   is empty; the words of a line are what stands between blanks / tabs; CR and ^Z are no text.  Nothing else about the bytes    *)
(*   occurs: TextLines / DeclLines.  The manual is silent about ^Z and decides nothing beyond 255 characters: ShapeOpen.           *)
(*                                                                                                                                *)
(* A shaped input J = [env, phys, argv] (phys: key-file name -> characters) becomes an input of CmdLine.tla in two ways:          *)
(*   AsRead(J, devs)  keys = MachineLines (the scanner sees what the reader delivers)                                             *)
(*   AsText(J)        keys = DeclLines    (the manual's grammar sees the text)                                                    *)
EXTENDS CmdLine

\* ---- characters -------------------------------------------------------------------------------------------------
WLen(w) == Len(w.lead) + Len(w.pfx) + FoldLeft(LAMBDA a, b : a + Len(b), 0, w.body)
W(w)    == [c |-> "w", w |-> w, n |-> WLen(w)]
Ch(c, n) == [c |-> c, w |-> NoWord, n |-> n]
SP(n) == Ch("sp", n)
TAB == Ch("tab", 1)
CR  == Ch("cr", 1)
LF  == Ch("lf", 1)
CZ  == Ch("cz", 1)
Bytes(s) == FoldLeft(LAMBDA a, b : a + b.n, 0, s)
\* words are atoms: two of them never touch; a CR only as part of a line end; ^Z only in front of a line end or as the last byte
WellFormedFile(f) ==
  /\ \A i \in 1..(Len(f) - 1) : ~(f[i].c = "w" /\ f[i + 1].c = "w")
  /\ \A i \in 1..Len(f) : f[i].c = "cr" => (i < Len(f) /\ f[i + 1].c = "lf")
  /\ \A i \in 1..Len(f) : f[i].c = "cz" => (i = Len(f) \/ f[i + 1].c \in {"cr", "lf"})
  /\ \A i \in 1..Len(f) : f[i].n >= 1 /\ (f[i].c \notin {"w", "sp"} => f[i].n = 1)

\* =================================================================================================================
\* MACHINE SIDE
\* =================================================================================================================
LINEBUF == 256                       \* strutil.c ReadLn(): fgets(Zeile, 256, Datei)
\* the part of a character that still fits / that is left over (a run of blanks divides; a word that is cut is no word any more)
Part(h, n, side) == IF h.c = "w" THEN [c |-> "w", w |-> Plain("<" \o side \o " of a cut word>"), n |-> n] ELSE [h EXCEPT !.n = n]
\* fgets(): `while (--n > 0 && (c = getc(f)) != EOF) { *p++ = c; if (c == '\n') break; }`
RECURSIVE FGets(_, _, _)
FGets(rest, room, acc) ==
  IF room = 0 THEN [chunk |-> acc, rest |-> rest, eof |-> FALSE]                         \* buffer full: nothing more is asked for
  ELSE IF rest = <<>> THEN [chunk |-> acc, rest |-> rest, eof |-> TRUE]                  \* getc() = EOF: the indicator is set
  ELSE LET h == Head(rest)
       IN IF h.c = "lf" THEN [chunk |-> Append(acc, h), rest |-> Tail(rest), eof |-> FALSE]
          ELSE IF h.n <= room THEN FGets(Tail(rest), room - h.n, Append(acc, h))
          ELSE [chunk |-> Append(acc, Part(h, room, "head")), rest |-> <<Part(h, h.n - room, "tail")>> \o Tail(rest), eof |-> FALSE]
StripLast(s, c) == IF s # <<>> /\ s[Len(s)].c = c
                   THEN (IF s[Len(s)].n > 1 THEN [s EXCEPT ![Len(s)].n = @ - 1] ELSE SubSeq(s, 1, Len(s) - 1))
                   ELSE s
ReadLn(rest) == LET g == FGets(rest, LINEBUF - 1, <<>>)                                  \* a NULL of fgets leaves Zeile = ""
                IN [line |-> StripLast(StripLast(StripLast(g.chunk, "lf"), "cr"), "cz"), rest |-> g.rest, eof |-> g.eof]
\* ProcessFile(): while (!feof(KeyFile)) { ReadLn(KeyFile, OneLine); DecodeLine(OneLine); }
RECURSIVE ReadLoop(_, _, _, _)
ReadLoop(rest, eof, acc, variant) ==
  IF eof THEN acc
  ELSE LET r == ReadLn(rest)
       IN IF variant = "LeaveAtEof" /\ r.eof THEN acc                                    \* NOT the code: the chunk just read is dropped
          ELSE ReadLoop(r.rest, r.eof, Append(acc, r.line), variant)
ReadAll(file) == ReadLoop(file, FALSE, <<>>, "coded")
ReadAllLeaveAtEof(file) == ReadLoop(file, FALSE, <<>>, "LeaveAtEof")

\* DecodeLine() on characters
IsSpace(ch) == ch.c \in {"sp", "tab", "cr", "lf"}                                        \* as_isspace
RECURSIVE ClrBlanks(_)
ClrBlanks(s) == IF s # <<>> /\ IsSpace(Head(s)) THEN ClrBlanks(Tail(s)) ELSE s
\* p = strchr(start, ' '); if (!p) p = strchr(start, '\t');  *p = 0; start = p + 1; while (as_isspace(*start)) start++;
RECURSIVE Split(_, _)
Split(s, devs) ==
  IF s = <<>> THEN <<>>
  ELSE LET sp == {i \in 1..Len(s) : s[i].c = "sp"}
           tb == {i \in 1..Len(s) : s[i].c = "tab"}
           p  == IF "BlankBeforeTab" \in devs THEN (IF sp # {} THEN Min(sp) ELSE IF tb # {} THEN Min(tb) ELSE 0)
                 ELSE (IF sp \cup tb # {} THEN Min(sp \cup tb) ELSE 0)                   \* repaired: blanks and tabs alike
       IN IF p = 0 THEN <<s>> ELSE <<SubSeq(s, 1, p - 1)>> \o Split(ClrBlanks(SubSeq(s, p + 1, Len(s))), devs)
\* a token as a word of CmdLine.tla; anything but one whole word is marked the way CmdLine!Glue marks words glued by tabs
TokWord(t) == IF Len(t) = 1 /\ t[1].c = "w" THEN t[1].w
              ELSE LET w == IF t # <<>> /\ t[1].c = "w" THEN t[1].w ELSE Plain("<ctl>")
                   IN [w EXCEPT !.body = IF w.lead = "" THEN <<AtomOf(w) \o "<TAB>...">> ELSE @ \o <<"\t", "...">>]
DecodeChars(line, devs) == LET ts == Split(ClrBlanks(line), devs) IN [i \in 1..Len(ts) |-> TokWord(ts[i])]
\* (the remark test `*OneLine == ';'` is made on the first token by CmdLine!DecodeLine, which gets these lines)
LinesOf(chunks, devs) == [i \in 1..Len(chunks) |-> DecodeChars(chunks[i], devs)]
MachineLines(file, devs) == LinesOf(ReadAll(file), devs)

\* =================================================================================================================
\* DECLARATIVE SIDE
\* =================================================================================================================
RECURSIVE TextFrom(_, _, _)
TextFrom(rest, cur, acc) ==
  IF rest = <<>> THEN (IF cur = <<>> THEN acc ELSE Append(acc, cur))          \* what follows the last line end is a line unless empty
  ELSE IF Head(rest).c = "lf" THEN TextFrom(Tail(rest), <<>>, Append(acc, cur))
  ELSE TextFrom(Tail(rest), Append(cur, Head(rest)), acc)
TextLines(file) == TextFrom(file, <<>>, <<>>)
LineWords(l) == LET ws == SelectSeq(l, LAMBDA ch : ch.c = "w") IN [i \in 1..Len(ws) |-> ws[i].w]
DeclLines(file) == LET ls == TextLines(file) IN [i \in 1..Len(ls) |-> LineWords(ls[i])]
\* the length of a line as the manual counts it: its characters without the line end
TextLen(l) == Bytes(SelectSeq(l, LAMBDA ch : ch.c # "cr"))
LongLine(file) == \E i \in 1..Len(TextLines(file)) : TextLen(TextLines(file)[i]) > LINEBUF - 1
HasCtrlZ(file) == \E i \in 1..Len(file) : file[i].c = "cz"
\* what the manual does not decide about the shape of a file
FileOpen(file) == LongLine(file) \/ HasCtrlZ(file)

Meaningful(lines) == SelectSeq(lines, LAMBDA l : l # <<>>)                    \* an empty or blank line says nothing
\* the reader delivers the text: same lines with the same words in the same order (empty ones aside)
ReadsText(file, chunks) == Meaningful(LinesOf(chunks, {})) = Meaningful(DeclLines(file))

\* ---- shaped inputs ------------------------------------------------------------------------------------------------
AsRead(J, devs) == [env |-> J.env, keys |-> [k \in DOMAIN J.phys |-> MachineLines(J.phys[k], devs)], argv |-> J.argv]
AsText(J)       == [env |-> J.env, keys |-> [k \in DOMAIN J.phys |-> DeclLines(J.phys[k])], argv |-> J.argv]
ScanK(prog, J, devs) == Scan(prog, AsRead(J, devs), devs)
ItemsK(prog, J)      == Items(prog, AsText(J))
ShapeOpen(J)         == \E k \in DOMAIN J.phys : FileOpen(J.phys[k])
LiveDevsK(prog, J, devs) == LET sd == ScanK(prog, J, devs)
                            IN IF sd = ScanK(prog, J, {}) THEN {} ELSE {d \in devs : sd # ScanK(prog, J, devs \ {d})}
=============================================================================
