\* replayed exhaustively: <= 3 records of 2 or 4 units at 0,2,3,4,6 (touching, overlapping, apart), automatic and clipped window
CONSTANTS
  Dev = {}
  MaxRecs = 3
  Starts = {0, 2, 3, 4, 6}
  UnitLens = {2, 4}
  GranSet = {1}
  EntryAddrs = {}
  Offsets = {}
  FillSet = {255}
  SumOpts = {FALSE}
  SegOpts = {1}
  CpuSegs <- CS_One
  Ranges <- R_Ovl2
  LaneSet <- L_All1
  FiltSet <- F_None
  ESet <- E_None
  HdrSet <- H_None
SPECIFICATION CoverSpec
CHECK_DEADLOCK FALSE
