CONSTANTS ResetRule = "any" MaxMids = 2 Pairs = FALSE
SPECIFICATION Spec
INVARIANTS Final Sane
CHECK_DEADLOCK FALSE
