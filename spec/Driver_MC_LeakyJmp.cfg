\* JmpErrors never cleared per pass / file (the tree as originally pinned): EXPECTED to violate Independent - under -Y a
\* file after one that ended with a jump error subtracts that error from its own count
CONSTANTS MaxLines = 2 MaxFiles = 2 Wrap = 0 Leaky = {"jmperrors"}
CONSTANTS Kinds <- KindsJump OptSpace <- OptsJump
SPECIFICATION Spec
INVARIANTS Independent
CHECK_DEADLOCK FALSE
