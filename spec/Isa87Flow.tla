------------------------------ MODULE Isa87Flow ------------------------------
(* Toshiba TLCS-870 (87C00 family): the CONTROL-FLOW subset of the instruction set, written from the TLCS-870   *)
(* series instruction list in the form language of IsaCommon (property C03, DASL target 87C00; there is no full *)
(* table of this family in the specification, see Dasm87_Gen).                                                   *)
(*   NOP  00             RET 05          RETI 04                                                                 *)
(*   JRS T,a  100ddddd   JRS F,a 101ddddd    d = signed 5 bit, target = address of the instruction + 2 + d       *)
(*   JR cc,a  11010ccc dd                    d = signed 8 bit, target = address behind the instruction + d       *)
(*   JR a     FB dd      JP mn  FE ll hh     CALL mn  FC ll hh   (16-bit operands low byte first)                *)
(* Not in the table: CALLP n (FD nn, target FF00+n) and CALLV n (1100nnnn, target read from FFC0+2n): their      *)
(* targets lie in the fixed top page, outside the small images generated from this table; JP gg / JP (mn).       *)
(* Named deviation of the code that is NOT idealised away:                                                       *)
(*   RetFallsThrough   deco87c800.c reports the address behind RET / RETI as next address (SimpleNextAddress),  *)
(*                     so DASL goes on disassembling behind a return; the table gives these forms the flow      *)
(*                     class the DISASSEMBLER uses ("next"), the manufacturer's class would be "ret".           *)
EXTENDS IsaCommon

AddrMax == 65535
UnitBits == 8
All == {"87C00"}
RetFallsThrough == TRUE
\* a first byte the TLCS-870 opcode map leaves undefined (DASL prints it as one `db` byte without successor)
Undefined == 8

Cond == FEnum(<< <<"Z", 0>>, <<"NZ", 1>>, <<"CS", 2>>, <<"CC", 3>>, <<"LE", 4>>, <<"GT", 5>>, <<"T", 6>>, <<"F", 7>> >>, 3)
L16 == <<U(0, <<P(1, 0, 8, 0)>>), U(0, <<P(1, 8, 8, 0)>>)>>      \* low byte first

Fixed(mn, code, flow) ==
  [id |-> mn, mn |-> mn, cpus |-> All, args |-> <<>>, flds |-> <<>>, enc |-> <<U(code, <<>>)>>,
   flow |-> flow, tf |-> 0, alias |-> FALSE]
Short(id, lit, code) ==
  [id |-> id, mn |-> "JRS", cpus |-> All, args |-> <<Lit(lit), Op(1)>>, flds |-> <<FRel(5, 2)>>,
   enc |-> <<U(code, <<P(1, 0, 5, 0)>>)>>, flow |-> "cond", tf |-> 1, alias |-> FALSE]
Abs(mn, code, flow) ==
  [id |-> mn, mn |-> mn, cpus |-> All, args |-> <<Op(1)>>, flds |-> <<FUns(16)>>, enc |-> <<U(code, <<>>)>> \o L16,
   flow |-> flow, tf |-> 1, alias |-> FALSE]

RetFlow == IF RetFallsThrough THEN "next" ELSE "ret"
Forms ==
  { Fixed("NOP", 0, "next"), Fixed("RET", 5, RetFlow), Fixed("RETI", 4, RetFlow),
    Short("JRS T", "T", 128), Short("JRS F", "F", 160),
    [id |-> "JR cc", mn |-> "JR", cpus |-> All, args |-> <<Op(1), Op(2)>>, flds |-> <<Cond, FRel(8, 2)>>,
     enc |-> <<U(208, <<P(1, 0, 3, 0)>>), U(0, <<P(2, 0, 8, 0)>>)>>, flow |-> "cond", tf |-> 2, alias |-> FALSE],
    [id |-> "JR", mn |-> "JR", cpus |-> All, args |-> <<Op(1)>>, flds |-> <<FRel(8, 2)>>,
     enc |-> <<U(251, <<>>), U(0, <<P(1, 0, 8, 0)>>)>>, flow |-> "jump", tf |-> 1, alias |-> FALSE],
    Abs("JP", 254, "jump"), Abs("CALL", 252, "call") }
=============================================================================
