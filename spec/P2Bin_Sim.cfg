\* random wide cases (constants of the bounded space unused): see SimNext in P2Bin_Gen.tla
CONSTANTS
  Dev = {}
  MaxRecs = 0
  Starts = {}
  UnitLens = {}
  GranSet = {}
  EntryAddrs = {}
  Offsets = {}
  FillSet = {}
  SumOpts = {}
  SegOpts = {}
  CpuSegs <- CS_One
  Ranges <- R_Window
  LaneSet <- AllLanes
  FiltSet <- F_None
  ESet <- E_None
  HdrSet <- H_None
SPECIFICATION SimSpec
INVARIANT SimDump
CHECK_DEADLOCK FALSE
