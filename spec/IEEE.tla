------------------------------- MODULE IEEE -------------------------------
(* Exact dyadic numbers and the IEEE-754 binary interchange encoders, in integer arithmetic.           *)
(*                                                                                                    *)
(* A dyadic number is [s |-> 0|1, m |-> Nat, e |-> Int] = (-1)^s * m * 2^e with m < 2^30.  Every such   *)
(* number is exactly representable as an IEEE double (53-bit significand) as long as the exponent      *)
(* stays inside the double range, so + - * on them are *exact* and equal to what IEEE double           *)
(* arithmetic of the assembler must deliver; results that would need more than 30 bits are             *)
(* "not decided here" (Wide).  No rounding of + - * / is modelled.                                     *)
(*                                                                                                    *)
(* Encode(fmt, x): round-to-nearest-even into a format with p significand bits (hidden bit included),  *)
(* minimum normal exponent emin, maximum exponent emax: subnormals, overflow to infinity.  Half and    *)
(* Single need rounding for our 30-bit inputs, Double and Extended never do (layout only).             *)
(* IEEE_MC checks Encode against an independent declarative characterisation (nearest, ties to even).  *)
EXTENDS Naturals, Integers, Sequences, Limb64

(* ---- dyadic numbers ------------------------------------------------------------------------------- *)
MBits == 30
MLim == 1073741824            \* 2^30: mantissas stay below

RECURSIVE StripZeros(_, _)
\* <<m', e'>> with m' odd (or 0)
StripZeros(m, e) == IF m = 0 THEN <<0, 0>> ELSE IF m % 2 = 1 THEN <<m, e>> ELSE StripZeros(m \div 2, e + 1)

Dy(s, m, e) == LET me == StripZeros(m, e) IN [s |-> IF m = 0 THEN 0 ELSE s, m |-> me[1], e |-> me[2]]
DyZero == Dy(0, 0, 0)
DyOfInt(n) == IF n >= 0 THEN Dy(0, n, 0) ELSE Dy(1, 0 - n, 0)
IsDy(x) == x.s \in {0, 1} /\ x.m \in 0..(MLim - 1) /\ (x.m = 0 \/ x.m % 2 = 1)

RECURSIVE BitLen(_)
BitLen(m) == IF m = 0 THEN 0 ELSE 1 + BitLen(m \div 2)

\* exponent of the leading bit: |x| in [2^TopExp, 2^(TopExp+1))
TopExp(x) == x.e + BitLen(x.m) - 1

DyNeg(x) == IF x.m = 0 THEN x ELSE [x EXCEPT !.s = 1 - x.s]
DyAbs(x) == [x EXCEPT !.s = 0]

\* magnitudes aligned to a common exponent; "Wide" if that needs more than 30 bits
Wide == [wide |-> TRUE]
IsWide(x) == "wide" \in DOMAIN x

Aligned(x, y) ==   \* <<mx, my, e>> or <<>> if too wide
  LET e == IF x.m = 0 THEN y.e ELSE IF y.m = 0 THEN x.e ELSE IF x.e < y.e THEN x.e ELSE y.e
      dx == IF x.m = 0 THEN 0 ELSE x.e - e
      dy == IF y.m = 0 THEN 0 ELSE y.e - e
  IN IF dx > 30 \/ dy > 30 THEN <<>>
     ELSE IF BitLen(x.m) + dx > MBits \/ BitLen(y.m) + dy > MBits THEN <<>>
     ELSE <<x.m * Pow2(dx), y.m * Pow2(dy), e>>

\* -1, 0, +1 ; total on dyadics (uses leading-bit exponents first, so never "wide")
CmpMag(x, y) ==
  IF x.m = 0 \/ y.m = 0 THEN (IF x.m = y.m THEN 0 ELSE IF x.m = 0 THEN 0 - 1 ELSE 1)
  ELSE IF TopExp(x) # TopExp(y) THEN (IF TopExp(x) < TopExp(y) THEN 0 - 1 ELSE 1)
  ELSE LET a == Aligned(x, y)   \* same leading exponent, both < 2^30: difference of e's <= 29
       IN IF a[1] < a[2] THEN 0 - 1 ELSE IF a[1] > a[2] THEN 1 ELSE 0
DyCmp(x, y) ==
  IF x.s # y.s THEN (IF x.m = 0 /\ y.m = 0 THEN 0 ELSE IF x.s = 1 THEN 0 - 1 ELSE 1)
  ELSE IF x.s = 0 THEN CmpMag(x, y) ELSE 0 - CmpMag(x, y)

DyAdd(x, y) ==
  LET a == Aligned(x, y)
  IN IF a = <<>> THEN Wide
     ELSE IF x.s = y.s THEN (IF a[1] + a[2] >= MLim THEN Wide ELSE Dy(x.s, a[1] + a[2], a[3]))
     ELSE IF a[1] >= a[2] THEN Dy(x.s, a[1] - a[2], a[3]) ELSE Dy(y.s, a[2] - a[1], a[3])
DySub(x, y) == DyAdd(x, DyNeg(y))

DyMul(x, y) ==
  IF BitLen(x.m) + BitLen(y.m) > MBits THEN Wide
  ELSE Dy((x.s + y.s) % 2, x.m * y.m, x.e + y.e)

\* exact quotient if it exists as a dyadic with the same bounds, else Wide (= rounding needed: not decided)
DyDiv(x, y) ==   \* y.m # 0
  IF x.m % y.m = 0 THEN Dy((x.s + y.s) % 2, x.m \div y.m, x.e - y.e) ELSE Wide

\* integer value of a dyadic, when it is an integer below 2^30 in magnitude
DyIsInt(x) == x.m = 0 \/ x.e >= 0
DyFloorSmall(x) ==  \* floor(x) as native integer; requires |x| < 2^30
  IF x.m = 0 THEN 0
  ELSE IF x.e >= 0 THEN (IF x.s = 0 THEN x.m * Pow2(x.e) ELSE 0 - x.m * Pow2(x.e))
  ELSE IF 0 - x.e > 30 THEN (IF x.s = 0 THEN 0 ELSE 0 - 1)
  ELSE LET q == x.m \div Pow2(0 - x.e)       \* x.m odd and e < 0: never an integer
       IN IF x.s = 0 THEN q ELSE 0 - (q + 1)
DyFitsSmall(x) == x.m = 0 \/ TopExp(x) < 30

(* ---- formats -------------------------------------------------------------------------------------- *)
\* p = significand bits incl. the leading one, w = exponent field width, bias, total bytes
FmtHalf   == [p |-> 11, w |-> 5,  bias |-> 15,    emin |-> 0 - 14,    emax |-> 15]
FmtSingle == [p |-> 24, w |-> 8,  bias |-> 127,   emin |-> 0 - 126,   emax |-> 127]
FmtDouble == [p |-> 53, w |-> 11, bias |-> 1023,  emin |-> 0 - 1022,  emax |-> 1023]
FmtExt    == [p |-> 64, w |-> 15, bias |-> 16383, emin |-> 0 - 16382, emax |-> 16383]

\* round m / 2^sh to nearest, ties to even (m < 2^30)
RoundShift(m, sh) ==
  IF sh <= 0 THEN m
  ELSE IF sh > 30 THEN 0                      \* m < 2^30 <= half of 2^31
  ELSE LET q == m \div Pow2(sh)
           r == m % Pow2(sh)
           h == Pow2(sh - 1)
       IN IF r < h THEN q ELSE IF r > h THEN q + 1 ELSE IF q % 2 = 1 THEN q + 1 ELSE q

\* Rounded(fmt, x) = [n, qe, inf]: |x| rounds to n * 2^qe with n < 2^p; only for p <= 24 (Half, Single)
Rounded(fmt, x) ==
  LET E   == TopExp(x)
      qe0 == IF E < fmt.emin THEN fmt.emin - (fmt.p - 1) ELSE E - (fmt.p - 1)    \* quantum: subnormals share emin's
      n0  == IF x.e >= qe0 THEN x.m * Pow2(x.e - qe0) ELSE RoundShift(x.m, qe0 - x.e)
      carry == n0 = Pow2(fmt.p)
      n   == IF carry THEN Pow2(fmt.p - 1) ELSE n0
      qe  == IF carry THEN qe0 + 1 ELSE qe0
  IN IF x.m = 0 THEN [n |-> 0, qe |-> fmt.emin - (fmt.p - 1), inf |-> FALSE]
     ELSE IF E > fmt.emax + 1 THEN [n |-> 0, qe |-> 0, inf |-> TRUE]             \* far above the range
     ELSE [n |-> n, qe |-> qe, inf |-> (n >= Pow2(fmt.p - 1) /\ qe + (fmt.p - 1) > fmt.emax)]

\* exponent field and fraction field of the rounded value
Fields(fmt, x) ==
  LET r == Rounded(fmt, x)
      normal == r.n >= Pow2(fmt.p - 1)
  IN IF r.inf THEN [bexp |-> Pow2(fmt.w) - 1, frac |-> 0]
     ELSE IF normal THEN [bexp |-> r.qe + (fmt.p - 1) + fmt.bias, frac |-> r.n - Pow2(fmt.p - 1)]
     ELSE [bexp |-> 0, frac |-> r.n]

\* 16-bit pattern of the half precision encoding
HalfBits(x) == LET f == Fields(FmtHalf, x) IN x.s * 32768 + f.bexp * 1024 + f.frac
HalfBytesBE(x) == <<HalfBits(x) \div 256, HalfBits(x) % 256>>

SingleBytesBE(x) ==
  LET f == Fields(FmtSingle, x)
      hi == x.s * 32768 + f.bexp * 128 + (f.frac \div 65536)
      lo == f.frac % 65536
  IN <<hi \div 256, hi % 256, lo \div 256, lo % 256>>

\* Double: a 30-bit significand always fits; only normal range (our exponents are far inside)
DoubleOK(x) == x.m = 0 \/ (TopExp(x) >= FmtDouble.emin /\ TopExp(x) <= FmtDouble.emax)
DoubleLimbs(x) ==
  IF x.m = 0 THEN Zero     \* the sign of a zero is not decided here (+0 is used)
  ELSE LET k == BitLen(x.m) - 1
           frac == Shl(FromNat(x.m - Pow2(k)), 52 - k)
           ex   == Shl(FromNat(TopExp(x) + 1023), 52)
           sg   == IF x.s = 1 THEN MinInt ELSE Zero
       IN Or(Or(frac, ex), sg)
DoubleBytesBE(x) == BytesBE(DoubleLimbs(x))

\* Extended (80 bit, explicit integer bit): 2 bytes sign+exponent, 8 bytes significand
ExtBytesBE(x) ==
  IF x.m = 0 THEN <<0, 0, 0, 0, 0, 0, 0, 0, 0, 0>>
  ELSE LET k == BitLen(x.m) - 1
           sig == Shl(FromNat(x.m), 63 - k)
           ex == TopExp(x) + 16383 + x.s * 32768
       IN <<ex \div 256, ex % 256>> \o BytesBE(sig)

(* ---- decoding (half, single) for the declarative side ---------------------------------------------- *)
\* magnitude code c = bexp * 2^(p-1) + frac  (sign stripped), finite codes only
DecodeMag(fmt, c) ==
  LET bexp == c \div Pow2(fmt.p - 1)
      frac == c % Pow2(fmt.p - 1)
  IN IF bexp = 0 THEN Dy(0, frac, fmt.emin - (fmt.p - 1))
     ELSE Dy(0, frac + Pow2(fmt.p - 1), bexp - fmt.bias - (fmt.p - 1))
MagCode(fmt, x) == LET f == Fields(fmt, x) IN f.bexp * Pow2(fmt.p - 1) + f.frac
InfCode(fmt) == (Pow2(fmt.w) - 1) * Pow2(fmt.p - 1)
MaxFinite(fmt) == DecodeMag(fmt, InfCode(fmt) - 1)

\* Declarative characterisation (IEEE 754-2008 4.3.1 roundTiesToEven), no reference to Rounded():
\*  c encodes a finite value v.  v is nearest to |x| among its neighbours, a tie is won by the even code;
\*  infinity exactly when |x| >= MaxFinite + half an ulp of MaxFinite.
\* distances are formed on 64-bit magnitudes (Limb64) aligned to the smallest of the three exponents, so that
\* this side shares nothing with the 30-bit dyadic helpers used by the encoder
MinExp3(x, a, b) ==
  LET es == {v.e : v \in {w \in {x, a, b} : w.m # 0}}
  IN IF es = {} THEN 0 ELSE CHOOSE e \in es : \A f \in es : e <= f
MagAt(v, e) == IF v.m = 0 THEN Zero ELSE Shl(FromNat(v.m), v.e - e)      \* needs BitLen(v.m) + v.e - e <= 63
FitsAt(v, e) == v.m = 0 \/ BitLen(v.m) + (v.e - e) <= 63
AbsDiff(p, q) == IF LtU(p, q) THEN Sub(q, p) ELSE Sub(p, q)
DistLe(x, a, b) ==   \* | |x| - a | <= | |x| - b |   for dyadics a, b >= 0
  LET e == MinExp3(x, a, b)
      da == AbsDiff(MagAt(x, e), MagAt(a, e))
      db == AbsDiff(MagAt(x, e), MagAt(b, e))
  IN ~LtU(db, da)
DistDefined(x, a, b) == LET e == MinExp3(x, a, b) IN FitsAt(x, e) /\ FitsAt(a, e) /\ FitsAt(b, e)
NearestEven(fmt, x, c) ==
  LET v == DecodeMag(fmt, c)
      okLow  == c = 0 \/ (/\ DistLe(x, v, DecodeMag(fmt, c - 1))
                          /\ (DistLe(x, DecodeMag(fmt, c - 1), v) => c % 2 = 0))
      okHigh == IF c + 1 < InfCode(fmt)
                THEN /\ DistLe(x, v, DecodeMag(fmt, c + 1))
                     /\ (DistLe(x, DecodeMag(fmt, c + 1), v) => c % 2 = 0)
                ELSE \* c is the largest finite code: |x| must stay below MaxFinite + ulp/2 (tie goes to the even "2^(emax+1)")
                     DyCmp(DyAbs(x), DyAdd(v, Dy(0, 1, fmt.emax - fmt.p))) < 0
  IN okLow /\ okHigh
OverflowsToInf(fmt, x) == DyCmp(DyAbs(x), DyAdd(MaxFinite(fmt), Dy(0, 1, fmt.emax - fmt.p))) >= 0

(* ---- ieeefloat.c Double_2_ieee2 as written in the pinned tree -------------------------------------- *)
(* Rounds to 11 significant bits first, then makes small numbers subnormal by shifting right without   *)
(* rounding (step 3b "Mantissa >>= 1").  Exponent > 15 is refused (error), not turned into infinity.    *)
\* the C algorithm on its own terms: 29-bit significand M (hidden bit = bit 28, our inputs have <= 30 bits: the rest of the
\* double's fraction is kept in F as "non-zero or not"), decision bit 17 + sh, lsb 18 + sh.
\* fixed = FALSE: sh is always 0 and small numbers are then shifted right without rounding (pinned tree);
\* fixed = TRUE: the decision bit is moved up by the denormalisation shift before rounding (proposed fix).
HalfCodeBits(x, fixed) ==
  IF x.m = 0 THEN 0
  ELSE LET k == BitLen(x.m) - 1
           E0 == TopExp(x)
           \* significand scaled to 29 bits; k <= 28 for the inputs used (m < 2^29); a 30th bit goes to F
           M0 == IF k <= 28 THEN x.m * Pow2(28 - k) ELSE x.m \div 2
           F0 == IF k <= 28 THEN 0 ELSE x.m % 2
           sh0 == IF fixed /\ E0 < 0 - 14 THEN (0 - 14) - E0 ELSE 0
           sh == IF sh0 > 12 THEN 12 ELSE sh0
           dec == 131072 * Pow2(sh)                     \* 0x20000 << sh
           lsb == 262144 * Pow2(sh)                     \* 0x40000 << sh
           up == IF (M0 \div dec) % 2 = 1
                 THEN (IF (M0 % dec) # 0 \/ F0 # 0 THEN TRUE ELSE (M0 \div lsb) % 2 = 1)
                 ELSE FALSE
           M1 == IF up THEN M0 + lsb - (M0 % lsb) ELSE M0
           carry == M1 >= 536870912                     \* 0x20000000
           M2 == IF carry THEN M1 \div 2 ELSE M1
           E == IF carry THEN E0 + 1 ELSE E0
           dsh == IF E < 0 - 14 THEN (0 - 14) - E ELSE 0    \* "while (Exponent < -15) ..." and the extra shift at -15
           M3 == IF dsh > 29 THEN 0 ELSE M2 \div Pow2(dsh)
       IN IF E > 15 THEN 0 - 1                              \* refused ("Overrange")
          ELSE IF E >= 0 - 14 THEN x.s * 32768 + (E + 15) * 1024 + ((M3 \div 262144) % 1024)
          ELSE x.s * 32768 + ((M3 \div 262144) % 1024)
=============================================================================
